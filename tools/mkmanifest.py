"""Assemble /verif/MANIFEST.json from the per-property modules (tools/props/cNN.py)."""
import importlib
import json
import os
import sys

sys.path.insert(0, os.path.dirname(os.path.abspath(__file__)))
sys.path.insert(0, '/repo')
props = [json.loads(l) for l in open('/verif/properties.jsonl')]
checks, na, served = [], [], []
for p in props:
    pid = p['id']
    f = f'/verif/tools/props/{pid.lower()}.py'
    if not os.path.exists(f):
        na.append({'property_id': pid, 'reason': 'check not built yet in this development (planned in DESIGN.md section 4); no claim is made'})
        continue
    m = importlib.import_module('props.' + pid.lower())
    if getattr(m, 'NOT_APPLICABLE', None):
        na.append({'property_id': pid, 'reason': m.NOT_APPLICABLE})
        continue
    served.append(pid)
    checks.append({
        'property_id': pid,
        'quick_cmd': f'./check {pid} --tier quick',
        'thorough_cmd': f'./check {pid} --tier thorough',
        'evidence_file': f'/verif/evidence/{pid}.json',
        'replay_cmd_template': f'./check {pid} --replay {{path}}',
        'engine': 'rocq-proof',
        'level_claimed': {'category': 'proof', 'text': m.LEVEL_TEXT, 'design_ref': f'DESIGN.md section 4 / {pid}'},
        'level_note': m.LEVEL_NOTE,
        'technique': m.TECHNIQUE,
    })
man = {
    'version': 1,
    'setup_cmd': './check --setup',
    'hooks': {
        'guard': 'CVISE_VERIF',
        'enable': 'no source hook is needed: the harness drives the real classes from outside (scheduler shim, stand-in tools); ./check exports CVISE_VERIF=1, reserved',
        'baseline_off_cmd': 'cd /repo && /venv/bin/python -m pytest -ra -q -p no:cacheprovider --timeout=900 --continue-on-collection-errors',
        'source_commits': [],
        'add_only': True,
    },
    'engines': [{
        'name': 'rocq-proof', 'path': '/verif/check', 'serves_properties': served,
        'kind_free_text': 'Coq 8.16.1 theorems (full .vo build, Print Assumptions gate) over models in /verif/coq; models are tied to /repo on every run by generated tables (tools/gen) and by a correspondence check that evaluates the model definitions inside Coq (vm_compute) against the real Python/C code; on any break a property-specific failing-input search runs on the implementation',
    }],
    'checks': checks,
    'notes': 'DESIGN.md explains the approach; known_findings.txt lists genuine defects (finding:/fixed:).',
    'not_applicable': na,
}
json.dump(man, open('/verif/MANIFEST.json', 'w'), indent=1)
print(f'{len(checks)} checks, {len(na)} not applicable')
