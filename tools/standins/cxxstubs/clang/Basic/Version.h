#pragma once
#include <string>
namespace clang { inline std::string getClangFullVersion() { return "clang version 0 (stand-in)"; } }
