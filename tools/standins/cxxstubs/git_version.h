#pragma once
static const char *git_version = "stand-in";
#ifndef PACKAGE_VERSION
#define PACKAGE_VERSION "stand-in"
#endif
