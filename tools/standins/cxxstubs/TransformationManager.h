// Stand-in for clang_delta/TransformationManager.h used to run the REAL command-line parser of
// clang_delta/ClangDelta.cpp (compiled verbatim) and the REAL TransformationManager::verify (its text is taken
// from TransformationManager.cpp by the harness) without Clang: every setter records its value; after verify()
// accepted the arguments, initializeCompilerInstance() prints what the parser handed over and ends the process.
// A method that ClangDelta.cpp calls and that is not declared here makes the build fail: the check then reports
// that it cannot run the parser any more.
#pragma once
#include <string>
#include <cstdio>
#include <cstdlib>
struct Transformation {
  // rename-* transformations skip the counter check; chosen by the environment for the run
  bool skipCounter() { return getenv("STANDIN_SKIP_COUNTER") != nullptr; }
};
class TransformationManager {
public:
  static int ErrorInvalidCounter;
  static TransformationManager *GetInstance() { static TransformationManager M; return &M; }
  static void Finalize() { fflush(stdout); }
  int setTransformation(const std::string &N) { Name = N; CurrentTransformationImpl = &Impl; return 0; }
  void setQueryInstanceFlag(bool F) { Query = F; }
  bool getQueryInstanceFlag() { return Query; }
  void setTransformationCounter(int V) { TransformationCounter = V; CounterSet = true; }
  void setToCounter(int V) { ToCounter = V; ToSet = true; }
  void setOutputFileName(const std::string &) {}
  void setReplacement(const std::string &) {}
  void setPreserveRoutine(const std::string &) {}
  void setReferenceValue(const std::string &) {}
  void setCXXStandard(const std::string &) {}
  void setSrcFileName(const std::string &) {}
  void setReportInstancesCount(bool) {}
  bool getReportInstancesCount() { return false; }
  void setWarnOnCounterOutOfBounds(bool) {}
  void printTransformationNames() {}
  void printTransformations() {}
  void outputNumTransformationInstances() {}
  void outputNumTransformationInstancesToStderr() {}
  bool verify(std::string &ErrorMsg, int &ErrorCode);      // the real one, appended by the harness
  bool initializeCompilerInstance(std::string &) {
    printf("PARSED counter=%s%d to-counter=%s%d\n", CounterSet ? "" : "unset:", TransformationCounter, ToSet ? "" : "unset:", ToCounter);
    fflush(stdout);
    exit(0);
  }
  bool doTransformation(std::string &, int &) { return true; }
private:
  Transformation Impl;
  Transformation *CurrentTransformationImpl = nullptr;
  std::string Name; bool Query = false; int TransformationCounter = -1; int ToCounter = -1; bool CounterSet = false, ToSet = false;
};
