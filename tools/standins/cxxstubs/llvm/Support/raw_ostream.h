// stand-in for llvm/Support/raw_ostream.h: ClangDelta.cpp only writes text to llvm::outs()
#pragma once
#include <iostream>
#include <cassert>
namespace llvm { inline std::ostream &outs() { return std::cout; } inline std::ostream &errs() { return std::cerr; } }
