#!/bin/bash
# developer helper: full make of the Coq development, show errors only
cd /verif && PYTHONPATH=/verif/tools python3 -c "
from vlib import coq
ok,log,s=coq.build(None)
print('OK' if ok else 'FAIL', round(s,1))
import re
if not ok:
    i=log.find('Error')
    print(log[max(0,i-1500):i+2500])"
