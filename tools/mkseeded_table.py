"""Markdown table of the seeded changes from seeded/*/meta.json (for DESIGN.md section 8)."""
import glob
import json
import os

ROOT = os.path.dirname(os.path.dirname(os.path.abspath(__file__)))
rows = []
for f in sorted(glob.glob(os.path.join(ROOT, 'seeded', 'C*', 'meta.json'))):
    d = json.load(open(f))
    res = []
    for x in d.get('ran', []):
        mark = 'VIOLATION with failing input' if x.get('with_failing_input') else ('VIOLATION, no-failing-input-found' if x.get('exit') else 'not noticed')
        res.append(f"{x['check']}: {mark}")
    rows.append((d['name'], d.get('breaks'), 'yes' if d.get('confirmed') else 'NO', '; '.join(res)))
print('| change | targets | confirmed | checks run on it |')
print('|---|---|---|---|')
for r in rows:
    print('| ' + ' | '.join(str(x) for x in r) + ' |')
tot = len(rows)
prim = sum(1 for f in sorted(glob.glob(os.path.join(ROOT, 'seeded', 'C*', 'meta.json')))
           for d in [json.load(open(f))] if any(x['check'] == d.get('breaks') and x.get('with_failing_input') for x in d.get('ran', [])))
anyc = sum(1 for f in sorted(glob.glob(os.path.join(ROOT, 'seeded', 'C*', 'meta.json')))
           for d in [json.load(open(f))] if any(x.get('exit') for x in d.get('ran', [])))
print(f'\n{tot} changes; {prim} reported by the check of the targeted property with a failing input; {anyc} reported by at least one check.')
