"""./check Cnn [--tier quick|thorough] [--replay file]   |   ./check --setup   |   ./check --all"""
import argparse
import os
import subprocess
import sys

sys.path.insert(0, os.path.dirname(os.path.abspath(__file__)))


def setup():
    """Fresh-restore build: regenerate every Gen file, full make, helper binaries."""
    import importlib
    import glob
    from vlib import coq

    rc = 0
    for g in sorted(glob.glob(os.path.join(os.path.dirname(__file__), 'gen', '*.py'))):
        name = os.path.basename(g)[:-3]
        if name.startswith('_'):
            continue
        try:
            importlib.import_module('gen.' + name).generate()
        except Exception as e:
            print(f'setup: generator {name} failed: {e}')
    ok, log, secs = coq.build(None, timeout=3000)
    print(f'setup: coq build ok={ok} in {secs:.0f}s')
    if not ok:
        print(log[-4000:])
        rc = 1
    for hook in ('vlib.clexbuild',):
        try:
            m = importlib.import_module(hook)
            m.setup()
        except ModuleNotFoundError:
            pass
        except Exception as e:
            print(f'setup: {hook} failed: {e}')
            rc = 1
    return rc


def main():
    ap = argparse.ArgumentParser()
    ap.add_argument('prop', nargs='?')
    ap.add_argument('--tier', default=os.environ.get('VERIF_TIER', 'quick'), choices=['quick', 'thorough'])
    ap.add_argument('--replay')
    ap.add_argument('--setup', action='store_true')
    ap.add_argument('--all', action='store_true')
    a = ap.parse_args()
    seed = int(os.environ.get('VERIF_SEED', '20260930'))
    if a.setup:
        sys.exit(setup())
    if a.all:
        import json

        root = os.environ.get('VERIF_ROOT', '/verif')
        man = json.load(open(os.path.join(root, 'MANIFEST.json')))
        bad = 0
        for c in man['checks']:
            r = subprocess.run([os.path.join(root, 'check'), c['property_id'], '--tier', a.tier])
            bad += r.returncode != 0
        sys.exit(1 if bad else 0)
    from vlib import runner

    sys.exit(runner.run_check(a.prop, a.tier, seed, a.replay))


if __name__ == '__main__':
    main()
