#!/bin/bash
# developer helper: run the given checks under several seeds, print one line per run
cd "$(dirname "$0")/.."
for s in "$@"; do
  for p in $PROPS; do
    out=$(VERIF_SEED=$s ./check $p --tier ${TIER:-quick} 2>&1 | tail -2 | tr '\n' ' ')
    echo "seed=$s $p: $out"
  done
done
