"""C15  clang_delta is driven so that instance ranges tile the instances exactly."""
import itertools
import json
import os
import random

from vlib import coq
from vlib.refloop import run_ref

GENERATORS = []
COQ_TARGETS = ['Cursor/BinaryCorr.vo', 'Passes/ClangCorr.vo']
RULE = ('the real ClangBinarySearchPass / ClangPass objects driven by the reference loop against a logging stand-in clang_delta '
        '(instances = marked lines; per-standard caps; scripted failures: non-zero exits 1/3/255, timeouts, missing count line, '
        'missing report): all N <= NMAX x all required subsets (monotone) and random verdict sequences; oracle on the argv log: '
        '1 <= counter <= to-counter <= count last reported, sweeps tile 1..N under all-reject, same index and reported-minus-chunk '
        'after an accept, non-zero exit never changes the candidate, chosen --std is the last argmax; the range log is also '
        'compared with the Coq cursor model; non-trivial = distinct (N, subset/verdicts/fault table)'
        ' Also: dependent instances (a removal takes the next k instances with it: clamped requests, warnings before the count line) under monotone tests and verdict sequences; the same pass object started on a second input with another best standard.')
TRUSTED = ['hand-written model coq/Cursor/BinaryState.v + coq/Passes/ClangBin.v tied by this correspondence run to clangbinarysearch.py / clang.py',
           'the stand-in tools/standins/clang_delta replaces the real tool (Clang headers are not installed): tool behaviour is an oracle']
ASSUMPTIONS = ['clang_delta itself (what an instance is, what it prints) is out of scope here: C14/C19 cover the C++ side statically']

STDS = ['c++98', 'c++11', 'c++14', 'c++17', 'c++20', 'c++2b']
HERE = os.path.dirname(os.path.abspath(__file__))
STANDIN = os.path.join(os.path.dirname(HERE), 'standins', 'clang_delta')


def setup(ctx, scen):
    scen = dict(scen)
    scen['log'] = os.path.join(ctx.tmp, 'clang.log')
    if os.path.exists(scen['log']):
        os.remove(scen['log'])
    p = os.path.join(ctx.tmp, 'clang-scenario.json')
    with open(p, 'w') as f:
        json.dump(scen, f)
    os.environ['CLANG_STANDIN_SCENARIO'] = p
    return scen


def mk_pass(kind, std=None, query_timeout=120):
    if kind == 'bin':
        from cvise.passes.clangbinarysearch import ClangBinarySearchPass
        p = ClangBinarySearchPass('remove-unused-function', {'clang_delta': STANDIN})
        # the length of the count-query timeout is not what is studied: long enough that a loaded machine never
        # turns an answered query into "0 instances"; scenarios with a hanging query shorten it (std_case)
        p.QUERY_TIMEOUT = query_timeout
    else:
        from cvise.passes.clang import ClangPass
        p = ClangPass('remove-unused-function', {'clang_delta': STANDIN})
    p.user_clang_delta_std = std
    p.clang_delta_preserve_routine = None
    p.max_transforms = None
    return p


def read_log(scen):
    if not os.path.exists(scen['log']):
        return []
    return [json.loads(l) for l in open(scen['log'])]


def present(data):
    return [int(l[1:]) for l in data.decode().split('\n') if l.startswith('I')]


def run_bin(ctx, n, mode, param, scen=None, std='c++11'):
    scen = setup(ctx, scen or {})
    path = os.path.join(ctx.tmp, 'tc.cc')
    with open(path, 'w') as f:
        f.write('head\n' + ''.join(f'I{i}\nx\n' for i in range(n)))
    pass_ = mk_pass('bin', std)
    k = {'k': -1}

    def observe(st):
        k['k'] += 1
        return (st.index, st.end(), st.instances)

    if mode == 'mono':
        req = set(param)
        interesting = lambda c: req <= set(present(open(c, 'rb').read()))
    else:
        interesting = lambda c: param[k['k']] if k['k'] < len(param) else False
    steps, final, reason = run_ref(pass_, path, interesting, ctx.tmp, observe=observe, max_steps=(n + 2) * (n + 3) + 20)
    return steps, present(final), reason, read_log(scen), pass_


def oracle_bin(ctx, n, mode, param, steps, final, log, scen, rep):
    tl = [r for r in log if not r['query']]
    # argv vs what the tool reported last
    for st, r in zip(steps, tl):
        a = dict(x[2:].partition('=')[::2] for x in r['argv'] if x.startswith('--'))
        c, t = int(a['counter']), int(a['to-counter'])
        if not (1 <= c <= t <= r['seen']):
            return f'requested --counter={c} --to-counter={t} while the tool holds {r["seen"]} instances'
        if (c, t) != (st.state_repr[0] + 1, st.state_repr[1]):
            return f'argv ({c},{t}) does not match the cursor {st.state_repr}'
        if r['fault'] is not None and isinstance(r['fault'], int) and r['fault'] != 0:
            if st.after != st.before:
                return f'tool exited {r["fault"]} but the candidate file was changed'
            want = 'STOP' if r['fault'] == 255 else 'ERROR'
            if st.result != want:
                return f'tool exited {r["fault"]}: result {st.result}, expected {want}'
    if mode == 'mono' and not scen.get('transform_faults') and final != sorted(param):
        return f'monotone test requiring {sorted(param)}: final instances {final}'
    acc = [s.accepted for s in steps]
    if not any(acc) and steps and not scen.get('transform_faults'):
        pos = 0
        for s in steps:
            i, e, inst = s.state_repr
            if not (i == pos or (pos == n and i == 0)):
                return f'sweep not contiguous: range ({i + 1},{e}) after position {pos}'
            pos = e
        if pos != n:
            return f'last sweep ends at {pos}, not {n}'
    for a, b in zip(steps, steps[1:]):
        if a.accepted:
            i, e, inst = a.state_repr
            ni = b.state_repr[2]
            if ni != inst - (e - i):
                return f'after accepting ({i + 1},{e}) of {inst} the cursor holds {ni} instances, tool reported {inst}'
            if i < ni and b.state_repr[0] != i:
                return f'after accepting ({i + 1},{e}) the next request starts at {b.state_repr[0] + 1}'
    return None


def cascade_case(ctx, n, req, k, verdicts=None):
    """Removing a range takes the next k instances with it (dependent instances): the driver's estimate
    'reported - chunk' is then too high, a later request exceeds what the tool holds, the tool clamps it,
    warns and reports the true count.  The driver must keep working from the reported count."""
    scen = setup(ctx, {'cascade': k})
    path = os.path.join(ctx.tmp, 'tc.cc')
    with open(path, 'w') as f:
        f.write('head\n' + ''.join(f'I{i}\nx\n' for i in range(n)))
    pass_ = mk_pass('bin', 'c++11')
    reqs = set(req)
    asked = []

    def interesting(c):
        if verdicts is None:
            return reqs <= set(present(open(c, 'rb').read()))
        asked.append(1)
        return verdicts[len(asked) - 1] if len(asked) <= len(verdicts) else False
    try:
        steps, final, reason = run_ref(pass_, path, interesting, ctx.tmp,
                                       observe=lambda st: (st.index, st.end(), st.instances), max_steps=(n + 2) * (n + 3) + 20)
    except Exception as e:
        return f'the driver raised {type(e).__name__}: {e} (a clamped request: the tool warns before it reports the count)'
    log = [r for r in read_log(scen) if not r['query']]
    if reason == 'exception':
        return f'the driver raised {steps[-1].result} ({steps[-1].extra.get("exc") if steps[-1].extra else ""})'
    if reason == 'max_steps':
        return 'the pass did not finish within the proved bound'
    if not reqs <= set(present(final)):
        return f'final instances {present(final)} lost required {sorted(reqs)}'
    for st, r in zip(steps, log):
        a = dict(x[2:].partition('=')[::2] for x in r['argv'] if x.startswith('--'))
        c, t = int(a['counter']), int(a['to-counter'])
        if not (1 <= c <= t <= st.state_repr[2]):
            return f'requested --counter={c} --to-counter={t} with a cursor holding {st.state_repr[2]} instances'
    for a_, b_, r in zip(steps, steps[1:], log):
        if a_.accepted:
            i, e, inst = a_.state_repr
            if b_.state_repr[2] != r['seen'] - (e - i):
                return f'after accepting ({i + 1},{e}) the cursor holds {b_.state_repr[2]} instances; the tool had reported {r["seen"]}, minus the chunk {e - i}'
    if verdicts is None:
        # the run is over: no single remaining instance may still be removable (it goes together with the k behind it)
        left = present(final)
        for pos, j in enumerate(left):
            rest = set(left) - set(left[pos:pos + 1 + k])
            if j not in reqs and reqs <= rest:
                return (f'the run ended on instances {left}; removing instance {j} (with the {k} behind it) still keeps the required {sorted(reqs)}: '
                        f'it was never offered alone after the last accepted removal')
    return None


def std_case(ctx, caps, faults, pass_=None):
    # a hanging query must outlast the timeout and an answered one must beat it: a first attempt with short times,
    # and on a disagreement a second one with generous times (a loaded machine makes the stand-in start slowly)
    own = pass_ is None
    res = _std_case(ctx, caps, faults, pass_, 1.0, 3.0)
    if res[2] and own:
        res = _std_case(ctx, caps, faults, None, 10.0, 30.0)
    return res


def _std_case(ctx, caps, faults, pass_, qt, sleep):
    scen = setup(ctx, {'caps': caps, 'query_faults': faults, 'sleep': sleep})
    path = os.path.join(ctx.tmp, 'tc.cc')
    with open(path, 'w') as f:
        f.write(''.join(f'I{i}\n' for i in range(8)))
    pass_ = pass_ or mk_pass('bin', None)
    pass_.QUERY_TIMEOUT = qt if 'sleep' in faults.values() else 120
    st = pass_.new(path, None)
    counts = []
    for s in STDS:
        c = min(caps.get(s, 8), 8)
        if faults.get(s) in ('sleep', 'nocount') or isinstance(faults.get(s), int) and False:
            c = 0
        if faults.get(s) == 1:
            # a non-zero exit only warns; stdout (garbage) does not parse -> 0
            c = 0
        counts.append(c)
    best = max(range(len(STDS)), key=lambda i: (counts[i], i))
    chosen = pass_.clang_delta_std
    why = None
    if chosen != STDS[best]:
        why = f'counts per standard {dict(zip(STDS, counts))}: chose {chosen}, expected {STDS[best]}'
    elif (st.instances if st else 0) != counts[best]:
        why = f'cursor created with {st.instances if st else 0} instances, best standard offers {counts[best]}'
    return counts, STDS.index(chosen) if chosen in STDS else -1, why


def explore(ctx):
    rnd = random.Random(ctx.seed + 15)
    nsub = 5 if ctx.quick() else 8
    imports = ['From CV Require Import Cursor.BinaryState Cursor.BinaryCorr Passes.ClangCorr.']
    mono, seq = [], []
    requested = set()

    def record(n, mode, param, steps, final):
        out = [len(final)] + final
        for s in steps:
            out += [s.state_repr[0], s.state_repr[1], s.state_repr[2], 1 if s.accepted else 0]
        if mode == 'mono':
            mono.append((f'({n}, {coq.lst([str(x) for x in sorted(param)]) if param else "(@nil nat)"})', out))
        else:
            seq.append((f'({n}, {coq.lst([coq.blit(b) for b in param]) if param else "(@nil bool)"})', out))

    for n in range(0, nsub + 1):
        for r in range(0, n + 1):
            for req in itertools.combinations(range(n), r):
                steps, final, reason, log, _ = run_bin(ctx, n, 'mono', req)
                for r_ in log:
                    if not r_['query']:
                        a_ = dict(x[2:].partition('=')[::2] for x in r_['argv'] if x.startswith('--'))
                        requested.add((a_.get('counter'), a_.get('to-counter')))
                ctx.evaluations += 1
                ctx.count(f'mono:n={n}')
                ctx.nontriv(('mono', n, req))
                why = oracle_bin(ctx, n, 'mono', req, steps, final, log, {}, None)
                if why:
                    ctx.violation('clang-driving', f'N={n} required {req}: {why}', {'kind': 'mono', 'n': n, 'param': list(req)})
                record(n, 'mono', req, steps, final)
    for _ in range(40 if ctx.quick() else 400):
        n = rnd.randint(1, 12 if ctx.quick() else 30)
        bits = [rnd.random() < rnd.choice([0.0, 0.2, 0.5]) for _ in range(5 * n + 10)]
        steps, final, reason, log, _ = run_bin(ctx, n, 'seq', bits)
        ctx.evaluations += 1
        ctx.count(f'seq:n={n}')
        ctx.nontriv(('seq', n, tuple(bits)))
        why = oracle_bin(ctx, n, 'seq', bits, steps, final, log, {}, None)
        if why:
            ctx.violation('clang-driving', f'N={n} verdicts {bits}: {why}', {'kind': 'seq', 'n': n, 'param': bits})
        record(n, 'seq', bits, steps, final)
    # tool failures during transform
    for _ in range(25 if ctx.quick() else 200):
        n = rnd.randint(2, 8)
        tf = {}
        for _j in range(rnd.randint(1, 3)):
            c = rnd.randint(1, n)
            t = rnd.randint(c, n)
            tf[f'{c}-{t}'] = rnd.choice([1, 3, 255, 255, -11, -6])
        if rnd.random() < 0.2:
            tf['*'] = rnd.choice([1, 255])
        scen = {'transform_faults': tf}
        req = [i for i in range(n) if rnd.random() < 0.4]
        steps, final, reason, log, _ = run_bin(ctx, n, 'mono', req, scen)
        ctx.evaluations += 1
        ctx.count('transform-faults')
        ctx.nontriv(('fault', n, tuple(sorted(tf.items())), tuple(req)))
        why = oracle_bin(ctx, n, 'mono', req, steps, final, log, scen, None)
        if why:
            ctx.violation('clang-driving', f'N={n} faults {tf}: {why}', {'kind': 'mono', 'n': n, 'param': req, 'scen': scen})
    # plain clang pass: counter 1,2,3..., stays after accept; 255 and 1 -> STOP
    from cvise.passes.abstract import PassResult
    rc_cases = []
    for rc, plain in [(0, True), (1, True), (255, True), (3, True), (-11, True), (0, False), (1, False), (255, False), (3, False), (77, False), (-11, False), (-9, False)]:
        scen = setup(ctx, {'transform_faults': {'*': rc}} if rc else {})
        path = os.path.join(ctx.tmp, 'tc.cc')
        with open(path, 'w') as f:
            f.write('I0\nI1\nI2\n')
        before = open(path, 'rb').read()
        p = mk_pass('plain' if plain else 'bin', 'c++11')
        st = p.new(path, None)
        from cvise.passes.abstract import ProcessEventNotifier
        res, _ = p.transform(path, st, ProcessEventNotifier(None))
        changed = open(path, 'rb').read() != before
        code = {'OK': 0, 'INVALID': 1, 'STOP': 2, 'ERROR': 3}[res.name]
        rc_cases.append((f'(({rc})%Z, {coq.blit(plain)})', [code, 1 if changed else 0]))
        ctx.evaluations += 1
        if rc != 0 and changed:
            ctx.violation('nonzero-output-used', f'{"ClangPass" if plain else "ClangBinarySearchPass"}: tool exited {rc} but its output replaced the file', {'kind': 'rc', 'rc': rc, 'plain': plain})
    # standard detection
    best_cases = []
    for _ in range(6 if ctx.quick() else 40):
        caps = {s: rnd.choice([0, 2, 5, 5, 8]) for s in STDS}
        faults = {}
        if rnd.random() < 0.7:
            faults[rnd.choice(STDS)] = rnd.choice(['nocount', 1, 'sleep'])
        counts, chosen, why = std_case(ctx, caps, faults)
        ctx.evaluations += 1
        ctx.count('std-detection')
        ctx.nontriv(('std', tuple(counts)))
        if why:
            ctx.violation('best-standard', why, {'kind': 'std', 'caps': caps, 'faults': faults})
        best_cases.append(('[' + '; '.join(f'({i}, ({c})%Z)' for i, c in enumerate(counts)) + ']', [1, chosen, counts[chosen]] if chosen >= 0 else [-1, -1]))
    # every (counter, to-counter) pair the real pass asked for above is handed to clang_delta's own argument handling
    # (ClangDelta.cpp and TransformationManager::verify compiled verbatim, see C19): the tool must let each of them through
    from props import c19 as _c19
    exe_, info_ = _c19.build_argparser(ctx)
    if exe_ is None:
        ctx.broke('translator', 'clang_delta/ClangDelta.cpp against the stand-in manager', f'cannot build the command-line parser: {info_}')
    else:
        import subprocess
        for c_, t_ in sorted(requested, key=lambda p_: (int(p_[0]), int(p_[1])))[:80]:
            r_ = subprocess.run([exe_, '--transformation=remove-unused-function', f'--counter={c_}', f'--to-counter={t_}', '--warn-on-counter-out-of-bounds', '--report-instances-count', 'f.c'],
                                capture_output=True, text=True, timeout=20)
            ctx.evaluations += 1
            ctx.count('requested-range-accepted-by-the-tool')
            if 'PARSED' not in r_.stdout:
                ctx.violation('requested-range-refused', f'the pass asks for --counter={c_} --to-counter={t_}; clang_delta refuses that pair (exit {r_.returncode}: {r_.stdout.strip()[-120:]})',
                              {'kind': 'argvpair', 'counter': c_, 'to': t_})
    query_cases = []
    for nq in (0, 1, 3, 8):
        setup(ctx, {'caps': {'c++14': nq}})
        path = os.path.join(ctx.tmp, 'tc.cc')
        with open(path, 'w') as f:
            f.write(''.join(f'I{i}\n' for i in range(8)))
        pq = mk_pass('bin', 'c++14')
        st_ = pq.new(path, None)
        cnt = pq.count_instances(path)
        query_cases.append((f'(3%Z, ({nq})%Z)', [cnt] + ([0] if st_ is None else [1, st_.index, st_.chunk, st_.instances])))
    # --clang-delta-preserve-routine: the count query and the transformation must be given the SAME routine (the count the
    # cursor starts from is the count of what the transformation will see)
    for std in (None, 'c++14'):
        scen = setup(ctx, {'caps': {}})
        path = os.path.join(ctx.tmp, 'tc.cc')
        with open(path, 'w') as f:
            f.write(''.join(f'I{i}\n' for i in range(5)))
        pp = mk_pass('bin', std)
        pp.clang_delta_preserve_routine = 'f3'
        run_ref(pp, path, lambda c: False, ctx.tmp, max_steps=60)
        seen = {}
        for r_ in read_log(scen):
            vals = tuple(a for a in r_['argv'] if a.startswith('--preserve-routine'))
            seen.setdefault(vals, []).append('query' if r_['query'] else 'transform')
        ctx.evaluations += 1
        ctx.count('preserve-routine-argument')
        if len(seen) != 1 or () in seen:
            ctx.violation('preserve-routine-differs', f'--clang-delta-preserve-routine f3: the tool was called with {dict((k, sorted(set(v))) for k, v in seen.items())}',
                          {'kind': 'preserve', 'std': std})
    # the count query that seeds the cursor fails (hangs past the timeout, exits non-zero, prints no count): there is no count
    # to stay within, so no range may be requested at all
    for std in (['c++17'] if ctx.quick() else ['c++98', 'c++17', 'c++2b']):
        for fault in ('sleep', 'nocount', 1):
            scen = setup(ctx, {'caps': {}, 'query_faults': {std: fault}, 'sleep': 3.0})
            path = os.path.join(ctx.tmp, 'tc.cc')
            with open(path, 'w') as f:
                f.write(''.join(f'I{i}\n' for i in range(6)))
            pass_ = mk_pass('bin', std)
            pass_.QUERY_TIMEOUT = 1.0 if fault == 'sleep' else 120
            steps, final, reason = run_ref(pass_, path, lambda c: False, ctx.tmp, max_steps=40)
            log = read_log(scen)
            # what count_instances yields and whether new() gives a cursor, against the model (inside Coq)
            setup(ctx, {'caps': {}, 'query_faults': {std: fault}, 'sleep': 3.0})
            st_ = pass_.new(path, None)
            cnt = pass_.count_instances(path)
            query_cases.append((f'(({ {"sleep": 0, 1: 1, "nocount": 2}[fault] })%Z, 0%Z)', [cnt] + ([0] if st_ is None else [1, st_.index, st_.chunk, st_.instances])))
            ctx.evaluations += 1
            ctx.count('seeding-query-fails:' + str(fault))
            ctx.nontriv(('seed-query', std, fault))
            asked = [r['argv'] for r in log if not r['query']]
            if asked:
                ctx.violation('range-without-count', f'--std={std} given by the user, its count query {"hangs" if fault == "sleep" else "fails" if fault == 1 else "prints no count"}: '
                              f'the pass still asked the tool for {[a for a in asked[0] if "counter" in a]}', {'kind': 'seedfault', 'std': std, 'fault': fault})
    # dependent instances (the tool removes more than asked): clamped requests, warnings before the count line
    for n in ((5, 8) if ctx.quick() else (3, 4, 5, 6, 8, 10, 13)):
        for k in (1, 2):
            for req in ([], [0], [n - 1], [1, n - 2]):
                why = cascade_case(ctx, n, req, k)
                ctx.evaluations += 1
                ctx.count('clangbinarysearch:dependent-instances')
                ctx.nontriv(('cascade', n, k, tuple(req)))
                if why:
                    ctx.violation('clang-driving-dependent-instances', f'N={n}, every removal takes the next {k} instance(s) with it, required {req}: {why}',
                                  {'kind': 'cascade', 'n': n, 'k': k, 'req': req})
            for _ in range(12 if ctx.quick() else 60):
                vs = [rnd.random() < rnd.choice([0.3, 0.6]) for _ in range(14)]
                vs[0] = False
                why = cascade_case(ctx, n, [], k, verdicts=vs)
                ctx.evaluations += 1
                ctx.count('clangbinarysearch:dependent-instances:verdict-sequences')
                if why:
                    ctx.violation('clang-driving-dependent-instances', f'N={n}, every removal takes the next {k} instance(s) with it, verdicts {vs}: {why}',
                                  {'kind': 'cascade', 'n': n, 'k': k, 'req': [], 'verdicts': vs})
    # the same pass object started again on an input whose best standard differs (next file of a multi-file run,
    # the same file after other passes): the standard must be detected afresh by every new()
    for _ in range(3 if ctx.quick() else 20):
        shared = mk_pass('bin', None)
        for _round in range(2):
            top = rnd.choice(STDS)
            caps = {s: (8 if s == top else rnd.choice([0, 2, 5])) for s in STDS}
            counts, chosen, why = std_case(ctx, caps, {}, pass_=shared)
            ctx.evaluations += 1
            ctx.count('std-detection:reused-pass-object')
            if why:
                ctx.violation('best-standard', 'pass object used for a second input: ' + why, {'kind': 'std', 'caps': caps, 'faults': {}})
    ctx.sample({'mono_case': mono[len(mono) // 2][0], 'range_log': mono[len(mono) // 2][1][:30]})
    ctx.sample({'best_std_case': best_cases[0][0], 'chosen': best_cases[0][1]})
    for nm, fn, cs in (('c15m', 'mono_run', mono), ('c15s', 'seq_run', seq), ('c15r', 'result_case', rc_cases), ('c15b', 'best_case', best_cases), ('c15q', 'query_case', query_cases)):
        bad = coq.corr_eval(nm, imports, fn, cs, shard=400)
        ctx.corr_cases += len(cs)
        ctx.corr_disagree += len(bad)
        for b in bad[:5]:
            ctx.broke('correspondence', fn, f'case {cs[b][0][:200]} impl output {cs[b][1][:40]}')


def replay(ctx, payload):
    r = payload['replay']
    if r.get('kind') == 'cascade':
        why = cascade_case(ctx, r['n'], r['req'], r['k'], verdicts=r.get('verdicts'))
        print('replay:', why)
        if why:
            ctx.violation('clang-driving-dependent-instances', why, r)
        return
    if r['kind'] == 'argvpair':
        explore(ctx)
        return
    if r['kind'] == 'preserve':
        explore(ctx)
        return
    if r['kind'] == 'seedfault':
        scen = setup(ctx, {'caps': {}, 'query_faults': {r['std']: r['fault']}, 'sleep': 3.0})
        path = os.path.join(ctx.tmp, 'tc.cc')
        with open(path, 'w') as f:
            f.write(''.join(f'I{i}\n' for i in range(6)))
        pass_ = mk_pass('bin', r['std'])
        pass_.QUERY_TIMEOUT = 1.0 if r['fault'] == 'sleep' else 120
        run_ref(pass_, path, lambda c: False, ctx.tmp, max_steps=40)
        asked = [x['argv'] for x in read_log(scen) if not x['query']]
        print('replay: transform calls', asked[:3])
        if asked:
            ctx.violation('range-without-count', 'replayed', r)
        return
    if r['kind'] in ('mono', 'seq'):
        steps, final, reason, log, _ = run_bin(ctx, r['n'], r['kind'], r['param'], r.get('scen'))
        why = oracle_bin(ctx, r['n'], r['kind'], r['param'], steps, final, log, r.get('scen') or {}, None)
        print('replay:', [(s.state_repr, s.result, s.accepted) for s in steps], final)
        if why:
            ctx.violation('clang-driving', why, r)
    elif r['kind'] == 'std':
        counts, chosen, why = std_case(ctx, r['caps'], r['faults'])
        print('replay:', counts, chosen)
        if why:
            ctx.violation('best-standard', why, r)


LEVEL_TEXT = ('Machine-checked theorems on the cursor model and the driving rules: argv range always within the count held by the '
              'cursor, all-reject sweeps tile 1..N contiguously (every N), continuation after an accept from reported-minus-chunk '
              'at the same index, non-zero exits never yield a candidate (STOP for 255, and 1 for the plain pass, else ERROR), and '
              'the chosen standard is the last arg-max of the per-standard counts (every list of counts). Tied to the real '
              'ClangBinarySearchPass / ClangPass each run through a logging stand-in tool.')
LEVEL_NOTE = ('The tool is an oracle (stand-in): what clang_delta counts or rewrites is not modelled. Trusted: Coq kernel, '
              'cursor model (validated each run), reference loop.')
TECHNIQUE = 'Rocq proof (cursor invariants, arg-max fold) + argv-log oracle on the real pass objects with a stand-in tool'
