"""Shared pieces of the driver-level checks (C08 C09 C10 C16 C20)."""
from vlib import coq, driver
from vlib.scriptpass import apply_op, run_rules, ScriptRaise
from cvise.passes.abstract import PassResult

IMPORTS = ['From CV Require Import Base.Corr Driver.Round Driver.Outcome Driver.RunPass Driver.Script.']
TRUSTED = ['hand-written model coq/Driver/{Round,Outcome,RunPass,Script}.v tied to cvise/utils/testing.py (+ cvise/cvise.py) by this correspondence run',
           'scheduler shim tools/vlib/shim.py (fake pebble pool / wait / Manager); scripted-pass twin tools/vlib/scriptpass.py']


def correspond(ctx, name, each, red=()):
    for nm, fn, cs in ((name + 'e', 'sc_run_each', list(each)), (name + 'r', 'sc_reduce', list(red))):
        if not cs:
            continue
        bad = coq.corr_eval(nm, IMPORTS, fn, [(a, b) for a, b, _ in cs], shard=100)
        ctx.count('model-out-of-fuel(undecided)', len(coq.LAST_FUEL))
        ctx.corr_cases += len(cs)
        ctx.corr_disagree += len(bad)
        for b in bad[:5]:
            ctx.broke('correspondence', f'Driver model ({fn}) vs real driver', f'scenario {cs[b][2]} impl output {cs[b][1]}')


def seq_reference(sc, order, maxto=None):
    """Independent textbook loop over in-memory contents (one candidate at a time); raising or
    INVALID transforms and non-zero verdicts are simply not accepted.  None if it diverges."""
    names = [n for n, _ in sc['files']]
    disk = {n: (c.encode('latin-1') if isinstance(c, str) else c) for n, c in sc['files']}
    rules = [([tuple(a) for a in atoms], out) for atoms, out in sc['rules']]
    accepted = []

    def joint():
        return [disk[n] for n in names]

    for p in sc['passes']:
        ops = [tuple(o) for o in p['ops']]
        if sum(len(v) for v in disk.values()) == 0:
            break
        for n in sorted(order, key=lambda n: len(disk[n]), reverse=True):
            if len(disk[n]) == 0 or not ops:
                continue
            start = len(disk[n])
            state = 0
            count = 0
            while state is not None:
                win = None
                s = state
                tcount = 0
                while s is not None:
                    try:
                        r = apply_op(ops[s], disk[n])
                    except ScriptRaise:
                        r = PassResult.INVALID
                    if r == PassResult.STOP or (r == PassResult.ERROR and not sc.get('cfg', {}).get('silent')):
                        break      # (with --shaddap a helper error is ignored like an invalid candidate)
                    if not isinstance(r, PassResult) and r != disk[n]:
                        trial = dict(disk)
                        trial[n] = r
                        verdict = run_rules(rules, [trial[m] for m in names])
                        if verdict == 0:
                            win = (s, r)
                            break
                        if verdict == 'timeout' and maxto is not None:
                            tcount += 1
                            if tcount >= maxto:
                                break      # MAX_TIMEOUTS ends the round (sequential semantics, N = 1)
                    s = s + 1 if s + 1 < len(ops) else None
                if win is None:
                    break
                s, r = win
                disk[n] = r
                accepted.append(joint())
                count += 1
                if len(r) >= 3 * start:
                    break
                if p.get('maxt') and count >= p['maxt']:
                    break
                state = s if p.get('aos', 0) == 0 else (s + 1 if s + 1 < len(ops) else None) if p['aos'] == 1 else 0
                if len(accepted) > 200:
                    return None
    return joint(), accepted


def logical(o, d):
    return tuple(d[o.order.index(n)] for n in o.names)
