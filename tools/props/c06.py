"""C06  Delta-debugging passes are complete (binary-search cursor)."""
import itertools
import os
import random
import re

from vlib import coq
from vlib.refloop import run_ref

GENERATORS = []
COQ_TARGETS = ['Cursor/BinaryCorr.vo', 'Passes/GcdaCorr.vo', 'Passes/PassCorr.vo', 'Passes/LinesCorr.vo']
RULE = ('state probes: every (index,chunk,instances) with index<instances<=NMAX, 1<=chunk<=instances, '
        'advance/end/real_chunk/advance_on_success(0..n+1) of the real BinaryState vs the model; '
        'monotone runs: real LinesPass("None") / LineMarkersPass under the reference loop for every '
        'required subset of n<=NSUB instances (exhaustive) and random larger n, random verdict '
        'sequences; non-trivial = distinct (pass, n, required set / verdict bits) whose run accepts '
        'and rejects at least once'
        ' Also (rounds 4-5, oracle only): IfPass against a unifdef stand-in with nesting / #else / #elif, GCDABinaryPass against a gcov-dump stand-in with records of different sizes, clang binary search with the standard detected by the pass, a LinesPass object reused after a bail-out, indented line markers.')
TRUSTED = ['hand-written model coq/Cursor/BinaryState.v tied by correspondence (this run) to cvise/passes/abstract.py BinaryState, lines.py, line_markers.py',
           'reference loop tools/vlib/refloop.py stands for the sequential driver (C02 ties it to TestManager)']
ASSUMPTIONS = ['int(chunk/2) goes through a float: exact below 2^53 instances',
               'ifs/clang use the same BinaryState, gcda the same advance with a fresh cursor after each accept (modelled in Passes/Gcda.v); their tools are oracles (C15 checks the clang driving); a gcda file is header + records at the offsets gcov-dump reports']


def mk_state(i, c, n):
    from cvise.passes.abstract import BinaryState
    s = BinaryState()
    s.index, s.chunk, s.instances = i, c, n
    return s


def enc(s):
    return [-1] if s is None else [1, s.index, s.chunk, s.instances]


def probe_real(i, c, n):
    s = mk_state(i, c, n)
    out = [s.end(), s.real_chunk()] + enc(s.advance())
    # advance must not touch its argument (C11) — checked here as part of the probe
    assert (s.index, s.chunk, s.instances) == (i, c, n)
    for n2 in range(0, n + 2):
        out += enc(mk_state(i, c, n).advance_on_success(n2))
    return out


def make_pass(kind):
    if kind in ('lines', 'lines-nonl', 'lines-ff'):
        from cvise.passes.lines import LinesPass
        return LinesPass('None', {})
    from cvise.passes.line_markers import LineMarkersPass
    return LineMarkersPass(None, {})


def content(kind, ids):
    if kind == 'lines':
        return ''.join(f'L{i}\n' for i in ids)
    if kind == 'lines-ff':        # form feeds / VT / FS inside lines: only "\n" ends a line
        return ''.join(f'L{i}' + ('\x0c' if i % 2 else '\x0bq\x1c') + 'z\n' for i in ids)
    if kind == 'lines-nonl':      # the last line is not newline-terminated
        return '\n'.join(f'L{i}' for i in ids)
    if kind == 'markers-ind':     # some markers are indented ('^\\s*#\\s*[0-9]+' is what a marker is)
        return 'head\n' + ''.join((('  ' if i % 2 else '\t') if i % 3 else '') + f'# {i + 1}\nx{i}\n' for i in ids)
    return 'head\n' + ''.join(f'# {i + 1}\nx{i}\n' for i in ids)


def present(kind, data):
    ids = []
    for line in data.decode().split('\n'):
        if kind in ('lines', 'lines-nonl') and line.startswith('L'):
            ids.append(int(line[1:]))
        if kind == 'lines-ff' and line.startswith('L'):
            ids.append(int(re.match(r'L([0-9]+)', line).group(1)))
        if kind in ('markers', 'markers-ind') and re.match(r'\s*# [0-9]+$', line):
            ids.append(int(line.strip()[2:]) - 1)
    return ids


def count_instances(kind, data):
    return len(present(kind, data))


def oracle(ctx, kind, n, mode, param, final, log):
    """Property oracle evaluated on the implementation's run. Returns violation text or None."""
    cur = n
    for (i, e, inst, acc, real_count) in log:
        if not (0 <= i < e <= inst) or inst != real_count:
            return f'range [{i},{e}) with instances={inst} but the file holds {real_count} instances'
    if mode == 'mono':
        req = sorted(param)
        if final != req:
            return f'monotone test requiring {req}: final instances {final}'
    if not any(a for (_, _, _, a, _) in log) and n > 0:
        singles = {(i, e) for (i, e, inst, a, _) in log if e == i + 1}
        missing = [p for p in range(n) if (p, p + 1) not in singles]
        if missing:
            return f'run accepted nothing but singles {missing} were never proposed'
        # sweeps tile
        pos = 0
        for (i, e, inst, a, _) in log:
            if not (i == pos or (pos == n and i == 0)):
                return f'sweep not contiguous at range [{i},{e}) after position {pos}'
            pos = e
    # no skip after accept
    for a, b in zip(log, log[1:]):
        if a[3]:
            ni = b[2]
            if a[0] < ni and b[0] != a[0]:
                return f'after accepting [{a[0]},{a[1]}) the next candidate starts at {b[0]}, not {a[0]}'
    return None


def do_case(ctx, kind, n, mode, param, cases_mono, cases_seq):
    final, log, reason = run_impl_mode(ctx, kind, n, mode, param)
    ctx.evaluations += 1
    accs = sum(1 for l in log if l[3])
    if 0 < accs < len(log):
        ctx.nontriv((kind, n, mode, tuple(param)))
    ctx.count(f'{kind}:{mode}:n={n}')
    out = [len(final)] + final
    for (i, e, inst, a, _) in log:
        out += [i, e, inst, 1 if a else 0]
    if mode == 'mono':
        cases_mono.append((f'({n}, {coq.lst([str(x) for x in sorted(param)]) if param else "(@nil nat)"})', out, (kind, n, mode, list(param))))
    else:
        cases_seq.append((f'({n}, {coq.lst([coq.blit(b) for b in param]) if param else "(@nil bool)"})', out, (kind, n, mode, list(param))))
    why = oracle(ctx, kind, n, mode, param, final, log)
    if reason == 'max_steps':
        why = f'the pass proposed more than {(n + 2) * (n + 3) + 20} candidates (proved bound (n+1)(n+2)): it does not terminate'
    if why:
        ctx.violation(f'binary-{kind}-{mode}', f'{kind} n={n} {mode} {list(param)}: {why}',
                      {'kind': kind, 'n': n, 'mode': mode, 'param': list(param)})
    return final, log



STANDINS = os.path.join(os.path.dirname(os.path.dirname(os.path.abspath(__file__))), 'standins')


def ifs_content(rnd, n):
    """n conditionals A0..A(n-1) in order of appearance, nested at random in the #if bodies; #else / #elif branches hold
    plain lines only, so that resolving a conditional to 1 keeps every conditional nested in it"""
    k = {'i': 0}

    def block(depth, budget):
        out = []
        while k['i'] < n and budget > 0:
            i = k['i']
            k['i'] += 1
            budget -= 1
            out.append(rnd.choice(['#if A%d\n', '#ifdef A%d\n', '  # if A%d\n', '#ifndef A%d\n']) % i)
            out.append(f'x{i}\n')
            if depth < 3 and rnd.random() < 0.5:
                out += block(depth + 1, rnd.randint(1, 3))
            r = rnd.random()
            if r < 0.25:
                out += [f'#elif B{i}\n', f'e{i}\n']
            if r < 0.5:
                out += ['#else\n', f'y{i}\n']
            out.append('#endif\n')
            if rnd.random() < 0.4:
                out.append(f'z{i}\n')
        return out
    res = []
    while k['i'] < n:
        res += block(0, n)
    return 'head\n' + ''.join(res)


IF_LINE = re.compile(r'^\s*#\s*if')
IF_LABEL = re.compile(r'^\s*#\s*if(?:n?def)?\s+A(\d+)\s*$')


def ifs_present(data):
    return [int(m.group(1)) for l in data.decode().split('\n') for m in [IF_LABEL.match(l)] if m]


def ifs_count(data):
    return sum(1 for l in data.decode().split('\n') if IF_LINE.match(l))



def gcda_content(rnd, ids):
    return 'GCDA v1\n' + ''.join(f'F{i}:' + 'c' * rnd.choice([0, 1, 3, 8, 17]) + '\n' for i in ids)


def gcda_present(data):
    return [int(l[1:].split(':')[0]) for l in data.decode().split('\n') if l.startswith('F')]


def gcda_case(ctx, rnd, n, req):
    """GCDABinaryPass (removes ranges of function records at the byte offsets gcov-dump reports) against the gcov-dump
    stand-in, records of different sizes; monotone test = the file is well formed and keeps the required functions"""
    from cvise.passes.gcdabinary import GCDABinaryPass
    p = os.path.join(ctx.tmp, 'tc.gcda')
    text = gcda_content(rnd, range(n))
    with open(p, 'w') as f:
        f.write(text)
    reqs = set(req)

    def wellformed(data):
        ls = data.decode('latin-1').split('\n')
        return ls[0] == 'GCDA v1' and ls[-1] == '' and all(re.fullmatch(r'F[0-9]+:c*', l) for l in ls[1:-1])

    def interesting(c):
        data = open(c, 'rb').read()
        return wellformed(data) and reqs <= set(gcda_present(data))
    pass_ = GCDABinaryPass(None, {'gcov-dump': os.path.join(STANDINS, 'gcov-dump')})
    steps, final, reason = run_ref(pass_, p, interesting, ctx.tmp, observe=lambda st: (st.index, st.end(), st.instances, list(st.functions), st.chunk),
                                   max_steps=4 * (n + 2) * (n + 3) + 40, continue_after_exception=True)
    if reason == 'max_steps':
        return text, 'more candidates than four times the proved bound of one sweep sequence: the pass does not terminate'
    gc = getattr(ctx, 'gcda_corr', None)
    if gc is not None and all(s.result.startswith('OK') and s.after is not None for s in steps):
        # model side (Passes/Gcda.v): each candidate's bytes from (file bytes, offsets held by the cursor, cursor); the same
        # candidate through the record view (the two sides of C06_gcda_candidate_is_record_cut); the offsets of
        # header ++ records; the whole run (fresh cursor after every accept) on the records
        def nl(xs):
            return '[' + '; '.join(str(int(x)) for x in xs) + ']'

        def nll(xss):
            return '[' + '; '.join(nl(x) for x in xss) + ']'

        def split_recs(data):
            parts = data.split(b'\n')
            return list(parts[0] + b'\n'), [list(x + b'\n') for x in parts[1:-1]]
        out = [len(gcda_present(final))] + gcda_present(final)
        for s in steps:
            i, e, inst, funcs, chunk = s.state_repr
            hdr, recs = split_recs(s.before)
            cur = f'({i}, {chunk}, {inst})'
            gc['tr'].append((f'({nl(s.before)}, {nl(funcs)}, {cur})', list(s.after)))
            if i < len(recs):
                gc['rec'].append((f'({nl(hdr)}, {nll(recs)}, {cur})', list(s.after)))
            gc['offs'].append((f'({nl(hdr)}, {nll(recs)})', list(funcs)))
            out += [i, e, inst, 1 if s.accepted else 0]
        ids = [[int(l[1:].split(':')[0])] for l in text.split('\n') if l.startswith('F')]
        gc['run'].append((f'({nll(ids)}, {nl(sorted(reqs))})', out))
    for s in steps:
        i, e, inst, funcs, _chunk = s.state_repr
        real = len(gcda_present(s.before))
        if not (0 <= i < e <= inst) or inst != real:
            return text, f'range [{i},{e}) with a cursor holding {inst} functions; the file holds {real}'
        if not s.result.startswith('OK'):
            return text, f'range [{i},{e}): transform ended with {s.result}'
        want = [x for k, x in enumerate(gcda_present(s.before)) if not (i <= k < e)]
        if s.after is None or not wellformed(s.after) or gcda_present(s.after) != want:
            return text, f'range [{i},{e}) of {gcda_present(s.before)}: the candidate is not the file minus those function records (it holds {s.after!r})'
    if gcda_present(final) != sorted(reqs):
        return text, f'monotone test requiring {sorted(reqs)}: final functions {gcda_present(final)}'
    return text, None


def ifs_case(ctx, text, n, req, pass_=None):
    """IfPass (resolve each range of conditionals to 0, then to 1) against the unifdef stand-in, monotone test
    "the conditionals of req are still there": oracle only (the tool is an oracle; no Coq model of unifdef)"""
    from cvise.passes.ifs import IfPass
    p = os.path.join(ctx.tmp, 'tc-ifs.c')
    with open(p, 'w') as f:
        f.write(text)
    pass_ = pass_ or IfPass(None, {'unifdef': os.path.join(STANDINS, 'unifdef')})
    reqs = set(req)
    steps, final, reason = run_ref(pass_, p, lambda c: reqs <= set(ifs_present(open(c, 'rb').read())), ctx.tmp,
                                   observe=lambda st: (st.index, st.end(), st.instances, st.value), max_steps=4 * (n + 2) * (n + 3) + 40)
    if reason == 'max_steps':
        return 'more candidates than twice the proved bound of the cursor: the pass does not terminate'
    for s in steps:
        i, e, inst, v = s.state_repr
        real = ifs_count(s.before)
        if not (0 <= i < e <= inst) or inst != real:
            return f'range [{i},{e}) value {v} with a cursor holding {inst} instances; the file holds {real} conditionals'
        if s.result != 'OK':
            return f'range [{i},{e}) value {v}: result {s.result}'
    if sorted(ifs_present(final)) != sorted(reqs) or ifs_count(final) != len(reqs):
        return f'monotone test requiring {sorted(reqs)}: the final file keeps conditionals {ifs_present(final)} ({ifs_count(final)} #if lines)'
    if not any(s.accepted for s in steps):
        tried = {(s.state_repr[0], s.state_repr[3]) for s in steps if s.state_repr[1] == s.state_repr[0] + 1}
        missing = [(q, v) for q in range(n) for v in (0, 1) if (q, v) not in tried]
        if missing:
            return f'nothing accepted, but single conditionals / values {missing} were never tried'
    return None


def lines_reuse_case(ctx, arg, n, req, pass_):
    """the same LinesPass object (with a formatter argument), after an earlier new() that legitimately bailed out"""
    p = os.path.join(ctx.tmp, 'tc-lines-fmt.c')
    with open(p, 'w') as f:
        f.write(content('lines', range(n)))
    reqs = set(req)
    steps, final, reason = run_ref(pass_, p, lambda c: reqs <= set(present('lines', open(c, 'rb').read())), ctx.tmp, check_sanity=lambda: None,
                                   observe=lambda st: (st.index, st.end(), st.instances), max_steps=(n + 2) * (n + 3) + 20)
    got = present('lines', final)
    if got != sorted(reqs):
        return f'lines::{arg} (pass object used before on a file whose formatted version failed the sanity check), monotone test requiring {sorted(reqs)}: final lines {got} after {len(steps)} candidates'
    return None


def bailed_out_lines_pass(ctx, arg):
    from cvise.passes.lines import LinesPass
    from cvise.utils.error import InsaneTestCaseError
    pass_ = LinesPass(arg, {'topformflat': os.path.join(STANDINS, 'topformflat')})
    p = os.path.join(ctx.tmp, 'tc-lines-bail.c')
    orig = 'f() { g() { h() {\n a;\n b;\n } } }\n'
    with open(p, 'w') as f:
        f.write(orig)

    def insane_unless_original():
        if open(p).read() != orig:
            raise InsaneTestCaseError([p], 'test')
    st = pass_.new(p, insane_unless_original)
    return pass_, st, open(p).read() == orig


def run_impl_mode(ctx, kind, n, mode, param):
    p = os.path.join(ctx.tmp, f'tc-{kind}.c')
    with open(p, 'w') as f:
        f.write(content(kind, range(n)))
    pass_ = make_pass(kind)
    k = {'k': -1}

    def observe(st):
        k['k'] += 1
        return (st.index, st.end(), st.instances)

    if mode == 'mono':
        req = set(param)

        def interesting(c):
            return req <= set(present(kind, open(c, 'rb').read()))
    else:
        def interesting(c):
            return param[k['k']] if k['k'] < len(param) else False
    steps, final, reason = run_ref(pass_, p, interesting, ctx.tmp, observe=observe, max_steps=(n + 2) * (n + 3) + 20)   # above the proved bound
    log = [(s.state_repr[0], s.state_repr[1], s.state_repr[2], s.accepted, count_instances(kind, s.before)) for s in steps]
    lc = getattr(ctx, 'lines_corr', None)
    if lc is not None and len(lc['lines' if kind.startswith('lines') else 'markers']) < lc['cap']:
        # byte level (Passes/Edit.v, the model C06_lines_candidate_is_line_cut / C06_markers_candidate_is_marker_cut speak about):
        # every candidate of the real run vs lines_transform / markers_transform, and the instance count the real pass
        # continues with after an accepted candidate vs the lines / markers of that candidate
        def ct(b):
            return ('[' + ';'.join(str(x) for x in b) + ']%N') if b else '(@nil N)'
        for j, s_ in enumerate(steps):
            if s_.after is None or not s_.result.startswith('OK'):
                continue
            i_, e_, inst_ = s_.state_repr
            if kind.startswith('lines'):
                lc['lines'].append((f'({ct(s_.before)}, {i_}, {e_})', [len(s_.after)] + list(s_.after)))
                if s_.accepted and j + 1 < len(steps):
                    lc['nlines'].append((ct(s_.after), [steps[j + 1].state_repr[2]]))
            else:
                marks = sorted({l for l in re.findall(rb'[^\n]*\n|[^\n]+', s_.before) if re.search(rb'^\s*#\s*[0-9]+', l)})
                ml = '[' + '; '.join(ct(m) for m in marks) + ']' if marks else '(@nil text)'
                lc['markers'].append((f'({ct(s_.before)}, {ml}, {i_}, {e_})', [inst_, len(s_.after)] + list(s_.after)))
    return present(kind, final), log, reason


def explore(ctx):
    rnd = random.Random(ctx.seed)
    ctx.lines_corr = {'lines': [], 'nlines': [], 'markers': [], 'cap': 800 if ctx.quick() else 4000}
    nmax = 10 if ctx.quick() else 24
    nsub = 7 if ctx.quick() else 10
    # A. state probes
    cases = []
    for n in range(1, nmax + 1):
        for i in range(n):
            for c in range(1, n + 1):
                cases.append((f'({i},{c},{n})', probe_real(i, c, n)))
    ncreate = [(str(n), enc_create(n)) for n in range(0, 40)]
    ctx.evaluations += len(cases) + len(ncreate)
    ctx.count('state-probes', len(cases))
    imports = ['From CV Require Import Cursor.BinaryState Cursor.BinaryCorr.']
    bad = coq.corr_eval('c06probe', imports, 'probe', cases)
    bad2 = coq.corr_eval('c06create', imports, 'probe_create', ncreate)
    ctx.corr_cases += len(cases) + len(ncreate)
    for b in bad[:5]:
        ctx.broke('correspondence', 'BinaryState probe', f'state (index,chunk,instances)={cases[b][0]} impl={cases[b][1]}')
    for b in bad2[:5]:
        ctx.broke('correspondence', 'BinaryState.create', f'n={ncreate[b][0]} impl={ncreate[b][1]}')
    ctx.corr_disagree += len(bad) + len(bad2)
    ctx.sample({'probe': cases[len(cases) // 2][0], 'impl_output': cases[len(cases) // 2][1][:12]})
    # B. monotone runs on the real passes, C. random verdict sequences
    cases_mono, cases_seq = [], []
    for kind in ('lines', 'markers', 'lines-nonl', 'markers-ind', 'lines-ff'):
        for n in range(0, nsub + 1 if kind not in ('lines-nonl', 'markers-ind', 'lines-ff') else min(nsub, 6 if kind != 'lines-ff' else 5) + 1):
            for r in range(0, n + 1):
                for req in itertools.combinations(range(n), r):
                    do_case(ctx, kind, n, 'mono', req, cases_mono, cases_seq)
        for _ in range(60 if ctx.quick() else 400):
            n = rnd.randint(nsub + 1, 40 if ctx.quick() else 120)
            req = [x for x in range(n) if rnd.random() < rnd.choice([0.05, 0.3, 0.7])]
            do_case(ctx, kind, n, 'mono', req, cases_mono, cases_seq)
        for _ in range(150 if ctx.quick() else 1500):
            n = rnd.randint(1, 14 if ctx.quick() else 40)
            pa = rnd.choice([0.0, 0.1, 0.3, 0.6])
            bits = [rnd.random() < pa for _ in range((n + 1) * (n + 2))]
            # trim trailing bits that cannot matter to keep the literal small
            do_case(ctx, kind, n, 'seq', bits[: 6 * n + 12], cases_mono, cases_seq)
    # the clang_delta binary-search pass shares the cursor: drive it against the stand-in tool
    from props import c15
    for n in range(1, 6 if ctx.quick() else 8):
        for r in range(0, n + 1):
            for req in itertools.combinations(range(n), r):
                steps, final, reason, log, _ = c15.run_bin(ctx, n, 'mono', req)
                ctx.evaluations += 1
                ctx.count(f'clangbinarysearch:mono:n={n}')
                ctx.nontriv(('clang', n, req))
                why = c15.oracle_bin(ctx, n, 'mono', req, steps, final, log, {}, None)
                if why:
                    ctx.violation('binary-clang-mono', f'clangbinarysearch N={n} required {req}: {why}', {'kind': 'clang', 'n': n, 'mode': 'mono', 'param': list(req)})
                out = [len(final)] + final
                for s in steps:
                    out += [s.state_repr[0], s.state_repr[1], s.state_repr[2], 1 if s.accepted else 0]
                cases_mono.append((f'({n}, {coq.lst([str(x) for x in sorted(req)]) if req else "(@nil nat)"})', out, ('clang', n, 'mono', list(req))))
    # ... with the C++ standard detected by the pass itself, on inputs whose instance count depends on the standard
    # (the newest standard sees fewer instances than the one that gets selected)
    for n in ((4,) if ctx.quick() else (3, 4, 5, 6)):
        for r in range(0, n + 1):
            for req in itertools.combinations(range(n), r):
                scen = {'caps': {'c++2b': max(n - 2, 0), 'c++98': 1}}
                steps, final, reason, log, _ = c15.run_bin(ctx, n, 'mono', req, scen, std=None)
                ctx.evaluations += 1
                ctx.count(f'clangbinarysearch:mono:detected-standard:n={n}')
                why = c15.oracle_bin(ctx, n, 'mono', req, steps, final, log, scen, None)
                if why:
                    ctx.violation('binary-clang-mono', f'clangbinarysearch N={n} (standard detected by the pass; c++2b sees {max(n - 2, 0)} instances) required {req}: {why}',
                                  {'kind': 'clang', 'n': n, 'mode': 'mono', 'param': list(req), 'scen': scen, 'std': None})
    # #if blocks: IfPass with the unifdef stand-in (nesting, #else, #elif: resolving one conditional changes the number of others)
    for it in range(60 if ctx.quick() else 600):
        n = rnd.randint(1, 6 if ctx.quick() else 9)
        text = ifs_content(rnd, n)
        req = [x for x in range(n) if rnd.random() < rnd.choice([0.0, 0.3, 0.6, 1.0])]
        why = ifs_case(ctx, text, n, req)
        ctx.evaluations += 1
        ctx.count(f'ifs:mono:n={n}')
        if 0 < len(req) < n:
            ctx.nontriv(('ifs', text, tuple(req)))
        if why:
            ctx.violation('binary-ifs-mono', f'ifs on {text!r}: {why}', {'kind': 'ifs', 'text': text, 'n': n, 'param': req})
    # coverage data: GCDABinaryPass with the gcov-dump stand-in, function records of different sizes
    ctx.gcda_corr = {'tr': [], 'rec': [], 'offs': [], 'run': []}
    for n in range(1, 5 if ctx.quick() else 7):
        for r in range(0, n + 1):
            for req in itertools.combinations(range(n), r):
                text, why = gcda_case(ctx, rnd, n, req)
                ctx.evaluations += 1
                ctx.count(f'gcda:mono:n={n}')
                if 0 < len(req) < n:
                    ctx.nontriv(('gcda', text, req))
                if why:
                    ctx.violation('binary-gcda-mono', f'gcda-binary on {text!r} required {list(req)}: {why}', {'kind': 'gcda', 'n': n, 'param': list(req)})
    # the real lines / line-marker candidates and re-counted instances against the byte-level model, inside Coq
    pimports = ['From CV Require Import Passes.Edit Passes.PassCorr.']
    for key, fn in (('lines', 'run_lines'), ('nlines', 'run_nlines'), ('markers', 'run_markers')):
        cs = ctx.lines_corr[key]
        badl = coq.corr_eval('c06' + key, pimports, fn, cs, shard=300)
        ctx.corr_cases += len(cs)
        ctx.corr_disagree += len(badl)
        ctx.count(f'bytes:model:{key}', len(cs))
        for b in badl[:5]:
            ctx.broke('correspondence', f'{fn} vs the real pass', f'case {cs[b][0][:200]} impl {cs[b][1][:60]}')
    ctx.lines_corr = None
    # whole runs of the real LinesPass on ARBITRARY token texts (blank lines, duplicated lines, no final newline) against the byte-level
    # loop breduce for which C06_lines_byte_loop_is_instance_loop / C06_lines_final_text_monotone are proved
    from props.c07 import gen_text
    from cvise.passes.lines import LinesPass

    def ctb(b):
        return ('[' + ';'.join(str(x) for x in b) + ']%N') if b else '(@nil N)'
    brcases = []
    for j in range(60 if ctx.quick() else 600):
        text = gen_text(rnd, rnd.randint(2, 24)) if j % 5 else ''.join(rnd.choice(['a\n', 'b\n', '\n', 'a', '\x0c\n']) for _ in range(rnd.randint(1, 9)))
        if '\r' in text:
            continue
        data = text.encode()
        blines = re.findall(rb'[^\n]*\n|[^\n]+', data)
        reqset = sorted({l for l in blines if rnd.random() < 0.35})
        pth = os.path.join(ctx.tmp, 'tc-bytes.c')
        with open(pth, 'wb') as f:
            f.write(data)
        cur = {'n': sum(1 for l in blines if l in reqset)}

        def interesting(c):
            # monotone on line contents: no removed line has a required content  <=>  the number of such lines is unchanged
            got = sum(1 for l in re.findall(rb'[^\n]*\n|[^\n]+', open(c, 'rb').read()) if l in reqset)
            return got == cur['n']
        lp = LinesPass('None', {})
        steps, final, reason = run_ref(lp, pth, interesting, ctx.tmp, observe=lambda st: (st.index, st.end(), st.instances), max_steps=(len(blines) + 2) * (len(blines) + 3) + 20)
        ctx.evaluations += 1
        ctx.count('lines:bytes-run')
        if reason != 'exhausted' or any(not s_.result.startswith('OK') for s_ in steps):
            ctx.violation('binary-lines-bytes', f'lines on {text!r} required {reqset}: the run ended with {reason} / {[s_.result for s_ in steps if not s_.result.startswith("OK")][:3]}', {'kind': 'lines-bytes', 'text': text})
            continue
        want = b''.join(l for l in blines if l in reqset)
        if final != want:
            ctx.violation('binary-lines-bytes', f'lines on {text!r}, monotone test requiring the lines {reqset}: final text {final!r}, the required lines are {want!r}', {'kind': 'lines-bytes', 'text': text})
        if 0 < len(reqset) and want != data:
            ctx.nontriv(('lines-bytes', text, tuple(reqset)))
        out = [len(final)] + list(final)
        for s_ in steps:
            out += [s_.state_repr[0], s_.state_repr[1], s_.state_repr[2], 1 if s_.accepted else 0]
        rl = '[' + '; '.join(ctb(l) for l in reqset) + ']' if reqset else '(@nil text)'
        brcases.append((f'({ctb(data)}, {rl})', out))
    badb = coq.corr_eval('c06bytes', ['From CV Require Import Passes.Edit Passes.LinesCorr.'], 'bytes_run_case', brcases, shard=40)
    ctx.corr_cases += len(brcases)
    ctx.corr_disagree += len(badb)
    for b in badb[:5]:
        ctx.broke('correspondence', 'breduce vs the real LinesPass run', f'case {brcases[b][0][:200]} impl {brcases[b][1][:60]}')
    # the real gcda candidates / cursor logs / final files against the model of Passes/Gcda.v, evaluated inside Coq
    gimports = imports + ['From CV Require Import Passes.Gcda Passes.GcdaCorr.']
    for key, fn in (('tr', 'gcda_tr_case'), ('rec', 'gcda_rec_case'), ('offs', 'gcda_offs_case'), ('run', 'gcda_run_case')):
        cs = ctx.gcda_corr[key]
        badg = coq.corr_eval('c06gcda' + key, gimports, fn, cs, shard=300)
        ctx.corr_cases += len(cs)
        ctx.corr_disagree += len(badg)
        ctx.count(f'gcda:model:{key}', len(cs))
        for b in badg[:5]:
            ctx.broke('correspondence', f'{fn} vs GCDABinaryPass', f'case {cs[b][0][:200]} impl {cs[b][1][:60]}')
    ctx.gcda_corr = None
    # the cursors of the real IfPass when every candidate is rejected, against the model for which C06_ifs_tries_both_values is proved
    from cvise.passes.ifs import IfPass
    ifs_cases = []
    for n in range(0, 9 if ctx.quick() else 20):
        pth = os.path.join(ctx.tmp, 'tc-ifs-enum.c')
        with open(pth, 'w') as f:
            f.write('head\n' + ''.join(f'#if A{i}\nx\n#endif\n' for i in range(n)))
        ip = IfPass(None, {'unifdef': os.path.join(STANDINS, 'unifdef')})
        st_, out_ = ip.new(pth, None), []
        while st_ is not None and len(out_) < 40000:
            out_ += [st_.index, st_.chunk, st_.instances, st_.value]
            st_ = ip.advance(pth, st_)
        ifs_cases.append((str(n), out_))
        ctx.evaluations += 1
        ctx.count('ifs:all-reject-cursors')
    badi = coq.corr_eval('c06ifs', imports, 'ifs_enum_case', ifs_cases, shard=50)
    ctx.corr_cases += len(ifs_cases)
    ctx.corr_disagree += len(badi)
    for b in badi[:5]:
        ctx.broke('correspondence', 'ifs_enum vs IfPass.new/advance', f'n={ifs_cases[b][0]} impl {ifs_cases[b][1][:40]}')
    # lines with a formatter argument: the pass object is reused across files; a bail-out on one file must not stick
    for arg in ('1', '2'):
        pass_, st, restored = bailed_out_lines_pass(ctx, arg)
        ctx.count('lines-formatter:bail-out-then-reuse')
        if st is not None or not restored:
            ctx.broke('harness', 'lines bail-out scenario', f'lines::{arg}: new() did not bail out (state {st}, file restored {restored})')
        for n in (3, 4):
            for r in range(0, n + 1):
                for req in itertools.combinations(range(n), r):
                    why = lines_reuse_case(ctx, arg, n, req, pass_)
                    ctx.evaluations += 1
                    if why:
                        ctx.violation('binary-lines-reused-object', why, {'kind': 'lines-reuse', 'arg': arg, 'n': n, 'param': list(req)})
    for nm, fn, cs in (('c06mono', 'mono_run', cases_mono), ('c06seq', 'seq_run', cases_seq)):
        bad = coq.corr_eval(nm, imports, fn, [(a, b) for a, b, _ in cs], shard=400)
        ctx.corr_cases += len(cs)
        ctx.corr_disagree += len(bad)
        for b in bad[:5]:
            ctx.broke('correspondence', fn, f'case {cs[b][2]} impl output {cs[b][1][:40]}')
    if cases_mono:
        ctx.sample({'mono_case': cases_mono[len(cases_mono) // 3][2], 'impl_output': cases_mono[len(cases_mono) // 3][1][:30]})
    if cases_seq:
        ctx.sample({'seq_case': str(cases_seq[7][2])[:200], 'impl_output': cases_seq[7][1][:30]})


def enc_create(n):
    from cvise.passes.abstract import BinaryState
    return enc(BinaryState.create(n))


def replay(ctx, payload):
    r = payload['replay']
    if r['kind'] == 'clang':
        from props import c15
        if 'scen' in r:
            steps, final, reason, log, _ = c15.run_bin(ctx, r['n'], 'mono', r['param'], r['scen'], std=r.get('std'))
        else:
            steps, final, reason, log, _ = c15.run_bin(ctx, r['n'], 'mono', r['param'])
        why = c15.oracle_bin(ctx, r['n'], 'mono', r['param'], steps, final, log, r.get('scen', {}), None)
        if why:
            ctx.violation('binary-clang-mono', why, r)
        return
    if r['kind'] == 'gcda':
        for seed in range(20):
            text, why = gcda_case(ctx, random.Random(seed), r['n'], r['param'])
            if why:
                print('replay gcda:', text, why)
                ctx.violation('binary-gcda-mono', why, r)
                return
        return
    if r['kind'] == 'ifs':
        why = ifs_case(ctx, r['text'], r['n'], r['param'])
        print('replay ifs:', why)
        if why:
            ctx.violation('binary-ifs-mono', why, r)
        return
    if r['kind'] == 'lines-reuse':
        pass_, st, restored = bailed_out_lines_pass(ctx, r['arg'])
        why = lines_reuse_case(ctx, r['arg'], r['n'], r['param'], pass_)
        print('replay lines-reuse:', why)
        if why:
            ctx.violation('binary-lines-reused-object', why, r)
        return
    final, log, reason = run_impl_mode(ctx, r['kind'], r['n'], r['mode'], r['param'])
    why = oracle(ctx, r['kind'], r['n'], r['mode'], r['param'], final, log)
    print(f'replay: final={final} log={log}')
    if why:
        ctx.violation(f'binary-{r["kind"]}-{r["mode"]}', why, r)

LEVEL_TEXT = ('Machine-checked theorems (Coq, closed under the global context) about a model of BinaryState and the '
              'sequential reduction loop: for every list, every verdict function and every required predicate — '
              'ranges in bounds, termination within (n+1)(n+2) candidates, exact result for monotone tests, all '
              'singles tried and sweeps tiling 0..n when nothing was accepted, no skip after an accept; the IfPass cursor offers every range with both values; for gcda files the byte-level candidate built from the reported offsets is the record-level cut (every header, record sizes, cursor), is strictly shorter, and the pass\'s restarting loop is exact for monotone tests; the candidate of the lines / line-marker pass, read again, holds exactly the lines / markers of the file cut at [i,e) (bytes and instance lists agree), and the byte-level loop (re-counting instances from each accepted candidate) computes exactly the instance-level loop, so for a monotone test the final text is the required lines (likewise for line markers, where every non-marker line survives). The model is '
              'tied to the real BinaryState / LinesPass / LineMarkersPass / GCDABinaryPass on every run by a correspondence check '
              'evaluated inside Coq; the property oracle is also evaluated directly on the real runs.')
LEVEL_NOTE = ('Trusted: Coq kernel; hand-written model (validated each run against the code on exhaustive small state '
              'spaces and random runs); reference loop standing for the sequential driver; float halving exact below 2^53. '
              'ifs / clang share BinaryState; their external tools are stand-ins: IfPass (unifdef with nesting, #else, #elif) is checked by the oracle on monotone runs, without a Coq model of the tool. '
              'GCDABinaryPass: transform, offsets and restarting loop are modelled (Passes/Gcda.v) and compared with the real pass on every candidate and run; gcov-dump itself is a stand-in, assumed to report the start offset of every function record.')
TECHNIQUE = 'Rocq proof by induction on a lexicographic measure + model/implementation correspondence (vm_compute) + oracle search'
