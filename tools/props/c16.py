"""C16  Run limits given on the command line are honoured."""
import random

from vlib import driver, scengen
from props.common_driver import correspond, logical, TRUSTED as T0

GENERATORS = []
COQ_TARGETS = ['Driver/Script.vo']
RULE = ('scenarios sweep max_improvement in {None,0,1,2}, skip_after_n_transforms in {None,0,1,2}, per-pass max-transforms in '
        '{None,1,2}, start_with_pass naming the 1st/2nd/3rd pass, GIVEUP_CONSTANT in {2,3,5}, no_give_up on/off, MAX_CRASH_DIRS '
        'in {1,2,3,10} x N x schedules; oracle on the real run: per-step shrink <= max_improvement, accepted steps per file per '
        'pass <= limits, gated passes execute nothing and change nothing, never-accepting rounds stop within GIVEUP+N+1 '
        'candidates, bug dirs <= MAX+1; non-trivial = distinct scenarios where some limit actually cut the run'
        ' Also: an earlier pass whose name has the --start-with-pass name as a proper prefix.')
TRUSTED = T0
ASSUMPTIONS = ['limit value 0 means "unlimited" in the code (falsy) — recorded as a known finding, modelled as such']


def gen(rnd):
    sc = scengen.gen_scenario(rnd, 'faults' if rnd.random() < 0.4 else 'contract', npasses=rnd.randint(2, 3))
    cfg = sc['cfg']
    cfg['maximp'] = rnd.choice([None, 0, 1, 2])
    cfg['skipn'] = rnd.choice([None, 0, 1, 2])
    cfg['giveup'] = rnd.choice([2, 3, 5, 50000])
    if rnd.random() < 0.3:
        # --also-interesting: candidates answered with that code are saved AND still count towards give-up
        cfg['also'] = 3
        sc['rules'] = [(atoms, 3 if out not in (0, 'timeout') and rnd.random() < 0.7 else out) for atoms, out in sc['rules']]
    cfg['nogiveup'] = rnd.random() < 0.25
    cfg['maxcrash'] = rnd.choice([1, 2, 3, 10])
    for p in sc['passes']:
        p['maxt'] = rnd.choice([None, None, 1, 2, 0])
    if rnd.random() < 0.4:
        k = rnd.randrange(len(sc['passes']))
        if sc['passes'][k]['maxt'] is None:
            sc['start_with_key'] = sc['passes'][k]['key']
            if k > 0 and rnd.random() < 0.5:
                # an EARLIER pass whose name merely starts with the requested one (ScriptPass::1 vs ScriptPass::12)
                sc['passes'][rnd.randrange(k)]['key'] = sc['passes'][k]['key'] * 10 + rnd.randint(0, 9)
    if rnd.random() < 0.3:   # a pass that never succeeds, long enumeration: exercises give-up
        sc['passes'].insert(0, {'key': 9, 'ops': [('inval',)] * rnd.randint(6, 14), 'aos': 0, 'maxt': None, 'newfix': None})
    return sc


def oracle(ctx, sc, o):
    cfg = dict(driver.DEFAULT_CFG)
    cfg.update(sc['cfg'])
    names = o.names
    gate = sc.get('start_with_key')
    disk_prev = [c for c in o.disk0]
    cut = False
    for spec, p in zip(sc['passes'], o.passes):
        rep = {'scenario': sc}
        if gate is not None:
            if spec['key'] != gate:
                if p['executed'] != 0 or p['disk'] != disk_prev:
                    ctx.violation('start-with-gate', f'{p["pass_"]} ran (executed={p["executed"]}) before --start-with-pass ScriptPass::{gate}', rep)
                disk_prev = p['disk']
                continue
            gate = None
        # per accepted step: which file changed, by how much
        per_file = {}
        for prev, d in zip(p['acc_before'], p['acc']):
            ch = [i for i in range(len(d)) if d[i] != prev[i]]
            for i in ch:
                per_file[i] = per_file.get(i, 0) + 1
                shrink = len(prev[i]) - len(d[i])
                if cfg['maximp'] is not None and shrink > cfg['maximp']:
                    ctx.violation('max-improvement', f'{p["pass_"]} committed a step shrinking the file by {shrink} > --max-improvement {cfg["maximp"]}', rep)
        for i, cnt in per_file.items():
            if cfg['skipn'] is not None and cnt > cfg['skipn']:
                if cfg['skipn'] == 0:
                    ctx.violation('skip-after-n-zero-unlimited', f'--skip-after-n-transforms 0 but {cnt} changes accepted', rep)
                else:
                    ctx.violation('skip-after-n', f'{p["pass_"]} accepted {cnt} changes on one file with --skip-after-n-transforms {cfg["skipn"]}', rep)
            if spec.get('maxt') == 0 and cnt > 0:
                ctx.violation('max-transforms-zero-unlimited', f'max-transforms 0 but {cnt} changes accepted', rep)
            elif spec.get('maxt') is not None and cnt > spec['maxt']:
                ctx.violation('max-transforms', f'{p["pass_"]} accepted {cnt} changes on one file with max-transforms {spec["maxt"]}', rep)
            if (cfg['skipn'] and cnt == cfg['skipn']) or (spec.get('maxt') and cnt == spec['maxt']):
                cut = True
        # give-up: a pass none of whose candidates succeeded: one round per non-empty file
        # (the theorem's hypothesis: no candidate's test exits 0 and none hangs - a success that is too large for
        #  --max-improvement, or unchanged, is ignored without counting towards give-up)
        if p['worked'] == 0 and not cfg['nogiveup'] and p['code'] == 0 and all(rc not in (0, 124) for rc in p['test_codes']):
            nfiles = sum(1 for c in disk_prev if len(c) > 0)
            bound = nfiles * (cfg['giveup'] + cfg['N'] + 1)
            if p['executed'] > bound:
                ctx.violation('give-up', f'{p["pass_"]} never succeeded yet started {p["executed"]} candidates (give-up {cfg["giveup"]}, N {cfg["N"]}, bound {bound})', rep)
            if p['executed'] > cfg['giveup']:
                cut = True
        if p['bug'] > max(sc.get('bug0', 0), cfg['maxcrash'] + 1):
            ctx.violation('bug-dir-cap', f'{p["bug"]} bug directories with MAX_CRASH_DIRS={cfg["maxcrash"]}', rep)
        disk_prev = p['disk']
    return cut


def explore(ctx):
    rnd = random.Random(ctx.seed + 16)
    each = []
    n = 160 if ctx.quick() else 1500
    for it in range(n):
        sc = gen(rnd)
        if it % 20 == 7:
            # every candidate is rejected with the --also-interesting code: saved, and still counted towards give-up
            sc = {'files': [('f0.c', 'ab')], 'rules': [([('lenge', 0, 3)], 3), ([], 0)],
                  'passes': [{'key': 1, 'ops': [('dup', rnd.randint(0, 1)) for _ in range(rnd.randint(9, 14))], 'aos': 0, 'maxt': None, 'newfix': None}],
                  'cfg': {'N': rnd.choice([1, 2, 3]), 'giveup': rnd.choice([2, 3]), 'nogiveup': False, 'also': 3, 'maximp': None, 'skipn': None, 'maxcrash': 10, 'no_cache': True},
                  'sched': [rnd.randint(0, 7) for _ in range(30)]}
        if it % 12 == 5:
            # a test that shrinks the candidate in its own directory before accepting it: what is committed is the shrunk
            # file, and the limit is about what is committed (oracle only: the model's tests do not write)
            sc['truncate'] = rnd.randint(0, 2)
            sc['cfg']['maximp'] = rnd.choice([1, 2, 3])
        o = driver.run_scenario(sc, ctx.tmp)
        ctx.evaluations += 1
        if o.diverged:
            ctx.count('diverged')
            continue
        cut = oracle(ctx, sc, o)
        if sc.get('truncate') is not None:
            ctx.count('test-shrinks-its-candidate')
            continue
        each.append((driver.coq_scenario(sc, o.perm), o.out, sc))
        ctx.count(f'maximp={sc["cfg"]["maximp"]}:skipn={sc["cfg"]["skipn"]}:gate={"y" if sc.get("start_with_key") else "n"}')
        if cut:
            ctx.nontriv(repr((sc['files'], sc['passes'], sc['rules'], sc['cfg'], sc['sched'], sc.get('start_with_key'))))
    # give-up when every candidate fails before a test is run (the transformation raises in the worker, the helper reports an error)
    for opk in ('raise', 'err', 'inval'):
        for g in (2, 5):
            for nn in (1, 3):
                sc = {'files': [('f0.c', 'abc')], 'rules': [([], 0)],
                      'passes': [{'key': 1, 'ops': [(opk,)] * (g + nn + 15), 'aos': 0, 'maxt': None, 'newfix': None}],
                      'cfg': {'N': nn, 'giveup': g, 'silent': True, 'no_cache': True, 'nogiveup': False, 'maximp': None, 'skipn': None, 'maxcrash': 10, 'also': None},
                      'sched': [rnd.randint(0, 7) for _ in range(40)], 'max_scheduled': 3000}
                o = driver.run_scenario(sc, ctx.tmp)
                ctx.evaluations += 1
                ctx.count('give-up:no-test-ever-run:' + opk)
                if o.diverged:
                    ctx.violation('give-up', f'a pass whose every candidate ends in {opk!r} did not finish', {'scenario': sc})
                    continue
                oracle(ctx, sc, o)
                each.append((driver.coq_scenario(sc, o.perm), o.out, sc))
    # --start-with-pass through the whole reduction (CVise.reduce), with and without --skip-initial-passes: nothing runs
    # before the named pass
    for skip_initial in (False, True):
        for gate in (2, 3):
            for nn in (1, 2):
                mk = lambda k, ch: {'key': k, 'ops': [('delch', ch)], 'aos': 1, 'maxt': None, 'newfix': None}
                sc = {'files': [('f0.c', 'abcdx')], 'rules': [([], 0)],
                      'group': {'first': [mk(9, 'x')], 'main': [mk(1, 'a'), mk(2, 'b'), mk(3, 'c')], 'last': [mk(4, 'd')]},
                      'cfg': {'N': nn, 'no_cache': True}, 'sched': [1] * 30, 'start_with_key': gate, 'skip_initial': skip_initial}
                o = driver.run_scenario(sc, ctx.tmp, mode='reduce')
                ctx.evaluations += 1
                ctx.count('start-with-pass:reduce' + (':skip-initial' if skip_initial else ''))
                if o.diverged or getattr(o, 'code', 0) != 0:
                    continue
                ctx.nontriv(('start-with-reduce', skip_initial, gate, nn))
                before_gate = []
                for (name, joint, _l) in o.after_pass:
                    if name == f'ScriptPass::{gate}':
                        break
                    before_gate.append((name, joint))
                changed = [n_ for n_, j_ in before_gate if j_ != o.disk0]
                if changed:
                    ctx.violation('start-with-gate', f'--start-with-pass ScriptPass::{gate}' + (' with --skip-initial-passes' if skip_initial else '') +
                                  f': {changed[0]} ran and changed the file before the named pass was reached', {'scenario': sc, 'mode': 'reduce'})
    ctx.sample({'scenario': {k: each[0][2].get(k) for k in ('files', 'passes', 'rules', 'cfg', 'sched', 'start_with_key')}, 'impl_output': each[0][1][:40]})
    correspond(ctx, 'c16', each)


def replay(ctx, payload):
    if payload['replay'].get('mode') == 'reduce':
        explore(ctx)
        return
    sc = payload['replay']['scenario']
    o = driver.run_scenario(sc, ctx.tmp)
    print('replay output', o.out)
    oracle(ctx, sc, o)


LEVEL_TEXT = ('Machine-checked theorems on the driver model: committed steps respect max_improvement; accepted steps per file per '
              'pass run are bounded by skip_after_n_transforms and max-transforms (limits >= 1) and "worked" counts them; a closed '
              'start_with_pass gate schedules and changes nothing; a never-succeeding round schedules at most GIVEUP+N+1 candidates '
              'for every schedule (proved by an in-flight invariant); bug directories <= MAX_CRASH_DIRS+1 through a reduction. '
              'Tied to the real TestManager by shim correspondence; the same limits are checked on the real runs.')
LEVEL_NOTE = 'Trusted: Coq kernel, driver model (validated each run), shim. Limit value 0 is "unlimited" in the code (known finding).'
TECHNIQUE = 'Rocq proof (limits, in-flight invariant for give-up) + shim correspondence + limit oracle on real runs'
