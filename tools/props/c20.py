"""C20  The pass statistics report what actually happened."""
import random
import time

from vlib import driver, scengen
from props.common_driver import correspond, TRUSTED as T0

GENERATORS = []
COQ_TARGETS = ['Driver/Script.vo']
RULE = ('fault-profile scenarios (all verdict kinds, cancellations, timeouts, raise) x N x schedules on the real TestManager; '
        'oracle: PassStatistic.worked == steps seen by the wrapped process_result, totally_executed == pool.schedule calls, '
        'failed <= totally_executed, total_seconds >= 0 and sum over passes <= wall time measured around the run; the same '
        'numbers are compared with the Coq model; non-trivial = distinct scenarios with worked > 0, failed > 0 and at least '
        'one cancelled or never-run candidate'
        ' Also: every tenth run with time.time stepped by an hour back and forth (only the monotonic clock may be used).')
TRUSTED = T0 + ['time.monotonic is monotone (the theorem quantifies over any monotone clock)']
ASSUMPTIONS = ['die_on_pass_bug off for the failed<=executed theorem (with it on the round aborts; the bound is still checked on the runs)']


def explore(ctx):
    rnd = random.Random(ctx.seed + 20)
    each = []
    n = 140 if ctx.quick() else 1400
    for it in range(n):
        sc = scengen.gen_scenario(rnd, 'faults' if it % 3 else 'contract')
        if it % 7 == 3:
            # the pass cache is on and contents come back (a pass undoes what another removed): a replay starts no
            # candidate and accepts nothing
            sc = scengen.gen_revisit(rnd, k=rnd.choice([1, 2]))
            sc['cfg']['no_cache'] = False
        if it % 4 == 1:
            sc['passes'] = sc['passes'] + [dict(p) for p in sc['passes']]      # the same passes again (second main-loop iteration)
        # every tenth run the wall clock (time.time) is stepped back and forth by an hour while passes run: only the
        # monotonic clock may be used for pass times
        import cvise.utils.statistics as st_mod
        real_time_mod = st_mod.time
        if it % 10 == 0:
            class SteppedClock:
                calls = 0

                def __getattr__(self, name):
                    return getattr(real_time_mod, name)

                def time(self):
                    SteppedClock.calls += 1
                    return real_time_mod.time() + (3600 if SteppedClock.calls % 2 else -3600)
            st_mod.time = SteppedClock()
            ctx.count('stepped-wall-clock')
        if it % 10 == 5:
            sc['setup_delay'] = 0.12      # set-up before the run's clock starts must not be charged to any pass
        t0 = time.monotonic()
        try:
            o = driver.run_scenario(sc, ctx.tmp)
        finally:
            st_mod.time = real_time_mod
        wall = time.monotonic() - t0
        ctx.evaluations += 1
        if o.diverged:
            ctx.count('diverged')
            continue
        rep = {'scenario': sc}
        sched_calls = o.shim.scheduled
        tot_exec = 0
        for p in o.passes:
            if p['worked'] != len(p['acc']):
                ctx.violation('worked-ne-accepted', f'{p["pass_"]}: worked={p["worked"]} but {len(p["acc"])} transformations were accepted', rep)
            if p['failed'] > p['executed']:
                ctx.violation('failed-gt-executed', f'{p["pass_"]}: failed={p["failed"]} > total executed={p["executed"]}', rep)
            tot_exec += p['executed']
        if tot_exec != sched_calls:
            ctx.violation('executed-ne-started', f'total executed={tot_exec} but {sched_calls} candidates were started', rep)
        secs = [s.total_seconds for s in o.stats.stats.values()]
        if any(s < 0 for s in secs) or sum(secs) > wall + 1e-6:
            ctx.violation('time', f'pass times {secs} vs elapsed {wall}', rep)
        elif hasattr(o, 't_run') and sum(secs) > o.t_run + 1e-6:
            ctx.violation('time', f'pass times {secs} add up to {sum(secs):.3f} s, the run (clock started after the set-up) took {o.t_run:.3f} s', rep)
        each.append((driver.coq_scenario(sc, o.perm), o.out, sc))
        ctx.count(f'N={sc["cfg"]["N"]}:k={len(sc["files"])}')
        if any(p['worked'] for p in o.passes) and any(p['failed'] for p in o.passes) and (o.shim.cancelled or len(o.shim.ran) < sched_calls):
            ctx.nontriv(repr((sc['files'], sc['passes'], sc['rules'], sc['cfg'], sc['sched'])))
    ctx.sample({'scenario': {k: each[0][2][k] for k in ('files', 'passes', 'rules', 'cfg', 'sched')}, 'impl_output': each[0][1][:40]})
    correspond(ctx, 'c20', each)


def replay(ctx, payload):
    sc = payload['replay']['scenario']
    o = driver.run_scenario(sc, ctx.tmp)
    print('replay output', o.out, 'scheduled', o.shim.scheduled)
    for p in o.passes:
        if p['worked'] != len(p['acc']):
            ctx.violation('worked-ne-accepted', 'replayed', payload['replay'])
        if p['failed'] > p['executed']:
            ctx.violation('failed-gt-executed', 'replayed', payload['replay'])
    if sum(p['executed'] for p in o.passes) != o.shim.scheduled:
        ctx.violation('executed-ne-started', 'replayed', payload['replay'])


LEVEL_TEXT = ('Machine-checked theorems on the driver model: worked = number of accepted steps; per round at most one failure is '
              'recorded per scheduled candidate (counting argument over scan / wait_for_first_success, any schedule, N, faults), '
              'hence failed <= total executed for a pass run; attributed time is non-negative and bounded by elapsed time for any '
              'monotone clock. The counters are compared with the real PassStatistic after shim-driven runs of the real TestManager.')
LEVEL_NOTE = 'Trusted: Coq kernel, driver model (validated each run), shim (counts pool.schedule calls).'
TECHNIQUE = 'Rocq proof (counting invariant over the round) + shim correspondence of the real counters'
