"""C17  Misuse is refused cleanly with a readable C-Vise error and no side effects."""
import itertools
import json
import os
import random
import shutil
import subprocess
import tempfile

from vlib import coq, driver

GENERATORS = []
COQ_TARGETS = ['Driver/StartupCorr.vo']
RULE = ('start-up misuse: every combination of per-test-case faults (missing, unreadable, unwritable, absolute path) over 1-3 test '
        'cases x interestingness test (fine, missing, not executable) x sanity verdict, run on the REAL TestManager constructor + '
        'CVise.reduce in a child process that has dropped root (os.access grants everything to root), with a before/after snapshot; '
        'pass-argument misuse: every Python pass class x (each accepted argument, a bogus one, None) through the real run_pass; '
        'observed: exception class, str() of it, the item it names, working directory snapshot; the error kind and the offending '
        'item are compared with the Coq decision table; non-trivial = distinct misuse combinations'
        ' Also: an uninteresting input answered with the --also-interesting exit code, and by a test that appends to its own copy of the input (same file system).')
TRUSTED = ['decision-table model coq/Driver/Startup.v tied to testing.py / cvise.py by this correspondence run',
           'the child process runs as `nobody` on a scratch tree it owns (for the permission classes)']
ASSUMPTIONS = ['misuse of the command line itself (argparse) is outside; the top-level script cvise.py constructs the TestManager outside its try block, so constructor errors surface as a traceback of the C-Vise error class (type and message still as stated)']
HERE = os.path.dirname(os.path.abspath(__file__))
CHILD = os.path.join(os.path.dirname(HERE), 'vlib', 'misuse_child.py')

KIND = {'InvalidTestCaseError': 1, 'AbsolutePathTestCaseError': 2, 'InvalidInterestingnessTestError': 3, 'InsaneTestCaseError': 4}


def traversable_by_others(path):
    p = os.path.abspath(path)
    while True:
        try:
            if not os.stat(p).st_mode & 0o001:
                return False
        except OSError:
            return False
        if p == '/':
            return True
        p = os.path.dirname(p)


def scratch_parent(ctx):
    """The child runs as `nobody`: its scratch tree must sit below directories that user can
    traverse (a checkout of /verif under /root, for instance, is not).  Each case directory is
    removed right after the case."""
    for cand in (ctx.work, '/tmp', '/var/tmp', '/dev/shm'):
        if os.path.isdir(cand) and traversable_by_others(cand):
            return cand
    return ctx.work


def startup_case(ctx, faults, script_fault, sanity_ok, sanity_mode='exit1', bare_script=False):
    """faults: per test case one of ok/missing/unreadable/unwritable/absolute"""
    base = tempfile.mkdtemp(prefix='mis-', dir=scratch_parent(ctx))
    os.chmod(base, 0o755)
    work = os.path.join(base, 'w')
    tmp = os.path.join(base, 't')
    os.mkdir(work)
    os.mkdir(tmp)
    names = []
    for i, f in enumerate(faults):
        n = f'tc{i}.c' if i == 0 else 'sub/tc1.c' if i == 1 else 'b{r}/tc{%d}.c' % i      # (braces: the name ends up in messages)
        p = os.path.join(work, n)
        os.makedirs(os.path.dirname(p), exist_ok=True)
        if f != 'missing':
            with open(p, 'w') as fh:
                fh.write('' if sanity_mode == 'empty' else 'int keep;\n')
        if f == 'unreadable':
            os.chmod(p, 0o200)
        if f == 'unwritable':
            os.chmod(p, 0o444)
        names.append(os.path.join(work, n) if f == 'absolute' else n)
    with open(os.path.join(work, 'other.txt'), 'w') as fh:
        fh.write('x')
    script = os.path.join(work, 'test.sh')
    if script_fault != 'missing':
        with open(script, 'w') as fh:
            if sanity_ok or sanity_mode in ('exit1', 'empty'):
                fh.write('#!/bin/sh\nexit %d\n' % (0 if sanity_ok else 1))
            elif sanity_mode == 'also':
                fh.write('#!/bin/sh\nexit 7\n')          # the --also-interesting code is NOT "interesting"
            elif sanity_mode == 'noise':
                # an uninteresting input; the test quotes bytes that are not valid UTF-8 (a compiler citing a Latin-1 source line)
                fh.write('#!/bin/sh\nprintf \'\\377\\376 caf\\351 \\303\\050\\n\'\nprintf \'\\200\\201 error\\n\' >&2\nexit 1\n')
            else:
                # an uninteresting input whose test also writes to its own copy of the input
                fh.write('#!/bin/sh\nfor f in tc0.c sub/tc1.c "b{r}/tc{2}.c"; do [ -f "$f" ] && echo scribble >> "$f"; done\nexit 1\n')
        os.chmod(script, 0o644 if script_fault == 'noexec' else 0o755)
    for dp, dns, fns in os.walk(base):
        os.chown(dp, 65534, 65534)
        for x in fns:
            os.chown(os.path.join(dp, x), 65534, 65534)
    decoy = None
    if bare_script:
        # the test is named without a directory part ('test.sh'), and a program of that name happens to be on PATH
        decoy = os.path.join(base, 'decoy-bin')
        os.mkdir(decoy)
        with open(os.path.join(decoy, 'test.sh'), 'w') as fh:
            fh.write('#!/bin/sh\nexit 0\n')
        os.chmod(os.path.join(decoy, 'test.sh'), 0o755)
        os.chmod(decoy, 0o755)
    case = {'work': work, 'tmp': tmp, 'script': 'test.sh' if bare_script else script, 'test_cases': names, 'also_interesting': 7 if sanity_mode == 'also' else None}
    cf = os.path.join(base, 'case.json')
    with open(cf, 'w') as fh:
        json.dump(case, fh)
    os.chown(cf, 65534, 65534)
    env = dict(os.environ, PYTHONPATH=os.environ.get('VERIF_REPO', '/repo'), HOME=base)
    if decoy:
        env['PATH'] = decoy + os.pathsep + env.get('PATH', '')
    r = subprocess.run(['/venv/bin/python', CHILD, cf, 'drop'], capture_output=True, text=True, env=env)
    shutil.rmtree(base, ignore_errors=True)
    try:
        return json.loads(r.stdout.strip().split('\n')[-1]), names
    except Exception:
        return {'exc': 'CHILD-FAILED', 'str': r.stderr[-400:], 'unchanged': False, 'is_cvise_error': False}, names


def expected(faults, script_fault, sanity_ok):
    for i, f in enumerate(faults):
        if f == 'missing':
            return ('InvalidTestCaseError', i, os.F_OK)
        if f == 'unreadable':
            return ('InvalidTestCaseError', i, os.R_OK)
        if f == 'unwritable':
            return ('InvalidTestCaseError', i, os.W_OK)
        if f == 'absolute':
            return ('AbsolutePathTestCaseError', i, None)
    if script_fault != 'ok':
        return ('InvalidInterestingnessTestError', None, None)
    if not sanity_ok:
        return ('InsaneTestCaseError', None, None)
    return None


def coq_env(faults, script_fault, sanity_ok, names):
    b = lambda v: 'true' if v else 'false'
    tcs = []
    for f, n in zip(faults, names):
        tcs.append(f'(mktc "{n}" {b(f != "missing")} {b(f not in ("missing", "unreadable"))} {b(f not in ("missing", "unwritable"))} {b(f == "absolute")})')
    return f'(mkse [{"; ".join(tcs)}] {b(script_fault != "missing")} {b(script_fault == "ok")} {b(sanity_ok)})'


def explore(ctx):
    rnd = random.Random(ctx.seed + 17)
    cases = []
    combos = []
    kinds = ['ok', 'missing', 'unreadable', 'unwritable', 'absolute']
    for k in (1, 2, 3):
        for faults in itertools.product(kinds, repeat=k):
            combos.append(faults)
    rnd.shuffle(combos)
    singles = [c for c in combos if len(c) == 1]
    # (the third test case has braces in its name: the misuse that names it is always included)
    sel = singles + [('ok', 'ok', 'missing'), ('ok', 'ok', 'unreadable'), ('ok', 'ok', 'unwritable'), ('ok', 'ok', 'absolute')] \
        + [c for c in combos if len(c) > 1][: (14 if ctx.quick() else 150)]
    for faults in sel:
        for script_fault, sanity_ok in ([('ok', True)] if any(f != 'ok' for f in faults) and rnd.random() < 0.6 else
                                        [('ok', True), ('missing', True), ('noexec', True), ('ok', False)]):
            res, names = startup_case(ctx, faults, script_fault, sanity_ok)
            exp = expected(faults, script_fault, sanity_ok)
            ctx.evaluations += 1
            ctx.nontriv((faults, script_fault, sanity_ok))
            ctx.count('startup:' + (exp[0] if exp else 'ok'))
            rep = {'faults': list(faults), 'script': script_fault, 'sanity_ok': sanity_ok}
            what = f'test cases {list(zip(names, faults))}, interestingness test {script_fault}, sanity {"ok" if sanity_ok else "fails"}'
            if exp is None:
                if res['exc'] is not None:
                    ctx.violation('valid-input-refused', f'{what}: raised {res["exc"]}', rep)
                out = [0]
            else:
                cls, idx, acc = exp
                item = names[idx] if idx is not None else None
                if res['exc'] != cls:
                    ctx.violation(f'wrong-error:{cls}:got-{res["exc"]}', f'{what}: expected {cls}, got {res["exc"]} ({res.get("str", "")[:120]})', rep)
                elif 'str_raises' in res:
                    ctx.violation(f'unprintable:{cls}', f'{what}: str() of the error raises {res["str_raises"]}', rep)
                else:
                    msg = res.get('str', '')
                    if item is not None and os.path.basename(item) not in msg:
                        ctx.violation(f'message-omits-item:{cls}', f'{what}: message {msg[:160]!r} does not name {item}', rep)
                    if cls in ('InvalidInterestingnessTestError', 'InsaneTestCaseError') and 'test.sh' not in msg:
                        ctx.violation(f'message-omits-item:{cls}', f'{what}: message does not name the interestingness test', rep)
                    if acc is not None and res.get('access') != acc:
                        ctx.violation(f'wrong-access-kind:{cls}', f'{what}: reported access kind {res.get("access")}, expected {acc}', rep)
                if not res.get('unchanged'):
                    ctx.violation('startup-side-effect', f'{what}: the working directory changed although start-up was refused', rep)
                if res.get('tmp_left'):
                    ctx.violation('startup-tmp-left', f'{what}: TMPDIR holds {res["tmp_left"]} after the refusal', rep)
                k = KIND.get(res['exc'], 9)
                out = [k] + ([{0: 0, 4: 4, 2: 2}.get(res.get('access'), 9), idx] if k == 1 else [idx] if k == 2 else [])
            cases.append((coq_env(faults, script_fault, sanity_ok, names), out))
    # an uninteresting input must be refused also when the test answers with the --also-interesting code, and a test
    # that writes to its copy of the input must not reach the user's files (same file system: TMPDIR next to the work dir)
    for mode in ('also', 'scribble', 'noise', 'empty'):
        for faults in (('ok',), ('ok', 'ok'), ('ok', 'ok', 'ok')):
            res, names = startup_case(ctx, faults, 'ok', False, sanity_mode=mode)
            ctx.evaluations += 1
            ctx.nontriv((faults, 'sanity', mode))
            ctx.count('startup:InsaneTestCaseError:' + mode)
            rep = {'faults': list(faults), 'script': 'ok', 'sanity_ok': False, 'sanity_mode': mode}
            if res['exc'] != 'InsaneTestCaseError':
                ctx.violation(f'wrong-error:InsaneTestCaseError:got-{res["exc"]}', f'uninteresting input, test {"exits with the also-interesting code 7" if mode == "also" else "exits 1 after printing bytes that are not UTF-8" if mode == "noise" else "rejects the (empty) test cases" if mode == "empty" else "exits 1 after appending to its input"}: expected InsaneTestCaseError, got {res["exc"]}', rep)
            if not res.get('unchanged'):
                ctx.violation('startup-side-effect', f'uninteresting input ({mode}): the working directory changed although start-up was refused', rep)
    # the interestingness test named without a directory part while a program of the same name is on PATH: what is in the
    # working directory counts (missing / not executable -> refused, naming it; nothing touched)
    for script_fault in ('noexec', 'missing'):
        res, names = startup_case(ctx, ('ok', 'ok'), script_fault, True, bare_script=True)
        ctx.evaluations += 1
        ctx.nontriv(('bare-script', script_fault))
        ctx.count('startup:bare-test-name:' + script_fault)
        rep = {'faults': ['ok', 'ok'], 'script': script_fault, 'sanity_ok': True, 'bare_script': True}
        if res['exc'] != 'InvalidInterestingnessTestError':
            ctx.violation(f'wrong-error:InvalidInterestingnessTestError:got-{res["exc"]}', f'interestingness test given as "test.sh" ({script_fault} in the working directory, an executable '
                          f'test.sh on PATH): expected InvalidInterestingnessTestError, got {res["exc"]}', rep)
        if not res.get('unchanged'):
            ctx.violation('startup-side-effect', f'interestingness test given as "test.sh" ({script_fault}): the working directory changed', rep)
    commands_mode(ctx)
    ctx.sample({'misuse': ['ok', 'unreadable'], 'expected': 'InvalidTestCaseError naming sub/tc1.c, access R_OK'})
    bad = coq.corr_eval('c17', ['From CV Require Import Driver.Startup Driver.StartupCorr.', 'From Coq Require Import String.', 'Open Scope string_scope.'],
                        'run_startup', cases, shard=200)
    ctx.corr_cases += len(cases)
    ctx.corr_disagree += len(bad)
    for b in bad[:5]:
        ctx.broke('correspondence', 'start-up decision table', f'{cases[b][0]} impl {cases[b][1]}')
    pass_arguments(ctx)


def commands_mode(ctx):
    """cvise.py --commands '...' (the test is generated from a shell command) on misuse that is refused at start-up:
    the working directory must be exactly as before (run through the real command line in a child process)"""
    child = os.path.join(os.path.dirname(os.path.dirname(os.path.abspath(__file__))), 'vlib', 'cli_child.py')
    repo = os.environ.get('VERIF_REPO', '/repo')
    for what, files, cmd, tcs in (('missing test case', {'a.c': 'int a;\n'}, 'true', ['nope.c']),
                                  ('uninteresting input', {'a.c': 'int a;\n', 'sub/b.h': 'x\n'}, 'exit 1', ['a.c']),
                                  ('absolute path', {'a.c': 'int a;\n'}, 'true', ['/etc/hostname'])):
        base = tempfile.mkdtemp(prefix='cmds-', dir=ctx.tmp)
        work = os.path.join(base, 'w')
        tmpd = os.path.join(base, 't')
        os.mkdir(tmpd)
        for n, c in files.items():
            os.makedirs(os.path.dirname(os.path.join(work, n)), exist_ok=True)
            with open(os.path.join(work, n), 'w') as fh:
                fh.write(c)

        def snap():
            out = {}
            for dp, dns, fns in os.walk(work):
                for x in dns + fns:
                    pth = os.path.join(dp, x)
                    out[os.path.relpath(pth, work)] = open(pth, 'rb').read() if os.path.isfile(pth) else None
            return out
        before = snap()
        r = subprocess.run(['/venv/bin/python', child, 'linux', '--commands', cmd, '--no-timing', '--n', '1'] + tcs, cwd=work, capture_output=True, text=True,
                           env=dict(os.environ, PYTHONPATH=repo, VERIF_REPO=repo, TMPDIR=tmpd), timeout=120)
        ctx.evaluations += 1
        ctx.count('startup:--commands:' + what)
        ctx.nontriv(('commands', what))
        after = snap()
        rep = {'commands': cmd, 'test_cases': tcs, 'what': what}
        # (the command line prints the C-Vise error and ends; its exit status is not what is studied here)
        if after != before:
            ctx.violation('startup-side-effect', f'cvise.py --commands {cmd!r} {tcs} ({what}) was refused, but the working directory changed: '
                          f'new {sorted(set(after) - set(before))}, gone {sorted(set(before) - set(after))}', rep)


def pass_arguments(ctx):
    """An unknown pass argument must stop C-Vise with UnknownArgumentError (a CViseError) that can be
    printed and names the argument and the pass — through the real run_pass, not swallowed in a worker."""
    from gen import pyconv
    from cvise.cvise import CVise
    from cvise.utils.error import CViseError, UnknownArgumentError
    texts = ['int a = (1 ? 2 : 3) + f(0x10, b);\nstruct S { int x; };\n',
             'long z;\n(w ? y : z) + g(y);\n']        # nothing a pass could work on (no digit, no hex letter): the argument is still wrong
    for name, text in [(n, t) for n in ('balanced', 'ints', 'special', 'ternary', 'peep', 'indent') for t in texts]:
        cls = CVise.pass_name_mapping[name]
        for arg in ['bogus-arg', None, ['a'], {'mode': 'a'}, 3, '']:      # a pass-group file is JSON: the argument may be any JSON value
            p = cls(arg, {'clang-format': '/bin/true'})
            p.max_transforms = None
            sc = {'files': [('t.c', text)], 'rules': [([], 0)], 'passes': [], 'cfg': {'N': 2, 'no_cache': True}, 'sched': [1, 1, 1, 1, 1, 1]}
            o = driver.run_scenario(sc, ctx.tmp, real_passes=[p])
            ctx.evaluations += 1
            ctx.count('pass-argument:' + name)
            ctx.nontriv(('arg', name, repr(arg)))
            rep = {'pass': name, 'arg': arg}
            ps = o.passes[0]
            e = ps['exc']
            if e is None:
                ctx.violation(f'unknown-argument-accepted:{name}', f'pass {name} with argument {arg!r}: run_pass returned normally (executed {ps["executed"]} candidates) instead of stopping with UnknownArgumentError', rep)
                continue
            if not isinstance(e, UnknownArgumentError):
                ctx.violation(f'unknown-argument-wrong-error:{name}', f'pass {name} with argument {arg!r}: raised {type(e).__name__}: {str(e)[:100] if not isinstance(e, CViseError) else ""}', rep)
                continue
            try:
                msg = str(e)
            except BaseException as e2:
                ctx.violation('unprintable:UnknownArgumentError', f'pass {name} with argument {arg!r}: str() of UnknownArgumentError raises {type(e2).__name__}: {e2}', rep)
                continue
            if str(arg) not in msg or cls.__name__ not in msg:
                ctx.violation('message-omits-item:UnknownArgumentError', f'message {msg!r} does not name the argument and the pass', rep)
            if ps['disk'] != o.disk0:
                ctx.violation('misuse-side-effect', f'pass {name} with argument {arg!r} changed the test case before failing', rep)


def replay(ctx, payload):
    r = payload['replay']
    if r.get('commands') is not None:
        commands_mode(ctx)
        return
    if r.get('bare_script'):
        res, names = startup_case(ctx, r['faults'], r['script'], r['sanity_ok'], bare_script=True)
        print('replay:', res)
        if res['exc'] != 'InvalidInterestingnessTestError' or not res.get('unchanged'):
            ctx.violation('wrong-error:InvalidInterestingnessTestError:got-' + str(res['exc']), 'replayed', r)
        return
    if r.get('sanity_mode'):
        res, names = startup_case(ctx, r['faults'], r['script'], r['sanity_ok'], sanity_mode=r['sanity_mode'])
        print('replay:', res)
        if res['exc'] != 'InsaneTestCaseError' or not res.get('unchanged'):
            ctx.violation('replayed', f'{res}', r)
        return
    if 'faults' in r:
        res, names = startup_case(ctx, tuple(r['faults']), r['script'], r['sanity_ok'])
        print('replay:', res, 'expected', expected(tuple(r['faults']), r['script'], r['sanity_ok']))
        exp = expected(tuple(r['faults']), r['script'], r['sanity_ok'])
        if (exp is None) != (res['exc'] is None) or (exp and (res['exc'] != exp[0] or 'str_raises' in res or not res.get('unchanged'))):
            ctx.violation('replayed', str(res)[:300], r)
    else:
        pass_arguments(ctx)


LEVEL_TEXT = ('Machine-checked decision table for start-up validation: success iff nothing is misused, otherwise the C-Vise error class of '
              'the first offending item in validation order, with no write to the working directory before the verdict. Tied to the real '
              'TestManager constructor and CVise.reduce on every combination of per-file faults (run as an unprivileged user), the '
              'interestingness-test faults and the sanity verdict: exception class, printable message naming the item, untouched '
              'directory. Unknown pass arguments are driven through the real run_pass for every argument-taking Python pass.')
LEVEL_NOTE = ('Trusted: Coq kernel, the decision table (validated each run). Permission classes need setuid(nobody) in a child process. '
              'The rendering of messages is checked on the real exceptions, not proved.')
TECHNIQUE = 'Rocq proof over a start-up decision table + exhaustive misuse enumeration on the real constructor/reduce (unprivileged child) and run_pass'
