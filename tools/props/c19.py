"""C19  Every clang_delta transformation follows the counter protocol."""
import os
import re

from vlib import coq

GENERATORS = ['clangdelta']
COQ_TARGETS = ['ClangDelta/SkeletonProofs.vo']
RULE = ('finite domain enumerated completely: the 73 registered transformations; for each, the control-flow skeleton of '
        'HandleTranslationUnit extracted from the source (if/else, return, assignments to TransError / ValidInstanceNum, loops '
        'unrolled once, every other statement classified may-rewrite by a call-graph closure over the translation unit down to '
        'mutating Rewriter calls) x 8 environments (query, warn, out-of-bounds) x all 2^k oracles of its k opaque conditions, '
        'evaluated inside Coq by the verified checker; non-trivial = distinct transformations')
TRUSTED = ['extractor tools/gen/clangdelta.py (C++-subset statement parser + name/class-based may-rewrite closure; fail-closed on unknown statement forms): the ONLY tie to the C++ code, clang_delta cannot be built offline, so no correspondence run exists for this property',
           'skeleton semantics coq/ClangDelta/Skeleton.v; loops are unrolled once; a statement is may-rewrite iff a mutating Rewriter / RewriteHelper call is syntactically reachable']
ASSUMPTIONS = ['C++ semantics of the transformations is out of reach; the theorem is about the protocol shape of the extracted skeletons',
               'for the five rename-* transformations the out-of-range error may be "nothing to rename" instead of TransMaxInstanceError (stated in Props/C19.v)']
IMPORTS = ['From Coq Require Import List ZArith Bool.', 'Import ListNotations.', 'From CV Require Import Config.PassGroup Config.Shipped ClangDelta.Skeleton.', 'From CV Require Gen.ClangDelta.',
           'From Coq Require Import String.', 'Open Scope string_scope.']


def explore(ctx):
    from gen import clangdelta
    try:
        stats = clangdelta.generate()
    except Exception as e:
        return
    ctx.evaluations += stats['registrations']
    ctx.extra['exhaustive'] = True
    ctx.extra['extractor'] = stats
    try:
        res = coq.eval_terms('c19', IMPORTS, [
            'Definition cex (n:nat) (p:stmt) := flat_map (fun e => map (fun l => (e, l)) (filter (fun l => negb (obeys e (exec e (orc_of l) p st0))) (all_bits n))) envs.'], [
            'map (fun t => (fst (fst t), hd_error (cex (snd (fst t)) (snd t)))) (filter (fun t => negb (bounded (snd (fst t)) (snd t) && protocol_ok (snd (fst t)) (snd t))) Gen.ClangDelta.skeletons)',
            'map (fun t => fst (fst t)) (filter (fun t => negb (protocol_strict (snd (fst t)) (snd t))) Gen.ClangDelta.skeletons)',
            'nodup_str (map (fun r => fst (fst r)) Gen.ClangDelta.registrations)',
            'map (fun t => (fst (fst t), snd (fst t))) Gen.ClangDelta.skeletons'])
        for name in re.findall(r'\("([^"]+)", ', res[3]):
            ctx.nontriv(name)
        ctx.sample({'skeleton_opaque_conditions': res[3][:300]})
        bad = re.findall(r'\("([^"]+)",\s*(Some \(\{\|.*?\|\},\s*\[[^\]]*\]\)|None)\)', res[0])
        for name, cex in bad:
            ctx.violation('protocol:' + name, f'transformation {name}: HandleTranslationUnit can rewrite under --query-instances or miss the out-of-range error; counterexample (query, warn, counter-out-of-bounds; opaque condition outcomes): {" ".join(cex.split())[:300]}',
                          {'transformation': name, 'counterexample': cex})
        strict = set(re.findall(r'"([^"]+)"', res[1]))
        extra = strict - {'rename-class', 'rename-cxx-method', 'rename-fun', 'rename-param', 'rename-var'}
        for name in sorted(extra):
            ctx.violation('not-max-instance:' + name, f'transformation {name}: an out-of-range counter can end in an error other than TransMaxInstanceError', {'transformation': name})
        if res[2].strip() != 'true':
            ctx.violation('duplicate-registration', 'a transformation name is registered twice', {})
        ctx.sample({'transformations_checked': stats['registrations'], 'strict_exceptions': sorted(strict)})
    except Exception as e:
        ctx.broke('table-evaluation', 'Gen.ClangDelta', repr(e)[:2000])
    try:
        r = coq.eval_terms('c19drv', IMPORTS, [], [
            'let p := Gen.ClangDelta.driver_skeleton in (bounded (fst p) (snd p), query_safe (fst p) (snd p))'])
        if 'false' in r[0]:
            ctx.violation('driver-outputs-under-query', 'TransformationManager::doTransformation can open or write the output (getOutStream / output*Source / closeOutStream) '
                          'although --query-instances was given: the statement order lets an output call run before the query return', {'function': 'TransformationManager::doTransformation'})
    except Exception as e:
        ctx.broke('table-evaluation', 'driver skeleton', repr(e)[:500])
    try:
        for stmt in clangdelta.manager_counter_writes():
            ctx.violation('manager-rewrites-counter', f'{stmt} - the counter given on the command line does not reach the transformation unchanged '
                          '(its own range check then sees another value)', {'statement': stmt})
        for stmt in clangdelta.unit_handler_stops():
            ctx.violation('parse-stopped-before-protocol', f'{stmt} - clang stops parsing when a consumer returns false from HandleTopLevelDecl: '
                          'HandleTranslationUnit with the query / range clauses is never called', {'statement': stmt})
    except Exception as e:
        ctx.broke('table-evaluation', 'counter flow', repr(e)[:500])
    try:
        r = coq.eval_terms('c19warn', IMPORTS, [], [
            'map (fun t => fst (fst t)) (filter (fun t => negb (oob_strict_with is_fatal (snd (fst t)) (snd t) || mem (fst (fst t)) Gen.ClangDelta.warn_supported)) Gen.ClangDelta.skeletons)'])
        for name in sorted(set(re.findall(r'"([^"]+)"', r[0]))):
            ctx.violation('warn-switch-honoured:' + name, f'transformation {name}: with --warn-on-counter-out-of-bounds a counter beyond the number of instances no longer ends in the '
                          f'out-of-range error (HandleTranslationUnit goes on to rewrite); the switch is documented for {clangdelta.warn_supported()} only',
                          {'transformation': name, 'flags': '--warn-on-counter-out-of-bounds', 'counter': 'beyond the number of instances'})
    except Exception as e:
        ctx.broke('table-evaluation', 'warn switch', repr(e)[:500])
    try:
        from gen import clangdelta as _cd
        for (c_, t_, w_, rf, er) in _cd.counter_validity_table():
            want = (c_ or t_) and not w_
            if rf != want or er != want:
                ctx.violation('check-counter-validity', f'Transformation::checkCounterValidity with counter {"beyond" if c_ else "within"} / to-counter {"beyond" if t_ else "within"} the instances, warn flag '
                              f'{"on" if w_ else "off"}: returns {"false" if rf else "true"}, error {"set" if er else "not set"} (expected {"false, set" if want else "true, not set"})',
                              {'function': 'Transformation::checkCounterValidity', 'counter_oob': c_, 'to_counter_oob': t_, 'warn': w_})
    except Exception:
        pass        # a translator failure is reported by the generator stage
    counter_arguments(ctx)
    try:
        sensitivity(ctx)
    except Exception as e:      # evidence only
        ctx.extra['extractor_sensitivity'] = {'error': repr(e)[:500]}



ARG_VALUES = ['1', '2', '7', '0', '-1', '-3', '+4', '007', '5x', ' 7', '\t9', '7 ', '0x10', '', 'abc', '-', '+', '- 4', '+-4', '--4', '1e3', '1.5',
              '2147483646', '2147483647', '2147483648', '2147483649', '-2147483648', '-2147483649', '4294967295', '4294967296', '4294967297',
              '4294967298', '8589934593', '9223372036854775807', '9223372036854775808', '18446744073709551617', '99999999999999999999999',
              '-4294967295', '-4294967297', '00000000000000000000003', '12,5', '3\n', '\n3']


def build_argparser(ctx):
    """clang_delta/ClangDelta.cpp (the command-line parser and main) compiled VERBATIM against stand-in headers
    (tools/standins/cxxstubs): the stand-in manager prints the counters the parser handed over"""
    import shutil
    import subprocess
    repo = os.environ.get('VERIF_REPO', '/repo')
    stubs = os.path.join(os.path.dirname(os.path.dirname(os.path.abspath(__file__))), 'standins', 'cxxstubs')
    d = os.path.join(ctx.tmp, 'argparser')
    os.makedirs(d, exist_ok=True)
    shutil.copy(os.path.join(repo, 'clang_delta', 'ClangDelta.cpp'), os.path.join(d, 'ClangDelta.cpp'))
    m = re.search(r'int\s+TransformationManager::ErrorInvalidCounter\s*=\s*(-?\d+)\s*;', open(os.path.join(repo, 'clang_delta', 'TransformationManager.cpp')).read())
    if not m:
        return None, 'TransformationManager::ErrorInvalidCounter not found'
    tm_src = open(os.path.join(repo, 'clang_delta', 'TransformationManager.cpp')).read()
    mv = re.search(r'\nbool\s+TransformationManager::verify\s*\(', tm_src)
    if not mv:
        return None, 'TransformationManager::verify not found'
    i = tm_src.index('{', mv.end())
    depth, j = 1, i + 1
    while depth and j < len(tm_src):
        depth += {'{': 1, '}': -1}.get(tm_src[j], 0)
        j += 1
    with open(os.path.join(d, 'consts.cpp'), 'w') as f:
        f.write('#include "TransformationManager.h"\nint TransformationManager::ErrorInvalidCounter = %s;\n' % m.group(1))
        f.write('// TransformationManager::verify, verbatim from clang_delta/TransformationManager.cpp\n' + tm_src[mv.start():j] + '\n')
    r = subprocess.run(['g++', '-std=c++17', '-O0', '-w', '-iquote', stubs, '-I', stubs, '-o', 'argp', 'ClangDelta.cpp', 'consts.cpp'], cwd=d, capture_output=True, text=True, timeout=300)
    if r.returncode != 0:
        return None, r.stderr[-1500:]
    return os.path.join(d, 'argp'), int(m.group(1))


def run_argparser(exe, which, value):
    import subprocess
    args = [exe, '--transformation=x', f'--{which}={value}', 'f.c'] if which == 'counter' else [exe, '--transformation=x', '--counter=1', f'--{which}={value}', 'f.c']
    r = subprocess.run(args, capture_output=True, text=True, timeout=20)
    m = re.search(r'PARSED counter=(unset:)?(-?\d+) to-counter=(unset:)?(-?\d+)', r.stdout)
    if m:
        return ('ok', int(m.group(2)) if which == 'counter' else int(m.group(4))), r
    return ('die', r.returncode), r


def denoted(value):
    """the integer a decimal argument denotes (optional blanks, optional sign, digits; what follows is ignored), or None"""
    m = re.match(r'[ \t\n\v\f\r]*([+-]?)([0-9]+)', value)
    if not m:
        return None
    return (-1 if m.group(1) == '-' else 1) * int(m.group(2))


def counter_arguments(ctx):
    exe, info = build_argparser(ctx)
    if exe is None:
        ctx.broke('translator', 'clang_delta/ClangDelta.cpp against the stand-in manager', f'cannot build the command-line parser: {info}')
        return
    cases, cases_to = [], []
    for which in ('counter', 'to-counter'):
        for v in ARG_VALUES:
            got, r = run_argparser(exe, which, v)
            ctx.evaluations += 1
            ctx.count('command-line:--' + which)
            d = denoted(v)
            rep = {'argument': f'--{which}={v}', 'kind': 'argv'}
            if got[0] == 'ok':
                ctx.nontriv(('argv', which, v))
                if d is None or got[1] != d:
                    ctx.violation('counter-argument-misread', f'clang_delta --{which}={v!r}: the transformation is handed {got[1]}' +
                                  (f'; the argument denotes {d}' if d is not None else '; the argument is not a number') +
                                  ' (a counter beyond the number of instances can look like a valid one)', rep)
            elif d is not None and -2 ** 31 <= d < 2 ** 31 and (d >= 1 if which == 'counter' else True):
                ctx.violation('counter-argument-refused', f'clang_delta --{which}={v!r} is refused (exit {got[1]}) although it denotes {d}', rep)
            elif got[1] != info % 256:
                ctx.violation('counter-argument-wrong-exit', f'clang_delta --{which}={v!r}: refused with exit {got[1]}, the invalid-counter exit is {info}', rep)
            enc = '[' + ';'.join(str(ord(ch)) for ch in v) + ']%N' if v else '(@nil N)'
            (cases if which == 'counter' else cases_to).append((enc, [1, got[1]] if got[0] == 'ok' else [0]))
    # the manager's own sanity check of the pair (real TransformationManager::verify): every range the binary-search driver can
    # ask for (1 <= counter <= to-counter, a single instance k..k included) is let through; a counter below 1 or a to-counter
    # below the counter is refused with the invalid-counter exit
    import subprocess
    vcases = []
    for c_, t_ in [(1, 1), (2, 2), (5, 5), (1, 2), (1, 8), (3, 4), (4, 3), (2, 1), (0, 1), (0, 0), (-1, 3), (1, 0), (1, -1), (3, -5), (7, None), (0, None), (-2, None)]:
        args = [exe, '--transformation=x', f'--counter={c_}'] + ([f'--to-counter={t_}'] if t_ is not None else []) + ['f.c']
        r = subprocess.run(args, capture_output=True, text=True, timeout=20)
        ok_ = 'PARSED' in r.stdout
        want_ = c_ >= 1 and (t_ is None or t_ <= 0 or t_ >= c_)
        ctx.evaluations += 1
        ctx.count('command-line:verify(counter, to-counter)')
        if ok_ != want_:
            ctx.violation('counter-pair-' + ('refused' if want_ else 'accepted'), f'clang_delta --counter={c_}' + (f' --to-counter={t_}' if t_ is not None else '') +
                          f': {"let through" if ok_ else "refused (exit %d)" % r.returncode} by TransformationManager::verify; ' +
                          ('the binary-search driver asks for exactly such ranges' if want_ else 'such a pair is not a range'), {'argument': f'--counter={c_} --to-counter={t_}', 'kind': 'argv'})
        elif not ok_ and r.returncode != info % 256:
            ctx.violation('counter-argument-wrong-exit', f'--counter={c_} --to-counter={t_}: refused with exit {r.returncode}, the invalid-counter exit is {info}', {'argument': f'--counter={c_} --to-counter={t_}', 'kind': 'argv'})
        vcases.append((f'(({c_})%Z, ({t_ if t_ is not None else -1})%Z)', [1 if ok_ else 0]))
    badv = coq.corr_eval('c19verify', ['From Coq Require Import List NArith ZArith.', 'Import ListNotations.', 'From CV Require Import Base.Corr ClangDelta.ArgParse.'], 'verify_case', vcases, shard=200)
    ctx.corr_cases += len(vcases)
    ctx.corr_disagree += len(badv)
    for b in badv[:5]:
        ctx.broke('correspondence', 'TransformationManager::verify vs ArgParse.verify_ok', f'pair {vcases[b][0]}: implementation {vcases[b][1]}')
    bad = coq.corr_eval('c19argv', ['From Coq Require Import List NArith ZArith.', 'Import ListNotations.', 'From CV Require Import Base.Corr ClangDelta.ArgParse.'], 'argv_counter_case', cases, shard=200)
    bad += coq.corr_eval('c19argvt', ['From Coq Require Import List NArith ZArith.', 'Import ListNotations.', 'From CV Require Import Base.Corr ClangDelta.ArgParse.'], 'argv_to_counter_case', cases_to, shard=200)
    ctx.corr_cases += len(cases) + len(cases_to)
    ctx.corr_disagree += len(bad)
    for b in bad[:5]:
        ctx.broke('correspondence', 'counter argument parser (ClangDelta.cpp) vs ArgParse.parse_counter', f'argument {ARG_VALUES[b % len(ARG_VALUES)]!r}: implementation {cases[b][1]}')


def sensitivity(ctx):
    """How sharp is the extractor (the only tie)?  Seed protocol-breaking edits into a scratch COPY of
    clang_delta/ (never into the repository) and see whether extractor + Coq checker notice each.
    Reported in the evidence only: a survivor is a blind spot of the tie, not a defect of cvise."""
    import os
    import shutil
    from gen import clangdelta
    src = clangdelta.CD
    dst = os.path.join(ctx.tmp, 'clang_delta_copy')
    shutil.copytree(src, dst)
    old = clangdelta.CD
    rows, meta = [], []
    try:
        clangdelta.CD = dst
        clangdelta._FILE_CACHE.clear()
        mut, _ = clangdelta.mutating_helpers()
        regs = clangdelta.registrations()
        muts = [('drop-query-return', r'if\s*\(\s*QueryInstanceOnly\s*\)\s*(?:\{\s*return\s*;\s*\}|return\s*;)', ''),
                ('drop-max-instance-error', r'TransError\s*=\s*TransMaxInstanceError\s*;', ''),
                ('continue-after-max-instance-error', r'(TransError\s*=\s*TransMaxInstanceError\s*;\s*)return\s*;', r'\1')]
        limit = 20 if ctx.quick() else len(regs)
        for name, cls, f in regs[:limit]:
            path = os.path.join(dst, cls + '.cpp')
            orig = open(path).read()
            m0 = re.search(r'void\s+' + re.escape(cls) + r'::HandleTranslationUnit', orig)
            if not m0:
                continue
            for mname, pat, rep in muts:
                head, body = orig[:m0.start()], orig[m0.start():]
                new_body, n = re.subn(pat, rep, body, count=1)
                if n == 0:
                    continue
                with open(path, 'w') as fh:
                    fh.write(head + new_body)
                clangdelta._FILE_CACHE.clear()
                try:
                    nop, term = clangdelta.skeleton_of(name, cls, mut)
                    rows.append(f'(negb (bounded {nop} {term} && protocol_strict {nop} {term}))')
                    meta.append((name, mname))
                except Exception as e:      # fail-closed extractor: noticing by refusing counts
                    meta.append((name, mname + ':extractor-refused'))
                    rows.append('true')
            with open(path, 'w') as fh:
                fh.write(orig)
    finally:
        clangdelta.CD = old
        clangdelta._FILE_CACHE.clear()
        shutil.rmtree(dst, ignore_errors=True)
    if not rows:
        return
    res = coq.eval_terms('c19sens', IMPORTS, [], ['[' + '; '.join(rows) + ']'])
    flags = re.findall(r'true|false', res[0])
    killed = sum(1 for f in flags if f == 'true')
    surv = [f'{n}:{m}' for (n, m), f in zip(meta, flags) if f != 'true']
    ctx.extra['extractor_sensitivity'] = {'seeded_edits': len(flags), 'noticed': killed, 'survivors': surv[:40]}
    ctx.count('extractor-sensitivity:noticed', killed)
    ctx.count('extractor-sensitivity:survived', len(flags) - killed)


def replay(ctx, payload):
    explore(ctx)


LEVEL_TEXT = ('A checker for the counter protocol is proved sound in Coq for every behaviour of the opaque conditions, and is run inside '
              'Coq (vm_compute) on the skeletons of all 73 registered transformations, regenerated from the C++ sources on every run: '
              'no may-rewrite statement is reachable under the query flag, and an out-of-range counter ends in an error (TransMaxInstanceError, '
              'except for five listed renaming transformations) with no rewrite; --warn-on-counter-out-of-bounds changes that only for the '
              'transformations the tool\'s help text names; the helper checkCounterValidity has the truth table the skeletons assume; the driver '
              'never opens the output under the query flag; nothing in the manager rewrites the counters and no HandleTopLevelDecl stops the parse before the '
              'protocol clauses; names are registered once. The counter itself: a model of the int extraction used for '
              '--counter= / --to-counter= is proved to read every argument as exactly the integer it denotes or to refuse it, and is compared on '
              'every run with the real ClangDelta.cpp compiled verbatim (g++) against a stand-in manager.')
LEVEL_NOTE = ('Relative to the extractor (the only tie for the transformations; clang_delta cannot be built offline): statement subset parser and '
              'conservative may-rewrite closure, loops unrolled once. C++ semantics of the transformations are not modelled; the command-line parser '
              'is run for real (g++, libstdc++ stream semantics) against tools/standins/cxxstubs. Trusted: Coq kernel, skeleton semantics, the stubs.')
TECHNIQUE = 'Rocq proof of a protocol checker (all oracles) + computation over skeletons extracted from the C++ sources on every run'
