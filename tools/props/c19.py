"""C19  Every clang_delta transformation follows the counter protocol."""
import re

from vlib import coq

GENERATORS = ['clangdelta']
COQ_TARGETS = ['ClangDelta/SkeletonProofs.vo']
RULE = ('finite domain enumerated completely: the 73 registered transformations; for each, the control-flow skeleton of '
        'HandleTranslationUnit extracted from the source (if/else, return, assignments to TransError / ValidInstanceNum, loops '
        'unrolled once, every other statement classified may-rewrite by a call-graph closure over the translation unit down to '
        'mutating Rewriter calls) x 8 environments (query, warn, out-of-bounds) x all 2^k oracles of its k opaque conditions, '
        'evaluated inside Coq by the verified checker; non-trivial = distinct transformations')
TRUSTED = ['extractor tools/gen/clangdelta.py (C++-subset statement parser + name/class-based may-rewrite closure; fail-closed on unknown statement forms): the ONLY tie to the C++ code, clang_delta cannot be built offline, so no correspondence run exists for this property',
           'skeleton semantics coq/ClangDelta/Skeleton.v; loops are unrolled once; a statement is may-rewrite iff a mutating Rewriter / RewriteHelper call is syntactically reachable']
ASSUMPTIONS = ['C++ semantics of the transformations is out of reach; the theorem is about the protocol shape of the extracted skeletons',
               'for the five rename-* transformations the out-of-range error may be "nothing to rename" instead of TransMaxInstanceError (stated in Props/C19.v)']
IMPORTS = ['From Coq Require Import List ZArith Bool.', 'Import ListNotations.', 'From CV Require Import Config.PassGroup Config.Shipped ClangDelta.Skeleton.', 'From CV Require Gen.ClangDelta.',
           'From Coq Require Import String.', 'Open Scope string_scope.']


def explore(ctx):
    from gen import clangdelta
    try:
        stats = clangdelta.generate()
    except Exception as e:
        return
    ctx.evaluations += stats['registrations']
    ctx.extra['exhaustive'] = True
    ctx.extra['extractor'] = stats
    try:
        res = coq.eval_terms('c19', IMPORTS, [
            'Definition cex (n:nat) (p:stmt) := flat_map (fun e => map (fun l => (e, l)) (filter (fun l => negb (obeys e (exec e (orc_of l) p st0))) (all_bits n))) envs.'], [
            'map (fun t => (fst (fst t), hd_error (cex (snd (fst t)) (snd t)))) (filter (fun t => negb (bounded (snd (fst t)) (snd t) && protocol_ok (snd (fst t)) (snd t))) Gen.ClangDelta.skeletons)',
            'map (fun t => fst (fst t)) (filter (fun t => negb (protocol_strict (snd (fst t)) (snd t))) Gen.ClangDelta.skeletons)',
            'nodup_str (map (fun r => fst (fst r)) Gen.ClangDelta.registrations)',
            'map (fun t => (fst (fst t), snd (fst t))) Gen.ClangDelta.skeletons'])
        for name in re.findall(r'\("([^"]+)", ', res[3]):
            ctx.nontriv(name)
        ctx.sample({'skeleton_opaque_conditions': res[3][:300]})
        bad = re.findall(r'\("([^"]+)",\s*(Some \(\{\|.*?\|\},\s*\[[^\]]*\]\)|None)\)', res[0])
        for name, cex in bad:
            ctx.violation('protocol:' + name, f'transformation {name}: HandleTranslationUnit can rewrite under --query-instances or miss the out-of-range error; counterexample (query, warn, counter-out-of-bounds; opaque condition outcomes): {" ".join(cex.split())[:300]}',
                          {'transformation': name, 'counterexample': cex})
        strict = set(re.findall(r'"([^"]+)"', res[1]))
        extra = strict - {'rename-class', 'rename-cxx-method', 'rename-fun', 'rename-param', 'rename-var'}
        for name in sorted(extra):
            ctx.violation('not-max-instance:' + name, f'transformation {name}: an out-of-range counter can end in an error other than TransMaxInstanceError', {'transformation': name})
        if res[2].strip() != 'true':
            ctx.violation('duplicate-registration', 'a transformation name is registered twice', {})
        ctx.sample({'transformations_checked': stats['registrations'], 'strict_exceptions': sorted(strict)})
    except Exception as e:
        ctx.broke('table-evaluation', 'Gen.ClangDelta', repr(e)[:2000])
    try:
        r = coq.eval_terms('c19drv', IMPORTS, [], [
            'let p := Gen.ClangDelta.driver_skeleton in (bounded (fst p) (snd p), query_safe (fst p) (snd p))'])
        if 'false' in r[0]:
            ctx.violation('driver-outputs-under-query', 'TransformationManager::doTransformation can open or write the output (getOutStream / output*Source / closeOutStream) '
                          'although --query-instances was given: the statement order lets an output call run before the query return', {'function': 'TransformationManager::doTransformation'})
    except Exception as e:
        ctx.broke('table-evaluation', 'driver skeleton', repr(e)[:500])
    try:
        r = coq.eval_terms('c19warn', IMPORTS, [], [
            'map (fun t => fst (fst t)) (filter (fun t => negb (oob_strict_with is_fatal (snd (fst t)) (snd t) || mem (fst (fst t)) Gen.ClangDelta.warn_supported)) Gen.ClangDelta.skeletons)'])
        for name in sorted(set(re.findall(r'"([^"]+)"', r[0]))):
            ctx.violation('warn-switch-honoured:' + name, f'transformation {name}: with --warn-on-counter-out-of-bounds a counter beyond the number of instances no longer ends in the '
                          f'out-of-range error (HandleTranslationUnit goes on to rewrite); the switch is documented for {clangdelta.warn_supported()} only',
                          {'transformation': name, 'flags': '--warn-on-counter-out-of-bounds', 'counter': 'beyond the number of instances'})
    except Exception as e:
        ctx.broke('table-evaluation', 'warn switch', repr(e)[:500])
    try:
        from gen import clangdelta as _cd
        for (c_, t_, w_, rf, er) in _cd.counter_validity_table():
            want = (c_ or t_) and not w_
            if rf != want or er != want:
                ctx.violation('check-counter-validity', f'Transformation::checkCounterValidity with counter {"beyond" if c_ else "within"} / to-counter {"beyond" if t_ else "within"} the instances, warn flag '
                              f'{"on" if w_ else "off"}: returns {"false" if rf else "true"}, error {"set" if er else "not set"} (expected {"false, set" if want else "true, not set"})',
                              {'function': 'Transformation::checkCounterValidity', 'counter_oob': c_, 'to_counter_oob': t_, 'warn': w_})
    except Exception:
        pass        # a translator failure is reported by the generator stage
    try:
        sensitivity(ctx)
    except Exception as e:      # evidence only
        ctx.extra['extractor_sensitivity'] = {'error': repr(e)[:500]}


def sensitivity(ctx):
    """How sharp is the extractor (the only tie)?  Seed protocol-breaking edits into a scratch COPY of
    clang_delta/ (never into the repository) and see whether extractor + Coq checker notice each.
    Reported in the evidence only: a survivor is a blind spot of the tie, not a defect of cvise."""
    import os
    import shutil
    from gen import clangdelta
    src = clangdelta.CD
    dst = os.path.join(ctx.tmp, 'clang_delta_copy')
    shutil.copytree(src, dst)
    old = clangdelta.CD
    rows, meta = [], []
    try:
        clangdelta.CD = dst
        clangdelta._FILE_CACHE.clear()
        mut, _ = clangdelta.mutating_helpers()
        regs = clangdelta.registrations()
        muts = [('drop-query-return', r'if\s*\(\s*QueryInstanceOnly\s*\)\s*(?:\{\s*return\s*;\s*\}|return\s*;)', ''),
                ('drop-max-instance-error', r'TransError\s*=\s*TransMaxInstanceError\s*;', ''),
                ('continue-after-max-instance-error', r'(TransError\s*=\s*TransMaxInstanceError\s*;\s*)return\s*;', r'\1')]
        limit = 20 if ctx.quick() else len(regs)
        for name, cls, f in regs[:limit]:
            path = os.path.join(dst, cls + '.cpp')
            orig = open(path).read()
            m0 = re.search(r'void\s+' + re.escape(cls) + r'::HandleTranslationUnit', orig)
            if not m0:
                continue
            for mname, pat, rep in muts:
                head, body = orig[:m0.start()], orig[m0.start():]
                new_body, n = re.subn(pat, rep, body, count=1)
                if n == 0:
                    continue
                with open(path, 'w') as fh:
                    fh.write(head + new_body)
                clangdelta._FILE_CACHE.clear()
                try:
                    nop, term = clangdelta.skeleton_of(name, cls, mut)
                    rows.append(f'(negb (bounded {nop} {term} && protocol_strict {nop} {term}))')
                    meta.append((name, mname))
                except Exception as e:      # fail-closed extractor: noticing by refusing counts
                    meta.append((name, mname + ':extractor-refused'))
                    rows.append('true')
            with open(path, 'w') as fh:
                fh.write(orig)
    finally:
        clangdelta.CD = old
        clangdelta._FILE_CACHE.clear()
        shutil.rmtree(dst, ignore_errors=True)
    if not rows:
        return
    res = coq.eval_terms('c19sens', IMPORTS, [], ['[' + '; '.join(rows) + ']'])
    flags = re.findall(r'true|false', res[0])
    killed = sum(1 for f in flags if f == 'true')
    surv = [f'{n}:{m}' for (n, m), f in zip(meta, flags) if f != 'true']
    ctx.extra['extractor_sensitivity'] = {'seeded_edits': len(flags), 'noticed': killed, 'survivors': surv[:40]}
    ctx.count('extractor-sensitivity:noticed', killed)
    ctx.count('extractor-sensitivity:survived', len(flags) - killed)


def replay(ctx, payload):
    explore(ctx)


LEVEL_TEXT = ('A checker for the counter protocol is proved sound in Coq for every behaviour of the opaque conditions, and is run inside '
              'Coq (vm_compute) on the skeletons of all 73 registered transformations, regenerated from the C++ sources on every run: '
              'no may-rewrite statement is reachable under the query flag, and an out-of-range counter ends in an error (TransMaxInstanceError, '
              'except for five listed renaming transformations) with no rewrite; names are registered once.')
LEVEL_NOTE = ('Relative to the extractor (the only tie; clang_delta cannot be built offline): statement subset parser and conservative may-rewrite '
              'closure, loops unrolled once. C++ semantics are not modelled. Trusted: Coq kernel, skeleton semantics.')
TECHNIQUE = 'Rocq proof of a protocol checker (all oracles) + computation over skeletons extracted from the C++ sources on every run'
