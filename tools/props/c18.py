"""C18  The clex helper never crashes and edits tokens as specified."""
import itertools
import os
import random
import re
import subprocess
from concurrent.futures import ThreadPoolExecutor

from vlib import coq

GENERATORS = ['lexgen']
COQ_TARGETS = ['Clex/ClexFacts.vo']
IMPORTS = ['From CV Require Import Base.Corr Clex.Regex Clex.Driver Clex.ClexFacts.']
RULE = ('clex built on every run from the working tree: clex/driver.c compiled with clang -fsanitize=address,undefined against a scanner '
        'generated from clex/clex.l by tools/gen/lexgen.py (flex is not installed; the actions and user code of clex.l are embedded '
        'verbatim); inputs: all sequences up to a length bound over a token alphabet (identifiers, keywords, "#", "define", strings, '
        'empty strings, wide strings, char literals, numbers, operators, comment openers/closers, backslash-newline, lone backslash, '
        'blanks, newlines, a high byte) plus random C-like text; modes print, rm-toks-{1,2,3,16,32}, rm-tok-pattern-{2,4,8} (consecutive indices plus high pattern bits and later windows), delete-string, '
        'rename-toks, define; indices 0.. up to the first STOP and three beyond; every run: exit status in {51,71}, no sanitizer '
        'report, STOP never followed by OK at a larger index, and exit status + stdout equal to the Coq model evaluated inside Coq; the '
        'scanner stand-in (DFA built in Python) is compared with the Coq derivative matcher token by token; non-trivial = distinct '
        '(mode, input) with at least one OK index')
TRUSTED = ['tools/gen/lexgen.py as the stand-in for flex (lex-subset parser, DFA construction, input()/yytext plumbing): the real flex-generated scanner cannot be built offline',
           'hand-written model coq/Clex/Driver.v tied to clex/driver.c by this correspondence run; coq/Gen/ClexRules.v regenerated from clex.l',
           'AddressSanitizer / UBSan as the detector of out-of-bounds accesses in the real binary on the explored inputs']
ASSUMPTIONS = ['inputs contain no NUL byte (tokens are C strings: strdup / printf("%s") stop at NUL)',
               'flex semantics assumed by the stand-in and the model: longest match, first rule on ties, input() returns EOF at end of input (flex >= 2.6 returns 0 there, which would make the comment action of clex.l spin on an unterminated comment: not observable here)',
               'rename-toks: char newname[255] cannot overflow below 26^253 distinct identifiers',
               'shorten-string and x-string are not in the shipped pass groups: not modelled']

ALPHA = ['a', 'zz', 'B', ' ', '\n', '#', 'define', '"s"', '""', 'L"w"', "'c'", '1', '0x1F', ';', '(', ')', '/*', '*/', '*', '/', '\\\n', '\\', '\x80', '"', 'int', '\t']
MODES = [('print', 0, 0), ('rm-toks-1', 1, 1), ('rm-toks-2', 1, 2), ('rm-toks-3', 1, 3), ('rm-toks-16', 1, 16), ('rm-toks-32', 1, 32),
         ('rm-tok-pattern-2', 2, 2), ('rm-tok-pattern-4', 2, 4), ('rm-tok-pattern-8', 2, 8), ('delete-string', 3, 0), ('rename-toks', 4, 0), ('define', 5, 0)]

DUMP_MAIN = r'''
#include <stdio.h>
#include <stdlib.h>
#include <string.h>
#include "defs.h"
void process_token(enum tok_kind k) { printf("%d %d\n", (int)k - 999, (int)strlen(yytext)); }
int main(int argc, char **argv) { yyin = fopen(argv[1], "r"); if (!yyin) return 2; yylex(); return 0; }
'''


def build(ctx):
    from gen import lexgen
    repo = os.environ.get('VERIF_REPO', '/repo')
    d = os.path.join(ctx.tmp, 'clex-build')
    os.makedirs(d, exist_ok=True)
    scan = os.path.join(d, 'clex_scan.c')
    info = lexgen.build_scanner(scan)
    exe = os.path.join(d, 'clex')
    cmd = ['clang', '-g', '-O1', '-fsanitize=address,undefined', '-fno-omit-frame-pointer', '-fno-sanitize-recover=undefined', '-ftrivial-auto-var-init=pattern',
           '-I', os.path.join(repo, 'clex'), '-Wno-unused-function', scan, os.path.join(repo, 'clex', 'driver.c'), '-o', exe]
    r = subprocess.run(cmd, capture_output=True, text=True)
    if r.returncode != 0:
        raise RuntimeError('clex does not build: ' + r.stderr[-1500:])
    dump_c = os.path.join(d, 'dump.c')
    with open(dump_c, 'w') as f:
        f.write(DUMP_MAIN)
    dump = os.path.join(d, 'lexdump')
    r = subprocess.run(['clang', '-g', '-O1', '-fsanitize=address,undefined', '-I', os.path.join(repo, 'clex'), '-Wno-unused-function', scan, dump_c, '-o', dump],
                       capture_output=True, text=True)
    if r.returncode != 0:
        raise RuntimeError('lexdump does not build: ' + r.stderr[-1500:])
    return exe, dump, info


def run_clex(exe, mode, idx, path):
    env = dict(os.environ, ASAN_OPTIONS='detect_leaks=0:abort_on_error=0:exitcode=99', UBSAN_OPTIONS='halt_on_error=1:exitcode=98')
    try:
        r = subprocess.run([exe, mode, str(idx), path], capture_output=True, env=env, timeout=20)
    except subprocess.TimeoutExpired:
        return ('timeout', b'', b'')
    return (r.returncode, r.stdout, r.stderr)


def coq_bytes(b):
    return ('[' + ';'.join(str(x) for x in b) + ']%N') if b else '(@nil N)'


def gen_inputs(ctx, rnd):
    n = 2 if ctx.quick() else 3
    ex = [''.join(t) for k in range(0, n + 1) for t in itertools.product(ALPHA, repeat=k)]
    if ctx.quick():
        ex = [x for x in ex if len(x) <= 3] + rnd.sample(ex, 260)
    else:
        two = [''.join(t) for k in range(0, 3) for t in itertools.product(ALPHA, repeat=k)]
        ex = two + rnd.sample(ex, 1500)           # all sequences up to two tokens, a sample of the three-token ones
    special = ['#', '# ', '#define', '#define ', '#define A', '#define A 1', '#define A 1\nA', '# define A 1\nA A\n#define B\nB\n', '#define A B C\n A;A \n#define Z\n',
               '/*', '/* a', '/**/', '/***/', '/* * / */x', 'a/*b*/c', '"/*"', '"a\\"b"', "'\\''", 'x\\\ny', 'x\\  \ny', 'x\\ y', 'a z zz aa b', 'z y x w', 'aa ab a b',
               'int a = "xy"; /* c */ b \\\n c\n', '"" "a" "" "bc"', 'L"ab" "c"', 'a.b->c <<= 2 ... 1.5e3f 0x1FuL 07 \'\\n\'', 'a\x80\xffb', '\t\x0b\x0c a']
    # many distinct identifiers (rename-toks index table), function-like macros (define)
    special += [' '.join(f'v{i}' for i in range(k)) + '\n' for k in (15, 16, 17, 18, 33, 70)]
    # every one-letter name is taken (the fresh names of rename-toks wrap from "z" to "aa"), and names that are already fresh names
    import string
    special += [' '.join(string.ascii_lowercase) + ' k1 k2 k3\n', ' '.join(string.ascii_lowercase) + ' aa ab ba\n',
                ' '.join(reversed(string.ascii_lowercase)) + ';x1;', ' '.join(string.ascii_lowercase[:25]) + ' q9\n']
    special += ['int b, a, foo; foo = a;', 'b a c', 'c b a zz', 'b a', 'z a', 'ab aa a b zz',
                '#define A(x) x\nA B\n#define B 1\nB\n', '#define F( y\nF F\n#define G 2\nG G\n', 'Q\n#define Q(\n#define R r\nR\n']
    rn = []
    toks = ALPHA + ['while', 'x1', '==', '<<=', '...', '1.5e3', '{', '}', ',', '"str ing"', '/* c */', '// x', '%>', '<:']
    for _ in range(60 if ctx.quick() else 1500):
        rn.append(''.join(rnd.choice(toks) + rnd.choice(['', '', ' ', '\n']) for _ in range(rnd.randint(3, 14))))
    # directive-rich and string-rich texts
    names = ['A', 'B', 'zz', 'a', 'define', 'X1']
    for _ in range(40 if ctx.quick() else 600):
        parts = []
        for _ in range(rnd.randint(1, 4)):
            r = rnd.random()
            if r < 0.45:
                nm = rnd.choice(names)
                if rnd.random() < 0.6:
                    parts.append(nm + rnd.choice([' ', ';', '\n']))
                parts.append(rnd.choice(['#', '# ', '#\t', ' #']) + rnd.choice(['define', 'define', 'undef', 'defin']) + rnd.choice([' ', '  ', '\t', ''])
                             + nm + rnd.choice([' ', '', ' 1', ' ( a + 1 )', ' "s"', ' /* c */ 2']) + rnd.choice(['\n', '\n', '', ' \\\n 3\n']))
            elif r < 0.8:
                parts.append(' '.join(rnd.choice(names + ['"s"', '""', '"q\\"r"', ';', '+']) for _ in range(rnd.randint(1, 4))) + rnd.choice(['\n', ' ', '']))
            else:
                parts.append(rnd.choice(['#', '# define', '#define', '/*', '"', '\\']))
        rn.append(''.join(parts))
    seen, out = set(), []
    for x in special + ex + rn:
        if x not in seen and '\x00' not in x:
            seen.add(x)
            out.append(x)
    return out


def explore(ctx):
    rnd = random.Random(ctx.seed + 18)
    try:
        exe, dump, info = build(ctx)
    except Exception as e:
        ctx.broke('translator', 'lexgen/build', repr(e)[:1500])
        return
    inputs = gen_inputs(ctx, rnd)
    d = os.path.join(ctx.tmp, 'clex-in')
    os.makedirs(d, exist_ok=True)
    paths = []
    for i, x in enumerate(inputs):
        p = os.path.join(d, f'i{i}.c')
        with open(p, 'wb') as f:
            f.write(x.encode('latin-1'))
        paths.append(p)
    modes = MODES if not ctx.quick() else [m for m in MODES if m[0] not in ('rm-toks-16', 'rm-toks-3')]
    cases = []      # (term, expected, meta)

    def work(job):
        i, (mname, k, n) = job
        res = []
        stops = 0
        idx = 0
        while idx < 48:
            rc, out, err = run_clex(exe, mname, idx, paths[i])
            res.append((idx, rc, out, err))
            if rc != 51:
                stops += 1
                if stops >= (1 if mname == 'print' else 3):
                    break
            if mname == 'print':
                break
            idx += 1
        if k == 2:
            # pattern modes: high pattern bits and later windows are far beyond the consecutive block
            np_ = 2 ** (n - 1)
            done = {r[0] for r in res}
            for s_ in (0, 1, 2, 5, 40):
                for p_ in (np_ - 1, np_ // 2, np_ // 2 + 1, (3 * np_) // 4):
                    j = s_ * np_ + p_
                    if j not in done:
                        done.add(j)
                        rc, out, err = run_clex(exe, mname, j, paths[i])
                        res.append((j, rc, out, err))
            res.sort(key=lambda r: r[0])
        return job, res

    jobs = [(i, m) for i in range(len(inputs)) for m in modes]
    if ctx.quick():
        # all modes on the special inputs, two random modes on the others
        def pick(i):
            if i < 46:
                return modes
            ms = rnd.sample(modes, 2)
            if '#' in inputs[i] and rnd.random() < 0.7:
                ms.append(MODES[-1])
            if '"' in inputs[i] and rnd.random() < 0.5:
                ms.append(MODES[8])
            return list(dict.fromkeys(ms))
        jobs = [(i, m) for i in range(len(inputs)) for m in pick(i)]
    with ThreadPoolExecutor(16) as ex:
        for (i, (mname, k, n)), res in ex.map(work, jobs):
            text = inputs[i]
            b = text.encode('latin-1')
            seen_stop = False
            any_ok = False
            for idx, rc, out, err in res:
                ctx.evaluations += 1
                rep = {'mode': mname, 'index': idx, 'input': text}
                if b'AddressSanitizer' in err or b'runtime error' in err or rc in (98, 99):
                    line = [l for l in err.decode('latin-1').split('\n') if 'ERROR' in l or 'runtime error' in l][:1]
                    ctx.violation(f'memory:{mname}', f'clex {mname} {idx} on {text!r}: sanitizer report {line}', rep)
                    break
                if rc not in (51, 71):
                    ctx.violation(f'exit-code:{mname}', f'clex {mname} {idx} on {text!r} exited with {rc} ({err[-200:]!r})', rep)
                    break
                if rc == 51:
                    any_ok = True
                    if seen_stop:
                        ctx.violation(f'not-a-prefix:{mname}', f'clex {mname} on {text!r}: index {idx} produces output after a smaller index reported STOP', rep)
                else:
                    seen_stop = True
                cases.append((f'({k}, {n}, {idx}, {coq_bytes(b)})', [rc, len(out)] + list(out), rep))
                if mname == 'print' and rc == 51 and not any(ch in text for ch in '"\'') :
                    want = re.sub(rb'\\[ \t]*\n', b'', re.sub(rb'/\*.*?\*/', b'', b, flags=re.S))
                    # independent oracle where no quote can hide a comment opener
                    if b'/*' not in want and out != want:
                        ctx.violation('print-oracle', f'clex print on {text!r} wrote {out!r}, expected {want!r}', rep)
            ctx.count(f'{mname}:{"ok" if any_ok else "stop-only"}')
            if any_ok:
                ctx.nontriv(repr((mname, text)))
    bad = coq.corr_eval('c18', IMPORTS, 'clex_case', [(a, e) for a, e, _ in cases], shard=400)
    ctx.corr_cases += len(cases)
    ctx.corr_disagree += len(bad)
    for i in bad[:5]:
        rep = cases[i][2]
        ctx.violation(f'model-mismatch:{rep["mode"]}', f'clex {rep["mode"]} {rep["index"]} on {rep["input"]!r}: exit {cases[i][1][0]}, stdout {bytes(cases[i][1][2:])!r} differs from the Coq model of driver.c', rep)
    # scanner stand-in vs Coq matcher
    lcases = []
    for i in range(0, len(inputs), 1 if not ctx.quick() else 2):
        r = subprocess.run([dump, paths[i]], capture_output=True, text=True, timeout=20)
        b = inputs[i].encode('latin-1')
        if r.returncode == 71:
            lcases.append((coq_bytes(b), [-1], inputs[i]))
            continue
        if r.returncode != 0:
            ctx.broke('translator', 'lexdump', f'exit {r.returncode} on {inputs[i]!r}: {r.stderr[-300:]}')
            continue
        toks = [tuple(int(x) for x in ln.split()) for ln in r.stdout.split('\n') if ln.strip()]
        lcases.append((coq_bytes(b), toks, inputs[i]))
    # the Coq side lists dropped lexemes too: compare token lexemes only
    terms = [(a, [v for kl in e for v in kl] if e != [-1] else [-1]) for a, e, _ in lcases]
    bad = coq.corr_eval('c18lex', IMPORTS, 'lex_tokens', terms, shard=400)
    ctx.corr_cases += len(terms)
    ctx.corr_disagree += len(bad)
    for i in bad[:5]:
        ctx.broke('correspondence', 'scanner stand-in (Python DFA) vs Coq matcher over the rules of clex.l', f'input {lcases[i][2]!r}: stand-in tokens {lcases[i][1]}')
    glue(ctx, exe)
    ctx.sample({'inputs': len(inputs), 'dfa_states': info['states'], 'rules': info['rules'], 'example': cases[len(cases) // 2][2] if cases else None})


def glue(ctx, exe):
    """cvise/passes/clex.py: 51 -> OK (file replaced by stdout), 71 -> STOP, anything else -> ERROR (file untouched)"""
    from cvise.passes.clex import ClexPass
    from cvise.passes.abstract import ProcessEventNotifier
    d = os.path.join(ctx.tmp, 'clex-glue')
    os.makedirs(d, exist_ok=True)
    for text, arg, st in (('int a ; b\n', 'rm-toks-1', 1), ('int a ; b\n', 'rm-toks-1', 9), ('"x" y', 'delete-string', 0), ('a', 'no-such-mode', 0),
                          # an OK answer whose output is EMPTY (every token removed) is still an answer: the file becomes empty
                          ('x', 'rm-toks-1', 0), ('x', 'rm-toks-1', 1), ('int x;', 'rm-toks-16', 0), ('ab', 'rm-tok-pattern-4', 0), ('a b', 'rm-toks-2', 0)):
        p = os.path.join(d, 't.c')
        with open(p, 'w') as f:
            f.write(text)
        ps = ClexPass(arg, {'clex': exe})
        res, st2 = ps.transform(p, st, ProcessEventNotifier(None))
        after = open(p, newline='').read()
        p2 = os.path.join(ctx.tmp, 'clex-glue-ref.c')
        with open(p2, 'w') as f:
            f.write(text)
        rc, out, err = run_clex(exe, arg, st, p2)       # what the tool itself answers for this (mode, index, file)
        want = {51: 'OK', 71: 'STOP'}.get(rc, 'ERROR')
        ctx.evaluations += 1
        if res.name != want or (want != 'OK' and after != text) or (want == 'OK' and after.encode('latin-1', 'replace') != out) or sorted(os.listdir(d)) != ['t.c']:
            ctx.violation('python-glue', f'ClexPass({arg}).transform state {st} on {text!r}: result {res.name} (tool exit {rc}), file {after!r}, directory {sorted(os.listdir(d))}', {'mode': arg, 'index': st, 'input': text})


def replay(ctx, payload):
    r = payload['replay']
    exe, dump, info = build(ctx)
    p = os.path.join(ctx.tmp, 'replay.c')
    with open(p, 'wb') as f:
        f.write(r['input'].encode('latin-1'))
    rc, out, err = run_clex(exe, r['mode'], r['index'], p)
    print('replay: exit', rc, 'stdout', out[:300], 'stderr', err[-600:].decode('latin-1'))
    if b'AddressSanitizer' in err or b'runtime error' in err or rc not in (51, 71):
        ctx.violation('replayed', f'clex {r["mode"]} {r["index"]} on {r["input"]!r}: exit {rc}', r)


LEVEL_TEXT = ('Machine-checked over a model of the scanner (derivative-based longest-match / first-rule matcher over the rule list regenerated from '
              'clex.l — the matcher is proved to decide the textbook relational semantics of the patterns, and rule selection is stated against it — with the comment action proved to stop at the first closer) and of driver.c: every run exits with 51 or 71 and, with '
              'define / replace_macro modelled at index level, never reads outside the token array (after fix 47ede41); the lexemes '
              'partition the input and print mode outputs the input minus continuation and block-comment lexemes; rm-toks-N produces output '
              'iff idx < number of non-blank tokens and keeps exactly the non-blank tokens of rank outside idx..idx+N-1, as a subsequence; '
              'rm-tok-pattern-N keeps all blanks, outputs iff the window start is an instance and removes exactly the window members whose pattern bit is set; for every mode the OK indices form a prefix. '
              'The model is tied on every run to the real driver.c built with ASan+UBSan (exit status and stdout compared inside Coq).')
LEVEL_NOTE = ('Memory safety of the real binary is what the '
              'sanitizers report on explored inputs (proved only as "no out-of-range subscript" on the model). The flex-generated scanner itself '
              'cannot be built offline: a generated stand-in embeds the real actions. Trusted: Coq kernel, lexgen.py, sanitizers.')
TECHNIQUE = 'Rocq proof (scanner partition/longest-match model, token-array modes, index-level bounds) + sanitizer-instrumented build of the real driver.c compared with the model inside Coq'
