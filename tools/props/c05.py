"""C05  Each interestingness test runs isolated, on exactly the candidate set."""
import os
import random

from vlib import driver, scengen
from props.common_driver import correspond, TRUSTED as T0

GENERATORS = []
COQ_TARGETS = ['Driver/Script.vo', 'Fs/FsCorr.vo']
RULE = ('shim runs of the REAL TestManager with an instrumented test that records, on every invocation, its cwd and a full manifest '
        '(relative path -> bytes) of it, and then litters the directory and clobbers every file in it; 1-3 test cases in nested '
        'relative layouts, scripted passes writing through temp files, N in {1,2,3,5}, random schedules; second part: the real '
        'text passes (lines None, line_markers, blank, includes, comments, balanced, ints, ifs with a stand-in unifdef) on C-like '
        'files.  Oracle: manifest keys = the test cases exactly; every file but the one being reduced is byte-identical to the '
        'accepted version on disk; no cwd is used twice nor lies in the working directory; the user files are untouched by the '
        'clobbering; non-trivial = distinct invocations in multi-file scenarios with a changed candidate'
        ' Also (rounds 4-5): a symlinked test case (must arrive as a private regular file), a copy that fails while a test directory is filled (ENOSPC / EACCES / EPERM), on every invocation at most one test case may hold contents not accepted so far (scripted and real passes; lines pass with formatter and two files).')
TRUSTED = T0 + ['the instrumented test runs in-process under the shim (fast mode): what a real sh test could do outside its cwd through absolute paths is outside the property']
ASSUMPTIONS = ['the test addresses its files by relative path only']
HERE = os.path.dirname(os.path.abspath(__file__))
UNIFDEF = os.path.join(os.path.dirname(HERE), 'standins', 'unifdef')


def check_invocations(ctx, sc, o, rep, real=False):
    names = set(o.names)
    seen = set()
    nt = 0
    for contents, rc, cwd, manifest in o.testlog:
        if cwd in seen:
            ctx.violation('folder-reused', f'test directory {os.path.basename(cwd)} used by two invocations', rep)
        seen.add(cwd)
        if os.path.commonpath([cwd, o.work]) == o.work:
            ctx.violation('folder-in-workdir', f'test ran inside the working directory: {cwd}', rep)
        extra = set(manifest) - names
        missing = names - set(manifest)
        if extra:
            ctx.violation('extra-files:' + ('real:' + sc.get('pass_name', '') if real else 'script'),
                          f'test directory holds {sorted(extra)} besides the test cases' + (f' (pass {sc.get("pass_name")})' if real else ''), rep)
        if missing:
            ctx.violation('missing-files', f'test directory lacks {sorted(missing)}', rep)
    return len(seen)


def scenario_case(ctx, sc):
    """one scripted scenario on the real TestManager with the instrumented, clobbering test; all oracles"""
    rep = {'scenario': sc}
    # per invocation: every file except the current one equals the accepted version on disk at that time
    state = {}

    def prepare(w, sc=sc, state=state):
        state.update(work=w, names=[n for n, _ in sc['files']])
        if sc.get('symlinked'):
            import tempfile
            tgt_dir = tempfile.mkdtemp(prefix='linktarget-', dir=ctx.tmp)
            tgt = os.path.join(tgt_dir, 'real_' + os.path.basename(sc['symlinked']))
            os.replace(os.path.join(w, sc['symlinked']), tgt)
            os.symlink(tgt, os.path.join(w, sc['symlinked']))

    def on_test(cwd, state=state):
        tm = state.get('tm')
        if tm is None:
            return
        cur = str(getattr(tm, 'current_test_case', '')) if 'cvise-sanity-' not in cwd else None
        for name in state['names']:
            try:
                here = open(os.path.join(cwd, name), 'rb').read()
                there = open(os.path.join(state['work'], name), 'rb').read()
            except OSError:
                continue
            if here != there and name != cur and not (cur is None and True and here != there and False):
                if cur is None:
                    continue     # sanity check of a rewrite in new(): the rewritten file differs by design
                state.setdefault('bad', []).append((name, cur, here, there))

    o = None

    def run():
        nonlocal o
        from cvise.utils import testing
        orig_init = testing.TestManager.__init__

        def init(self, *a, **k):
            orig_init(self, *a, **k)
            state['tm'] = self

        testing.TestManager.__init__ = init
        try:
            return driver.run_scenario(sc, ctx.tmp, on_test=on_test, prepare=prepare)
        finally:
            testing.TestManager.__init__ = orig_init

    o = run()
    ctx.evaluations += 1
    if o.diverged:
        ctx.count('diverged')
        return o
    inv = check_invocations(ctx, sc, o, rep)
    for (name, cur, here, there) in state.get('bad', [])[:1]:
        ctx.violation('stale-sibling', f'while reducing {cur} the test saw {name}={here!r} but the accepted version is {there!r}', rep)
    # the clobbering test must not reach the user files: they hold exactly what was committed
    for nme in o.names:
        data = o.after.get(nme)
        if data and data[2] is not None and b'#scribble' in data[2]:
            if sc.get('scribble') == 'all':
                ctx.violation('test-modified-candidate-committed', f'{nme}: the test appended to the candidate in its own directory, exited 0, and the modified candidate was committed', rep)
            else:
                # this test only writes to the OTHER test cases in its directory, never to the candidate
                ctx.violation('sibling-write-committed', f'{nme}: the test appended to its private copy of {nme} while another test case was being reduced, and the text '
                              f'reached the user\'s {nme}', rep)
    for (nme, cwd) in (o.scribble_leaks or [])[:1]:
        ctx.violation('test-write-reached-user-file', f'the test appended to {nme} inside its own directory {os.path.basename(cwd)} and the file {nme} in the working directory changed with it', rep)
    for (nme, cwd) in (o.links_in_test_dir or [])[:1]:
        ctx.violation('symlink-in-test-dir', f'{nme} in the test directory {os.path.basename(cwd)} is a symbolic link (to the user\'s file), not a private copy', rep)
    if sc.get('symlinked'):
        ctx.count('symlinked-test-case')
    if sc.get('copy_fault'):
        ctx.count('copy-fault')
    if 'junk.tmp' in o.after:
        ctx.violation('test-littered-workdir', 'junk.tmp written by the test appears in the working directory', rep)
    ctx.count(f'script:k={len(sc["files"])}:N={sc["cfg"]["N"]}')
    if len(sc['files']) > 1 and o.accepted:
        ctx.nontriv(repr((sc['files'], sc['passes'], sc['rules'], sc['cfg']['N'], sc['sched'])))
    return o


def explore(ctx):
    rnd = random.Random(ctx.seed + 5)
    each = []
    n = 90 if ctx.quick() else 900
    for it in range(n):
        sc = scengen.gen_scenario(rnd, 'contract' if it % 2 else 'faults', k=rnd.choice([2, 3, 1]))
        sc['scribble'] = 'all' if it % 10 == 0 else 'siblings'
        for p in sc['passes']:
            p['via_temp'] = rnd.random() < 0.7
        if it % 6 == 2 and len(sc['files']) > 1:
            sc['symlinked'] = sc['files'][-1][0]      # the user reaches this test case through a symbolic link (absolute target)
        if it % 9 == 4:
            sc['copy_fault'] = rnd.randint(2, 9)      # a copy into a test directory fails (full /tmp: ENOSPC; refused: EACCES / EPERM)
            sc['copy_fault_errno'] = rnd.choice([28, 13, 1])
        o = scenario_case(ctx, sc)
        if o.diverged:
            continue
        if sc['scribble'] != 'all' and not sc.get('copy_fault'):      # (the model has no copy faults: oracle only)
            each.append((driver.coq_scenario(sc, o.perm), o.out, sc))
    ctx.sample({'scenario': {k: each[0][2][k] for k in ('files', 'passes', 'rules', 'cfg')}, 'invocations_checked': len(each)})
    correspond(ctx, 'c05', each)
    real_passes(ctx, rnd)


CTEXT = '''#include <a.h>
# 1 "x.c"
int f(int a) {
  // comment
  return (a ? 0x10 : 2);   /* block */
}

#if FOO
int g;
#endif
# 7 "y.c"
int h[3] = {1, 2, 3};
'''



def check_versions(ctx, sc, o, rep):
    """in every test invocation at most ONE test case (the one being reduced or reformatted) may hold something that has not
    been accepted yet; every other one holds its original or a version with which the test has already exited 0"""
    names = list(o.names)
    okv = {i: {(c.encode('latin-1') if isinstance(c, str) else c)} for i, (_n, c) in enumerate(sc['files'])}
    for contents, rc, cwd, _manifest in o.testlog:
        fresh = [names[i] for i, c in enumerate(contents) if c is not None and c not in okv[i]]
        if len(fresh) > 1:
            ctx.violation('stale-sibling', f'a test ran on {dict(zip(names, contents))}: {fresh} all hold contents that were never accepted '
                          f'(only the file being reduced may)', rep)
            return
        if rc == 0:
            for i, c in enumerate(contents):
                if c is not None:
                    okv[i].add(c)


def real_passes(ctx, rnd):
    from cvise.passes.lines import LinesPass
    from cvise.passes.line_markers import LineMarkersPass
    from cvise.passes.blank import BlankPass
    from cvise.passes.includes import IncludesPass
    from cvise.passes.comments import CommentsPass
    from cvise.passes.balanced import BalancedPass
    from cvise.passes.ints import IntsPass
    from cvise.passes.ifs import IfPass
    mk = [('lines::None', lambda: LinesPass('None', {})), ('line_markers', lambda: LineMarkersPass(None, {})),
          ('blank', lambda: BlankPass(None, {})), ('includes', lambda: IncludesPass(None, {})),
          ('comments', lambda: CommentsPass(None, {})), ('balanced::curly', lambda: BalancedPass('curly', {})),
          ('ints::a', lambda: IntsPass('a', {})), ('ifs', lambda: IfPass(None, {'unifdef': UNIFDEF}))]
    texts = [CTEXT, CTEXT.replace('\n\n', '\n'), '#include <a.h>\nint a;\n# 2 "z.c"\nint b;']      # with / without blank lines, without final newline
    for name, f in mk:
      for text in texts:
        for k in (1, 2):
            p = f()
            p.max_transforms = None
            files = [('t.c', text), ('d/u.c', text.replace('int g;', 'int q;') + '// u\n')][:k]
            sc = {'files': files, 'rules': [([('has', 0, 'f')], 0)], 'passes': [], 'cfg': {'N': rnd.choice([1, 3]), 'no_cache': True},
                  'sched': [rnd.randint(0, 7) for _ in range(30)], 'pass_name': name, 'max_accepts': 60}
            o = driver.run_scenario(sc, ctx.tmp, real_passes=[p])
            ctx.evaluations += 1
            ctx.count('real-pass:' + name)
            check_invocations(ctx, sc, o, {'real_pass': name, 'k': k}, real=True)
            check_versions(ctx, sc, o, {'real_pass': name, 'k': k})
            ctx.nontriv(('real', name, k))
    # the lines pass with a formatter rewrites the user's file in place in new() and must put it back when the test rejects
    # both reformatted variants: the next file's tests must see the accepted version of the first
    standin = os.path.join(os.path.dirname(HERE), 'standins', 'topformflat')
    for arg in ('0', '1', '2'):
        for layout_sensitive in (True, False):
            t0 = 'int a;int b;\nint c; { x; y; }\nint d;\n'
            files = [('t.c', t0), ('d/u.c', 'k1;\nk2;\n')]
            rules = [([('has', 0, 'int a;int b;\nint c; { x; y; }')], 0)] if layout_sensitive else [([('has', 0, 'int a;')], 0)]
            sc = {'files': files, 'rules': rules, 'passes': [], 'cfg': {'N': rnd.choice([1, 2]), 'no_cache': True},
                  'sched': [rnd.randint(0, 7) for _ in range(30)], 'pass_name': f'lines::{arg}', 'max_accepts': 60}
            p = LinesPass(arg, {'topformflat': standin})
            p.max_transforms = None
            o = driver.run_scenario(sc, ctx.tmp, real_passes=[p])
            ctx.evaluations += 1
            ctx.count('real-pass:lines-with-formatter')
            check_invocations(ctx, sc, o, {'real_pass': f'lines::{arg}', 'k': 2}, real=True)
            check_versions(ctx, sc, o, {'real_pass': f'lines::{arg}', 'k': 2})
            ctx.nontriv(('real', 'lines-formatter', arg, layout_sensitive))


def replay(ctx, payload):
    r = payload['replay']
    if 'real_pass' in r:
        real_passes(ctx, random.Random(1))
        return
    sc = r['scenario']
    sc['files'] = [tuple(x) for x in sc['files']]
    scenario_case(ctx, sc)


LEVEL_TEXT = ('Proved on the models: a candidate folder holds exactly the test cases (the current one with the candidate, the others as '
              'accepted); every scheduled candidate has its own folder, accounted for exactly once, for every schedule; only commits on '
              'the named test cases reach the working directory. Observed on the real TestManager every run with an instrumented test '
              'that records a full manifest of its directory on each invocation and then clobbers it: exact file set, sibling files equal '
              'to the accepted versions, no directory reuse, user files unaffected — for scripted passes and for the real text passes.')
LEVEL_NOTE = ('Trusted: Coq kernel, driver/Fs models (validated each run), shim (tests run in-process). What a test does through absolute '
              'paths is outside the property.')
TECHNIQUE = 'Rocq proof (folder contents, permutation accounting, frame) + manifest oracle on every test invocation of the real TestManager'
