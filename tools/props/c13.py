"""C13  Pass-group selection follows the documented include/exclude/flag rules."""
import copy
import glob
import itertools
import json
import os
import random

from vlib import coq
from gen import passgroups
from gen._util import coq_list, coq_string

GENERATORS = ['passgroups']
COQ_TARGETS = ['Config/PassGroupCorr.vo']
RULE = ('the real CVise.parse_pass_group_dict on (a) every shipped group under every combination of the options slow/windows, '
        'not_c, renaming and several --remove-pass sets (exhaustive) and (b) dictionaries derived from them by random mutation '
        '(dropped category, missing "pass", unknown pass, unknown option in include/exclude of active and of filtered-out rows, '
        'reordered rows, random flags); compared: per category the list of (pass, class, arg, max-transforms) or the error kind '
        'and the item it names, against the Coq parser evaluated on the generated term; an independent reading of the JSON '
        '(the documented rules, 20 lines of Python) is a second oracle; non-trivial = distinct (group, options) pairs'
        ' Also: include / exclude lists naming several options of which only some are active.'
        " Also (rounds 4-5): --remove-pass names that extend other entries' names; the command line's own option set: cvise.py --list-passes in a child process with a chosen sys.platform, with and without --sllooww.")
TRUSTED = ['translator tools/gen/passgroups.py (Python ast + json, fail-closed) regenerates pass_table, valid_options and the four shipped groups on every run',
           'hand-written parser model coq/Config/PassGroup.v tied by correspondence to cvise/cvise.py parse_pass_group_dict']
ASSUMPTIONS = ['"max-transforms" values are integers (a non-integer raises ValueError in int(): outside the three error classes the property names)']


def coq_popts(options, removed, not_c, renaming):
    return '(mkpo %s %s %s %s)' % (coq_list([coq_string(o) for o in options], 'string'),
                                   coq_list([coq_string(r) for r in removed], 'string'),
                                   'true' if not_c else 'false', 'true' if renaming else 'false')


def enc_string(s):
    return [len(s)] + [ord(c) for c in s]


def run_real(d, options, removed, not_c, renaming):
    from cvise.cvise import CVise
    from cvise.passes.abstract import AbstractPass
    from cvise.utils.error import CViseError, PassOptionError
    opts = {AbstractPass.Option(o) for o in options}
    try:
        d_in = copy.deepcopy(d)
        pg = CVise.parse_pass_group_dict(d_in, opts, {}, ','.join(removed) if removed else None, None, None, not_c, renaming)
        if d_in != d:
            # the parser is asked twice for the same dictionary by the command line (listing the groups, then the real parse)
            return [1, 98] + enc_string('input changed'), ('err', 98, 'parse_pass_group_dict changed the dictionary it was given: ' + str([k for k in d if d_in.get(k) != d[k]]))
    except PassOptionError as e:
        return [1, 4] + enc_string(str(e.option) if hasattr(e, 'option') else str(e)), ('err', 'option', str(e))
    except CViseError as e:
        msg = str(e)
        for kind, prefix in ((1, 'Missing category '), (2, 'Invalid pass in category '), (3, 'Unkown pass ')):
            if msg.startswith(prefix):
                return [1, kind] + enc_string(msg[len(prefix):]), ('err', kind, msg)
        return [1, 99] + enc_string(msg), ('err', 99, msg)
    out = [0]
    obs = {}
    name_of = {v: k for k, v in CVise.pass_name_mapping.items()}
    for cat in ('first', 'main', 'last'):
        l = pg[cat]
        out.append(len(l))
        obs[cat] = []
        for p in l:
            nm = name_of[type(p)]
            out += enc_string(nm) + enc_string(type(p).__name__)
            out += [-1] if p.arg is None else [1] + enc_string(p.arg)
            out += [-1] if p.max_transforms is None else [1, p.max_transforms]
            obs[cat].append((nm, p.arg, p.max_transforms))
    return out, ('ok', obs)


def reference(d, options, removed, not_c, renaming, table, valid):
    """Independent reading of the documented rules."""
    for cat in ('first', 'main', 'last'):
        if cat not in d:
            return ('err',)
    for cat in ('first', 'main', 'last'):
        for e in d[cat]:
            if 'pass' not in e or e['pass'] not in table:
                return ('err',)
            if any(o not in valid for o in e.get('include', []) + e.get('exclude', [])):
                return ('err',)
    res = {}
    for cat in ('first', 'main', 'last'):
        res[cat] = []
        for e in d[cat]:
            if 'include' in e and not set(e['include']) & set(options):
                continue
            if 'exclude' in e and set(e['exclude']) & set(options):
                continue
            s = table[e['pass']] + ('::' + e['arg'] if 'arg' in e else '')
            if s in removed:
                continue
            if not_c and e.get('c'):
                continue
            if not renaming and e.get('renaming'):
                continue
            res[cat].append((e['pass'], e.get('arg'), e.get('max-transforms')))
    return ('ok', res)


def mutate(rnd, d):
    d = copy.deepcopy(d)
    kind = rnd.choice(['none', 'dropcat', 'nopass', 'badpass', 'badopt-active', 'badopt-filtered', 'badpass-filtered', 'shuffle', 'maxt', 'excl', 'empty-include', 'empty-exclude', 'dup-row', 'multi-include', 'multi-exclude', 'multi-both', 'false-flags'])
    cats = [c for c in ('first', 'main', 'last') if d.get(c)]
    if kind == 'dropcat':
        d.pop(rnd.choice(['first', 'main', 'last']), None)
    elif cats:
        c = rnd.choice(cats)
        i = rnd.randrange(len(d[c]))
        e = d[c][i]
        if kind == 'nopass':
            e.pop('pass', None)
        elif kind == 'badpass':
            e['pass'] = rnd.choice(['bogus', 'Lines', 'clangbinary', ''])
        elif kind == 'badopt-active':
            e['exclude'] = ['fast']
        elif kind == 'badopt-filtered':
            e['include'] = ['slow']
            e['exclude'] = ['wndows']
        elif kind == 'badpass-filtered':
            e['include'] = ['slow']
            e['pass'] = 'bogus'
        elif kind == 'shuffle':
            rnd.shuffle(d[c])
        elif kind == 'maxt':
            e['max-transforms'] = rnd.randint(0, 5)
        elif kind == 'excl':
            e['exclude'] = [rnd.choice(['slow', 'windows'])]
        elif kind == 'false-flags':
            for c2 in cats:
                for e2 in d[c2]:
                    e2.setdefault('c', False)              # spelled out: not C-specific, not a renaming pass
                    e2.setdefault('renaming', False)
        elif kind == 'empty-include':
            e['include'] = []          # present but empty: can never intersect the active options
        elif kind == 'empty-exclude':
            e['exclude'] = []
        elif kind == 'multi-include':
            e['include'] = rnd.choice([['slow', 'windows'], ['windows', 'slow'], ['slow', 'slow']])   # any ONE active option suffices
            e.pop('exclude', None)
        elif kind == 'multi-exclude':
            e['exclude'] = rnd.choice([['slow', 'windows'], ['windows', 'slow']])                      # any ONE active option excludes
            e.pop('include', None)
        elif kind == 'multi-both':
            e['include'] = ['slow', 'windows']
            e['exclude'] = [rnd.choice(['slow', 'windows'])]
        elif kind == 'dup-row':
            d[c].append(copy.deepcopy(e))   # the same pass twice: --remove-pass must drop both
    return kind, d



def cli_schedule(group_file, platform, slow, not_c, renaming, removed):
    """the schedule the command line builds (cvise.py --list-passes) on the given platform: {category: [printed pass]}"""
    import subprocess
    child = os.path.join(os.path.dirname(os.path.dirname(os.path.abspath(__file__))), 'vlib', 'cli_child.py')
    repo = os.environ.get('VERIF_REPO', '/repo')
    args = ['/venv/bin/python', child, platform, '--list-passes', '--no-timing', '--pass-group-file', group_file]
    if slow:
        args.append('--sllooww')
    if not_c:
        args.append('--not-c')
    if renaming:
        args.append('--renaming')
    if removed:
        args += ['--remove-pass', ','.join(removed)]
    if group_file.startswith('name:'):
        # a shipped group selected by name: the command line has by then parsed every shipped file once (to list the groups)
        i = args.index('--pass-group-file')
        args[i:i + 2] = ['--pass-group', group_file[5:]]
    r = subprocess.run(args + ['x.c'], capture_output=True, text=True, env=dict(os.environ, PYTHONPATH=repo, VERIF_REPO=repo), timeout=120)
    if r.returncode != 0:
        return None, (r.stdout + r.stderr)[-600:]
    cats, cur = {}, None
    heads = {'INITIAL PASSES': 'first', 'MAIN PASSES': 'main', 'CLEANUP PASSES': 'last'}
    for line in r.stderr.split('\n'):
        if not line.startswith('INFO '):
            continue
        t = line[5:].strip()
        if t in heads:
            cur = heads[t]
            cats[cur] = []
        elif cur is not None:
            cats[cur].append(t)
    return cats, None


def printed(table, e):
    nm, arg, maxt = e
    s = table[nm] + ('::' + arg if arg is not None else '')
    return s + (f' ({maxt} T)' if maxt is not None else '')


def explore(ctx):
    from cvise.cvise import CVise
    rnd = random.Random(ctx.seed + 13)
    table = {k: v.__name__ for k, v in CVise.pass_name_mapping.items()}
    from cvise.passes.abstract import AbstractPass
    valid = [o.value for o in AbstractPass.Option]
    shipped = {}
    for f in sorted(glob.glob(os.path.join(os.environ.get('VERIF_REPO', '/repo'), 'cvise/pass_groups/*.json'))):
        shipped[os.path.basename(f)] = json.load(open(f))
    cases = []

    def one(name, d, options, removed, not_c, renaming, kind):
        out, obs = run_real(d, options, removed, not_c, renaming)
        ref = reference(d, options, removed, not_c, renaming, table, valid)
        ctx.evaluations += 1
        ctx.count(f'{name}:{kind}')
        ctx.nontriv((name, kind, json.dumps(d, sort_keys=True)[:0] + str(hash(json.dumps(d, sort_keys=True))), tuple(options), tuple(removed), not_c, renaming))
        rep = {'group': d, 'options': options, 'removed': removed, 'not_c': not_c, 'renaming': renaming}
        if ref[0] == 'err' and obs[0] != 'err':
            ctx.violation('malformed-accepted', f'{name} ({kind}) is malformed but was accepted', rep)
        elif ref[0] == 'ok' and obs[0] == 'err':
            ctx.violation('wellformed-rejected', f'{name} ({kind}) is well-formed but was rejected: {obs}', rep)
        elif ref[0] == 'ok' and obs[1] != ref[1]:
            ctx.violation('wrong-selection', f'{name} ({kind}) options={options} removed={removed} not_c={not_c} renaming={renaming}: selected {str(obs[1])[:300]} expected {str(ref[1])[:300]}', rep)
        if obs[0] == 'err' and obs[1] == 98:
            ctx.violation('parser-mutates-input', f'{name} ({kind}): {obs[2]} - a second parse of the same dictionary sees something else', rep)
            return
        if obs[0] == 'err' and obs[1] == 99:
            ctx.violation('foreign-error', f'{name} ({kind}): {obs[2]}', rep)
        try:
            term = '(%s, %s)' % (passgroups.coq_group(d), coq_popts(options, removed, not_c, renaming))
            cases.append((term, out))
        except Exception:
            pass

    removes = [[], ['LinesPass::0'], ['ClangBinarySearchPass::replace-function-def-with-decl', 'ClangBinarySearchPass::remove-unused-function'],
               ['ClangPass::rename-fun', 'BlankPass'], ['BalancedPass::curly', 'bogus'],
               # names that extend the name of another scheduled entry: only the named entry goes
               ['LinesPass::10'], ['BalancedPass::curly2', 'ClexPass::rm-toks-16'], ['ClexPass::rm-tok-pattern-8', 'LinesPass::1']]
    combos = list(itertools.product([[], ['slow'], ['windows'], ['slow', 'windows']], [False, True], [False, True]))
    for name, d in shipped.items():
        for options, not_c, renaming in combos:
            for removed in (removes if not ctx.quick() else removes[:3] + removes[5:]):
                one(name, d, options, removed, not_c, renaming, 'shipped')
    n = 150 if ctx.quick() else 1500
    small = {'first': shipped['delta.json']['first'], 'main': shipped['all.json']['main'][:12], 'last': shipped['all.json']['last'][:6]}
    for it in range(n):
        base = rnd.choice([small, small, shipped['binary.json'], shipped['delta.json']])
        kind, d = mutate(rnd, base)
        options, not_c, renaming = rnd.choice(combos)
        one('mutated', d, options, rnd.choice(removes), not_c, renaming, kind)
    # the command line itself: which options are active is decided there (windows from the platform, slow from --sllooww)
    import tempfile
    cli = list(itertools.product(['linux', 'win32'], [False, True]))
    for name, d in list(shipped.items()) + [('excl-both.json', {'first': [{'pass': 'blank', 'exclude': ['windows']}, {'pass': 'comments', 'include': ['windows']},
                                                                           {'pass': 'includes', 'include': ['slow'], 'exclude': ['windows']}],
                                                                 'main': [{'pass': 'lines', 'arg': '0', 'include': ['slow', 'windows']}], 'last': []})]:
        with tempfile.NamedTemporaryFile('w', suffix='.json', dir=ctx.tmp, delete=False) as f:
            json.dump(d, f)
        for platform, slow in cli:
            not_c, renaming = (rnd.random() < 0.5, rnd.random() < 0.5) if name in ('all.json', 'opencl-120.json') else (False, True)
            removed = rnd.choice(removes[:4])
            options = (['slow'] if slow else []) + (['windows'] if platform == 'win32' else [])
            got, err = cli_schedule(('name:' + name[:-5]) if name in shipped else f.name, platform, slow, not_c, renaming, removed)
            ref = reference(d, options, removed, not_c, renaming, table, valid)
            ctx.evaluations += 1
            ctx.count(f'command-line:{platform}:slow={slow}')
            rep = {'kind': 'cli', 'group': d, 'platform': platform, 'slow': slow, 'not_c': not_c, 'renaming': renaming, 'removed': removed}
            if got is None:
                ctx.violation('wellformed-rejected', f'cvise.py --list-passes on {name} ({platform}, sllooww={slow}) failed: {err}', rep)
                continue
            want = {c: [printed(table, e) for e in ref[1][c]] for c in ('first', 'main', 'last')}
            if got != want:
                diff = {c: (got.get(c), want[c]) for c in want if got.get(c) != want[c]}
                ctx.violation('wrong-selection', f'command line on {name}, platform {platform}, --sllooww={slow}, not_c={not_c}, renaming={renaming}, removed={removed}: '
                              f'lists {str(diff)[:500]} (listed, expected for options {options})', rep)
            ctx.nontriv(('cli', name, platform, slow))
    ctx.sample({'options': ['slow'], 'impl_output_prefix': cases[3][1][:30]})
    bad = coq.corr_eval('c13', ['From CV Require Import Config.PassGroup Config.PassGroupCorr.', 'From Coq Require Import String.', 'Open Scope string_scope.'],
                        'run_parse', cases, shard=40)
    ctx.corr_cases += len(cases)
    ctx.corr_disagree += len(bad)
    for b in bad[:5]:
        ctx.broke('correspondence', 'parse_pass_group_dict', f'case {cases[b][0][-300:]} impl output {cases[b][1][:60]}')


def replay(ctx, payload):
    from cvise.cvise import CVise
    from cvise.passes.abstract import AbstractPass
    r = payload['replay']
    table = {k: v.__name__ for k, v in CVise.pass_name_mapping.items()}
    valid = [o.value for o in AbstractPass.Option]
    if r.get('kind') == 'cli':
        import tempfile
        with tempfile.NamedTemporaryFile('w', suffix='.json', dir=ctx.tmp, delete=False) as f:
            json.dump(r['group'], f)
        options = (['slow'] if r['slow'] else []) + (['windows'] if r['platform'] == 'win32' else [])
        got, err = cli_schedule(f.name, r['platform'], r['slow'], r['not_c'], r['renaming'], r['removed'])
        ref = reference(r['group'], options, r['removed'], r['not_c'], r['renaming'], table, valid)
        want = {c: [printed(table, e) for e in ref[1][c]] for c in ('first', 'main', 'last')}
        print('replay: listed', str(got)[:300], 'expected', str(want)[:300])
        if got != want:
            ctx.violation('wrong-selection', 'replayed', r)
        return
    out, obs = run_real(r['group'], r['options'], r['removed'], r['not_c'], r['renaming'])
    ref = reference(r['group'], r['options'], r['removed'], r['not_c'], r['renaming'], table, valid)
    print('replay: impl', str(obs)[:400], 'expected', str(ref)[:400])
    if ref[0] != obs[0] or (ref[0] == 'ok' and ref[1] != obs[1]):
        ctx.violation('wrong-selection', 'replayed', r)


LEVEL_TEXT = ('Machine-checked theorem over a model of parse_pass_group_dict: for every dictionary, option set, remove set and flags '
              'the parser returns exactly the documented filter when the group is well-formed and a C-Vise error otherwise; the '
              'shipped groups, regenerated from the JSON files on every run, are proved well-formed inside Coq, so the theorem '
              'covers them under every option combination. The model is tied to the real parser each run (shipped groups x all '
              'flag combinations, plus mutated dictionaries), with an independent reading of the rules as second oracle.')
LEVEL_NOTE = ('Trusted: Coq kernel; translator (ast/json, fail-closed); parser model validated each run. The model follows the code '
              'after fix f35fb23 (entries are validated before being filtered).')
TECHNIQUE = 'Rocq proof (parser = specification on well-formed groups, rejects the rest) over tables regenerated from /repo + differential run of the real parser'
