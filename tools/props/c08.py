"""C08  No temporary directories or processes are left behind."""
import os
import random

from vlib import driver, scengen, realrun
from props.common_driver import correspond, TRUSTED as T0
from props.c09 import REAL_SCENARIOS

GENERATORS = []
COQ_TARGETS = ['Driver/Script.vo', 'Driver/PidQueue.vo']
RULE = ('shim runs over every exit path of run_pass (normal, zero size, PassBugError with die_on_pass_bug, growth bail-out, '
        'limits, cache hits, STOP/ERROR, timeouts), save_temps off, k in 1..3: listing of a private TMPDIR after each return or '
        'raise must be empty and futures/temporary_folders empty; real-pool runs with fast / failing / self-killing / hanging / '
        'forking tests: TMPDIR listing (pymp-* of multiprocessing excluded) and liveness of every recorded pid after the run; '
        'non-trivial = distinct runs that ended by an exception or cancelled/timed-out at least one candidate')
TRUSTED = T0 + ['real-pool observations trust the /proc liveness probe; pebble kills its own workers (observed)']
ASSUMPTIONS = ['pymp-* directories belong to multiprocessing.Manager, not to C-Vise',
               'processes: only the kill_pid_queue bookkeeping is proved; the window between Popen and the STARTED event, and zombie reaping, are observed only']


def gen(rnd, it):
    sc = scengen.gen_scenario(rnd, 'faults')
    sc['cfg']['save_temps'] = False
    sc['cfg']['no_cache'] = rnd.random() < 0.5
    if it % 7 == 0:       # all files empty -> ZeroSizeError
        sc['files'] = [(n, '') for n, _ in sc['files']]
        sc['rules'] = [([], 0)]
    if it % 5 == 0:
        sc['cfg']['die'] = True
    if it % 6 == 0:       # growth bail-out on a multi-file set
        sc['passes'].insert(0, {'key': 8, 'ops': [('dup', 0)], 'aos': 0, 'maxt': None, 'newfix': None})
    return sc


def oracle(ctx, sc, o):
    nt = False
    for p in o.passes:
        if p['leaked']:
            ctx.violation('tmpdir-leak:' + ('exc-' + type(p['exc']).__name__ if p['exc'] else 'normal'),
                          f'after {p["pass_"]} ({"raised " + type(p["exc"]).__name__ if p["exc"] else "returned"}) TMPDIR still holds {p["leaked"]}',
                          {'scenario': sc, 'kind': 'shim'})
        if p['code'] == 0 and (p['futures'] or p['folders']):
            ctx.violation('folders-held', f'after {p["pass_"]} futures={p["futures"]} temporary_folders={p["folders"]}', {'scenario': sc, 'kind': 'shim'})
        if p['code'] != 0:
            nt = True
    if o.shim.cancelled:
        nt = True
    return nt


def real_case(ctx, sc, tag, fork):
    o = realrun.run_real(sc, ctx.tmp, timeout=1, fork_on_hang=fork)
    ctx.evaluations += 1
    ctx.count('real-pool:' + tag + (':fork' if fork else ''))
    if o.tmp_listing:
        ctx.violation('tmpdir-leak:real', f'real pool: TMPDIR holds {o.tmp_listing} after the run', {'scenario': sc, 'kind': 'real', 'fork': fork})
    if o.alive:
        ctx.violation('process-leak', f'real pool: pids {o.alive} still alive after the run', {'scenario': sc, 'kind': 'real', 'fork': fork})
    ctx.nontriv(f'real:{tag}:{fork}')
    return o


def explore(ctx):
    rnd = random.Random(ctx.seed + 8)
    each = []
    n = 140 if ctx.quick() else 1400
    for it in range(n):
        sc = gen(rnd, it)
        o = driver.run_scenario(sc, ctx.tmp)
        ctx.evaluations += 1
        if o.diverged:
            ctx.count('diverged')
            continue
        if getattr(o, 'ctor_exc', None) is not None:
            continue
        if oracle(ctx, sc, o):
            ctx.nontriv(repr((sc['files'], sc['passes'], sc['rules'], sc['cfg'], sc['sched'])))
        each.append((driver.coq_scenario(sc, o.perm), o.out, sc))
        ctx.count('exit:' + ','.join(str(p['code']) for p in o.passes if p['code']) or 'exit:normal')
    ctx.sample({'scenario': {k: each[0][2][k] for k in ('files', 'passes', 'rules', 'cfg', 'sched')}, 'impl_output': each[0][1][:40]})
    correspond(ctx, 'c08', each)
    reals = REAL_SCENARIOS if not ctx.quick() else REAL_SCENARIOS[:2]
    for tag, sc in reals:
        for fork in ((False, True) if tag != 'two-files' else (False,)):
            o = real_case(ctx, sc, tag, fork)
            ctx.sample({'real_pool': tag, 'fork_on_hang': fork, 'tests_started': len(o.log), 'alive_after': o.alive, 'tmp_after': o.tmp_listing})


def replay(ctx, payload):
    r = payload['replay']
    if r.get('kind') == 'real':
        real_case(ctx, r['scenario'], 'replay', r.get('fork', False))
        return
    o = driver.run_scenario(r['scenario'], ctx.tmp)
    print('replay', [(p['pass_'], p['code'], p['leaked']) for p in o.passes])
    oracle(ctx, r['scenario'], o)


LEVEL_TEXT = ('Proved: the folder bookkeeping of a round (every scheduled candidate folder is held at return or was released '
              'exactly once, for every schedule / N / fault assignment, also on exceptions) and the kill_pid_queue bookkeeping '
              '(exactly the pids with STARTED and no later FINISHED are killed). Observed on the real code every run: a private '
              'TMPDIR is empty after every exit path of run_pass (shim runs incl. ZeroSizeError, PassBugError, growth bail-out) '
              'and, with the genuine pebble pool and hanging / forking / self-killing tests, no recorded pid is alive afterwards.')
LEVEL_NOTE = ('Partial by nature: that a directory is really gone and a process really dead are OS facts, observed not proved; '
              'pebble worker killing and the Popen/STARTED window are outside the model. Trusted: Coq kernel, driver model, shim.')
TECHNIQUE = 'Rocq proof of the bookkeeping (permutation invariant, pid-set spec) + exit-path enumeration on the real TestManager + real-pool process/TMPDIR observation'
