"""C08  No temporary directories or processes are left behind."""
import os
import random

from vlib import driver, scengen, realrun
from props.common_driver import correspond, TRUSTED as T0
from props.c09 import REAL_SCENARIOS

GENERATORS = []
COQ_TARGETS = ['Driver/Script.vo', 'Driver/PidQueue.vo', 'Driver/PidQueueCorr.vo']
RULE = ('shim runs over every exit path of run_pass (normal, zero size, PassBugError with die_on_pass_bug, growth bail-out, '
        'limits, cache hits, STOP/ERROR, timeouts), save_temps off, k in 1..3: listing of a private TMPDIR after each return or '
        'raise must be empty and futures/temporary_folders empty; real-pool runs with fast / failing / self-killing / hanging / '
        'forking tests: TMPDIR listing (pymp-* of multiprocessing excluded) and liveness of every recorded pid after the run; '
        'non-trivial = distinct runs that ended by an exception or cancelled/timed-out at least one candidate'
        ' Also: kill_pid_queue called directly on a hand-made event queue over real processes (alive with a child, vanished pids) compared with the Coq active_pids; a pass run that ends by PassBugError while other tests are slow / hang; a helper process in its own session.'
        " Also (rounds 4-5): helpers ignoring SIGTERM, hanging tests that keep writing files, the 's' key, tests abandoned right after their start (pids noted by the shell; known finding late-start-unregistered reproduced with a delayed registration message, five undelayed runs).")
TRUSTED = T0 + ['real-pool observations trust the /proc liveness probe; pebble kills its own workers (observed)']
ASSUMPTIONS = ['pymp-* directories belong to multiprocessing.Manager, not to C-Vise',
               'processes: only the kill_pid_queue bookkeeping is proved; the window between Popen and the STARTED event, and zombie reaping, are observed only']


def gen(rnd, it):
    sc = scengen.gen_scenario(rnd, 'faults')
    sc['cfg']['save_temps'] = False
    sc['cfg']['no_cache'] = rnd.random() < 0.5
    if it % 7 == 0:       # all files empty -> ZeroSizeError
        sc['files'] = [(n, '') for n, _ in sc['files']]
        sc['rules'] = [([], 0)]
    if it % 5 == 0:
        sc['cfg']['die'] = True
    if it % 6 == 0:       # growth bail-out on a multi-file set
        sc['passes'].insert(0, {'key': 8, 'ops': [('dup', 0)], 'aos': 0, 'maxt': None, 'newfix': None})
    return sc


def oracle(ctx, sc, o):
    nt = False
    for p in o.passes:
        if p['leaked']:
            ctx.violation('tmpdir-leak:' + ('exc-' + type(p['exc']).__name__ if p['exc'] else 'normal'),
                          f'after {p["pass_"]} ({"raised " + type(p["exc"]).__name__ if p["exc"] else "returned"}) TMPDIR still holds {p["leaked"]}',
                          {'scenario': sc, 'kind': 'shim'})
        if p['code'] == 0 and (p['futures'] or p['folders']):
            ctx.violation('folders-held', f'after {p["pass_"]} futures={p["futures"]} temporary_folders={p["folders"]}', {'scenario': sc, 'kind': 'shim'})
        if p['code'] != 0:
            nt = True
    if o.shim.cancelled:
        nt = True
    return nt


ERROR_EXIT = ('error-exit', {'files': [('f0.c', 'abcdef')], 'timeout': 4, 'slow_s': 1.5,
                            'rules': [([('lenlt', 0, 6)], 'slow'), ([], 0)],
                            'passes': [{'key': 1, 'ops': [('del', 0), ('del', 1), ('same',), ('del', 2), ('del', 3)], 'aos': 0}],
                            'cfg': {'N': 4, 'die': True}})


ERROR_EXIT_HANGS = ('error-exit-hangs', {'files': [('f0.c', 'abcdef')], 'rules': [([('lenlt', 0, 6)], 'timeout'), ([], 0)],
                                         'passes': [{'key': 1, 'ops': [('del', 0), ('del', 1), ('same',), ('del', 2)], 'aos': 0}], 'cfg': {'N': 4, 'die': True}})


# candidates whose tests start at staggered times around the moment an earlier candidate's (slow) test succeeds: some test has
# only just been started when the round is decided and everything still running is abandoned
LATE_STARTERS = ('late-starters', {'files': [('f0.c', 'abcdefghijklmnopqrs')], 'timeout': 6, 'slow_s': 0.6,
                                   'rules': [([('nothas', 0, 'a')], 'slow0'), ([], 'timeout')],
                                   'passes': [{'key': 1, 'ops': [('delch', 'a')] + [('wait', round(0.45 + 0.06 * k, 2), k + 1) for k in range(16)], 'aos': 1, 'maxt': 1}],
                                   'cfg': {'N': 17}})


def late_starters(ctx):
    """(a) with the registration message of a test delayed by 0.25 s (a schedule the real pool can produce: the message is a
    round trip to the manager process) the test that had just been started when the round was decided is never registered and
    survives: the recorded finding `late-start-unregistered`.  (b) without any delay the window is a fraction of a millisecond
    (a few per cent of the runs on a loaded machine): five runs; a leak in three or more of them means the window has been made
    wide (a violation of its own), a leak in one or two is the recorded finding showing up by itself."""
    sc = LATE_STARTERS[1]
    o = realrun.run_real(sc, ctx.tmp, timeout=sc['timeout'], slow_registration=0.25)
    ctx.evaluations += 1
    ctx.count('real-pool:late-starters:registration-delayed')
    if o.tmp_listing:
        ctx.violation('tmpdir-leak:real', f'real pool: TMPDIR holds {o.tmp_listing} after the run', {'scenario': sc, 'kind': 'late', 'delay': 0.25})
    if o.alive:
        ctx.violation('late-start-unregistered', f'registration delayed by 0.25 s: pids {o.alive} still alive after the run', {'scenario': sc, 'kind': 'late', 'delay': 0.25})
    ctx.sample({'real_pool': 'late-starters, registration delayed', 'tests_started': len(o.started_pids), 'alive_after': o.alive})
    leaks = []
    runs = 5
    for _ in range(runs):
        o = realrun.run_real(sc, ctx.tmp, timeout=sc['timeout'])
        ctx.evaluations += 1
        ctx.count('real-pool:late-starters')
        if o.tmp_listing:
            ctx.violation('tmpdir-leak:real', f'real pool: TMPDIR holds {o.tmp_listing} after the run', {'scenario': sc, 'kind': 'late'})
        leaks.append(list(o.alive))
    ctx.nontriv('real:late-starters')
    n = sum(1 for x in leaks if x)
    if n >= 3:
        ctx.violation('process-leak:late-starters-most-runs', f'real pool: a test started just before the round was decided survived in {n} of {runs} runs '
                      f'(pids {leaks}): it is not registered until well after its start', {'scenario': sc, 'kind': 'late'})
    elif n:
        ctx.violation('late-start-unregistered', f'a test started just before the round was decided survived in {n} of {runs} runs (pids {leaks})', {'scenario': sc, 'kind': 'late'})
    ctx.sample({'real_pool': 'late-starters', 'runs': runs, 'runs_with_a_survivor': n})



def real_case(ctx, sc, tag, fork):
    o = realrun.run_real(sc, ctx.tmp, timeout=sc.get('timeout', 1), fork_on_hang=fork)
    ctx.evaluations += 1
    ctx.count('real-pool:' + tag + (':fork' if fork else ''))
    if o.tmp_listing and not sc.get('cfg', {}).get('save_temps'):
        ctx.violation('tmpdir-leak:real', f'real pool: TMPDIR holds {o.tmp_listing} after the run', {'scenario': sc, 'kind': 'real', 'fork': fork})
    if o.alive:
        ctx.violation('process-leak', f'real pool: pids {o.alive} still alive after the run', {'scenario': sc, 'kind': 'real', 'fork': fork})
    ctx.nontriv(f'real:{tag}:{fork}')
    return o


def pidq_direct(ctx, rnd):
    """kill_pid_queue itself, on a hand-made event queue over REAL processes: some alive (with a child), some gone
    and reaped (their pid no longer exists), in random STARTED / FINISHED order.  Afterwards exactly the pids with a
    STARTED and no later FINISHED must be dead, with their descendants; every other process must still be alive."""
    import queue
    import subprocess
    import time
    from cvise.passes.abstract import ProcessEvent, ProcessEventType
    from cvise.utils.testing import TestManager
    from vlib import coq
    cases = []
    for it in range(6 if ctx.quick() else 40):
        procs, gone = [], []
        try:
            for _ in range(rnd.randint(2, 5)):
                procs.append(subprocess.Popen(['sh', '-c', 'sleep 30 & wait'], stdout=subprocess.DEVNULL, stderr=subprocess.DEVNULL, start_new_session=True))
            for _ in range(rnd.randint(1, 3)):
                g = subprocess.Popen(['true'])
                g.wait()
                gone.append(g.pid)
            time.sleep(0.05)
            kids = {}
            for pr in procs:
                try:
                    kids[pr.pid] = [int(x) for x in open(f'/proc/{pr.pid}/task/{pr.pid}/children').read().split()]
                except OSError:
                    kids[pr.pid] = []
            pids = [pr.pid for pr in procs] + gone
            evs = []
            for pid in pids:
                evs.append(('S', pid))
                if rnd.random() < 0.4:
                    evs.append(('F', pid))
                    if rnd.random() < 0.3:
                        evs.append(('S', pid))
            # keep per-pid order, interleave pids
            order = []
            by = {pid: [e for e in evs if e[1] == pid] for pid in pids}
            while any(by.values()):
                pid = rnd.choice([q for q in pids if by[q]])
                order.append(by[pid].pop(0))
            q = queue.Queue()
            for k, pid in order:
                q.put(ProcessEvent(pid, ProcessEventType.STARTED if k == 'S' else ProcessEventType.FINISHED))
            tm = object.__new__(TestManager)
            tm.pid_queue = q
            exc = None
            try:
                tm.kill_pid_queue()
            except Exception as e:
                exc = e
            time.sleep(0.15)
            active = set()
            for k, pid in order:
                (active.add if k == 'S' else active.discard)(pid)
            ctx.evaluations += 1
            ctx.count('kill_pid_queue:direct')
            rep = {'kind': 'pidq', 'events': [(k, pids.index(pid)) for k, pid in order], 'alive': len(procs), 'gone': len(gone)}
            if exc is not None:
                ctx.violation('kill-pid-queue-raises', f'kill_pid_queue raised {type(exc).__name__}: {exc}', rep)
            for pr in procs:
                dead = pr.poll() is not None
                kids_alive = [c for c in kids[pr.pid] if realrun.pid_alive(c)]
                if pr.pid in active and (not dead or kids_alive):
                    ctx.violation('process-leak:kill-pid-queue', f'events {rep["events"]} ({len(gone)} of the pids no longer exist): process #{pids.index(pr.pid)} was STARTED and never FINISHED but '
                                  f'{"is still alive" if not dead else "left its child alive"} after kill_pid_queue', rep)
                if pr.pid not in active and dead:
                    ctx.violation('kill-pid-queue-kills-finished', f'events {rep["events"]}: process #{pids.index(pr.pid)} had its FINISHED event but was killed', rep)
            ctx.nontriv(('pidq', tuple(rep['events'])))
            idx = {pid: i for i, pid in enumerate(pids)}
            term = '[' + '; '.join(('Started %d' if k == 'S' else 'Finished %d') % idx[pid] for k, pid in order) + ']'
            cases.append((term, sorted(idx[p_] for p_ in active)))
        finally:
            for pr in procs:
                try:
                    os.killpg(pr.pid, 9)        # the whole session of that test process (its own child included)
                except OSError:
                    pass
                try:
                    pr.wait(timeout=2)
                except Exception:
                    pass
    bad = coq.corr_eval('c08pidq', ['From CV Require Import Driver.PidQueue Driver.PidQueueCorr.'], 'pidq_case', cases, shard=200)
    ctx.corr_cases += len(cases)
    ctx.corr_disagree += len(bad)
    for b in bad[:3]:
        ctx.broke('correspondence', 'active_pids model vs event bookkeeping', cases[b][0])


def explore(ctx):
    rnd = random.Random(ctx.seed + 8)
    each = []
    n = 140 if ctx.quick() else 1400
    for it in range(n):
        sc = gen(rnd, it)
        o = driver.run_scenario(sc, ctx.tmp)
        ctx.evaluations += 1
        if o.diverged:
            ctx.count('diverged')
            continue
        if getattr(o, 'ctor_exc', None) is not None:
            continue
        if oracle(ctx, sc, o):
            ctx.nontriv(repr((sc['files'], sc['passes'], sc['rules'], sc['cfg'], sc['sched'])))
        each.append((driver.coq_scenario(sc, o.perm), o.out, sc))
        ctx.count('exit:' + ','.join(str(p['code']) for p in o.passes if p['code']) or 'exit:normal')
    # the user presses keys while a pass runs ('s' skips the rest of the pass): another way out of run_pass (oracle only)
    for it in range(12 if ctx.quick() else 120):
        sc = gen(rnd, it)
        sc['keys'] = rnd.choice(['s', 'ds', 'dds', 'xs', 's' * 5, 'd'])
        o = driver.run_scenario(sc, ctx.tmp)
        ctx.evaluations += 1
        ctx.count('keys:' + sc['keys'])
        if o.diverged or getattr(o, 'ctor_exc', None) is not None:
            continue
        oracle(ctx, sc, o)
    ctx.sample({'scenario': {k: each[0][2][k] for k in ('files', 'passes', 'rules', 'cfg', 'sched')}, 'impl_output': each[0][1][:40]})
    correspond(ctx, 'c08', each)
    pidq_direct(ctx, rnd)
    # a pass run that ends by an error (PassBugError, --die-on-pass-bug) while other candidates' tests are still running
    o = real_case(ctx, ERROR_EXIT[1], ERROR_EXIT[0], False)
    if not any(p['code'] for p in o.passes):
        ctx.broke('harness', 'error-exit scenario', 'the run did not end by an error')
    ctx.sample({'real_pool': 'error-exit', 'tests_started': len(o.log), 'alive_after': o.alive, 'exit': [p['code'] for p in o.passes]})
    # ... and while other candidates' tests hang past the timeout (their workers are killed by the pool, the scripts orphaned)
    o = real_case(ctx, ERROR_EXIT_HANGS[1], ERROR_EXIT_HANGS[0], False)
    if not any(p['code'] for p in o.passes):
        ctx.broke('harness', 'error-exit-hangs scenario', 'the run did not end by an error')
    late_starters(ctx)
    # ... with --save-temps (the folders are kept on purpose; the processes are not)
    sc_st = dict(ERROR_EXIT_HANGS[1], cfg=dict(ERROR_EXIT_HANGS[1]['cfg'], save_temps=True))
    o = realrun.run_real(sc_st, ctx.tmp, timeout=sc_st.get('timeout', 1))
    ctx.evaluations += 1
    ctx.count('real-pool:error-exit-hangs:save-temps')
    if o.alive:
        ctx.violation('process-leak', f'real pool, --save-temps, pass run ended by an error: pids {o.alive} still alive after the run', {'scenario': sc_st, 'kind': 'real', 'fork': False})
    # ... and while the hanging tests keep writing files into their directories
    o = real_case(ctx, dict(ERROR_EXIT_HANGS[1], hang_writes=True), 'error-exit-hangs-writing', False)
    if not any(p['code'] for p in o.passes):
        ctx.broke('harness', 'error-exit-hangs-writing scenario', 'the run did not end by an error')
    reals = REAL_SCENARIOS if not ctx.quick() else REAL_SCENARIOS[1:3]      # 'mixed' and 'all-timeout' (a round without a winner)
    for tag, sc in reals:
        for fork in ((False, True, 'setsid', 'term-proof') if tag != 'two-files' else (False,)):
            o = real_case(ctx, sc, tag, fork)
            ctx.sample({'real_pool': tag, 'fork_on_hang': fork, 'tests_started': len(o.log), 'alive_after': o.alive, 'tmp_after': o.tmp_listing})


def replay(ctx, payload):
    r = payload['replay']
    if r.get('kind') == 'pidq':
        pidq_direct(ctx, random.Random(1))
        return
    if r.get('kind') == 'late':
        late_starters(ctx)
        return
    if r.get('kind') == 'real':
        real_case(ctx, r['scenario'], 'replay', r.get('fork', False))
        return
    o = driver.run_scenario(r['scenario'], ctx.tmp)
    print('replay', [(p['pass_'], p['code'], p['leaked']) for p in o.passes])
    oracle(ctx, r['scenario'], o)


LEVEL_TEXT = ('Proved: the folder bookkeeping of a round (every scheduled candidate folder is held at return or was released '
              'exactly once, for every schedule / N / fault assignment, also on exceptions) and the kill_pid_queue bookkeeping '
              '(exactly the pids with STARTED and no later FINISHED are killed). Observed on the real code every run: a private '
              'TMPDIR is empty after every exit path of run_pass (shim runs incl. ZeroSizeError, PassBugError, growth bail-out) '
              'and, with the genuine pebble pool and hanging / forking / self-killing tests, no recorded pid is alive afterwards.')
LEVEL_NOTE = ('Partial by nature: that a directory is really gone and a process really dead are OS facts, observed not proved; '
              'pebble worker killing is outside the model; the window between Popen and the STARTED message is real (known finding '
              'late-start-unregistered: reproduced every run by delaying the message; a leak in most undelayed runs stays a violation). Trusted: Coq kernel, driver model, shim.')
TECHNIQUE = 'Rocq proof of the bookkeeping (permutation invariant, pid-set spec) + exit-path enumeration on the real TestManager + real-pool process/TMPDIR observation'
