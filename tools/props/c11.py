"""C11  Pass states are values: enumeration never disturbs scheduled candidates."""
import copy
import os
import pickle
import random
import shutil

from vlib import coq
from props import c03, c15

GENERATORS = ['pymini']
COQ_TARGETS = ['Py/PyFacts.vo']
RULE = ('table of all 136 methods of cvise/passes/*.py regenerated as PyMini programs and analysed inside Coq on every run (the theorems '
        'quantify over every execution of them); observational tie on the REAL pass objects: every text pass and argument, IfPass '
        '(stand-in unifdef), ClangPass / ClangBinarySearchPass (stand-in clang_delta), on token texts and on cursors reached through '
        'random accept/reject histories: around each advance / advance_on_success / transform call a deep structural snapshot of the '
        'cursor and of the pass object is compared (the fields that changed must be ones the Coq summary of that method allows), the '
        'cursor is sent through pickle and must come back structurally equal and produce the same candidate, transform is run twice on '
        'equal inputs and must give the same result / bytes / returned cursor, and the directory is listed before and after: only the '
        'candidate file may change, nothing may be left; non-trivial = distinct (pass, text, cursor) with an OK transform'
        ' Also: cursors still in flight re-checked after every later advance; the pickled (pass, cursor) run in a freshly started interpreter; a pass object whose new() has since seen another file must reproduce recorded candidates; long rejection streaks; a tool that cannot be started.')
TRUSTED = ['translator tools/gen/pymini.py (Python ast -> PyMini, fail-closed) and its whitelists: library functions and the listed str/re/dict/file methods do not write through their arguments; indirect calls reach only nested functions of the same class',
           'PyMini over-approximates reads, branches and exceptions; what it does not model: writes through aliases created OUTSIDE the method (e.g. two cursors sharing a list) are attributed to "pre-existing object" and would be reported as WAny, not missed',
           'picklability, determinism and scratch files are runtime facts: checked on the explored runs, not proved']
ASSUMPTIONS = ['ClangBinarySearchPass.transform writes the slot real_num_instances of the cursor it is given (its return channel to advance_on_success): allowed explicitly by theorem C11_transform_effects_partial',
               'advance_on_success may update the winner\'s own cursor in place (BinaryState.instances): by design it runs on the private copy returned from the worker']


def deep(o, depth=0, seen=None):
    """structural, address-free description of a cursor / pass object"""
    if depth > 8:
        return '<deep>'
    if o is None or isinstance(o, (bool, int, float, str, bytes)):
        return o
    if isinstance(o, (list, tuple)):
        return [type(o).__name__] + [deep(x, depth + 1) for x in o]
    if isinstance(o, dict):
        return {'<dict>': sorted(((k if isinstance(k, str) else repr(k), deep(v, depth + 1)) for k, v in o.items()), key=lambda kv: kv[0])}
    if isinstance(o, (set, frozenset)):
        return {'<set>': sorted(repr(x) for x in o)}
    if hasattr(o, '__dict__'):
        return {'<obj>': type(o).__name__, 'fields': sorted(((k, deep(v, depth + 1)) for k, v in vars(o).items()), key=lambda kv: kv[0])}
    return ('<opaque>', type(o).__name__, repr(o)[:80])


def changed_fields(a, b):
    """top-level fields that differ between two deep() descriptions"""
    if a == b:
        return []
    if isinstance(a, dict) and isinstance(b, dict):
        if '<obj>' in a and '<obj>' in b:
            fa, fb = dict(a['fields']), dict(b['fields'])
        elif '<dict>' in a and '<dict>' in b:
            fa, fb = dict(a['<dict>']), dict(b['<dict>'])
        else:
            return ['<whole>']
        return sorted(k for k in set(fa) | set(fb) if fa.get(k, '<absent>') != fb.get(k, '<absent>'))
    return ['<whole>']


def listing(d):
    out = {}
    for dp, dns, fns in os.walk(d):
        for fn in fns:
            p = os.path.join(dp, fn)
            with open(p, 'rb') as f:
                out[os.path.relpath(p, d)] = f.read()
    return out


class Notifier:
    """stand-in for ProcessEventNotifier(None): runs the command, records nothing"""
    def __init__(self):
        from cvise.passes.abstract import ProcessEventNotifier
        self.real = ProcessEventNotifier(None)

    def run_process(self, *a, **k):
        return self.real.run_process(*a, **k)


def summaries():
    """allowed written fields per (class, role) as computed by the Coq analysis"""
    terms = ['(map (fun p => (fst p, s_w (slook Sg (fst p)))) (advance_methods ++ advance_on_success_methods ++ transform_methods ++ new_methods))']
    out = coq.eval_terms('c11sum', ['From Coq Require Import List String.', 'Import ListNotations.', 'Open Scope string_scope.', 'From CV Require Import Py.PyMini Gen.PyMethods.', 'Definition Sg := Eval vm_compute in summaries py_table.'], [], terms)
    import re
    txt = out[0] if isinstance(out, list) else out
    res = {}
    for m in re.finditer(r'\("([A-Za-z_]+)\.([a-z_]+)",\s*(\[[^\]]*\]|nil)\)', txt.replace('\n', ' ')):
        cls, role, ws = m.group(1), m.group(2), m.group(3)
        items = set()
        for w in re.finditer(r'WField (\d+) "([^"]+)"|WAll (\d+)|WAny', ws):
            if w.group(0) == 'WAny':
                items.add(('any', None))
            elif w.group(3) is not None:
                items.add((int(w.group(3)), '*'))
            else:
                items.add((int(w.group(1)), w.group(2)))
        res[(cls, role)] = items
    return res


def owner_of(pass_, role):
    for c in type(pass_).__mro__:
        if role in vars(c):
            return c.__name__
    return None


WORKER = r'''
import pickle, sys
from cvise.passes.abstract import ProcessEventNotifier
pass_, state, cand = pickle.load(open(sys.argv[1], 'rb'))
try:
    res, st = pass_.transform(cand, state, ProcessEventNotifier(None))
    out = (res.name, open(cand, 'rb').read())
except Exception as e:
    out = ('EXC:' + type(e).__name__ + ':' + str(e)[:200], None)
pickle.dump(out, open(sys.argv[2], 'wb'))
'''


def in_fresh_process(ctx, pass_, state, text, fname, hashseed=None):
    """what a worker that shares no memory with the driver computes from the pickled (pass, cursor)"""
    import subprocess
    d = os.path.join(ctx.tmp, 'c11-fresh')
    if os.path.exists(d):
        shutil.rmtree(d)
    os.makedirs(d)
    cand = os.path.join(d, fname)
    with open(cand, 'w', newline='') as f:
        f.write(text)
    with open(os.path.join(d, 'in.pkl'), 'wb') as f:
        pickle.dump((pass_, state, cand), f)
    w = os.path.join(d, 'w.py')
    with open(w, 'w') as f:
        f.write(WORKER)
    # a worker started afresh does not share the driver's string-hash seed either
    env = dict(os.environ, PYTHONPATH=os.environ.get('VERIF_REPO', '/repo'), PYTHONHASHSEED=str(hashseed if hashseed is not None else 1 + (len(text) * 7919 + len(fname)) % 4000))
    r = subprocess.run(['/venv/bin/python', w, os.path.join(d, 'in.pkl'), os.path.join(d, 'out.pkl')], capture_output=True, text=True, env=env, timeout=120)
    if r.returncode != 0:
        return ('WORKER-DIED:' + r.stderr[-300:], None)
    return pickle.load(open(os.path.join(d, 'out.pkl'), 'rb'))


class Explorer:
    def __init__(self, ctx, sums):
        self.ctx, self.sums = ctx, sums
        self.fresh_budget = 25 if ctx.quick() else 250
        self.recorded = []       # (label, mk, text, fname, cursor snapshot bytes, result, candidate bytes)
        self.d = os.path.join(ctx.tmp, 'c11')
        if os.path.exists(self.d):
            shutil.rmtree(self.d)
        os.makedirs(self.d)

    def stated(self, pass_, role, idx):
        """what the property itself allows (independent of the Coq analysis)"""
        if idx == 0:
            return set()           # the pass configuration is never written by advance / advance_on_success / transform
        if role == 'advance':
            return set()
        if role == 'advance_on_success':
            return {'instances', 'real_num_instances'}
        if role == 'transform':
            return {'real_num_instances'} if type(pass_).__name__ == 'ClangBinarySearchPass' else set()
        return set()

    def allowed(self, pass_, role, idx):
        if self.sums is None:
            return None
        items = self.sums.get((owner_of(pass_, role), role))
        if items is None:
            return None
        if ('any', None) in items:
            return {'*'}
        return {k for (i, k) in items if i == idx}

    def check_untouched(self, label, role, pass_, state, before_state, before_self, rep):
        ctx = self.ctx
        ch = changed_fields(before_state, deep(state))
        chs = changed_fields(before_self, deep(pass_))
        bad = [f for f in ch if f not in self.stated(pass_, role, 2)]
        if bad:
            ctx.violation(f'cursor-mutated:{label}:{role}', f'{label}.{role} changed {bad} of the cursor object it was given: {before_state} -> {deep(state)}', rep)
        bad = [f for f in chs if f not in self.stated(pass_, role, 0)]
        if bad:
            ctx.violation(f'pass-mutated:{label}:{role}', f'{label}.{role} changed {bad} of the pass object', rep)
        # tie: whatever was observed to change must be within the summary Coq computed for that method
        for idx, obs in ((2, ch), (0, chs)):
            al = self.allowed(pass_, role, idx)
            if al is None:
                continue
            miss = [f for f in obs if '*' not in al and f not in al]
            if miss:
                ctx.broke('correspondence', 'PyMini summary vs observed writes', f'{owner_of(pass_, role)}.{role} changed {miss} of argument {idx}; the Coq summary allows {sorted(al)}')

    def explore(self, label, mk, text, rnd, steps=40, fname='tc.c', sibling=True, accept_prob=0.4):
        """drive one pass on one text along a random accept/reject history"""
        from cvise.passes.abstract import PassResult, ProcessEventNotifier
        ctx = self.ctx
        work = os.path.join(self.d, 'w')
        if os.path.exists(work):
            shutil.rmtree(work)
        os.makedirs(work)
        path = os.path.join(work, fname)
        with open(path, 'w', newline='') as f:
            f.write(text)
        if sibling:
            with open(os.path.join(work, 'other.h'), 'w') as f:
                f.write('sibling\n')
        p = mk()
        rep = {'pass': label, 'text': text}
        self_before = deep(p)
        try:
            state = p.new(path, None)
        except Exception as e:
            ctx.count(f'new-raises:{type(e).__name__}')
            return
        with open(path, newline='') as f:
            text = f.read()          # new() may have reformatted the file (lines passes)
        hist = []
        handed = []          # (cursor object, snapshot) of candidates already handed out and still in flight
        for k in range(steps):
            if state is None:
                break
            ctx.evaluations += 1
            rep = {'pass': label, 'text': text, 'history': list(hist), 'seed': None}
            sb, pb = deep(state), deep(p)
            # --- pickle round trip of the cursor (and of the pass object, which travels with the bound method)
            try:
                st2 = pickle.loads(pickle.dumps(state))
                pickle.dumps(p)
            except Exception as e:
                ctx.violation(f'unpicklable:{label}', f'{label}: cursor or pass object cannot be pickled ({type(e).__name__}: {e}): {sb}', rep)
                return
            if deep(st2) != sb:
                ctx.violation(f'pickle-changes-cursor:{label}', f'{label}: cursor {sb} comes back from pickle as {deep(st2)}', rep)
                return
            # --- transform twice on equal inputs, in two private directories
            outs = []
            for run, st_in in enumerate((state, st2)):
                cd = os.path.join(self.d, f'cand{run}')
                if os.path.exists(cd):
                    shutil.rmtree(cd)
                shutil.copytree(work, cd)
                cand = os.path.join(cd, fname)
                before = listing(cd)
                s_in_before = deep(st_in)
                # the process's current directory is the user's directory, not the candidate's: files there that happen to be
                # called like a scratch file of the pass must survive
                here = os.path.join(self.d, f'cwd{run}')
                if os.path.exists(here):
                    shutil.rmtree(here)
                os.makedirs(here)
                for suffix in ('.in', '.tmp', '.orig', '.bak', '~', '.out'):
                    with open(os.path.join(here, os.path.basename(fname) + suffix), 'w') as fh:
                        fh.write('bystander ' + suffix)
                here_before = listing(here)
                old_cwd = os.getcwd()
                os.chdir(here)
                try:
                    res, st_out = p.transform(cand, st_in, ProcessEventNotifier(None))
                    resn = res.name
                except Exception as e:
                    res, st_out, resn = None, None, 'EXC:' + type(e).__name__
                finally:
                    os.chdir(old_cwd)
                after = listing(cd)
                here_after = listing(here)
                if here_after != here_before:
                    ctx.violation(f'transform-touches-other-files:{label}', f'{label}.transform changed the current directory of the process (not the candidate\'s directory): '
                                  f'created {sorted(set(here_after) - set(here_before))}, removed {sorted(set(here_before) - set(here_after))}, '
                                  f'modified {sorted(n for n in here_before if n in here_after and here_before[n] != here_after[n])}', rep)
                self.check_untouched(label, 'transform', p, st_in, s_in_before, pb, rep)
                extra = sorted(set(after) - set(before))
                gone = sorted(set(before) - set(after))
                other = sorted(n for n in before if n in after and n != fname and before[n] != after[n])
                if extra or gone or other:
                    ctx.violation(f'transform-touches-other-files:{label}', f'{label}.transform: created {extra}, removed {gone}, modified {other} besides the candidate', rep)
                outs.append((resn, after.get(fname), deep(st_out)))
            if outs[0] != outs[1]:
                ctx.violation(f'nondeterministic:{label}', f'{label}.transform on equal (file, cursor) gave {outs[0][0]}/{outs[0][2]} and, for the pickled copy, {outs[1][0]}/{outs[1][2]}'
                              + (' with different bytes' if outs[0][1] != outs[1][1] else ''), rep)
                return
            resn, cand_bytes, _ = outs[0]
            if resn == 'OK':
                ctx.nontriv(repr((label, text, sb)))
                if 'clang' not in label and 'cannot be started' not in label:
                    if len(self.recorded) < 600:
                        self.recorded.append((label, mk, text, fname, pickle.dumps(state), resn, cand_bytes))
                    if self.fresh_budget > 0 and (k == 0 or rnd.random() < 0.1):
                        self.fresh_budget -= 1
                        fr = in_fresh_process(ctx, p, state, text, fname)
                        ctx.count('fresh-process-worker')
                        if fr != (resn, cand_bytes):
                            ctx.violation(f'cursor-does-not-travel:{label}', f'{label}: a worker process started afresh computes {str(fr)[:200]} from the pickled (pass, cursor), the driver process computes ({resn}, {cand_bytes[:80]!r})', rep)
                            return
            ctx.count(f'{label.split("::")[0]}:{resn}')
            if resn == 'INVALID' and label.startswith('peep') and len(self.recorded) < 600 and rnd.random() < 0.3:
                self.recorded.append((label, mk, text, fname, pickle.dumps(state), resn, cand_bytes))
            if resn in ('STOP', 'ERROR') or resn.startswith('EXC'):
                break
            # --- advance must leave the cursor it is given (and every other handed-out cursor) untouched
            sb, pb = deep(state), deep(p)        # transform may have used its allowed report slot
            handed.append((state, sb))
            handed = handed[-80:]
            others = [copy.deepcopy(state)]
            ob = [deep(o) for o in others]
            try:
                nxt = p.advance(path, state)
            except Exception as e:
                ctx.count(f'advance-raises:{type(e).__name__}')
                break
            self.check_untouched(label, 'advance', p, state, sb, pb, rep)
            if [deep(o) for o in others] != ob:
                ctx.violation(f'advance-disturbs-others:{label}', f'{label}.advance changed a cursor handed out earlier', rep)
            for age, (obj, snap) in enumerate(reversed(handed)):
                if deep(obj) != snap:
                    ctx.violation(f'advance-disturbs-others:{label}', f'{label}.advance (step {k}) changed the cursor handed out {age} step(s) earlier: {snap} -> {deep(obj)}'[:900], rep)
                    return
            accept = resn == 'OK' and cand_bytes is not None and cand_bytes != text.encode() and rnd.random() < accept_prob
            if accept:
                # the winner's private copy (as it comes back from the worker) goes through advance_on_success
                cd = os.path.join(self.d, 'cand0')
                # re-run transform to obtain the returned cursor object itself
                shutil.rmtree(cd)
                shutil.copytree(work, cd)
                cand = os.path.join(cd, fname)
                res, st_ret = p.transform(cand, pickle.loads(pickle.dumps(state)), ProcessEventNotifier(None))
                shutil.copy(cand, path)
                wb = deep(st_ret)
                pb2 = deep(p)
                sb = deep(state)
                try:
                    nxt = p.advance_on_success(cand, st_ret)
                except Exception as e:
                    ctx.count(f'aos-raises:{type(e).__name__}')
                    break
                self.check_untouched(label, 'advance_on_success', p, st_ret, wb, pb2, rep)
                if deep(state) != sb:
                    ctx.violation(f'aos-disturbs-original:{label}', f'{label}.advance_on_success changed the cursor object kept by the driver', rep)
                with open(path, newline='') as f:
                    text = f.read()
                hist.append(1)
                handed = []      # a success discards the other in-flight candidates
            else:
                hist.append(0)
            state = nxt


def explore(ctx):
    rnd = random.Random(ctx.seed + 11)
    try:
        sums = summaries()
        if len(sums) < 60:
            ctx.broke('harness', 'summaries', f'only {len(sums)} summaries parsed')
            sums = None
    except Exception as e:
        ctx.broke('correspondence', 'PyMini summaries could not be evaluated', repr(e)[:800])
        sums = None
    ex = Explorer(ctx, sums)
    table = c03.pass_table()
    small, exh, rn = c03.texts_for(ctx, rnd)
    for entry in table:
        kind, name, arg, cls = entry
        label = f'{name}::{arg}'
        texts = list(small) + rn[: (4 if ctx.quick() else 40)] + [c03.gen_kind_text(rnd, kind, 5 if kind == 'peep' else 10) for _ in range(6 if ctx.quick() else 80)]
        if name == 'lines' and arg != 'None':
            texts = texts[::4]
        if kind == 'peep':
            texts = [t for t in texts if len(t) <= 14][: (8 if ctx.quick() else 40)]
        for text in texts:
            for rep_ in range(1 if ctx.quick() else 3):
                ex.explore(label, lambda cls=cls, arg=arg: c03.mk(cls, arg), text, rnd, steps=(25 if kind != 'peep' else 60))
    # long rejection streaks on texts with many instances (cursors that compact / trim shared structure late)
    many = ''.join(f' {i + 10}, 0x{i + 16:x};' for i in range(45)) + '\n'
    manyb = ''.join('(a)' if i % 2 else '{b}' for i in range(90))
    for entry in table:
        kind, name, arg, cls = entry
        if kind in ('list', 'pos') and (name != 'balanced' or arg in ('parens', 'curly-only')):
            ex.explore(f'{name}::{arg}', lambda cls=cls, arg=arg: c03.mk(cls, arg), many if kind == 'list' else manyb, random.Random(1), steps=100, accept_prob=0.0)
    # the candidate is a function of (file, cursor, pass argument): a pass object that has since seen other files in new()
    # (the next test case of a multi-file run) must still produce the recorded candidates
    others = [',x w,', 'a', ' 0x1, (b) ', 'zz,', '#include <q>\n\n/* c */\n']
    by_label = {}
    for rec in ex.recorded:
        by_label.setdefault(rec[0], []).append(rec)
    for label, recs in by_label.items():
        for rec in recs[:: max(1, len(recs) // ((30 if label.startswith('peep') else 4) if ctx.quick() else 60))]:
            _l, mk_, text, fname, st_bytes, resn, cand_bytes = rec
            for other in others[: (2 if ctx.quick() else 5)]:
                p2 = mk_()
                dd = os.path.join(ctx.tmp, 'c11-cross')
                os.makedirs(dd, exist_ok=True)
                op = os.path.join(dd, 'other.c')
                with open(op, 'w') as f:
                    f.write(other)
                try:
                    p2.new(op, None)
                except Exception:
                    continue
                cp_ = os.path.join(dd, fname)
                with open(cp_, 'w', newline='') as f:
                    f.write(text)
                from cvise.passes.abstract import ProcessEventNotifier
                try:
                    res, _st = p2.transform(cp_, pickle.loads(st_bytes), ProcessEventNotifier(None))
                    got = (res.name, open(cp_, 'rb').read())
                except Exception as e:
                    got = ('EXC:' + type(e).__name__, None)
                ctx.evaluations += 1
                ctx.count('cross-file-pass-object')
                if got != (resn, cand_bytes):
                    ctx.violation(f'depends-on-earlier-new:{label}', f'{label}: after new() on another file ({other!r}) the same (file {text!r}, cursor) gives {str(got)[:160]} instead of ({resn}, {cand_bytes[:80]!r})',
                                  {'pass': label, 'text': text})
                    break
    # passes that call external tools: stand-ins
    from cvise.passes.ifs import IfPass
    from props.c05 import UNIFDEF
    iftexts = ['#if 0\na\n#endif\nb\n', '#if 1\nx\n#endif\n#if 0\ny\n#endif\n#ifdef Z\nq\n#endif\n', 'int a;\n', '#if 0\n#if 1\nz\n#endif\n#endif\n']
    for t in iftexts:
        for _ in range(2 if ctx.quick() else 10):
            def mkif():
                p = IfPass(None, {'unifdef': UNIFDEF})
                p.max_transforms = None
                return p
            ex.explore('ifs::None', mkif, t, rnd, steps=20)
    # IncludeIncludesPass (shipped in all.json; replaces the k-th  #include 'file'  by the file's content): the included file is named
    # by absolute path because the pass opens it relative to the process's current directory
    from cvise.passes.includeincludes import IncludeIncludesPass
    incf = os.path.join(ctx.tmp, 'c11-inc.h')
    with open(incf, 'w') as f:
        f.write('int from_header;\n')
    inctexts = [f"#include '{incf}'\nint a;\n#include '{ctx.tmp}/c11-missing.h'\n  #  include '{incf}'\nint b;\n", "int a;\n#include <x.h>\n"]
    for t in inctexts:
        for _ in range(2 if ctx.quick() else 6):
            def mkinc():
                p = IncludeIncludesPass(None, {})
                p.max_transforms = None
                return p
            ex.explore('includeincludes::None', mkinc, t, rnd, steps=12)
    # UnIfDefPass (unifdef -s lists the symbols; cursor k = symbol k // 2 defined / undefined): several symbols, used repeatedly
    from cvise.passes.unifdef import UnIfDefPass
    untexts = ['#ifdef ALPHA\na\n#endif\n#ifndef Beta\nb\n#endif\n#if gamma\nc\n#else\nd\n#endif\n#ifdef ALPHA\ne\n#endif\n',
               '#ifdef Q\n#ifdef zz\nx\n#endif\n#ifdef M1\ny\n#endif\n#endif\n#ifndef k\nw\n#endif\n#ifdef W9\nv\n#endif\n', 'int a;\n']
    for t in untexts:
        for _ in range(2 if ctx.quick() else 6):
            def mkun():
                p = UnIfDefPass(None, {'unifdef': UNIFDEF})
                p.max_transforms = None
                return p
            ex.explore('unifdef::None', mkun, t, rnd, steps=16)
    # the candidate of a cursor must not depend on the interpreter's string-hash seed (workers are separate processes; a rerun of
    # C-Vise is another process): the same (pass, cursor, file) in processes started with different seeds
    for label, mk_, texts_, states_ in (('unifdef::None', mkun, untexts[:2], range(0, 10)),):
        for t in texts_:
            for st in states_:
                got = [in_fresh_process(ctx, mk_(), st, t, 'hs.c', hashseed=hs) for hs in (1, 2, 77)]
                ctx.evaluations += 3
                ctx.count('fresh-process-hashseed')
                if got[0] != got[1] or got[0] != got[2]:
                    ctx.violation(f'nondeterministic:{label}', f'{label}: cursor {st} on {t!r} gives {str(got[0])[:120]} in a process with PYTHONHASHSEED=1, '
                                  f'{str(got[1])[:120]} with 2, {str(got[2])[:120]} with 77: the candidate is not a function of (file, cursor, configuration)',
                                  {'pass': label, 'text': t, 'state': st})
                    break
    for bad_tool in ('/nonexistent/unifdef', os.path.join(ctx.tmp, 'not-executable')):
        if 'not-executable' in bad_tool:
            with open(bad_tool, 'w') as f:
                f.write('#!/bin/sh\nexit 0\n')
            os.chmod(bad_tool, 0o644)

        def mkbad(bad_tool=bad_tool):
            p = IfPass(None, {'unifdef': bad_tool})
            p.max_transforms = None
            return p
        ex.explore('ifs::None(tool cannot be started)', mkbad, iftexts[0], rnd, steps=3)
    for kind in ('bin', 'std'):
        for n in (1, 3, 6) if ctx.quick() else (1, 2, 3, 5, 8, 13):
            c15.setup(ctx, {})
            text = 'head\n' + ''.join(f'I{i}\nx\n' for i in range(n))
            for _ in range(2 if ctx.quick() else 6):
                ex.explore(f'clang-{kind}::remove-unused-function', lambda: c15.mk_pass(kind, 'c++11'), text, rnd, steps=20, fname='tc.cc')
    ctx.corr_cases += ctx.evaluations
    ctx.sample({'summaries_from_coq': len(sums or {}), 'example': {f'{k[0]}.{k[1]}': sorted(map(str, v)) for k, v in list((sums or {}).items())[:4]}})


def replay(ctx, payload):
    r = payload['replay']
    ex = Explorer(ctx, None)
    table = {f'{n}::{a}': (k, n, a, c) for (k, n, a, c) in c03.pass_table()}
    if r['pass'] in table:
        kind, name, arg, cls = table[r['pass']]
        for s in range(20):
            ex.explore(r['pass'], lambda cls=cls, arg=arg: c03.mk(cls, arg), r['text'], random.Random(s))
    else:
        print('replay: run ./check C11 (external-tool pass)')


LEVEL_TEXT = ('Machine-checked: a write analysis over PyMini (heap semantics with aliasing, nondeterministic control, exceptions, calls) is '
              'proved sound for every execution; applied inside Coq to the table of all pass methods regenerated from the Python source on '
              'every run it yields: the 19 advance methods and the BinaryState helpers write to NO pre-existing object (cursor, pass object or '
              'anything else); advance_on_success writes at most cursor.instances / cursor.real_num_instances; transform writes nothing but '
              'its process-event notifier, except ClangBinarySearchPass.transform (slot real_num_instances of its cursor); new() sets at most '
              'two named configuration slots. Picklability, determinism and "writes only the candidate, leaves no scratch file" are observed '
              'on the real pass objects along random histories, and every field observed to change must be allowed by the Coq summary.')
LEVEL_NOTE = ('Partial: picklability / determinism (also across processes started with different string-hash seeds; IfPass and UnIfDefPass through a unifdef stand-in; IncludeIncludesPass with a real header) / scratch files are runtime facts checked on explored runs. Trusted: Coq kernel, the '
              'fail-closed translator and its library whitelist (cross-checked every run by the snapshot comparison on the real objects).')
TECHNIQUE = 'Rocq proof (sound interprocedural write/alias analysis over a heap semantics) on IR regenerated from the Python source + deep-snapshot / pickle / double-run differential on the real pass objects'
