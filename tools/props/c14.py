"""C14  Shipped schedules name only passes, arguments and tool behaviours that exist."""
import glob
import json
import os
import re

from vlib import coq

GENERATORS = ['passgroups', 'clangdelta', 'pyconv']
COQ_TARGETS = ['Config/Shipped.vo']
RULE = ('finite domain, enumerated completely inside Coq: every entry of every shipped pass-group file x the regenerated tables '
        '(pass_name_mapping, accepted arguments of the Python passes from their ast, the 73 RegisterTransformation lines with '
        'their MultipleRewrites flags, the clex mode chain of driver.c with its asserted bounds, exit codes and count messages '
        'of both sides); a probe instantiates every Python text pass with every shipped argument (and a bogus one) and calls '
        'new/transform; non-trivial = distinct (pass, argument) rows')
TRUSTED = ['translators tools/gen/{passgroups,clangdelta,pyconv}.py (ast / regex extraction, fail-closed): for the C++ and C side they are the only tie, clang_delta and clex cannot be built by the pinned toolchain',
           'row checker coq/Config/Shipped.v (what "exists" means)']
ASSUMPTIONS = ['what clang_delta does for a registered name is out of scope (C19 checks the counter protocol shape)']
IMPORTS = ['From Coq Require Import List ZArith Bool.', 'Import ListNotations.', 'From CV Require Import Config.PassGroup Config.Shipped.', 'From CV Require Gen.PassGroups Gen.ClangDelta Gen.PyConv.',
           'From Coq Require Import String.', 'Open Scope string_scope.']
ROW_OK = ('(row_ok Gen.PassGroups.pass_table Gen.PyConv.py_args Gen.ClangDelta.registrations Gen.PyConv.clex_exact Gen.PyConv.clex_prefixed Gen.PyConv.lines_literals)')


def run_python_rows(ctx, rows):
    import tempfile
    from cvise.cvise import CVise
    from cvise.passes.abstract import ProcessEventNotifier
    from cvise.utils.error import UnknownArgumentError
    standins = os.path.join(os.path.dirname(os.path.dirname(os.path.abspath(__file__))), 'standins')
    ext = {'topformflat': os.path.join(standins, 'topformflat'), 'unifdef': os.path.join(standins, 'unifdef'), 'clang-format': '/bin/true',
           'clang_delta': os.path.join(standins, 'clang_delta'), 'clex': '/bin/false', 'gcov-dump': os.path.join(standins, 'gcov-dump')}
    text = '#include <a.h>\n# 1 "x.c"\nint f(int a) {\n  // c\n  return (a ? 0x10 : 2) + g(1, b);   /* d */\n}\n\n#if FOO\nint g;\n#endif\nclass K { int h[3] = {1, 2}; };\n'
    done = set()
    for fname, cat, e in rows:
        key = (e.get('pass'), e.get('arg'))
        if key in done or e.get('pass') in ('clang', 'clangbinarysearch', 'gcda-binary', None) or e.get('pass') not in CVise.pass_name_mapping:
            continue
        done.add(key)
        d = tempfile.mkdtemp(prefix='c14row-', dir=ctx.tmp)
        path = os.path.join(d, 't.c')
        with open(path, 'w') as f:
            f.write(text)
        ctx.evaluations += 1
        ctx.count('python-row-executed')
        try:
            p = CVise.pass_name_mapping[e['pass']](e.get('arg'), ext)
            st = p.new(path, lambda: None)
            if st is not None:
                p.transform(path, st, ProcessEventNotifier(None))
        except UnknownArgumentError as ex:
            ctx.violation(f'row:{e.get("pass")}:{e.get("arg")}', f'{fname} ({cat}): pass={e.get("pass")!r} arg={e.get("arg")!r} is refused by the pass itself when it runs: {ex}',
                          {'pass': e.get('pass'), 'arg': e.get('arg')})
        except Exception:
            pass      # (anything else is not about the argument)


def explore(ctx):
    repo = os.environ.get('VERIF_REPO', '/repo')
    rows = []
    for f in sorted(glob.glob(os.path.join(repo, 'cvise/pass_groups/*.json'))):
        d = json.load(open(f))
        for cat, es in d.items():
            for e in es:
                rows.append((os.path.basename(f), cat, e))
                ctx.nontriv((e.get('pass'), e.get('arg')))
    ctx.evaluations += len(rows)
    ctx.count('shipped-rows', len(rows))
    ctx.extra['exhaustive'] = True
    ctx.sample({'row': rows[10][2], 'file': rows[10][0]})
    # every shipped row of a Python text pass is also EXECUTED once (new() and one transform() on a small C text, tools
    # replaced by stand-ins): an argument that new() takes but transform() refuses is not "accepted" - this is the search
    # for a failing input when the argument tables can no longer be read off the source
    run_python_rows(ctx, rows)
    # search for the offending rows (also the failing-input search when the theorem no longer builds)
    try:
        res = coq.eval_terms('c14rows', IMPORTS, [], [
            f'map (fun ng => (fst ng, map (fun e => (e_pass e, e_arg e)) (filter (fun e => negb ({ROW_OK} e)) (group_rows (snd ng))))) Gen.PassGroups.shipped_groups',
            'nodup_str (map (fun r => fst (fst r)) Gen.ClangDelta.registrations)',
            '(Gen.ClangDelta.cxx_exit_generic, Gen.ClangDelta.cxx_exit_invalid_counter, Gen.PyConv.py_clang_stop, Gen.PyConv.py_clangbin_stop, Gen.PyConv.py_clex_codes, Gen.ClangDelta.clex_ok, Gen.ClangDelta.clex_stop)',
            '(Gen.PyConv.py_count_regex_prefix, Gen.ClangDelta.cxx_count_msg, Gen.PyConv.py_count_stderr_prefix)',
            'Gen.ClangDelta.conditional_registrations'])
        for name in re.findall(r'"([^"]+)"', res[4]):
            used = sorted({f for f, _c, e in rows if e.get('arg') == name})
            ctx.violation(f'conditional-registration:{name}', f'clang_delta transformation {name!r} is registered inside a preprocessor conditional: some builds do not have it'
                          + (f' although {", ".join(used)} schedule it' if used else ''), {'transformation': name})
        bad = re.findall(r'\(Some "([^"]*)", (Some "([^"]*)"|None)\)', res[0])
        for p, _, a in bad:
            ctx.violation(f'row:{p}:{a}', f'shipped entry pass={p!r} arg={a!r} names something that does not exist (unknown pass, argument not accepted, transformation not registered / not multi-rewrite, or clex mode out of range)',
                          {'pass': p, 'arg': a})
        if res[1].strip() != 'true':
            ctx.violation('duplicate-registration', 'a clang_delta transformation name is registered twice', {'registrations': 'see coq/Gen/ClangDelta.v'})
        m = re.findall(r'-?\d+', res[2])
        conv = {'cxx_exit_generic': m[0], 'cxx_exit_invalid_counter': m[1], 'raw': res[2]}
        ctx.sample({'conventions': res[2][:200], 'count_messages': res[3][:200]})
        nums = res[2].replace('%Z', '')
        want = '(255, 1, [1; 255], [255], [51; 71], 51, 71)'
        if ' '.join(nums.split()) != want:
            ctx.violation('exit-code-convention', f'exit codes / return-code tests of the two sides: {nums} (expected {want})', conv)
        if len(set(re.findall(r'"([^"]*)"', res[3]))) != 2:
            ctx.violation('count-message-convention', f'instance-count message literals disagree: {res[3]}', {'raw': res[3]})
    except Exception as e:
        ctx.broke('table-evaluation', 'Gen tables', repr(e)[:2000])
    probe(ctx)


def probe(ctx):
    """Tie the extracted argument sets to behaviour: each Python text pass accepts each of its
    arguments and raises UnknownArgumentError on a bogus one."""
    from gen import pyconv
    from cvise.cvise import CVise
    from cvise.passes.abstract import ProcessEventNotifier
    from cvise.utils.error import UnknownArgumentError
    text = 'int a = (1 ? 2 : 3) + f(0x10, b) ; struct S { int x; } ; /* c */ if (a) { return 0L; } extern \'C\' transparent_crc(a,b)\n'
    for name in ('balanced', 'ints', 'special', 'ternary', 'peep'):
        cls = CVise.pass_name_mapping[name]
        args = pyconv.accepted_args(f'cvise/passes/{name}.py')
        for arg in args + ['bogus-argument']:
            p = os.path.join(ctx.tmp, 'probe.c')
            with open(p, 'w') as f:
                f.write(text)
            ps = cls(arg, {})
            ps.max_transforms = None
            raised = None
            try:
                st = ps.new(p, None)
                k = 0
                while st is not None and k < 3:
                    ps.transform(p, st, ProcessEventNotifier(None))
                    st = ps.advance(p, st)
                    k += 1
            except UnknownArgumentError:
                raised = 'unknown'
            except Exception as e:
                raised = type(e).__name__
            ctx.evaluations += 1
            ctx.count('probe:' + name)
            if arg == 'bogus-argument':
                if raised != 'unknown':
                    ctx.broke('correspondence', f'{name} argument set', f'{name}::bogus-argument is not refused with UnknownArgumentError (got {raised})')
            elif raised is not None:
                ctx.broke('correspondence', f'{name} argument set', f'{name}::{arg} raised {raised} although the extractor lists it as accepted')


def replay(ctx, payload):
    explore(ctx)


LEVEL_TEXT = ('Machine-checked statements over tables regenerated from the source on every run: every shipped row names a known pass, '
              'an argument its implementation accepts, a registered clang_delta transformation (multi-rewrite where the binary-search '
              'driver is used) or an implemented clex mode within its asserted bounds; registration names are unique; the exit codes '
              'and the instance-count message emitted by the C/C++ side are the ones the Python side interprets. The domain is finite '
              'and enumerated completely inside Coq (vm_compute over the whole table).')
LEVEL_NOTE = ('Trusted: Coq kernel; the three translators (fail-closed, unverified) — for the C/C++ side the only tie, since clang_delta '
              'and clex cannot be built here; the meaning of "exists" in Config/Shipped.v. The unbounded decimal round-trip of the count '
              'message is part of C14 only through the literal prefixes (see DESIGN).')
TECHNIQUE = 'Rocq proof by computation over complete finite tables regenerated from /repo (translator = tie) + behavioural probe of the Python argument sets'
