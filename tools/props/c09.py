"""C09  Failing, hanging or crashing tests and tools are never accepted, never wedge."""
import json
import os
import random
import time

from vlib import driver, scengen, realrun
from props.common_driver import correspond, seq_reference, logical, TRUSTED as T0

GENERATORS = []
COQ_TARGETS = ['Driver/Script.vo']
RULE = ('shim runs: scenarios whose test rules assign exit != 0, negative (signal) codes, timeouts, and whose passes return '
        'ERROR / raise / INVALID / unchanged at arbitrary candidate positions, small MAX_TIMEOUTS / crash-dir / give-up '
        'constants, N in {1,2,3,5}, random schedules; real-pool runs: genuine pebble pool with a test that really exits 3, '
        'kills itself with SIGKILL or sleeps past the timeout.  Oracle: every committed tuple was logged with exit 0; '
        'non-blocking faults (exit!=0, signal, raise, INVALID) give the sequential reference result; runs end within the '
        'watchdog; report-directory counts within caps.  non-trivial = distinct scenarios with >= 1 fault verdict and >= 1 commit'
        ' Also: directed scenarios with hanging candidates among several in flight (N in 2..4) compared with the sequential reference.'
        ' Also (rounds 4-5): several timeouts harvested by one poll across MAX_TIMEOUTS, report directories used up, every candidate a (silenced) helper error, a silenced helper error in the middle of a sweep; a real-pool finding must repeat with a generous timeout.')
TRUSTED = T0 + ['real-pool runs trust pebble for worker start/kill/timeout delivery (observed, not proved)']
ASSUMPTIONS = ['deterministic test', 'report directories numbered contiguously from 0 (the model counts them)']


def nonblocking(rnd):
    sc = scengen.gen_scenario(rnd, 'contract')
    for p in sc['passes']:
        for i in range(len(p['ops'])):
            if rnd.random() < 0.25 and p['ops'][i][0] != 'stop':
                p['ops'][i] = rnd.choice([('raise',), ('inval',)])
    rules = []
    for atoms, out in sc['rules']:
        rules.append((atoms, out if out == 0 else rnd.choice([1, 3, -9, -11, 255])))
    sc['rules'] = rules
    return sc


def hanging_candidates(rnd):
    """several candidates in flight, some of whose tests hang past the timeout, a later one succeeds"""
    letters = rnd.sample('abcdefgh', rnd.randint(3, 6))
    hang = set(rnd.sample(letters, rnd.randint(1, len(letters) - 1)))
    ops = [('delch', ch) for ch in letters]
    rnd.shuffle(ops)
    rules = [([('nothas', 0, ch)], 'timeout') for ch in sorted(hang)] + [([], 0)]
    return {'files': [('f0.c', ''.join(letters))], 'rules': rules,
            'passes': [{'key': 1, 'ops': ops, 'aos': rnd.choice([0, 1]), 'maxt': None, 'newfix': None}],
            'cfg': {'N': rnd.choice([2, 3, 4]), 'maxto': 60, 'no_cache': True}, 'sched': [rnd.randint(0, 7) for _ in range(rnd.randint(0, 40))]}


def interleaved_timeouts(rnd):
    """hang, fail, hang, fail ... then a candidate that would succeed: MAX_TIMEOUTS counts the timeouts of the round,
    not only those in a row"""
    letters = list('abcdefgh')
    maxto = rnd.choice([2, 3])
    kinds = []
    hangs = 0
    for ch in letters[:-1]:
        if hangs < maxto + 1 and rnd.random() < 0.55:
            kinds.append((ch, 'timeout'))
            hangs += 1
        else:
            kinds.append((ch, rnd.choice([1, 3])))
    rules = [([('nothas', 0, ch)], out) for ch, out in kinds] + [([], 0)]
    return {'files': [('f0.c', ''.join(letters))], 'rules': rules,
            'passes': [{'key': 1, 'ops': [('delch', ch) for ch in letters], 'aos': 1, 'maxt': None, 'newfix': None}],
            'cfg': {'N': 1, 'maxto': maxto, 'no_cache': True}, 'sched': []}


def oracle_commits(ctx, sc, o):
    ok0 = {tuple(c) for (c, rc, _w, _l) in o.testlog if rc == 0}
    for d in o.accepted:
        t = logical(o, d)
        if t not in ok0:
            ctx.violation('commit-without-exit0', f'committed {t} although no test run on it exited 0', {'scenario': sc, 'kind': 'shim'})
            return
    cfg = dict(driver.DEFAULT_CFG)
    cfg.update(sc.get('cfg', {}))
    for p in o.passes:
        if p['code'] in (2, 50):
            ctx.violation('crash:' + type(p['exc']).__name__, f'{p["pass_"]} ended the reduction with {type(p["exc"]).__name__}: {p["exc"]} (a failing candidate must only be skipped)',
                          {'scenario': sc, 'kind': 'shim'})
        if p['bug'] > max(sc.get('bug0', 0), cfg['maxcrash'] + 1):
            ctx.violation('bug-dir-cap', f'{p["bug"]} cvise_bug_* directories (cap {cfg["maxcrash"] + 1}, initially {sc.get("bug0", 0)})', {'scenario': sc, 'kind': 'shim'})
        if p['extra'] > max(sc.get('extra0', 0), cfg['maxextra'] + 1):
            ctx.violation('extra-dir-cap', f'{p["extra"]} cvise_extra_* directories (cap {cfg["maxextra"] + 1})', {'scenario': sc, 'kind': 'shim'})


def oracle_nonblocking(ctx, sc, o, maxto=None):
    if any(p['code'] != 0 or p['bug'] != 0 for p in o.passes):
        return
    ref = seq_reference(sc, o.order, maxto)
    if ref is None:
        return
    final = list(logical(o, o.passes[-1]['disk']))
    if final != ref[0]:
        ctx.violation('fault-blocked-success', f'with only non-blocking faults the run ended on {final}; the sequential loop reaches {ref[0]}', {'scenario': sc, 'kind': 'shim'})


def real_case(ctx, sc, tag):
    # real processes and real timeouts: on a loaded machine a test that exits 0 may run into a 1 s timeout; a finding
    # of the first attempt counts only when a second attempt with a generous timeout shows a finding too
    o, viols = _real_case(ctx, sc, tag, 1)
    if viols:
        ctx.count('real-pool:repeated-with-long-timeout')
        o, viols = _real_case(ctx, sc, tag, 8)
    for v in viols:
        ctx.violation(*v)
    return o


def _real_case(ctx, sc, tag, timeout):
    viols = []
    o = realrun.run_real(sc, ctx.tmp, timeout=timeout)
    ctx.evaluations += 1
    ctx.count('real-pool:' + tag)
    ok0 = {tuple(r['contents']) for r in o.log if r['verdict'] == 0}
    for d in o.accepted:
        t = tuple(c.decode('latin-1') for c in d)
        if t not in ok0:
            viols.append(('commit-without-exit0', f'real pool: committed {t} although no test run on it exited 0', {'scenario': sc, 'kind': 'real', 'tag': tag}))
    for p in o.passes:
        if p['code'] in (2, 50):
            viols.append(('crash:' + type(p['exc']).__name__, f'real pool ({tag}): {p["pass_"]} ended the reduction with {type(p["exc"]).__name__}: {str(p["exc"])[:200]}', {'scenario': sc, 'kind': 'real', 'tag': tag}))
    if tag == 'noisy' and [c.decode('latin-1') for c in o.passes[-1]['disk']] != ['a'] and not any(p['code'] for p in o.passes):
        viols.append(('noisy-test-blocks', f'real pool: noisy but correct test, final {o.passes[-1]["disk"]} instead of [a]', {'scenario': sc, 'kind': 'real', 'tag': tag}))
    if o.wall > 60 * timeout:
        viols.append(('wedged', f'real-pool run took {o.wall:.0f}s', {'scenario': sc, 'kind': 'real', 'tag': tag}))
    if any(r['verdict'] != 0 for r in o.log) and o.accepted:
        ctx.nontriv('real:' + repr(sc['files']) + repr(sc['passes']))
    return o, viols


REAL_SCENARIOS = [
    ('noisy', {'files': [('f0.c', 'abcx')], 'noise': 9000,
               'rules': [([('nothas', 0, 'a')], 3), ([('has', 0, 'a')], 0)],
               'passes': [{'key': 1, 'ops': [('delch', 'a'), ('delch', 'b'), ('delch', 'c'), ('delch', 'x')], 'aos': 1}],
               'cfg': {'N': 2}}),
    ('mixed', {'files': [('f0.c', 'abcxk')],
               'rules': [([('nothas', 0, 'a')], 3), ([('nothas', 0, 'b')], -9), ([('nothas', 0, 'c')], 'timeout'), ([('has', 0, 'a')], 0)],
               'passes': [{'key': 1, 'ops': [('delch', 'a'), ('delch', 'b'), ('delch', 'c'), ('delch', 'x'), ('delch', 'k')], 'aos': 1}],
               'cfg': {'N': 3}}),
    ('all-timeout', {'files': [('f0.c', 'abcdefgh')], 'rules': [([('lenge', 0, 8)], 0), ([], 'timeout')],
                     'passes': [{'key': 1, 'ops': [('del', i) for i in range(8)], 'aos': 0}], 'cfg': {'N': 4, 'maxto': 3}}),
    ('two-files', {'files': [('f0.c', 'abab'), ('b/f1.c', 'xyx')],
                   'rules': [([('nothas', 1, 'y')], -9), ([('has', 0, 'a'), ('has', 1, 'x')], 0), ([], 1)],
                   'passes': [{'key': 1, 'ops': [('del', 0), ('del', 1), ('del', 2)], 'aos': 0},
                              {'key': 2, 'ops': [('err',), ('del', 0)], 'aos': 0}], 'cfg': {'N': 2}}),
]


def explore(ctx):
    rnd = random.Random(ctx.seed + 9)
    each = []
    n = 120 if ctx.quick() else 1200
    corpus = [e['scenario'] for e in json.load(open(os.path.join(os.environ.get('VERIF_ROOT', '/verif'), 'corpus', 'driver.json')))]
    for it in range(n + len(corpus)):
        prof = 'faults' if it % 2 else ('nonblocking' if it % 4 else ('timeouts' if it % 8 and it % 12 else 'timeouts-parallel'))
        if it < len(corpus):
            sc, prof = corpus[it], 'corpus'
        else:
            sc = scengen.gen_scenario(rnd, 'faults') if prof == 'faults' else nonblocking(rnd)
            if prof == 'timeouts-parallel':
                # hanging candidates among several in flight: a hang only costs its own candidate (the limit is far away)
                sc = hanging_candidates(rnd)
            if prof == 'timeouts' and it % 16 == 4:
                sc = interleaved_timeouts(rnd)
            elif prof == 'timeouts':    # sequential runs with hanging candidates: several rounds, few timeouts each
                sc['cfg'].update({'N': 1, 'maxto': rnd.choice([1, 2, 3])})
                sc['rules'] = [(atoms, out if out == 0 or rnd.random() < 0.5 else 'timeout') for atoms, out in sc['rules']]
        t0 = time.time()
        o = driver.run_scenario(sc, ctx.tmp)
        ctx.evaluations += 1
        if o.diverged:
            ctx.count('diverged')
            continue
        if time.time() - t0 > 30:
            ctx.violation('wedged', 'shim run exceeded the watchdog', {'scenario': sc, 'kind': 'shim'})
        oracle_commits(ctx, sc, o)
        if prof == 'nonblocking':
            oracle_nonblocking(ctx, sc, o)
        if prof == 'timeouts-parallel':
            oracle_nonblocking(ctx, sc, o)
        if prof in ('timeouts', 'corpus') and sc['cfg'].get('N') == 1 and 'maxto' in sc['cfg']:
            oracle_nonblocking(ctx, sc, o, maxto=sc['cfg']['maxto'])
        each.append((driver.coq_scenario(sc, o.perm), o.out, sc))
        faults = sum(1 for (_c, rc, _w, _l) in o.testlog if rc != 0)
        ctx.count(f'{prof}:N={sc["cfg"].get("N", 2)}')
        if faults and o.accepted:
            ctx.nontriv(repr((sc['files'], sc['passes'], sc['rules'], sc['cfg'], sc['sched'])))
    # several hanging candidates harvested by ONE poll, crossing MAX_TIMEOUTS in the middle of it: the limit holds per
    # timeout, not per poll (one round: no candidate succeeds, so at most MAX_TIMEOUTS are ever reported)
    for nn in (3, 4, 6):
        for maxto in (1, 2, 3):
            for sched in ([1] * 80, [0, 0, 1, 1, 1] * 16, [rnd.choice([1, 3, 5, 0]) for _ in range(80)]):
                sc = {'files': [('f0.c', 'abcdefghij')], 'rules': [([('lenge', 0, 10)], 0), ([], 'timeout')],
                      'passes': [{'key': 1, 'ops': [('del', i) for i in range(10)], 'aos': 0, 'maxt': None, 'newfix': None}],
                      'cfg': {'N': nn, 'maxto': maxto, 'no_cache': True}, 'sched': sched}
                o = driver.run_scenario(sc, ctx.tmp)
                ctx.evaluations += 1
                ctx.count('timeouts-harvested-in-one-poll')
                if o.diverged:
                    continue
                ps = o.passes[0]
                if ps['extra'] > maxto:
                    ctx.violation('timeouts-unbounded', f'{ps["extra"]} timeouts were reported in one round with MAX_TIMEOUTS={maxto} (N={nn}, all candidates hang, '
                                  f'several finish within one poll)', {'scenario': sc, 'kind': 'shim'})
                each.append((driver.coq_scenario(sc, o.perm), o.out, sc))
    # ... also when the report directories for hanging candidates are used up (nothing can be saved any more)
    for nn in (1, 3):
        for maxto in (1, 2):
            sc = {'files': [('f0.c', 'abcdefghijkl')], 'rules': [([('lenge', 0, 12)], 0), ([], 'timeout')],
                  'passes': [{'key': 1, 'ops': [('del', i) for i in range(12)], 'aos': 0, 'maxt': None, 'newfix': None}],
                  'cfg': {'N': nn, 'maxto': maxto, 'maxextra': 2, 'no_cache': True}, 'extra0': 3, 'sched': [rnd.choice([0, 1, 1, 3]) for _ in range(80)]}
            o = driver.run_scenario(sc, ctx.tmp)
            ctx.evaluations += 1
            ctx.count('timeouts-with-report-directories-used-up')
            if o.diverged:
                continue
            ps = o.passes[0]
            if ps['executed'] > maxto + nn:
                ctx.violation('timeouts-unbounded', f'{ps["executed"]} candidates were started in a round in which every test hangs, MAX_TIMEOUTS={maxto}, N={nn} '
                              f'(all cvise_extra_* directories already exist)', {'scenario': sc, 'kind': 'shim'})
            each.append((driver.coq_scenario(sc, o.perm), o.out, sc))
    # a helper that fails for every candidate while pass bugs are silenced (--shaddap): the round still ends at the give-up limit
    for silent, opk in ((True, 'err'), (False, 'err'), (False, 'raise'), (True, 'raise')):      # ('raise': the transformation itself fails in the worker)
        for g in (2, 4):
            for nn in (1, 3):
                sc = {'files': [('f0.c', 'abc')], 'rules': [([], 0)],
                      'passes': [{'key': 1, 'ops': [(opk,)] * (g + nn + 12), 'aos': 0, 'maxt': None, 'newfix': None}],
                      'cfg': {'N': nn, 'giveup': g, 'silent': silent, 'no_cache': True}, 'sched': [rnd.randint(0, 7) for _ in range(40)]}
                o = driver.run_scenario(sc, ctx.tmp)
                ctx.evaluations += 1
                ctx.count('every-candidate-is-a-helper-error')
                if o.diverged:
                    ctx.violation('wedged', 'a pass whose helper fails for every candidate did not finish', {'scenario': sc, 'kind': 'shim'})
                    continue
                ps = o.passes[0]
                if ps['executed'] > g + nn + 1:
                    ctx.violation('give-up-skipped', f'{ps["executed"]} candidates were started although every one ended in a {"helper error" if opk == "err" else "failure of the transformation in the worker"} '
                                  f'(shaddap={silent}, give-up limit {g}, N={nn}: at most {g + nn + 1})', {'scenario': sc, 'kind': 'shim'})
                each.append((driver.coq_scenario(sc, o.perm), o.out, sc))
    # ... and a silenced helper error in the middle of a sweep does not cost the candidates after it
    for nn in (1, 2, 3):
        for ops in ([('err',), ('delch', 'a'), ('err',), ('delch', 'b')], [('delch', 'c'), ('err',), ('delch', 'a')], [('err',), ('err',), ('delch', 'b')]):
            for aos in (0, 1):
                sc = {'files': [('f0.c', 'abcab')], 'rules': [([], 0)],
                      'passes': [{'key': 1, 'ops': ops, 'aos': aos, 'maxt': None, 'newfix': None}],
                      'cfg': {'N': nn, 'silent': True, 'no_cache': True}, 'sched': [rnd.randint(0, 7) for _ in range(30)]}
                o = driver.run_scenario(sc, ctx.tmp)
                ctx.evaluations += 1
                ctx.count('silenced-helper-error-among-candidates')
                if o.diverged:
                    continue
                oracle_commits(ctx, sc, o)
                oracle_nonblocking(ctx, sc, o)
                each.append((driver.coq_scenario(sc, o.perm), o.out, sc))
    ctx.sample({'scenario': {k: each[1][2][k] for k in ('files', 'passes', 'rules', 'cfg', 'sched')}, 'impl_output': each[1][1][:40]})
    correspond(ctx, 'c09', each)
    for tag, sc in (REAL_SCENARIOS if not ctx.quick() else REAL_SCENARIOS[:3]):
        o = real_case(ctx, sc, tag)
        if tag == 'all-timeout':
            # MAX_TIMEOUTS ends the round: at most maxto + N candidates are ever started
            started = len(o.log) - 1   # minus the sanity-free runs: run_pass does not run the sanity check
            if len(o.log) > sc['cfg']['maxto'] + sc['cfg']['N'] + 1:
                ctx.violation('timeouts-unbounded', f'{len(o.log)} tests started with MAX_TIMEOUTS={sc["cfg"]["maxto"]} N={sc["cfg"]["N"]}', {'scenario': sc, 'kind': 'real'})
        ctx.sample({'real_pool': tag, 'verdicts': [r['verdict'] for r in o.log], 'accepted': [[c.decode('latin-1') for c in d] for d in o.accepted], 'wall_s': round(o.wall, 2)})


def replay(ctx, payload):
    r = payload['replay']
    sc = r['scenario']
    if r.get('kind') == 'real':
        real_case(ctx, sc, r.get('tag', 'replay'))
        return
    o = driver.run_scenario(sc, ctx.tmp)
    print('replay output', o.out)
    oracle_commits(ctx, sc, o)
    oracle_nonblocking(ctx, sc, o)


LEVEL_TEXT = ('Machine-checked theorems about the model of result checking and of the parallel round: for every assignment of '
              'outcomes (exit codes incl. signals, timeouts, ERROR/STOP/INVALID/raise), every schedule and N the committed '
              'candidate is an OK result with exit 0; faults that cannot end a round never block the first success; timeouts per '
              'round are bounded by MAX_TIMEOUTS; the round never raises without die_on_pass_bug; report directories stay '
              'within MAX+1 through a whole reduction. Tied to the real TestManager each run (shim correspondence) and observed '
              'with a genuine pebble pool and really failing / self-killing / hanging tests.')
LEVEL_NOTE = ('Trusted: Coq kernel, driver model (validated each run), shim; pebble for actual timeout delivery and worker kill '
              '(observed in real-pool runs). Directory counts assume contiguous numbering.')
TECHNIQUE = 'Rocq proof over the round model (all fault assignments x schedules) + shim correspondence + real-pool fault runs'
