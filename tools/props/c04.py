"""C04  Originals are preserved and only the named test cases are touched."""
import os
import random

from vlib import coq, driver, scengen
from gen._util import coq_string

GENERATORS = []
COQ_TARGETS = ['Fs/FsCorr.vo']
RULE = ('the REAL CVise.reduce (shim-driven) in a scratch working directory holding, besides 1-3 test cases in nested relative '
        'layouts: unrelated files, a sub-directory, pre-existing X.orig files for some test cases, unusual permission bits on '
        'the test cases; passes write through temp files (mode 0600) as the real passes do; runs end by success, no progress, '
        'ZeroSizeError or PassBugError; recursive snapshot (path, bytes, mode) and cwd before/after; oracle: X.orig bytes, '
        'untouched pre-existing .orig (older than, as old as and newer than the test case), nothing else changed but test cases and cvise_bug_*/cvise_extra_*, modes restored after '
        'completed passes, cwd unchanged; the writes observed (commits, restores, reports) are replayed through the Coq Fs '
        'model and its final directory compared with the real one; non-trivial = distinct scenarios with >= 1 commit'
        ' Also: real LinesPass with a formatter that cannot be executed / prints non-text / exits non-zero / is missing: nothing new may appear in the working directory, also on the error exit; an empty member of a multi-file set.'
        ' Also (rounds 4-5): --skip-initial-passes, --save-temps, error exits inside the initial sanity check (the test cannot be started): cwd recorded the moment the code returns.')
TRUSTED = ['hand-written model coq/Fs/Fs.v tied to cvise/utils/testing.py (backup_test_cases, process_result, restore_mode, report dirs) by this correspondence run',
           'shutil.copy/copy2/move, tempfile semantics as documented (the model mirrors them)']
ASSUMPTIONS = ['--tidy and --to-utf8 are outside (requested rewrites); temp files LinesPass.__format creates in the working directory are removed inside new()']


def gen(rnd):
    sc = scengen.gen_group(rnd, rnd.choice(['contract', 'faults']))
    for grp in sc['group'].values():
        for p in grp:
            p['via_temp'] = rnd.random() < 0.7
            if rnd.random() < 0.25:
                p['newfix'] = scengen.gen_content(rnd, 1, 4)     # new() reformats the file in place (kept if still interesting)
    sc['extra_files'] = [('notes.txt', 'keep me'), ('b/other.h', 'int x;'), ('deep/er/z.txt', '')][: rnd.randint(1, 3)]
    sc['pre_orig'] = [n for n, _ in sc['files'] if rnd.random() < 0.3]
    # a backup left by an earlier session is OLDER than the (since reduced) test case; a hand-made one may be newer
    sc['pre_orig_age'] = {n: rnd.choice([-1000, -1000, 0, 1000]) for n in sc['pre_orig']}
    sc['modes'] = {n: rnd.choice([0o644, 0o600, 0o755, 0o640, 0o664]) for n, _ in sc['files']}
    # rarely used switches: --skip-initial-passes (the backup is still taken before anything is touched), --save-temps
    # (what is kept is kept under TMPDIR, not in the working directory)
    if rnd.random() < 0.25:
        sc['skip_initial'] = True
    if rnd.random() < 0.25:
        sc['cfg']['save_temps'] = True
    if rnd.random() < 0.1:
        sc['files'] = [(n, '') for n, _ in sc['files']]
        sc['rules'] = [([], 0)]
    elif len(sc['files']) > 1 and rnd.random() < 0.2:
        # one member of the set is empty from the start: it still gets its .orig
        k = rnd.randrange(len(sc['files']))
        sc['files'] = [(n, '' if i == k else c) for i, (n, c) in enumerate(sc['files'])]
        sc['rules'] = [([a for a in atoms if a[1] != k], out) for atoms, out in sc['rules']] + [([], 0)]
    return sc


def prepare_for(sc):
    def prepare(work):
        for n, c in sc['extra_files']:
            p = os.path.join(work, n)
            os.makedirs(os.path.dirname(p), exist_ok=True)
            with open(p, 'w') as f:
                f.write(c)
        for n in sc['pre_orig']:
            with open(os.path.join(work, n + '.orig'), 'w') as f:
                f.write('previous original of ' + n)
            os.chmod(os.path.join(work, n + '.orig'), 0o444)
            t = os.stat(os.path.join(work, n)).st_mtime + sc.get('pre_orig_age', {}).get(n, 0)
            os.utime(os.path.join(work, n + '.orig'), (t, t))
        for n, m in sc['modes'].items():
            os.chmod(os.path.join(work, n), m)
    return prepare


def coq_bytes(b):
    return ('[' + ';'.join(str(x) for x in b) + ']%N') if b else '(@nil N)'


def coq_wdir(snap, skip=()):
    items = []
    for p, (h, mode, data) in sorted(snap.items()):
        if p.endswith('/') or p in skip or data is None:
            continue
        items.append(f'({coq_string(p)}, ({coq_bytes(data)}, {mode}%N))')
    return '[' + '; '.join(items) + ']' if items else '(@nil (string * fmeta))'


def oracle(ctx, sc, o):
    rep = {'scenario': sc}
    names = [n for n, _ in sc['files']]
    b, a = o.before, o.after
    for n in names:
        on = n + '.orig'
        if n in sc['pre_orig']:
            if a.get(on) != b.get(on):
                ctx.violation('orig-overwritten', f'pre-existing {on} was modified', rep)
        elif getattr(o, 'code', 0) != 4 and not hasattr(o, 'ctor_exc'):
            if on not in a or a[on][2] != b[n][2]:
                ctx.violation('orig-content', f'{on} does not hold the original bytes of {n}', rep)
    for p in set(a) | set(b):
        if p in ('test.sh',) or p.rstrip('/') in names or p.startswith('cvise_bug_') or p.startswith('cvise_extra_'):
            continue
        if any(p == n + '.orig' for n in names):
            continue
        if a.get(p) != b.get(p):
            ctx.violation('foreign-change', f'{p} changed: {b.get(p, "absent")!s:.80} -> {a.get(p, "absent")!s:.80}', rep)
    for (name, modes) in getattr(o, 'modes_after_pass', []):
        for n in names:
            if modes[n] != sc['modes'][n]:
                ctx.violation('mode-not-restored', f'after {name} completed {n} has mode {oct(modes[n])}, initially {oct(sc["modes"][n])}', rep)
    if o.cwd_after != o.cwd_before:
        ctx.violation('cwd-changed', f'cwd {o.cwd_before} -> {o.cwd_after}', rep)


def run(ctx, sc):
    names = [n for n, _ in sc['files']]
    marks = []

    def on_pass(tm, p, ok):
        if ok:
            marks.append((repr(p), {n: os.stat(n).st_mode & 0o7777 for n in names}))

    o = driver.run_scenario(sc, ctx.tmp, mode='reduce', prepare=prepare_for(sc))
    return o


def explore(ctx):
    rnd = random.Random(ctx.seed + 4)
    cases = []
    n = 110 if ctx.quick() else 1000
    for it in range(n):
        sc = gen(rnd)
        # record the mode of every test case after each COMPLETED pass
        o = run_with_modes(ctx, sc)
        ctx.evaluations += 1
        if o.diverged or hasattr(o, 'ctor_exc'):
            ctx.count('diverged/ctor')
            continue
        oracle(ctx, sc, o)
        ctx.count(f'k={len(sc["files"])}:exit={o.code}:preorig={len(sc["pre_orig"])}')
        if o.accepted:
            ctx.nontriv(repr((sc['files'], sc['group'], sc['rules'], sc['modes'], sc['pre_orig'])))
        # Fs model: replay the observed writes
        names = [n for n, _ in sc['files']]
        ops = []
        for n in names:
            final = o.after[n]
            if o.after[n][2] != o.before[n][2] or o.after[n][1] != o.before[n][1]:
                ops.append(f'Commit {coq_string(n)} {coq_bytes(final[2])} {final[1]}%N')
        reports = {}
        for p, v in o.after.items():
            if (p.startswith('cvise_bug_') or p.startswith('cvise_extra_')) and not p.endswith('/') and p not in o.before:
                d, _, f = p.partition('/')
                reports.setdefault(d, []).append((f, v))
        for d, fs in sorted(reports.items()):
            fl = '; '.join(f'({coq_string(f)}, ({coq_bytes(v[2] or b"")}, {v[1]}%N))' for f, v in fs)
            ops.append(f'Report {coq_string(d)} [{fl}]')
        if o.code == 4:
            continue        # InsaneTestCaseError: reduce stops before the backup
        skip = {'test.sh'}
        tcs = '[' + '; '.join(coq_string(n) for n in names) + ']'
        opl = '[' + '; '.join(ops) + ']' if ops else '(@nil wop)'
        observed = {p: v for p, v in o.after.items() if not (p.startswith('cvise_bug_') and v[2] is None)}
        term = f'({tcs}, {opl}, {coq_wdir(o.before, skip)}, {coq_wdir(observed, skip)})'
        cases.append((term, []))
    real_lines_errors(ctx, rnd)
    sanity_faults(ctx, rnd)
    ctx.sample({'scenario_files': cases and gen(random.Random(1))['files'], 'extra': 'notes.txt, b/other.h, pre-existing .orig, modes'})
    bad = coq.corr_eval('c04', ['From CV Require Import Fs.Fs Fs.FsCorr.', 'From Coq Require Import String.', 'Open Scope string_scope.'], 'fs_check', cases, shard=60)
    ctx.corr_cases += len(cases)
    ctx.corr_disagree += len(bad)
    for b in bad[:5]:
        ctx.broke('correspondence', 'Fs model vs working directory after CVise.reduce', cases[b][0][:1500])


def sanity_faults(ctx, rnd):
    """an error exit during the initial sanity check (the test process cannot be started: EMFILE, ENOMEM ...): the run ends
    with that error; the current directory and everything in the working directory are as before"""
    for _ in range(5 if ctx.quick() else 40):
        sc = gen(rnd)
        sc['rules'] = [([], 'norun')]
        sc['sanity_fault'] = True
        o = driver.run_scenario(sc, ctx.tmp, mode='reduce', prepare=prepare_for(sc))
        ctx.evaluations += 1
        ctx.count('error-exit-in-sanity-check')
        if hasattr(o, 'ctor_exc'):
            continue
        rep = {'scenario': sc, 'kind': 'sanity-fault'}
        if getattr(o, 'code', 0) == 0:
            ctx.broke('harness', 'sanity-fault scenario', 'the run did not end by an error')
            continue
        if o.cwd_after != o.cwd_before:
            ctx.violation('cwd-changed', f'the test could not be started during the sanity check ({type(o.exc).__name__}): cwd {o.cwd_before} -> {o.cwd_after}', rep)
        names = [n for n, _ in sc['files']]
        for p_ in set(o.after) | set(o.before):
            if p_ == 'test.sh' or any(p_ == n + '.orig' for n in names):
                continue
            if o.after.get(p_) != o.before.get(p_):
                ctx.violation('foreign-change', f'error exit in the sanity check: {p_} changed', rep)
        ctx.nontriv(('sanity-fault', repr(sc['files'])))


def real_lines_errors(ctx, rnd):
    """LinesPass.new() works with temp files NEXT TO the test case in the user's directory: whatever happens to the
    formatter (cannot be executed, prints bytes that are not text, exits non-zero) the directory must hold nothing new
    afterwards, also when the pass run ends by an error."""
    from cvise.passes.lines import LinesPass
    tools = {}
    d = os.path.join(ctx.tmp, 'c04-tools')
    os.makedirs(d, exist_ok=True)
    tools['exec-format-error'] = os.path.join(d, 'garbage')
    with open(tools['exec-format-error'], 'wb') as f:
        f.write(b'\x00\x01 not a program')
    os.chmod(tools['exec-format-error'], 0o755)
    tools['not-utf8-output'] = os.path.join(d, 'latin')
    with open(tools['not-utf8-output'], 'w') as f:
        f.write('#!/bin/sh\nprintf "a;\\n\\377\\376;\\n"\n')
    os.chmod(tools['not-utf8-output'], 0o755)
    tools['exit-3'] = os.path.join(d, 'fails')
    with open(tools['exit-3'], 'w') as f:
        f.write('#!/bin/sh\ncat\nexit 3\n')
    os.chmod(tools['exit-3'], 0o755)
    tools['missing'] = os.path.join(d, 'does-not-exist')
    for what, tool in tools.items():
        for arg in ('0', '1'):
            for k in (1, 2):
                files = [('t.c', 'int a;\nint b;\n'), ('sub/u.c', 'int c;\n')][:k]
                sc = {'files': files, 'rules': [([('has', 0, 'a')], 0)], 'passes': [], 'cfg': {'N': 2, 'no_cache': True}, 'sched': [1] * 20,
                      'extra_files': [('notes.txt', 'keep me')], 'pre_orig': [], 'modes': {n: 0o644 for n, _ in files}, 'real_pass': f'lines::{arg} formatter {what}'}
                p = LinesPass(arg, {'topformflat': tool})
                p.max_transforms = None
                o = driver.run_scenario(sc, ctx.tmp, real_passes=[p], prepare=prepare_for(sc))
                ctx.evaluations += 1
                ctx.count('real-lines-formatter:' + what)
                names = [n for n, _ in files]
                new = sorted(x for x in o.after if x not in o.before and not x.endswith('/'))
                changed = sorted(x for x in o.before if x in o.after and o.after[x] != o.before[x] and x.rstrip('/') not in names and not x.endswith('/'))
                if new or changed:
                    ctx.violation('foreign-change', f'lines::{arg} with a formatter that {what}: new files {new}, changed {changed} in the working directory after the pass run '
                                  f'(ended with {type(o.passes[0]["exc"]).__name__ if o.passes and o.passes[0]["exc"] else "no error"})', {'scenario': sc})
                ctx.nontriv(('lines-formatter', what, arg, k))


def run_with_modes(ctx, sc):
    from cvise.utils import testing
    names = [n for n, _ in sc['files']]
    marks = []
    orig = testing.TestManager.run_pass

    def wrapped(self, p):
        orig(self, p)
        marks.append((repr(p), {n: os.stat(n).st_mode & 0o7777 for n in names}))

    testing.TestManager.run_pass = wrapped
    try:
        o = driver.run_scenario(sc, ctx.tmp, mode='reduce', prepare=prepare_for(sc))
    finally:
        testing.TestManager.run_pass = orig
    o.modes_after_pass = marks
    return o


def replay_sanity_fault(ctx, sc):
    sc['modes'] = {k: int(v) for k, v in sc['modes'].items()}
    sc['files'] = [tuple(x) for x in sc['files']]
    sc['extra_files'] = [tuple(x) for x in sc['extra_files']]
    o = driver.run_scenario(sc, ctx.tmp, mode='reduce', prepare=prepare_for(sc))
    print('replay: exit', getattr(o, 'code', None), 'cwd', o.cwd_before, '->', o.cwd_after)
    if o.cwd_after != o.cwd_before:
        ctx.violation('cwd-changed', f'cwd {o.cwd_before} -> {o.cwd_after}', {'scenario': sc, 'kind': 'sanity-fault'})


def replay(ctx, payload):
    sc = payload['replay']['scenario']
    if sc.get('real_pass'):
        real_lines_errors(ctx, random.Random(1))
        return
    if payload['replay'].get('kind') == 'sanity-fault':
        replay_sanity_fault(ctx, sc)
        return
    sc['modes'] = {k: int(v) for k, v in sc['modes'].items()}
    o = run_with_modes(ctx, sc)
    oracle(ctx, sc, o)


LEVEL_TEXT = ('Machine-checked theorem over a model of the working directory: for every initial directory and every sequence of the '
              'writes C-Vise performs after backup_test_cases (commits / mode restores on the named test cases, report directories '
              'under its prefixes) X.orig holds the original bytes and attributes, an existing X.orig is untouched and every other '
              'path is unchanged; restore_mode gives back the recorded mode. The model is tied to the real CVise.reduce each run: the '
              'writes observed are replayed through it and its final directory is compared, byte and mode exact, with the real one; '
              'the same clauses are checked directly on before/after snapshots.')
LEVEL_NOTE = ('Trusted: Coq kernel; Fs model (validated each run); shim. That these are the ONLY writes is what the snapshot comparison '
              'checks on every run (not proved from the Python source). --tidy / --to-utf8 excluded.')
TECHNIQUE = 'Rocq proof (frame + backup lemmas over a finite-map file system) + snapshot differential of the real CVise.reduce'
