"""C07  Candidates are genuine, local edits of the current file."""
import copy
import os
import random
import re

from vlib import coq

GENERATORS = []
COQ_TARGETS = ['Passes/PassCorr.vo']
RULE = ('real pass.transform on (text, cursor) for every text pass and argument: texts are sequences of C-like tokens chosen to hit '
        'every rewrite rule (delimiters of all kinds, "=", ",", ":", "?", ";", quotes, decimal / hex / suffixed literals, keywords, '
        'comments, "#" lines, includes, line markers, blank lines, with and without a trailing newline), all cursors reached under '
        'all-reject plus accept continuations; each (pass, text, cursor) is checked by an independent relational checker (output '
        'differs; it is the input with one allowed edit / a proper subsequence; outside the edit nothing changes; offered instances '
        'are exactly the matches) and compared with the Coq model (regular expressions enter as tables computed by CPython re); '
        'non-trivial = distinct (pass, arg, text, cursor) with result OK')
TRUSTED = ['hand-written pass models coq/Passes/Edit.v tied to cvise/passes/*.py by this correspondence run; CPython re for the regular expressions (abstract in the theorems)',
           'text-mode I/O: texts are ASCII without CR here (see the known finding on universal newlines)']
ASSUMPTIONS = ['main exploration uses CR-free texts; CR / CRLF inputs are exercised separately: the passes rewrite every line end (known finding cr-normalised-outside-edit) and the candidate must still be the edit of the decoded text']
IMPORTS = ['From CV Require Import Matcher.NM Matcher.NMCorr Passes.Edit Passes.PassCorr.']

TOKENS = ['#\n', '#', ' 0xFFFFFFFFFFFFFFFF;', '42;\n', '/***/', '/** d **/', '/* a **/', '/*/', 'a', 'b1', '(', ')', '{', '}', '[', ']', '<', '>', '=', ',', ':', '?', ';', "'x'", '0', '12', '0x1F', '7U', '-3', ' ', ' ', '\n', '\n',
          '# 3 "f.c"\n', '#include <a.h>\n', '# include "b.h"\n', '#\tinclude <c.h>\n', '  #  include <d.h>\n', '// c\n', '/* k */', '/**/', 'while', 'int', 'class', "extern 'C'", 'transparent_crc(a, b)', '\n\n', '#if X\n', '+=', '+']


def gen_text(rnd, n=None):
    n = n or rnd.randint(1, 14)
    t = ''.join(rnd.choice(TOKENS) for _ in range(n))
    if rnd.random() < 0.5 and not t.endswith('\n'):
        t += '\n'
    return t


def ct(s):
    return ('[' + ';'.join(str(ord(c)) for c in s) + ']%N') if s else '(@nil N)'


def enc_text(s):
    return [len(s)] + [ord(c) for c in s]


def is_subseq(a, b):
    it = iter(b)
    return all(ch in it for ch in a)


def local_edit(inp, out):
    p = 0
    while p < min(len(inp), len(out)) and inp[p] == out[p]:
        p += 1
    s = 0
    while s < min(len(inp), len(out)) - p and inp[len(inp) - 1 - s] == out[len(out) - 1 - s]:
        s += 1
    return p, len(inp) - s, out[p:len(out) - s]     # input[p:q] was replaced by r


class Cases:
    def __init__(self):
        self.by = {}

    def add(self, fn, term, out):
        self.by.setdefault(fn, []).append((term, out))


def run_transform(ctx, pass_, text, state):
    from cvise.passes.abstract import ProcessEventNotifier
    d = os.path.join(ctx.tmp, 'c07')
    os.makedirs(d, exist_ok=True)
    p = os.path.join(d, 'tc.c')
    with open(p, 'w', newline='') as f:
        f.write(text)
    before = set(os.listdir(d))
    res, st2 = pass_.transform(p, copy.deepcopy(state), ProcessEventNotifier(None))
    with open(p, newline='') as f:
        out = f.read()
    left = set(os.listdir(d)) - before
    return res.name, out, st2, left


def states_all_reject(pass_, path, limit=60):
    st = pass_.new(path, None)
    res = []
    while st is not None and len(res) < limit:
        res.append(st)
        st = pass_.advance(path, st)
    return res



def _part_at(pat, text, pos):
    """anchored match of one part at pos, written from the documentation of the part kinds (not nestedmatcher's code):
    a regular expression (DOTALL) matched at pos — the empty match at the very end included; a balanced group that opens
    at pos and closes where the depth first returns to zero; 'or': the left alternative if it matches, else the right"""
    kind = type(pat).__name__
    if kind == 'RegExPattern':
        m = re.compile(pat.expr, flags=re.DOTALL).match(text, pos)
        return None if m is None else m.end()
    if kind == 'BalancedPattern':
        if not (0 <= pos < len(text)) or text[pos] != pat.start:
            return None
        depth = 0
        for i in range(pos, len(text)):
            if text[i] == pat.start:
                depth += 1
            elif text[i] == pat.end:
                depth -= 1
                if depth == 0:
                    return i + 1
        return None
    if kind == 'OrPattern':
        e = _part_at(pat.left, text, pos)
        return e if e is not None else _part_at(pat.right, text, pos)
    raise AssertionError('unknown part kind ' + kind)


def _chain_at(parts, text, a):
    """all parts one after the other from a: ({name: span}, end) or None"""
    named, pos = {}, a
    for part in parts:
        pat, name = part if isinstance(part, tuple) else (part, None)
        e = _part_at(pat, text, pos)
        if e is None:
            return None
        if name is not None:
            named[name] = (pos, e)
        pos = e
    return named, pos


def peep_expected(cls, arg, text, st):
    """what peep::a / peep::b must produce at cursor (pos, rule): the rule is tried at pos, and further right as long as
    its first part matches where the whole rule does not; the candidate is the text with the matched region (a) or the
    part between the delimiters (b) replaced; None = no candidate from this cursor"""
    pos = st['pos']
    if pos >= len(text):
        return None
    if arg == 'a':
        parts, repl = cls.regexes_to_replace[st['regex']]
        parts = list(parts)
    else:
        inner, repl = cls.delimited_regexes_to_replace[st['regex']]
        front = cls.border_or_space_optional_pattern if text.startswith(',') else cls.border_or_space_pattern
        back = cls.border_or_space_optional_pattern if text.endswith(',') else cls.border_or_space_pattern
        parts = [(front, 'delim1')] + list(inner) + [(back, 'delim2')]
    a = pos
    while a < len(text):
        first = parts[0][0] if isinstance(parts[0], tuple) else parts[0]
        if _part_at(first, text, a) is None:
            return None
        ch = _chain_at(parts, text, a)
        if ch is not None:
            named, end = ch
            out = text[:a] + repl + text[end:] if arg == 'a' else text[:named['delim1'][1]] + repl + text[named['delim2'][0]:]
            return out if out != text else None
        a += 1
    return None


def explore(ctx):
    from cvise.passes.lines import LinesPass
    from cvise.passes.line_markers import LineMarkersPass
    from cvise.passes.includes import IncludesPass
    from cvise.passes.blank import BlankPass
    from cvise.passes.comments import CommentsPass
    from cvise.passes.balanced import BalancedPass
    from cvise.passes.ints import IntsPass
    from cvise.passes.special import SpecialPass
    from cvise.passes.ternary import TernaryPass
    from cvise.passes.peep import PeepPass
    from cvise.utils import nestedmatcher as nm
    from gen import pyconv
    rnd = random.Random(ctx.seed + 7)
    cs = Cases()
    ntext = 50 if ctx.quick() else 500
    texts = [gen_text(rnd) for _ in range(ntext)] + ['', '\n', '()', 'a', '(a)\n', '{{}}', "int a = (1 ? 2 : 3);\n", '0x10,', ' 0xfUL;', '# 1 "x"\n# 2 "y"\nz\n', '#\n42;\n', '# \n\n7 "f"\n', 'a\n  #\n 3\n', ' class a ; class b ; class c ; class d ; k = x;\n',
             'x; // c\n' * 10, '/*b*/y;\n' * 18,
             'while (x) { a; break; } switch (y) { case 1: break; }\n', 'while(1){break;}for(;;){break ;}',
             # characters at which str.splitlines() - unlike the file iterator - breaks a line: form feed, VT, FS/GS/RS, NEL, LS
             'int a;\x0c\nint b;\n\n#\n', 'a;\x0b b;\n\x1c\n c;\x1d d\n', 'x\x85y\n\n z\u2028w\n',
             '(a,', 'f(x, y,', '{1, 22,', 'int a[2] =={1, 2};', ',a', 'x = a ? (b) : c,', 'namespace n {{}}']
    d = os.path.join(ctx.tmp, 'c07')
    os.makedirs(d, exist_ok=True)
    path = os.path.join(d, 'in.c')

    def viol(sig, what, rep):
        ctx.violation(sig, what, rep)

    def mk(cls, arg):
        p = cls(arg, {})
        p.max_transforms = None
        return p

    bal_args = pyconv.accepted_args('cvise/passes/balanced.py')
    BAL = {'square': ('[', ']'), 'angles': ('<', '>'), 'parens': ('(', ')'), 'curly': ('{', '}')}
    for text in texts:
        with open(path, 'w', newline='') as f:
            f.write(text)
        # ---------------- lines / markers / includes / blank ----------------
        lines = text.splitlines(keepends=True)
        lines = re.findall(r'[^\n]*\n|[^\n]+', text)
        cs.add('run_nlines', ct(text), [len(lines)])
        for name, cls in (('lines', LinesPass), ('markers', LineMarkersPass)):
            p = mk(cls, 'None' if name == 'lines' else None)
            st_new = p.new(path, None)
            want_inst = len(lines) if name == 'lines' else sum(1 for l in lines if re.search(r'^\s*#\s*[0-9]+', l))
            got_inst = 0 if st_new is None else st_new.instances
            if got_inst != want_inst:
                viol('not-all-offered:' + name, f'{name} on {text!r}: the cursor covers {got_inst} instances, the file has {want_inst} (every line / marker must be offered)', {'pass': name, 'text': text})
            for st in states_all_reject(p, path, 25):
                res, out, _, left = run_transform(ctx, p, text, st)
                ctx.evaluations += 1
                ctx.count(name)
                rep = {'pass': name, 'text': text, 'state': [st.index, st.chunk, st.instances]}
                if left:
                    viol('scratch-left:' + name, f'{name}: scratch files {left} left beside the test case', rep)
                if res == 'OK':
                    ctx.nontriv((name, text, st.index, st.chunk))
                    if out == text:
                        viol('unchanged-ok:' + name, f'{name} reported OK without changing {text!r}', rep)
                    sel = [l for l in lines if name == 'lines' or re.search(r'^\s*#\s*[0-9]+', l)]
                    keep, k = [], 0
                    for l in lines:
                        if name == 'lines' or re.search(r'^\s*#\s*[0-9]+', l):
                            if not (st.index <= k < st.end()):
                                keep.append(l)
                            k += 1
                        else:
                            keep.append(l)
                    if out != ''.join(keep):
                        viol('not-whole-lines:' + name, f'{name} on {text!r} state {rep["state"]}: got {out!r}, expected exactly the selected whole lines removed: {"".join(keep)!r}', rep)
                if name == 'lines':
                    cs.add('run_lines', f'({ct(text)}, {st.index}, {st.end()})', enc_text(out))
                else:
                    marks = sorted({l for l in lines if re.search(r'^\s*#\s*[0-9]+', l)})
                    cs.add('run_markers', f'({ct(text)}, [{"; ".join(ct(l) for l in marks)}], {st.index}, {st.end()})' if marks else f'({ct(text)}, (@nil text), {st.index}, {st.end()})',
                           [st.instances] + enc_text(out))
        p = mk(IncludesPass, None)
        incs = sorted({l for l in lines if re.match(r'\s*#\s*include', l)})
        for k in range(1, sum(1 for l in lines if re.match(r'\s*#\s*include', l)) + 3):
            res, out, _, left = run_transform(ctx, p, text, k)
            ctx.evaluations += 1
            ctx.count('includes')
            rep = {'pass': 'includes', 'text': text, 'state': k}
            if left:
                viol('scratch-left:includes', f'includes: scratch files {left} left', rep)
            if res == 'OK':
                ctx.nontriv(('includes', text, k))
                if out == text or not is_subseq(out, text):
                    viol('bad-edit:includes', f'includes on {text!r} k={k}: {out!r}', rep)
            # every include directive ('#' and 'include' possibly separated / preceded by blanks) is an instance: cursor k removes the
            # k-th of them and nothing else; beyond the last one the pass stops
            inc_idx = [j for j, l in enumerate(lines) if re.match(r'[ \t\f\v]*#[ \t\f\v]*include', l)]
            if len(inc_idx) == sum(1 for l in lines if re.match(r'\s*#\s*include', l)):      # (no exotic white space in this text)
                want = (''.join(l for j, l in enumerate(lines) if j != inc_idx[k - 1]) if k <= len(inc_idx) else None)
                if (want is None) != (res != 'OK') or (want is not None and out != want):
                    viol('not-all-offered:includes', f'includes on {text!r} cursor {k}: the file has {len(inc_idx)} include directives; expected '
                         f'{"the pass to stop" if want is None else repr(want)}, got {res} {out!r}', rep)
            cs.add('run_includes', f'({ct(text)}, {"[" + "; ".join(ct(l) for l in incs) + "]" if incs else "(@nil text)"}, {k})',
                   [{'OK': 0, 'STOP': 2}[res]] + enc_text(out))
        p = mk(BlankPass, None)
        m0 = sorted({l for l in lines if re.match(r'^\s*$', l)})
        m1 = sorted({l for l in lines if re.match(r'^#', l)})
        for st in (0, 1, 2, 3):
            res, out, st2, left = run_transform(ctx, p, text, st)
            ctx.evaluations += 1
            ctx.count('blank')
            rep = {'pass': 'blank', 'text': text, 'state': st}
            if left:
                viol('scratch-left:blank', f'blank: scratch files {left} left', rep)
            if res == 'OK':
                ctx.nontriv(('blank', text, st))
                if out == text or not is_subseq(out, text):
                    viol('bad-edit:blank', f'blank on {text!r} st={st}: {out!r}', rep)
                else:
                    # what is dropped are WHOLE lines ("\n" ends a line; a form feed or a vertical tab does not)
                    tl_, ol_ = [x for x in re.split('(?<=\n)', text) if x], [x for x in re.split('(?<=\n)', out) if x]
                    it_ = iter(tl_)
                    if not all(any(x == y for y in it_) for x in ol_):
                        viol('bad-edit:blank', f'blank on {text!r} st={st}: {out!r} is not the text minus whole lines', rep)
            tl = lambda ls: ('[' + '; '.join(ct(l) for l in ls) + ']') if ls else '(@nil text)'
            cs.add('run_blank', f'({ct(text)}, {tl(m0)}, {tl(m1)}, {st})', [{'OK': 0, 'STOP': 2}[res], st2] + enc_text(out))
        # every instance is offered when all candidates are rejected: the driver asks cursors new(), advance(new()), ... until STOP;
        # the text minus its blank lines and the text minus its '#' lines must both be among the candidates (when there are such lines)
        offered, st_ = [], p.new(path, None)
        for _ in range(6):
            res, out, _st2, _left = run_transform(ctx, p, text, st_)
            if res != 'OK':
                break
            offered.append(out)
            st_ = p.advance(path, st_)
        for what, pat in (('blank lines', r'^\s*$'), ("'#' lines", r'^#')):
            if any(re.match(pat, l) for l in lines):
                want = ''.join(l for l in lines if not re.match(pat, l))
                if want not in offered:
                    viol('not-all-offered:blank', f'blank on {text!r}: with every candidate rejected the pass offered {offered!r}; the text minus its {what} '
                         f'({want!r}) was never offered', {'pass': 'blank', 'text': text})
        # ---------------- comments ----------------
        p = mk(CommentsPass, None)
        bs = [m.span() for m in re.finditer(r'/\*(?:\*(?!/)|[^*])*\*/', text, flags=re.DOTALL)]
        ls_ = [m.span() for m in re.finditer(r'//.*$', text, flags=re.MULTILINE)]
        sp = lambda l: ('[' + '; '.join(f'({a}, {b})' for a, b in l) + ']') if l else '(@nil span)'
        def strip_block(t):
            # hand-written scanner: from each "/*" to the first "*/" after it
            out_, i_ = [], 0
            while i_ < len(t):
                if t.startswith('/*', i_):
                    j_ = t.find('*/', i_ + 2)
                    if j_ >= 0:
                        i_ = j_ + 2
                        continue
                out_.append(t[i_])
                i_ += 1
            return ''.join(out_)

        def strip_line(t):
            out_ = []
            for ln_ in re.split('(\n)', t):
                k_ = ln_.find('//')
                out_.append(ln_ if k_ < 0 or ln_ == '\n' else ln_[:k_])
            return ''.join(out_)

        for st in (-2, -1, 0):
            res, out, st2, left = run_transform(ctx, p, text, st)
            ctx.evaluations += 1
            ctx.count('comments')
            rep = {'pass': 'comments', 'text': text, 'state': st}
            if res == 'OK':
                ctx.nontriv(('comments', text, st))
                want_ = strip_block(text) if st == -2 and strip_block(text) != text else strip_line(strip_block(text) if st == -2 else text)
                if st in (-2, -1) and out != want_ and not (st == -2 and out == strip_line(text) and strip_block(text) == text):
                    viol('bad-edit:comments', f'comments on {text!r} st={st}: got {out!r}, removing exactly the comments gives {want_!r}', rep)
                if out == text or not is_subseq(out, text):
                    viol('bad-edit:comments', f'comments on {text!r} st={st}: {out!r}', rep)
            cs.add('run_comments', f'({ct(text)}, {sp(bs)}, {sp(ls_)}, ({st})%Z)', [{'OK': 0, 'STOP': 2}[res], st2] + enc_text(out) + [1, 1])
        # ---------------- balanced ----------------
        for arg in (bal_args if rnd.random() < 0.3 or not ctx.quick() else rnd.sample(bal_args, 4)):
            p = mk(BalancedPass, arg)
            kind = arg.split('-')[0].rstrip('23')
            o, c = BAL[kind]
            prefix = '=\\s*' if arg == 'curly3' else ''
            mode = (1, '') if arg.endswith('-only') else (2, '') if arg.endswith('-inside') else (3, '0') if arg == 'parens-to-zero' else (3, ';') if arg == 'curly2' else (0, '')
            sts = states_all_reject(p, path, 20)
            # offering: under all-reject exactly the positions with a match, increasing
            expected = []
            if prefix:
                pos = 0
                while True:
                    m = nm.find(nm.BalancedExpr[{'square': 'squares', 'angles': 'angles', 'parens': 'parens', 'curly': 'curlies'}[kind]], text, pos=pos, prefix=prefix)
                    if m is None or len(expected) >= 20:
                        break
                    expected.append(m)
                    pos = m[0] + 1
            else:
                # independent of nestedmatcher: every opener that has its closer, by a stack
                stack, pairs = [], {}
                for i_, ch_ in enumerate(text):
                    if ch_ == o:
                        stack.append(i_)
                    elif ch_ == c and stack:
                        pairs[stack.pop()] = i_ + 1
                expected = [(a_, pairs[a_]) for a_ in sorted(pairs)][:20]
            if sts != expected[:len(sts)] or (len(sts) < 20 and len(sts) != len(expected)):
                viol('not-all-offered:balanced', f'balanced::{arg} on {text!r}: offered {sts}, matches {expected}', {'pass': 'balanced', 'arg': arg, 'text': text})
            if not prefix:
                # the driver's all-reject run (new; transform, which skips groups whose replacement changes nothing;
                # advance from the state transform returned) against the model's all_rejected, for which
                # C07_balanced_every_group_offered is proved
                offered, st_ = [], p.new(path, None)
                while st_ is not None and len(offered) < 20:
                    res_, out_, st2_, _ = run_transform(ctx, p, text, st_)
                    ctx.evaluations += 1
                    if res_ != 'OK':
                        break
                    offered.append(tuple(st2_))
                    st_ = p.advance(path, st2_)
                want_off = [sp_ for sp_ in expected if {0: text[:sp_[0]] + text[sp_[1]:], 1: text[:sp_[0]] + text[sp_[0] + 1:sp_[1] - 1] + text[sp_[1]:],
                                                         2: text[:sp_[0] + 1] + text[sp_[1] - 1:], 3: text[:sp_[0]] + mode[1] + text[sp_[1]:]}[mode[0]] != text]
                if len(expected) < 20 and offered != want_off:
                    viol('not-all-offered:balanced', f'balanced::{arg} on {text!r}, every candidate rejected: offered {offered}, groups whose replacement changes the text {want_off}',
                         {'pass': 'balanced', 'arg': arg, 'text': text})
                cs.add('run_balanced_all', f'(({ord(o)}%N, {ord(c)}%N), ({mode[0]}, {ct(mode[1])}), {ct(text)}, 20)', [x_ for sp_ in offered for x_ in sp_])
            tbl = '(@nil (list nat))'
            if prefix:
                r = re.compile(prefix, flags=re.DOTALL)
                tbl = '[[' + ';'.join(str(0 if r.match(text, i) is None else r.match(text, i).end() + 1) for i in range(len(text) + 1)) + ']]'
            for st in sts + [None]:
                res, out, st2, left = run_transform(ctx, p, text, st)
                ctx.evaluations += 1
                ctx.count('balanced')
                rep = {'pass': 'balanced', 'arg': arg, 'text': text, 'state': st}
                if res == 'OK':
                    ctx.nontriv(('balanced', arg, text, st))
                    a, b = st2
                    pq = local_edit(text, out)
                    if out == text:
                        viol('unchanged-ok:balanced', f'balanced::{arg} reported OK without changing {text!r}', rep)
                    elif mode[0] in (0, 1, 2) and not is_subseq(out, text):
                        viol('bad-edit:balanced', f'balanced::{arg} on {text!r} state {st}: {out!r} is not a subsequence', rep)
                    elif not (out.startswith(text[:a]) and out.endswith(text[b:]) and len(out) >= a + len(text) - b):
                        # (a common-prefix / common-suffix diff is ambiguous when the text after the span repeats its start)
                        viol('non-local:balanced', f'balanced::{arg} on {text!r} state {st}: {out!r} changes text outside the matched span [{a},{b})', rep)
                    else:
                        want = {0: text[:a] + text[b:], 1: text[:a] + text[a + 1:b - 1] + text[b:], 2: text[:a + 1] + text[b - 1:],
                                3: text[:a] + mode[1] + text[b:]}[mode[0]]
                        if out != want:
                            viol('bad-edit:balanced', f'balanced::{arg} on {text!r} span [{a},{b}): got {out!r}, the documented edit gives {want!r}', rep)
                cs.add('run_balanced', f'({tbl}, ({ord(o)}%N, {ord(c)}%N), {"(Some 0)" if prefix else "(@None nat)"}, ({mode[0]}, {ct(mode[1])}), {ct(text)}, {"(@None span)" if st is None else "(Some (%d, %d))" % st})',
                       [{'OK': 0, 'STOP': 2}[res]] + ([-1] if st2 is None else [1, st2[0], st2[1]]) + enc_text(out))
        # ---------------- ints / special: one span of finditer replaced ----------------
        for cls, args, name in ((IntsPass, 'abcd', 'ints'), (SpecialPass, 'abc', 'special')):
            for arg in args:
                p = mk(cls, arg)
                st0 = p.new(path, None)
                if st0 is None:
                    continue
                mods = st0['modifications']
                for st in states_all_reject(p, path, 12):
                    (a, b), repl = st['modifications'][st['index']]
                    res, out, _, left = run_transform(ctx, p, text, st)
                    ctx.evaluations += 1
                    ctx.count(name)
                    rep = {'pass': name, 'arg': arg, 'text': text, 'index': st['index']}
                    ctx.nontriv((name, arg, text, st['index']))
                    if out == text:
                        viol(f'unchanged-ok:{name}', f'{name}::{arg} reported OK without changing {text!r} (span [{a},{b}) -> {repl!r})', rep)
                    if out != text[:a] + repl + text[b:]:
                        viol(f'non-local:{name}', f'{name}::{arg} on {text!r}: {out!r} is not the text with [{a},{b}) replaced by {repl!r}', rep)
                    matched = text[a:b]
                    okrepl = True
                    if name == 'ints' and arg in 'abc':
                        okrepl = len(repl) < len(matched) and is_subseq(repl, matched)
                    elif name == 'ints':
                        okrepl = re.fullmatch(r'.[0-9]+[ULul]*.', repl, flags=re.DOTALL) is not None
                    elif arg in 'bc':
                        okrepl = repl == ''
                    else:
                        okrepl = repl.startswith("printf('%d\\n', (int)")
                    if not okrepl:
                        viol(f'bad-replacement:{name}', f'{name}::{arg} on {text!r}: {matched!r} -> {repl!r}', rep)
                    cs.add('run_span_replace', f'({ct(text)}, ({a}, {b}), {ct(repl)})', enc_text(out))
        # ---------------- ternary / peep: matcher span replaced ----------------
        for arg in 'bc':
            p = mk(TernaryPass, arg)
            for st in states_all_reject(p, path, 10) + [None]:
                res, out, st2, left = run_transform(ctx, p, text, st)
                ctx.evaluations += 1
                ctx.count('ternary')
                rep = {'pass': 'ternary', 'arg': arg, 'text': text, 'state': st}
                if res == 'OK':
                    ctx.nontriv(('ternary', arg, text, str(st)))
                    exp = text[:st2['del1'][1]] + text[st2[arg][0]:st2[arg][1]] + text[st2['del2'][0]:]
                    if out == text or out != exp or not is_subseq(out, text):
                        viol('bad-edit:ternary', f'ternary::{arg} on {text!r} state {st}: {out!r}, expected {exp!r}', rep)
                    cs.add('run_span_replace', f'({ct(text)}, ({st2["del1"][1]}, {st2["del2"][0]}), {ct(text[st2[arg][0]:st2[arg][1]])})', enc_text(out))
        for arg in 'abc':
            p = mk(PeepPass, arg)
            sts = []
            st = p.new(path, None)
            while st is not None and len(sts) < (40 if ctx.quick() and len(text) > (24 if arg in 'ac' else 8) else 1500):
                if len(text) <= (24 if arg in 'ac' else 8) or (st['pos'] == 0 and st['regex'] == 0) or rnd.random() < (0.15 if ctx.quick() else 0.5):
                    sts.append(st)
                st = p.advance(path, st)
            for st in sts:
                res, out, st2, left = run_transform(ctx, p, text, st)
                ctx.evaluations += 1
                ctx.count('peep')
                rep = {'pass': 'peep', 'arg': arg, 'text': text, 'state': st}
                if arg in 'ab':
                    want = peep_expected(PeepPass, arg, text, st)
                    got = out if res == 'OK' else None
                    if got != want:
                        viol('bad-edit:peep' if got is not None else 'not-all-offered:peep',
                             f'peep::{arg} on {text!r} at cursor {st}: produced {got!r}; the rule applied at the first place it matches from the cursor gives {want!r}', rep)
                if res == 'OK':
                    ctx.nontriv(('peep', arg, text, st['pos'], st['regex']))
                    pq = local_edit(text, out)
                    if out == text:
                        viol('unchanged-ok:peep', f'peep::{arg} reported OK without changing {text!r}', rep)
                    if arg in 'ab':
                        table = PeepPass.regexes_to_replace if arg == 'a' else PeepPass.delimited_regexes_to_replace
                        repl = table[st['regex']][1]
                        if pq[0] < st['pos']:
                            viol('non-local:peep', f'peep::{arg} on {text!r} state {st}: changed text before the cursor position', rep)
                        # the output must be text[:a] + repl + text[b:] for some a >= pos
                        ok = any(out == text[:a] + repl + text[b:] for a in range(st['pos'], len(text) + 1) for b in range(a, len(text) + 1))
                        if not ok:
                            viol('bad-edit:peep', f'peep::{arg} on {text!r} state {st}: {out!r} is not one span replaced by {repl!r}', rep)
                    elif not is_subseq(out, text):
                        viol('bad-edit:peep', f'peep::c on {text!r}: {out!r} is not a subsequence', rep)
                    else:
                        # peep::c: `while (...) {body}` at the very start is replaced by its body (braces kept) without the
                        # `break;` statements; everything behind the loop is preserved
                        mm = re.match(r'while\s*', text)
                        want_c = None
                        if st['pos'] == 0 and mm:
                            e1 = _part_at(PeepPass.balanced_parens_pattern, text, mm.end())
                            if e1 is not None:
                                m2 = re.compile(r'\s*').match(text, e1)
                                from cvise.utils import nestedmatcher as nm_
                                e2 = _part_at(nm_.BalancedPattern(nm_.BalancedExpr.curlies), text, m2.end())
                                if e2 is not None:
                                    want_c = re.sub(r'break\s*;', '', text[m2.end():e2]) + text[e2:]
                        if want_c is not None and out != want_c:
                            viol('bad-edit:peep', f'peep::c on {text!r}: produced {out!r}; the loop replaced by its body without break statements gives {want_c!r}', rep)
    n = 0
    for fn, cases in cs.by.items():
        bad = coq.corr_eval('c07' + fn[4:8], IMPORTS, fn, cases, shard=600)
        ctx.corr_cases += len(cases)
        ctx.corr_disagree += len(bad)
        n += len(cases)
        for b in bad[:3]:
            ctx.broke('correspondence', fn, f'case {cases[b][0][:500]} impl {cases[b][1][:80]}')
    ctx.sample({'text': texts[3], 'passes': sorted(cs.by), 'model_cases': n})



def cr_section(ctx):
    """Inputs with CR / CRLF line ends.  Python's text mode hands the passes a translated copy, so today every pass
    rewrites ALL line ends of the file (known finding cr-normalised-outside-edit); what must still hold is that the
    candidate equals the pass's edit applied to that translated text — anything else mangles the file."""
    from cvise.passes.balanced import BalancedPass
    from cvise.passes.comments import CommentsPass
    from cvise.passes.ints import IntsPass
    from cvise.passes.special import SpecialPass
    from cvise.passes.lines import LinesPass
    from cvise.passes.ternary import TernaryPass
    texts = ['int a = 1;\r\nint x = 0x10;\r\n y = (0x1FUL);\r\n', 'a\r\n(b)\r\nc = 12, 0777;\r', "/* c */\r\nextern 'C' int f(a ? 0x2 : 3);\r\n// d\r\n",
              'l1\r\nl2\r\nl3\r\n', 'x = (1 ? 22 : 33);\r\n{ 0x44; }\r\n']
    d = os.path.join(ctx.tmp, 'c07cr')
    os.makedirs(d, exist_ok=True)
    path = os.path.join(d, 'in.c')
    for text in texts:
        norm = text.replace('\r\n', '\n').replace('\r', '\n')
        for cls, arg in ((IntsPass, 'a'), (IntsPass, 'b'), (IntsPass, 'd'), (SpecialPass, 'b'), (BalancedPass, 'parens'), (BalancedPass, 'curly-inside'),
                         (CommentsPass, None), (TernaryPass, 'b'), (LinesPass, 'None')):
            p = cls(arg, {})
            p.max_transforms = None
            with open(path, 'w', newline='') as f:
                f.write(text)
            try:
                sts = states_all_reject(p, path, 8)
            except Exception:
                continue
            for st in sts:
                res1, out_raw, _, _ = run_transform(ctx, p, text, st)
                res2, out_norm, _, _ = run_transform(ctx, p, norm, st)
                ctx.evaluations += 1
                ctx.count('cr-inputs')
                if res1 != 'OK':
                    continue
                rep = {'pass': cls.__name__, 'arg': arg, 'text': text, 'state': repr(st)[:200]}
                if out_raw != out_norm or res1 != res2:
                    ctx.violation(f'cr-corrupts-edit:{cls.__name__}', f'{cls.__name__}::{arg} on {text!r}: candidate {out_raw!r} is not the edit {out_norm!r} of the decoded text', rep)
                elif '\r' in text and '\r' not in out_raw:
                    ctx.violation('cr-normalised-outside-edit', f'{cls.__name__}::{arg} on {text!r}: every CR of the file was rewritten, not only the matched region', rep)

_explore_main = explore


def explore(ctx):
    _explore_main(ctx)
    cr_section(ctx)


def replay(ctx, payload):
    explore(ctx)


LEVEL_TEXT = ('Machine-checked theorems over models of the text passes (for all texts): the lines pass yields the text minus whole lines — a '
              'strictly shorter subsequence; selected-line and blank-line removal and comment deletion yield subsequences, shorter whenever '
              'anything was removed; a balanced candidate is one replacement at a span reported by the matcher (balanced by C12), differs '
              'from the text and preserves everything outside the span; one-span replacements (ints, special, peep, ternary) preserve prefix '
              'and suffix exactly; for the balanced passes without a prefix, when every candidate is rejected every balanced group whose replacement changes the text is offered and nothing else is (all texts, delimiters, modes). Tied to the real transform functions each run and re-checked by an independent relational checker.')
LEVEL_NOTE = ('Trusted: Coq kernel; pass models (validated each run); CPython re. Partial: the every-instance-is-offered clause is proved for balanced (and for lines via C06), checked against independent scanners for the other passes; that ints/special replacements always differ from the '
              'match, and that peep/ternary spans come from the matcher, are checked on the real outputs, not derived from the regex syntax.')
TECHNIQUE = 'Rocq proof (subsequence / local-edit lemmas over list models) + differential run of every pass.transform + relational checker'
