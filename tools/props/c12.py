"""C12  Delimiter matching returns exactly the leftmost genuinely balanced match."""
import itertools
import random
import re

from vlib import coq

GENERATORS = []
COQ_TARGETS = ['Matcher/NMCorr.vo']
RULE = ('the real cvise.utils.nestedmatcher.find / search on every string up to a length bound over small alphabets chosen per part '
        'list (delimiters of all four kinds, "=", ",", "a", "?", ":", space) x every start position from -1 to len+1 x the part '
        'lists the passes use (balanced x4, curly3 with its "=\\s*" prefix, the ternary part list, a sample of the peephole part '
        'lists in search=False mode), plus random longer strings; compared with (1) the Coq model (regular-expression parts enter '
        'as tables computed by CPython re on the same string) and (2) an independent naive reference matcher in Python; '
        'non-trivial = distinct cases with a match'
        ' Also: the same text queried for different delimiter kinds and positions in random order (history independence).')
TRUSTED = ['hand-written model coq/Matcher/NM.v tied to cvise/utils/nestedmatcher.py by this correspondence run',
           'CPython re for the regular-expression parts (abstract in the theorems: any function bounded by the string)']
ASSUMPTIONS = ['parts are matched one after the other, each by its own deterministic anchored match (that is the matcher\'s contract; no backtracking across parts)']
IMPORTS = ['From CV Require Import Matcher.NM Matcher.NMCorr.']


def to_coq_parts(parts, nm):
    """-> (coq term, list of regex exprs, names)"""
    rx, names = [], []

    def pat(p):
        if isinstance(p, nm.RegExPattern):
            if p.expr not in rx:
                rx.append(p.expr)
            return f'(PRegex {rx.index(p.expr)})'
        if isinstance(p, nm.BalancedPattern):
            return f'(PBal {ord(p.start)}%N {ord(p.end)}%N)'
        if isinstance(p, nm.OrPattern):
            return f'(POr {pat(p.left)} {pat(p.right)})'
        raise ValueError(p)

    items = []
    for part in parts:
        p, name = part if isinstance(part, tuple) else (part, None)
        if name is not None and name not in names:
            names.append(name)
        items.append(f'({pat(p)}, {"(@None nat)" if name is None else "(Some %d)" % names.index(name)})')
    return '[' + '; '.join(items) + ']', rx, names


def table(rx, s):
    rows = []
    for expr in rx:
        r = re.compile(expr, flags=re.DOTALL)
        row = []
        for i in range(len(s) + 1):
            m = r.match(s, i)
            row.append(0 if m is None else m.end() + 1)
        rows.append('[' + ';'.join(str(x) for x in row) + ']')
    return '[' + '; '.join(rows) + ']' if rows else '(@nil (list nat))'


def coq_str(s):
    return ('[' + ';'.join(str(ord(ch)) for ch in s) + ']%N') if s else '(@nil N)'


# ---- independent naive reference ----
def naive_part(p, s, i, nm):
    if isinstance(p, nm.RegExPattern):
        m = re.compile(p.expr, flags=re.DOTALL).match(s, i)
        return None if m is None else m.end()
    if isinstance(p, nm.BalancedPattern):
        if i >= len(s) or s[i] != p.start:
            return None
        depth = 0
        for k in range(i, len(s)):
            if s[k] == p.start:
                depth += 1
            elif s[k] == p.end:
                depth -= 1
                if depth == 0:
                    return k + 1
        return None
    if isinstance(p, nm.OrPattern):
        l = naive_part(p.left, s, i, nm)
        return l if l is not None else naive_part(p.right, s, i, nm)


def naive_chain(parts, s, a, nm):
    pos = a
    named = {}
    for part in parts:
        p, name = part if isinstance(part, tuple) else (part, None)
        e = naive_part(p, s, pos, nm)
        if e is None:
            return None
        if name is not None:
            named[name] = (pos, e)
        pos = e
    named['all'] = (a, pos)
    return named


def naive_search(parts, s, pos, nm, srch=True):
    if not parts or pos < 0 or pos >= len(s):
        return None
    p0 = parts[0][0] if isinstance(parts[0], tuple) else parts[0]
    for a in range(pos, len(s) + 1):
        if a >= len(s) and not (srch and isinstance(p0, nm.RegExPattern)):
            break
        first = naive_part(p0, s, a, nm)
        if first is None:
            if srch:
                continue
            return None
        if a >= len(s) and a > pos and not srch:
            return None
        c = naive_chain(parts, s, a, nm)
        if c is not None:
            return c
        if a >= len(s):
            return None
    return None



class Hung(BaseException):
    pass


class TooManyHangs(Exception):
    pass


HANGS = {'n': 0}


def bounded(fn, *a, **kw):
    """the matcher is proved total: a call that is still running after 10 s (microseconds are normal) does not terminate"""
    import signal

    def on_alarm(_s, _f):
        raise Hung()
    old = signal.signal(signal.SIGALRM, on_alarm)
    signal.setitimer(signal.ITIMER_REAL, 10.0)
    try:
        return fn(*a, **kw)
    finally:
        signal.setitimer(signal.ITIMER_REAL, 0)
        signal.signal(signal.SIGALRM, old)


def note_hang(ctx, what, rep):
    ctx.violation('matcher-does-not-terminate', what + ' is still running after 10 s', rep)
    HANGS['n'] += 1
    if HANGS['n'] >= 3:
        raise TooManyHangs()


def explore(ctx):
    HANGS['n'] = 0
    try:
        explore_inner(ctx)
    except TooManyHangs:
        pass      # three non-terminating calls are reported; the rest of the exploration would only repeat them


def explore_inner(ctx):
    from cvise.utils import nestedmatcher as nm
    from cvise.passes.ternary import TernaryPass
    from cvise.passes.peep import PeepPass
    rnd = random.Random(ctx.seed + 12)
    find_cases, search_cases = [], []
    L = 6 if ctx.quick() else 7

    def do_find(expr, prefix, s, pos, tag, model=True):
        try:
            real = bounded(nm.find, expr, s, pos=pos, prefix=prefix)
            exc = None
        except Hung:
            note_hang(ctx, f'find({expr.name}, {s!r}, pos={pos}, prefix={prefix!r})', {'kind': 'find', 'expr': expr.name, 'prefix': prefix, 's': s[:400], 'pos': pos})
            return
        except Exception as e:
            real, exc = None, e
        parts = ([nm.RegExPattern(prefix)] if prefix else []) + [nm.BalancedPattern(expr)]
        ref = naive_search(parts, s, pos, nm)
        ref = ref['all'] if ref else None
        ctx.evaluations += 1
        ctx.count(tag)
        if real is not None:
            ctx.nontriv((tag, s, pos))
        rep = {'kind': 'find', 'expr': expr.name, 'prefix': prefix, 's': s if len(s) < 400 else {'repeat': [s[:1], s.count(s[:1]), s[-1:], len(s)]}, 'pos': pos}
        if exc is not None:
            ctx.violation('matcher-raises', f'find({expr.name}, {s!r}, pos={pos}, prefix={prefix!r}) raised {type(exc).__name__}: {exc}', rep)
            return
        if real != ref:
            ctx.violation('find-wrong', f'find({expr.name}, {s!r}, pos={pos}, prefix={prefix!r}) = {real}, the leftmost balanced match is {ref}', rep)
        if not model:
            return      # too long for the list-based model (its random access is linear): implementation vs reference only
        rx = [prefix] if prefix else []
        o, c = expr.value
        term = f'({table(rx, s)}, ({ord(o)}%N, {ord(c)}%N), {"(Some 0)" if prefix else "(@None nat)"}, {coq_str(s)}, ({pos})%Z)'
        find_cases.append((term, [-1] if real is None else [1, real[0], real[1]]))

    def do_search(parts, s, pos, srch, tag):
        try:
            real = bounded(nm.search, parts, s, pos=pos, search=srch)
            exc = None
        except Hung:
            note_hang(ctx, f'search({tag}, {s!r}, pos={pos}, search={srch})', {'kind': 'search', 'tag': tag, 's': s, 'pos': pos, 'srch': srch})
            return
        except Exception as e:
            real, exc = None, e
        ref = naive_search(parts, s, pos, nm, srch)
        ctx.evaluations += 1
        ctx.count(tag)
        if real is not None:
            ctx.nontriv((tag, s, pos, srch))
        rep = {'kind': 'search', 'tag': tag, 's': s, 'pos': pos, 'srch': srch}
        if exc is not None:
            ctx.violation('matcher-raises', f'search({tag}, {s!r}, pos={pos}, search={srch}) raised {type(exc).__name__}: {exc}', rep)
            return
        if real != ref:
            ctx.violation('search-wrong', f'search({tag}, {s!r}, pos={pos}, search={srch}) = {real}, reference {ref}', rep)
        term_parts, rx, names = to_coq_parts(parts, nm)
        out = [-1]
        if real is not None:
            out = [1, real['all'][0], real['all'][1]]
            for k, nme in enumerate(names):
                if nme in real:
                    out += [k, real[nme][0], real[nme][1]]
        search_cases.append((f'({table(rx, s)}, {term_parts}, {coq_str(s)}, ({pos})%Z, {"true" if srch else "false"})', out))

    kinds = [(nm.BalancedExpr.parens, '()a'), (nm.BalancedExpr.curlies, '{}a'), (nm.BalancedExpr.squares, '[](a'), (nm.BalancedExpr.angles, '<>a')]
    for expr, alpha in kinds:
        for n in range(0, (L if (expr.name == 'parens' or not ctx.quick()) else L - 1) + 1):
            for tup in itertools.product(alpha, repeat=n):
                s = ''.join(tup)
                if ctx.quick() and n == L and rnd.random() < 0.6:
                    continue
                for pos in range(-1, n + 2):
                    if ctx.quick() and n >= 5 and rnd.random() < 0.5:
                        continue
                    do_find(expr, '', s, pos, 'find:' + expr.name)
    for n in range(0, L):
        for tup in itertools.product('={} a', repeat=n):
            s = ''.join(tup)
            if rnd.random() < (0.75 if ctx.quick() else 0.2):
                continue
            for pos in range(-1, n + 2):
                do_find(nm.BalancedExpr.curlies, '=\\s*', s, pos, 'find:curly3')
    tparts = TernaryPass.parts
    for n in range(0, L + 1):
        for tup in itertools.product('a?:( );', repeat=n):
            s = ''.join(tup)
            if s.count('?') == 0 and rnd.random() < 0.9:
                continue
            if rnd.random() < (0.85 if ctx.quick() else 0.3):
                continue
            for pos in range(-1, n + 1):
                do_search(tparts, s, pos, True, 'search:ternary')
    # chained conditionals (a failed candidate overlaps the start of the real match) and border cases
    for s_ in [' a ? a ? a : a : a ', '(a?a?a:a)', ' a ? a ? a : a ;', 'a?a:a', ' a?a?a:a', ';a ? (a) ? a : a;', ' a ? a : a ? a : a ', ':a?a:a:', ' a ? a?a:a : a ']:
        for pos in range(-1, len(s_) + 1):
            do_search(tparts, s_, pos, True, 'search:ternary-chained')
    peep_lists = [x[0] for x in PeepPass.delimited_regexes_to_replace]
    sample = [peep_lists[i] for i in sorted(set(rnd.sample(range(len(peep_lists)), 6 if ctx.quick() else 25)))]
    toks = ['a', '1', '(', ')', ',', ' ', '=', '{', '}', ';', '<', '>', '+', 'x', '0', '\n', "'"]
    for parts in sample:
        for _ in range(60 if ctx.quick() else 400):
            s = ''.join(rnd.choice(toks) for _ in range(rnd.randint(0, 9)))
            for pos in (rnd.randint(-1, len(s) + 1), 0, len(s) - 1, len(s)):
                do_search(parts, s, pos, False, 'search:peep')
    # regular-expression parts are matched with DOTALL ('.' covers a newline) wherever they occur: the peep::a rules with a dot
    dotted = [x[0] for x in PeepPass.regexes_to_replace if any(type(p_).__name__ == 'RegExPattern' and '.' in p_.expr.replace('\\.', '') for p_ in x[0])]
    for parts in dotted:
        for s in ("'a\nb' x", "/* it's\n 'x' */", "int argc, char\n** argv)", "'\n'", "x 'a' 'b\n'"):
            for pos in range(-1, len(s) + 1):
                do_search(parts, s, pos, False, 'search:peep-dot-newline')
    # random longer strings
    for _ in range(150 if ctx.quick() else 2000):
        expr, alpha = rnd.choice(kinds)
        s = ''.join(rnd.choice(alpha + alpha[:2]) for _ in range(rnd.randint(9, 60)))
        do_find(expr, '', s, rnd.randint(-1, len(s) + 1), 'find:random')
    # single-character patterns at the very last position (peep::a rules) and search=True variants
    from cvise.utils import nestedmatcher as nm2
    for ch in ';,+-:!~':
        for s_ in ('int x' + ch, ch, 'a' + ch + 'b' + ch, ''):
            for pos in range(-1, len(s_) + 1):
                for srch in (False, True):
                    do_search([nm2.RegExPattern(re.escape(ch))], s_, pos, srch, 'search:single-char')
    # history independence: the same text queried for different delimiter kinds and positions in random order
    # (a matcher is a function of its arguments: nothing may carry over from one call to the next)
    mixed = ['{a} (b)', '(a) {b} [c] <d>', '{(})', '<(a)>{[b]}', '((a)) {{b}} (', 'x{y(z)}w[<q>]']
    for _ in range(40 if ctx.quick() else 400):
        mixed.append(''.join(rnd.choice('(){}[]<>ab ') for _ in range(rnd.randint(4, 14))))
    for s in mixed:
        calls = [(expr, pos) for expr, _a in kinds for pos in range(0, len(s))]
        rnd.shuffle(calls)
        for expr, pos in calls[: (16 if ctx.quick() else 60)]:
            do_find(expr, '', s, pos, 'find:interleaved', model=False)
    # deep nesting: far beyond any recursion limit
    for expr, alpha in kinds:
        o, c = expr.value
        for depth in ((1100, 2600) if ctx.quick() else (1100, 2600, 6000)):
            for s in (o * depth + c * depth, o * depth, 'a' + o * depth + c * (depth - 1), o + c * depth):
                do_find(expr, '', s, 0, 'find:deep', model=False)
    ctx.sample({'find_case': find_cases[len(find_cases) // 2][0][:160], 'impl': find_cases[len(find_cases) // 2][1]})
    ctx.sample({'search_case': search_cases[len(search_cases) // 2][0][:300], 'impl': search_cases[len(search_cases) // 2][1]})
    for nme, fn, cs in (('c12f', 'run_find', find_cases), ('c12s', 'run_search', search_cases)):
        bad = coq.corr_eval(nme, IMPORTS, fn, cs, shard=1500)
        ctx.corr_cases += len(cs)
        ctx.corr_disagree += len(bad)
        for b in bad[:5]:
            ctx.broke('correspondence', fn, f'case {cs[b][0][:400]} impl {cs[b][1]}')


def replay(ctx, payload):
    from cvise.utils import nestedmatcher as nm
    r = payload['replay']
    if r['kind'] == 'find':
        expr = nm.BalancedExpr[r['expr']]
        real = nm.find(expr, r['s'], pos=r['pos'], prefix=r['prefix'])
        parts = ([nm.RegExPattern(r['prefix'])] if r['prefix'] else []) + [nm.BalancedPattern(expr)]
        ref = naive_search(parts, r['s'], r['pos'], nm)
        ref = ref['all'] if ref else None
        print('replay: real', real, 'reference', ref)
        if real != ref:
            ctx.violation('find-wrong', 'replayed', r)


LEVEL_TEXT = ('Machine-checked theorems about a line-by-line model of nestedmatcher.py, for all strings, all integer positions and all part '
              'sequences, with regular-expression parts abstract (any function bounded by the string): the anchored scan computes exactly '
              '"depth returns to 0 for the first time"; search is sound, leftmost and complete with respect to chains of anchored part '
              'matches; find returns the leftmost balanced group; the search=False mode is characterised; totality and fuel sufficiency '
              'are part of the completeness statement. Tied to the real module each run on exhaustive small strings x all positions.')
LEVEL_NOTE = 'Trusted: Coq kernel; matcher model (validated each run against the real module and against an independent naive matcher); CPython re.'
TECHNIQUE = 'Rocq proof (depth invariant, least-start search, chain determinism) + exhaustive differential run of the real nestedmatcher'
