"""C01  The reduced test cases are always an interesting set."""
import random

from vlib import coq, driver, scengen

GENERATORS = []
COQ_TARGETS = ['Driver/Script.vo']
IMPORTS = ['From CV Require Import Base.Corr Driver.Round Driver.Outcome Driver.RunPass Driver.Script.']
RULE = ('scenario = 1-3 files x scripted pass groups (deleting/growing/neutral/unchanged/INVALID/STOP/ERROR/raising ops, '
        'new() rewrites) x test rules with exit 0 / non-zero / negative (signal) / timeout outcomes x cache on/off x N x '
        'schedule; run by the REAL CVise.reduce / TestManager.run_pass under the shim; oracle: after every run_pass return or '
        'raise and at the end the on-disk tuple is the original or was logged with exit 0 by the instrumented test; '
        'correspondence with the Coq model (final files, accepted sequence, exit kind, report dirs); non-trivial = distinct '
        'scenarios that commit at least one step and see at least one non-zero verdict'
        ' Also: the real LinesPass (stand-in topformflat) reformatting the file in new() under tests that accept / reject the reformatted text, with and without --skip-interestingness-test-check.')
TRUSTED = ['hand-written model coq/Driver/*.v tied to cvise/utils/testing.py + cvise/cvise.py by this correspondence run',
           'scheduler shim tools/vlib/shim.py; scripted-pass twin tools/vlib/scriptpass.py']
ASSUMPTIONS = ['the interestingness test is a deterministic function of the joint contents',
               'passes keep the promise new_sane (an in-place rewrite in new() is kept only if check_sanity passed) — proved for the DSL passes, read off lines.py for LinesPass']


def logical(o, d):
    """disk in model order -> tuple in logical (scenario) order"""
    return tuple(d[o.order.index(n)] for n in o.names)


def oracle(ctx, sc, o, mode):
    ok0 = {tuple(c for c in contents) for (contents, rc, _cwd, _ls) in o.testlog if rc == 0}
    orig = tuple(c.encode('latin-1') for _, c in sc['files'])
    points = []
    if mode == 'each':
        points = [(p['pass_'], p['disk']) for p in o.passes]
    else:
        points = [(name, d) for (name, d, _l) in getattr(o, 'after_pass', [])]
        if hasattr(o, 'final'):
            points.append(('end of reduce', o.final))
    for where, d in points:
        t = logical(o, d)
        if t != orig and t not in ok0:
            ctx.violation('uninteresting-commit', f'after {where} the files are {t}: never tested with exit 0 and not the original {orig}',
                          {'scenario': sc, 'mode': mode})
            return False
    return True


def explore(ctx):
    rnd = random.Random(ctx.seed + 1)
    each, red = [], []
    n1 = 80 if ctx.quick() else 700
    n2 = 120 if ctx.quick() else 1000
    for it in range(n1 + n1):
        if it >= n1:
            sc = scengen.gen_revisit(rnd)
        else:
            sc = scengen.gen_scenario(rnd, 'faults')
            sc['cfg']['no_cache'] = rnd.random() < 0.4
            if it % 8 == 5 and len(sc['files']) > 1:
                # a copy into a test directory fails (ENOSPC, EACCES, EPERM): no test may run on the incomplete set
                sc['copy_fault'] = rnd.randint(1, 8)
                sc['copy_fault_errno'] = rnd.choice([28, 13, 1])
            if rnd.random() < 0.4:   # revisit: run the same passes twice
                sc['passes'] = sc['passes'] + [dict(p) for p in sc['passes']]
        o = driver.run_scenario(sc, ctx.tmp)
        ctx.evaluations += 1
        if o.diverged:
            ctx.count('diverged')
            continue
        oracle(ctx, sc, o, 'each')
        if not sc.get('copy_fault'):      # (the model has no copy faults: oracle only)
            each.append((driver.coq_scenario(sc, o.perm), o.out, sc))
        ctx.count(f'each:k={len(sc["files"])}:cache={"off" if sc["cfg"]["no_cache"] else "on"}' + (':copy-fault' if sc.get('copy_fault') else ''))
        if any(p['worked'] for p in o.passes) and any(rc != 0 for (_c, rc, _w, _l) in o.testlog):
            ctx.nontriv(repr((sc['files'], sc['passes'], sc['rules'], sc['cfg'], sc['sched'])))
    # oracle-only sweep of cache-revisit scenarios with several files (no model evaluation needed)
    for it in range(350 if ctx.quick() else 4000):
        sc = scengen.gen_revisit(rnd, k=rnd.choice([2, 2, 3]), alphabet=rnd.choice(['ab', 'abc']))
        o = driver.run_scenario(sc, ctx.tmp)
        ctx.evaluations += 1
        if o.diverged:
            continue
        oracle(ctx, sc, o, 'each')
        ctx.count('revisit-oracle-only')
        if any(p['worked'] for p in o.passes) and any(rc != 0 for (_c, rc, _w, _l) in o.testlog):
            ctx.nontriv(repr((sc['files'], sc['passes'], sc['rules'], sc['cfg'], sc['sched'])))
    # cache replays of contents with CR / CR LF / bytes outside UTF-8 / NUL: what a replay writes was accepted, byte for byte
    for body in ('a\r\nb\ra\r', 'a\xff\r\n\xe9a\x00z', '\r\na\n\ra'):
        for nn in (1, 2):
            sc = {'files': [('f0.c', body)], 'rules': [([('has', 0, '\r')], 0)],
                  'passes': [{'key': 1, 'ops': [('delch', 'a')], 'aos': 0, 'maxt': None, 'newfix': None},
                             {'key': 2, 'ops': [('set', body)], 'aos': 1, 'maxt': None, 'newfix': None},
                             {'key': 1, 'ops': [('delch', 'a')], 'aos': 0, 'maxt': None, 'newfix': None}],
                  'cfg': {'N': nn, 'no_cache': False}, 'sched': [1] * 30}
            o = driver.run_scenario(sc, ctx.tmp)
            ctx.evaluations += 1
            ctx.count('replay-of-binary-contents')
            if not o.diverged:
                oracle(ctx, sc, o, 'each')
                each.append((driver.coq_scenario(sc, o.perm), o.out, sc))
    # a test-case set that contains both F and F.orig (the name of F's backup): nothing may be written to a test case without a test
    for nn in (1, 2):
        for skip in (False, True):
            sc = {'files': [('m.c', 'aab'), ('m.c.orig', 'keepme')], 'rules': [([('has', 1, 'keepme'), ('has', 0, 'b')], 0)],
                  'group': {'first': [], 'main': [{'key': 1, 'ops': [('delch', 'a')], 'aos': 0, 'maxt': None, 'newfix': None}], 'last': []},
                  'cfg': {'N': nn, 'no_cache': True}, 'sched': [1] * 20, 'skip_check': skip}
            o = driver.run_scenario(sc, ctx.tmp, mode='reduce')
            ctx.evaluations += 1
            ctx.count('reduce:test-case-named-like-a-backup')
            if not o.diverged:
                oracle(ctx, sc, o, 'reduce')
    for it in range(n2):
        sc = scengen.gen_group(rnd, 'faults' if it % 3 else 'contract')
        o = driver.run_scenario(sc, ctx.tmp, mode='reduce')
        ctx.evaluations += 1
        if o.diverged:
            ctx.count('diverged')
            continue
        oracle(ctx, sc, o, 'reduce')
        red.append((driver.coq_scenario(sc, o.perm, 'reduce'), o.out, sc))
        ctx.count(f'reduce:k={len(sc["files"])}:cache={"off" if sc["cfg"]["no_cache"] else "on"}:exit={o.code}')
        if o.accepted and any(rc != 0 for (_c, rc, _w, _l) in o.testlog):
            ctx.nontriv(repr((sc['files'], sc['group'], sc['rules'], sc['cfg'], sc['sched'])))
    real_lines(ctx, rnd)
    real_lines_sanity_fault(ctx)
    ctx.sample({'reduce_scenario': {k: red[0][2][k] for k in ('files', 'group', 'rules', 'cfg', 'sched')}, 'impl_output': red[0][1][:40]})
    for nm, fn, cs in (('c01e', 'sc_run_each', each), ('c01r', 'sc_reduce', red)):
        bad = coq.corr_eval(nm, IMPORTS, fn, [(a, b) for a, b, _ in cs], shard=100)
        ctx.count('model-out-of-fuel(undecided)', len(coq.LAST_FUEL))
        ctx.corr_cases += len(cs)
        ctx.corr_disagree += len(bad)
        for b in bad[:5]:
            ctx.broke('correspondence', f'Driver model ({fn}) vs real driver', f'scenario {cs[b][2]} impl output {cs[b][1]}')


def real_lines(ctx, rnd):
    """LinesPass.new() reformats the test case IN PLACE in the working directory (topformflat stand-in) and must put
    the file back unless the sanity check accepts a reformatted variant: run through the real run_pass with tests that
    accept / reject the reformatted text."""
    import os
    from cvise.passes.lines import LinesPass
    standin = os.path.join(os.environ.get('VERIF_ROOT', '/verif'), 'tools', 'standins', 'topformflat')
    texts = ['int a;int b;\nint c; { x; y; }\n', '  f() { g(); }   h;\n\n i;', 'x;y;z;']
    for text in texts:
        for arg in ('0', '1', '2', '10'):
            for rules in ([([('has', 0, ';int b')], 0), ([('has', 0, 'x;y;z')], 0), ([('has', 0, ' }   h')], 0)],     # only the ORIGINAL layout is interesting
                          [([('has', 0, ';')], 0)],                                                                     # anything with a ';' is interesting
                          [([('has', 0, ';int b')], 0), ([('has', 0, 'x;y')], 0), ([('has', 0, 'g(); }')], 0), ([('has', 0, 'b;\n')], 0)]):
                for k in (1, 2):
                    files = [('t.c', text), ('d/u.c', 'keep;\n')][:k]
                    # what the test exits with on an uninteresting variant: 1, or what a shell reports for a helper that is
                    # not installed / not executable (127 / 126), or a crash of the test
                    fall = (1, 127, 126, -11, 2)[(len(text) + int(arg) + k + len(rules)) % 5]
                    rules_k = list(rules) + ([([], fall)] if fall != 1 else [])
                    sc = {'files': files, 'rules': rules_k, 'passes': [], 'cfg': {'N': rnd.choice([1, 2, 3]), 'no_cache': True, 'save_temps': (len(text) + int(arg) + k) % 3 == 0},
                          'sched': [rnd.randint(0, 7) for _ in range(20)], 'real_pass': f'lines::{arg}',
                          'skip_check': rnd.random() < 0.4}      # --skip-interestingness-test-check only skips the START-UP check
                    p = LinesPass(arg, {'topformflat': standin})
                    p.max_transforms = None
                    o = driver.run_scenario(sc, ctx.tmp, real_passes=[p])
                    ctx.evaluations += 1
                    ctx.count('real-lines-pass')
                    if o.diverged:
                        continue
                    if oracle(ctx, sc, o, 'each') and any(rc != 0 for (_c, rc, _w, _l) in o.testlog):
                        ctx.nontriv(repr(('lines', arg, text, rules_k, k)))


def real_lines_sanity_fault(ctx):
    """the sanity check that LinesPass.new() runs on the reformatted file does not complete (the test directory cannot be
    filled: disk full, permission): C-Vise stops with that error, and the user's file must be the original again"""
    import os
    from cvise.passes.lines import LinesPass
    standin = os.path.join(os.environ.get('VERIF_ROOT', '/verif'), 'tools', 'standins', 'topformflat')
    text = 'int a;int b;\nint c; { x; y; }\n'
    for arg in ('0', '1'):
        for en in (28, 13):
            for k in (1, 2):
                sc = {'files': [('t.c', text), ('d/u.c', 'keep;\n')][:k], 'rules': [([('has', 0, ';')], 0)], 'passes': [],
                      'cfg': {'N': 1, 'no_cache': True}, 'sched': [1] * 10, 'copy_fault': 1, 'copy_fault_errno': en,
                      'real_pass': f'lines::{arg} sanity-fault'}
                p = LinesPass(arg, {'topformflat': standin})
                p.max_transforms = None
                o = driver.run_scenario(sc, ctx.tmp, real_passes=[p])
                ctx.evaluations += 1
                ctx.count('real-lines-pass:sanity-check-interrupted')
                if not o.diverged:
                    oracle(ctx, sc, o, 'each')
                    ctx.nontriv(repr(('lines-sanity-fault', arg, en, k)))


def replay(ctx, payload):
    r = payload['replay']
    if 'sanity-fault' in str(r['scenario'].get('real_pass', '')):
        real_lines_sanity_fault(ctx)
        return
    if r['scenario'].get('real_pass'):
        real_lines(ctx, random.Random(1))
        return
    o = driver.run_scenario(r['scenario'], ctx.tmp, mode=r['mode'])
    print('replay: output', o.out)
    oracle(ctx, r['scenario'], o, r['mode'])


LEVEL_TEXT = ('Machine-checked invariant: in the model of TestManager/CVise.reduce the on-disk tuple is the original or a tuple '
              'on which the test exits 0, preserved by every committing step (winner of a round, sanity-checked rewrite in '
              'new(), cache replay with the joint-content key) for any number of files, any pass functions, any schedule, any '
              'configuration, on every exit including errors. The model is tied to the real code on every run (shim-driven '
              'correspondence, reduce and run_pass level) and the same invariant is evaluated directly on the real runs using '
              'the verdict log of the instrumented test.')
LEVEL_NOTE = ('Trusted: Coq kernel; hand-written driver model validated each run; scheduler shim; deterministic test; '
              'pass promise new_sane (proved for DSL passes). The model follows the code after fix 8a3dca0 (joint cache key).')
TECHNIQUE = 'Rocq proof (inductive invariant over rounds/files/passes incl. cache) + shim-driven correspondence + verdict-log oracle on the real runs'
