"""C03  Every pass and the whole reduction terminate."""
import itertools
import os
import random
import signal

from vlib import coq, driver, refloop, scengen
from props import common_driver as cd
from props.c07 import TOKENS, gen_text

GENERATORS = ['peeptab']
COQ_TARGETS = ['Passes/TermCorr.vo', 'Driver/Script.vo', 'Cursor/BinaryCorr.vo']
IMPORTS = ['From CV Require Import Base.Corr Passes.Termination Passes.TermCorr.']
RULE = ('real pass objects (lines 0/1/2/10/None, line_markers, includes, blank, comments, balanced x15, ternary b/c, ints a-d, special a-c, '
        'peep a/b/c) driven by the sequential reference loop on token texts (all sequences up to a length bound over the rule-hitting '
        'alphabet, random beyond) under the full accept/reject verdict tree (capped per text) plus random verdict sequences, with a '
        'wall-clock watchdog; every observed transition (configuration, verdict, next configuration) is abstracted to the cursor '
        'record of its theorem and the Coq-side checker (pos_chk / list_chk / peep_chk / counter_chk, includes_step itself) is '
        'evaluated on it inside Coq; the number of transform calls of every run is compared with the proved bound; the main loop '
        'is run for real (CVise.reduce under the shim) on groups with growing and size-neutral passes: a new iteration only after a '
        'strict decrease, compared with the Coq model; non-trivial = distinct (pass, text, verdict path) with an accepted candidate'
        ' Also: net-growing passes against the 3x growth guard of run_pass; peephole enumeration must reach the end of the CURRENT file after growth accepts.')
TRUSTED = ['abstraction functions of tools/props/c03.py (cursor -> pcur/lcur/rcur/kcur/ccur record); step hypotheses are CHECKED on observed transitions, proved only for the includes model',
           'peep.py rule tables: widths computed by CPython sre_parse (tools/gen/peeptab.py)',
           'driver model coq/Driver/*.v tied by the shim-driven correspondence (as C01/C02)']
ASSUMPTIONS = ['binary-search passes: an accepted candidate shrinks the instance count by the chunk (lines / line markers: by construction; external tools: assumed)',
               'peep::b rules 3, 55, 56 (class->struct, one-char variable -> 0 / 1) do not shrink: termination of peep::b is PARTIAL (bounded by the harness, not proved)']

WATCHDOG_S = 30


class Hang(Exception):
    pass


def _alarm(_sig, _frm):
    raise Hang()


STANDINS = os.path.join(os.environ.get('VERIF_ROOT', '/verif'), 'tools', 'standins')


def mk(cls, arg):
    p = cls(arg, {'topformflat': os.path.join(STANDINS, 'topformflat')})
    p.max_transforms = None
    return p


def pass_table():
    from cvise.passes.lines import LinesPass
    from cvise.passes.line_markers import LineMarkersPass
    from cvise.passes.includes import IncludesPass
    from cvise.passes.blank import BlankPass
    from cvise.passes.comments import CommentsPass
    from cvise.passes.balanced import BalancedPass
    from cvise.passes.ints import IntsPass
    from cvise.passes.special import SpecialPass
    from cvise.passes.ternary import TernaryPass
    from cvise.passes.peep import PeepPass
    from gen import pyconv
    t = []
    for a in ('0', '1', '2', '10', 'None'):
        t.append(('binary', 'lines', a, LinesPass))
    t.append(('binary', 'line_markers', None, LineMarkersPass))
    t.append(('includes', 'includes', None, IncludesPass))
    t.append(('counter', 'blank', None, BlankPass))
    t.append(('counter', 'comments', None, CommentsPass))
    for a in pyconv.accepted_args('cvise/passes/balanced.py'):
        t.append(('pos', 'balanced', a, BalancedPass))
    for a in ('b', 'c'):
        t.append(('pos', 'ternary', a, TernaryPass))
    for a in ('a', 'b', 'c', 'd'):
        t.append(('list', 'ints', a, IntsPass))
    for a in ('a', 'b', 'c'):
        t.append(('list', 'special', a, SpecialPass))
    for a in ('a', 'b', 'c'):
        t.append(('peep', 'peep', a, PeepPass))
    return t


def phi(name, arg, text):
    if name == 'ints' and arg == 'd':
        return text.count('x') + text.count('X')
    if name == 'special' and arg == 'a':
        return text.count('c')
    return len(text)


def abstract(kind, name, arg, state, text, lim):
    """cursor record of the theorem, or None when the abstract run is over"""
    if state is None:
        return None
    if kind == 'pos':
        pos = state[0] if name == 'balanced' else state['all'][0]
        return (len(text), pos)
    if kind == 'list':
        return (phi(name, arg, text), len(state['modifications']), state['index'])
    if kind == 'peep':
        if state['pos'] >= len(text):
            return None
        return (len(text), state['pos'], state['regex'])
    if kind == 'counter':
        kmax = 2 if name == 'blank' else 0
        return (len(text), max(0, kmax - state))
    if kind == 'includes':
        import re
        n = sum(1 for ln in text.splitlines(True) if re.match(r'\s*#\s*include', ln))
        return (n, state)
    if kind == 'binary':
        return (state.instances, state.index, state.chunk)
    raise ValueError(kind)


def bound(kind, c0, lim):
    if c0 is None:
        return 2
    if kind == 'pos':
        return 2 * c0[0] - c0[1] + 1
    if kind == 'list':
        return (c0[0] + 1) * (c0[0] + 1) + 1
    if kind == 'peep':
        return c0[0] * (lim + 1) + 1 + 2
    if kind == 'counter':
        return c0[0] + c0[1] + 1
    if kind == 'includes':
        return 2 * c0[0] + 2
    if kind == 'binary':
        return (c0[0] + 1) * (c0[0] + 2)
    raise ValueError(kind)


def ct(kind, c):
    if kind in ('pos', 'counter'):
        return f'({c[0]},{c[1]})'
    return f'({c[0]},{c[1]},{c[2]})'


class Run:
    __slots__ = ('steps', 'asked', 'reason', 'configs', 'n')


def one_run(ctx, entry, text, script, default, rnd=None, lim=0):
    """Drive the real pass under the verdict script (then `default`: False / True / 'rnd')."""
    kind, name, arg, cls = entry
    p = mk(cls, arg)
    d = os.path.join(ctx.tmp, 'c03')
    os.makedirs(d, exist_ok=True)
    path = os.path.join(d, 'tc.c')
    with open(path, 'w', newline='') as f:
        f.write(text)
    asked = []
    states = []

    def interesting(_cand):
        i = len(asked)
        if default == 'grow' and i >= len(script):
            v = os.path.getsize(_cand) > os.path.getsize(path)      # accept exactly the candidates that lengthen the file
            asked.append(bool(v))
            return v
        v = script[i] if i < len(script) else (rnd.random() < 0.5 if default == 'rnd' else default)
        asked.append(bool(v))
        return v

    def observe(st):
        with open(path, newline='') as f:
            cur = f.read()
        states.append(abstract(kind, name, arg, st, cur, lim))
        return None

    with open(path, newline='') as f:
        t0 = f.read()
    st0 = None
    r = Run()
    old = signal.signal(signal.SIGALRM, _alarm)
    signal.alarm(WATCHDOG_S)
    try:
        # the initial configuration is what new() returns (lines passes rewrite the file in new())
        n = len(text) + 2
        budget = (3 * n * (lim + 2) if kind == 'peep' else 6 * n * n if kind == 'binary' else 2 * n * n) + 50       # above every proved bound
        steps, final, reason = refloop.run_ref(p, path, interesting, d, max_steps=budget, observe=observe,
                                               continue_after_exception=False)
    finally:
        signal.alarm(0)
        signal.signal(signal.SIGALRM, old)
    r.steps, r.asked, r.reason, r.configs, r.n = steps, asked, reason, states, len(steps)
    return r


def explore_pass(ctx, entry, text, cases, lim, rnd, max_paths):
    kind, name, arg, cls = entry
    label = f'{name}::{arg}'
    stack = [[]]
    seen = 0
    randoms = 2

    def check_run(script, default):
        if label in ctx.extra.setdefault('violating_passes', []):
            return None
        try:
            r = one_run(ctx, entry, text, script, default, rnd, lim)
        except Hang:
            ctx.extra['violating_passes'].append(label)
            ctx.violation(f'hang:{label}', f'{label} did not finish within {WATCHDOG_S}s on {text!r} under verdicts {script}+{default}',
                          {'pass': name, 'arg': arg, 'text': text, 'script': script, 'default': str(default)})
            return None
        ctx.evaluations += 1
        c0 = r.configs[0] if r.configs else None
        b = bound(kind, c0, lim)
        if kind == 'peep' and arg == 'b':
            b = 3 * (len(text) + text.count('class') + 1) * (lim + 1)       # generous: no theorem for peep::b (partial)
        if r.reason == 'exception':
            ctx.count(f'exception:{label}:{r.steps[-1].result}')
        if r.reason == 'max_steps' or r.n > b:
            ctx.extra['violating_passes'].append(label)
            ctx.violation(f'unbounded:{label}', f'{label} proposed {r.n} candidates (> proved bound {b}) on {text!r} under verdicts {r.asked[:40]}',
                          {'pass': name, 'arg': arg, 'text': text, 'script': r.asked, 'default': 'False'})
            return r
        # transitions
        for k in range(len(r.steps) - 1):
            c, c2 = r.configs[k], r.configs[k + 1] if k + 1 < len(r.configs) else None
            if c is None or c2 is None:
                continue
            acc = r.steps[k].accepted
            key = (label, c, acc, c2)
            if kind == 'binary' or (kind == 'peep' and arg == 'b'):
                continue
            cases.setdefault(kind, {})[(lim if kind == 'peep' else 0, c, acc, c2)] = (name, arg, text, list(r.asked))
        if kind == 'peep' and arg != 'b':
            # after the abstract run is over (cursor at/after the end of a shrunk text) the real pass may make one more call
            ends = [i for i, c in enumerate(r.configs) if c is None]
            if ends and len(r.configs) - ends[0] > 2:
                ctx.violation(f'peep-tail:{label}', f'{label}: {len(r.configs) - ends[0]} transform calls with the cursor past the end of {text!r}',
                              {'pass': name, 'arg': arg, 'text': text, 'script': r.asked, 'default': 'False'})
        if kind == 'peep' and r.reason == 'exhausted' and r.steps and not r.steps[-1].accepted:
            # the enumeration ends only when every (position, rule) of the CURRENT file has been visited
            with open(os.path.join(ctx.tmp, 'c03', 'tc.c'), newline='') as f:
                cur_len = len(f.read())
            last = r.configs[-1]
            if last is not None and (last[1] < cur_len - 1):
                ctx.violation(f'peep-ends-early:{label}', f'{label} on {text!r} under verdicts {r.asked[:30]}: the pass reported finished at position {last[1]} of a {cur_len}-character file',
                              {'pass': name, 'arg': arg, 'text': text, 'script': r.asked, 'default': 'False'})
        if kind == 'includes':
            cases.setdefault('incrun', {})[(c0[0], tuple(r.asked))] = (r.n, name, arg, text)
        if any(s.accepted for s in r.steps):
            ctx.nontriv(repr((label, text, tuple(r.asked))))
        ctx.count(f'{kind}:{"accepting" if any(r.asked) else "all-reject"}')
        return r

    if kind == 'peep' and arg == 'b' and text.startswith(' class a ; class b'):
        check_run([], 'grow')       # only this directed run on the long text
        return
    while stack and seen < max_paths:
        script = stack.pop()
        r = check_run(script, False)
        seen += 1
        if r is None:
            return
        for i in range(len(r.asked) - 1, len(script) - 1, -1):
            stack.append(r.asked[:i] + [True])
    if kind == 'peep' and arg == 'b' and 'class' in text:
        check_run([], 'grow')
    if stack:
        ctx.count('verdict-tree-capped')
        for _ in range(randoms):
            check_run([], 'rnd')
        check_run([], True)
    else:
        ctx.count('verdict-tree-complete')


def texts_for(ctx, rnd):
    small = ['', '\n', 'a', '()', '(a)\n', '{{}}', ',0,', 'a ? b : c;', ' 0x10,', ' 0xFFFFFFFFFFFF;', 'class a{};', ' a ', ',a,',
             'while (1) { break; }', ' class a ; class b ; class c ; class d ; k = x;\n', "transparent_crc(transparent_crc(a,b)", "extern 'C' extern 'C++'", '/*/**/*/', '//**/* x */',
             '#include <a.h>\n#include "b.h"\nint x;\n', '# 1 "a.c"\n\n#if 0\n', 'int a = (1 ? 2 : 3);\n', '(()())[]<>{}', ' 12UL, 0x1Fu; -07 ']
    n = 1 if ctx.quick() else 2
    alpha = TOKENS if not ctx.quick() else [t for t in TOKENS if t.strip()][:40]
    ex = [''.join(t) for k in range(1, n + 1) for t in itertools.product(sorted(set(alpha)), repeat=k)]
    rn = [gen_text(rnd) for _ in range(25 if ctx.quick() else 400)]
    return small, ex, rn


KIND_ALPHA = {
    'pos': ['(', ')', '{', '}', '[', ']', '<', '>', 'a', '=', ' ', ',', '?', ':', ';', '0', 'b1', '= {', '(a)', ' ? ', ' : '],
    'list': [' ', ' ', ',', ';', '0x1F', '0X0', '12', '7', 'UL', 'u', '-', '+', '0', 'x', 'a', 'c', '(', ')', 'transparent_crc(a,b)', 'transparent_crc (',
             "extern 'C'", "extern 'C++'", '0xFFFFFFFFFFFFFF'],
    'counter': ['\n', '  \n', '# 1 "a"\n', '#if X\n', 'int x;\n', '/* c */', '// d\n', '/*', '*/', '/', '*', 'a', '/**/'],
    'includes': ['#include <a>\n', ' # include "b"\n', '\n', 'int x;\n', '#include', 'a', '//#include <c>\n'],
    'binary': ['a;\n', 'b {\n', '}\n', '\n', 'x', '# 3 "f.c"\n', '#line 4\n', ' ', 'int f() { return 1; }\n'],
    'peep': ['a', ' ', ',', '0', '(', ')', ';', '{', '}', 'class', 'int', 'while', '+', '=', '1', 'break;', ':', '?', '<', '>', '*'],
}


def gen_kind_text(rnd, kind, maxn=10):
    return ''.join(rnd.choice(KIND_ALPHA[kind]) for _ in range(rnd.randint(1, maxn)))


def run_main_loop(ctx, rnd):
    red = []
    n = 60 if ctx.quick() else 800
    made = 0
    while made < n:
        sc = scengen.gen_group(rnd, 'contract')
        grp = sc['group']
        allp = grp['first'] + grp['main'] + grp['last']
        # growing and size-neutral ops on purpose
        for p in grp['main']:
            if rnd.random() < 0.5:
                p['ops'] = list(p['ops']) + [rnd.choice([('dup', 0), ('swap', 0), ('dup', 1)])]
        if any(p['aos'] in (0, 2) and any(o[0] in ('dup', 'swap', 'set', 'same') for o in p['ops']) for p in allp):
            # make it terminating per pass (C03 is about the real passes): advance past an accepted candidate
            for p in allp:
                p['aos'] = 1
        made += 1
        o = driver.run_scenario(sc, ctx.tmp, mode='reduce')
        ctx.evaluations += 1
        if o.diverged:
            ctx.violation('driver-diverged', 'CVise.reduce did not finish within the step budget of the shim', {'scenario': sc, 'mode': 'reduce'})
            continue
        red.append((driver.coq_scenario(sc, o.perm, 'reduce'), o.out, sc))
        if o.code != 0:
            ctx.count(f'mainloop:exit={o.code}')
            continue
        check_iterations(ctx, sc, o)
    # contents with line structure and passes that re-flow it (same bytes, fewer / more non-blank lines): the only progress
    # that lets the main loop go round again is fewer BYTES
    for body in ('a\nb', 'a\nb\nc\n', 'x;\ny;\n\nz'):
        for nn in (1, 2):
            for extra in ([], [{'key': 3, 'ops': [('delch', 'z')], 'aos': 1, 'maxt': None, 'newfix': None}]):
                main = [{'key': 1, 'ops': [('swap', 1)], 'aos': 1, 'maxt': None, 'newfix': None},
                        {'key': 2, 'ops': [('swap', len(body) - 2)], 'aos': 1, 'maxt': None, 'newfix': None}] + extra
                sc = {'files': [('f0.c', body)], 'rules': [([], 0)], 'group': {'first': [], 'main': main, 'last': []},
                      'cfg': {'N': nn, 'no_cache': rnd.random() < 0.5}, 'sched': [rnd.randint(0, 7) for _ in range(20)]}
                o = driver.run_scenario(sc, ctx.tmp, mode='reduce')
                ctx.evaluations += 1
                ctx.count('mainloop:re-flowing-passes')
                if o.diverged:
                    ctx.violation('driver-diverged', 'CVise.reduce did not finish within the step budget of the shim', {'scenario': sc, 'mode': 'reduce'})
                    continue
                red.append((driver.coq_scenario(sc, o.perm, 'reduce'), o.out, sc))
                if o.code == 0:
                    check_iterations(ctx, sc, o)
    cd.correspond(ctx, 'c03', [], red)


def check_iterations(ctx, sc, o):
    grp = sc['group']
    f, m, l = len(grp['first']), len(grp['main']), len(grp['last'])
    size0 = sum(len(c) for _, c in sc['files'])
    sizes = [sum(len(c) for c in d) for (_n, d, _l) in o.after_pass]
    body = sizes[f: len(sizes) - l] if l else sizes[f:]
    start = sizes[f - 1] if f else size0
    if m == 0:
        return
    iters = [body[i:i + m] for i in range(0, len(body), m)]
    ctx.count(f'mainloop:iterations={len(iters)}')
    prev = start
    for i, it in enumerate(iters):
        last = i == len(iters) - 1
        end = it[-1]
        if not last and not end < prev:
            ctx.violation('mainloop-no-progress', f'main loop started iteration {i + 2} although iteration {i + 1} went from {prev} to {end} bytes',
                          {'scenario': sc, 'mode': 'reduce'})
            return
        if len(it) < m and end != 0:
            ctx.violation('mainloop-short', f'main loop iteration {i + 1} ran {len(it)} of {m} passes with {end} bytes left', {'scenario': sc, 'mode': 'reduce'})
            return
        prev = end
    if len(iters) > size0 + 1:
        ctx.violation('mainloop-too-long', f'{len(iters)} iterations for {size0} bytes', {'scenario': sc, 'mode': 'reduce'})
    if len(iters) > 1:
        ctx.nontriv(repr(('mainloop', sc['files'], sc['group'], sc['rules'], sc['sched'])))


from cvise.passes.abstract import AbstractPass, PassResult

class GrowShrink(AbstractPass):
    def __init__(self, pattern):
        super().__init__(None, {})
        self.pattern = pattern
        self.max_transforms = None

    def __repr__(self):
        return 'GrowShrink' + ''.join('+' if g else '-' for g in self.pattern)

    def check_prerequisites(self):
        return True

    def new(self, test_case, _=None):
        return 0

    def advance(self, test_case, state):
        return None

    def advance_on_success(self, test_case, state):
        return state + 1

    def transform(self, test_case, state, process_event_notifier):
        with open(test_case) as f:
            data = f.read()
        grow = self.pattern[state % len(self.pattern)]
        data = data + 'xyz' if grow else data[:-1]
        with open(test_case, 'w') as f:
            f.write(data)
        return (PassResult.OK, state)


def run_growth_guard(ctx, rnd):
    """A misbehaving pass whose accepted candidates grow the file on balance (+3, -1, +3, -1 ...) is stopped by the
    3x growth guard of run_pass: the pass run ends after a bounded number of accepted steps."""
    for pattern in ([1], [1, 0], [1, 1, 0], [1, 0, 0, 1], [0, 1]):
        for size in (1, 4, 9):
            for n in (1, 3):
                sc = {'files': [('f0.c', 'a' * size)], 'rules': [([], 0)], 'passes': [], 'cfg': {'N': n, 'no_cache': True},
                      'sched': [rnd.randint(0, 7) for _ in range(30)], 'max_accepts': 40 * size + 60, 'growth': pattern}
                o = driver.run_scenario(sc, ctx.tmp, real_passes=[GrowShrink(pattern)])
                ctx.evaluations += 1
                ctx.count('growth-guard')
                if o.diverged:
                    ctx.violation('growth-unbounded', f'a pass whose accepted candidates follow the pattern {pattern} (1 = +3 bytes, 0 = -1 byte) on a {size}-byte file '
                                  f'was still running after {40 * size + 60} accepted steps (the file should stop growing at 3x)', {'scenario': sc, 'mode': 'growth'})
                else:
                    ctx.nontriv(('growth', tuple(pattern), size, n))


def run_unchanged_and_multifile(ctx, rnd):
    """(a) a pass that answers OK without changing the file (and keeps its cursor after a success) must not be taken for
    progress: the run ends after its few candidates; (b) the give-up bound holds for every file of a multi-file set, not only
    for the first one a pass gets stuck on"""
    for silent in (False, True):
        for nn in (1, 2):
            sc = {'files': [('f0.c', 'abc')], 'rules': [([], 0)],
                  'passes': [{'key': 1, 'ops': [('same',), ('same',), ('set', 'abc')], 'aos': 0, 'maxt': None, 'newfix': None}],
                  'cfg': {'N': nn, 'silent': silent, 'no_cache': True, 'maxcrash': 50}, 'sched': [1] * 30, 'max_scheduled': 400, 'max_accepts': 40}
            o = driver.run_scenario(sc, ctx.tmp)
            ctx.evaluations += 1
            ctx.count('unchanged-ok-candidates')
            if o.diverged or o.passes[0]['executed'] > 3 + nn:
                ctx.violation('driver-diverged', f'a pass whose candidates equal the file (OK, nothing changed; shaddap={silent}, N={nn}) was run for '
                              f'{o.passes[0]["executed"] if o.passes else "?"} candidates / did not finish: an unchanged candidate was taken for progress', {'scenario': sc, 'mode': 'each'})
    for g in (3, 5):
        for nn in (1, 3):
            files = [('f0.c', 'abcabc'), ('b/f1.c', 'abcabd'), ('f2.c', 'abcab')]
            nops = g + nn + 14
            sc = {'files': files, 'rules': [([('lenge', 0, 6), ('lenge', 1, 6), ('lenge', 2, 5)], 0)],
                  'passes': [{'key': 1, 'ops': [('del', i % 5) for i in range(nops)], 'aos': 1, 'maxt': None, 'newfix': None}],
                  'cfg': {'N': nn, 'giveup': g, 'no_cache': True, 'maxcrash': 50}, 'sched': [rnd.randint(0, 7) for _ in range(40)], 'max_scheduled': 2000}
            o = driver.run_scenario(sc, ctx.tmp)
            ctx.evaluations += 1
            ctx.count('giveup:three-files')
            if o.diverged:
                ctx.violation('driver-diverged', 'run_pass did not finish within the step budget of the shim', {'scenario': sc, 'mode': 'each'})
                continue
            p = o.passes[0]
            if p['worked'] == 0 and p['code'] == 0 and p['executed'] > 3 * (g + nn + 1):
                ctx.violation('giveup-bound', f'{p["executed"]} candidates were run on three files without any success (GIVEUP={g}, N={nn}: at most {3 * (g + nn + 1)})',
                              {'scenario': sc, 'mode': 'each'})


def run_stop_passes(ctx, rnd):
    """passes that finish by answering STOP (includes, blank, comments), through the real TestManager.check_pass_result under
    every reporting switch (--shaddap, --die-on-pass-bug, --no-give-up): the pass run ends right after the STOP, long before
    any give-up limit"""
    from cvise.passes.includes import IncludesPass
    from cvise.passes.blank import BlankPass
    from cvise.passes.comments import CommentsPass
    texts = ['#include <a.h>\n#include "b.h"\nint x;\n', '\n\n a;\n\n#\n  \n', '/* a */ x; // b\n y /* c */;\n', 'int z;\n']
    for cls in (IncludesPass, BlankPass, CommentsPass):
        for text in texts:
            for silent, die, nogiveup in ((False, False, False), (True, False, False), (True, False, True), (False, True, False), (True, True, False)):
                for verdict in (1, 0):
                    sc = {'files': [('t.c', text)], 'rules': [([], verdict)], 'passes': [],
                          'cfg': {'N': rnd.choice([1, 2, 3]), 'no_cache': True, 'silent': silent, 'die': die, 'nogiveup': nogiveup, 'giveup': 300},
                          'sched': [rnd.randint(0, 7) for _ in range(20)], 'real_pass': cls.__name__, 'max_scheduled': 1500}
                    p = cls(None, {})
                    p.max_transforms = None
                    o = driver.run_scenario(sc, ctx.tmp, real_passes=[p])
                    ctx.evaluations += 1
                    ctx.count('stop-ending-pass:' + cls.__name__)
                    rep = {'scenario': sc, 'mode': 'stop-pass', 'pass': cls.__name__}
                    if o.diverged:
                        ctx.violation('driver-diverged', f'{cls.__name__} on {text!r} did not finish', rep)
                        continue
                    ps = o.passes[0]
                    bound = 2 * (text.count('\n') + 3) + sc['cfg']['N']
                    if ps['executed'] > bound:
                        ctx.violation('stop-ignored', f'{cls.__name__} on {text!r} (shaddap={silent}, die-on-pass-bug={die}, no-give-up={nogiveup}, every candidate '
                                      f'{"accepted" if verdict == 0 else "rejected"}): {ps["executed"]} candidates were started; the pass answers STOP after at most {bound}', rep)
                    ctx.nontriv(('stop-pass', cls.__name__, text, silent, die, nogiveup, verdict))


def run_giveup(ctx, rnd):
    """a round whose candidates never succeed is abandoned after GIVEUP + N + 1 candidates (cround_giveup)"""
    for it in range(20 if ctx.quick() else 200):
        g, n = rnd.randint(1, 6), rnd.randint(1, 4)
        nops = rnd.randint(g, g + 12)
        kinds = [('dup', 0), ('dup', 2), ('del', 1), ('del', 4)] + ([('swap', 0), ('swap', 2)] if it % 3 == 0 else [])
        sc = {'files': [('f0.c', 'abcab')], 'rules': [([('lenge', 0, 5), ('lenlt', 0, 6), ('has', 0, 'c')], 0)],
              'passes': [{'key': 1, 'ops': [rnd.choice(kinds) for _ in range(nops)],
                          'aos': 1, 'maxt': None, 'newfix': None}],
              'cfg': {'N': n, 'giveup': g, 'no_cache': True}, 'sched': [rnd.randint(0, 7) for _ in range(rnd.randint(0, 40))]}
        # the rule accepts only 5-byte contents containing 'c': swaps may succeed; keep only all-fail rounds for the bound
        o = driver.run_scenario(sc, ctx.tmp)
        ctx.evaluations += 1
        if o.diverged:
            ctx.violation('driver-diverged', 'run_pass did not finish within the step budget of the shim', {'scenario': sc, 'mode': 'each'})
            continue
        p = o.passes[0]
        if p['worked'] == 0 and p['code'] == 0 and p['executed'] > g + n + 1 and nops > g + n + 1:
            ctx.violation('giveup-bound', f'{p["executed"]} candidates were run in a round without success (GIVEUP={g}, N={n})', {'scenario': sc, 'mode': 'each'})
        ctx.count(f'giveup:{"all-fail" if p["worked"] == 0 else "progress"}')


FORMATTERS = {
    # stand-ins for `clang-format -i [-style S] FILE` (not installed): the pass must end whatever the formatter does
    'idempotent': "import re,sys\np=sys.argv[-1]\nt=open(p).read()\nopen(p,'w').write(re.sub(r'[ \\t]+', ' ', t))\n",
    'oscillating': "import sys\np=sys.argv[-1]\nt=open(p).read()\nopen(p,'w').write(t[:-2]+'\\n' if t.endswith(' \\n') else t.rstrip('\\n')+' \\n')\n",
    'growing': "import sys\np=sys.argv[-1]\nt=open(p).read()\nopen(p,'w').write(t+'\\n')\n",
    'identity': "import sys\n",
    'failing': "import sys\nsys.exit(3)\n",
}


def run_indent(ctx, rnd):
    """IndentPass under every verdict sequence and formatters that are idempotent, oscillate between two layouts, grow the file, change
    nothing or fail: the real (formatter changed?, cursor, verdict) -> next cursor transitions against indent_step inside Coq, and the
    number of transform calls against the proved bound of C03_indent_terminates (2)."""
    import itertools
    import shutil
    from cvise.passes.abstract import PassResult, ProcessEventNotifier
    from cvise.passes.indent import IndentPass
    trans = []
    for fname, src in sorted(FORMATTERS.items()):
        tool = os.path.join(ctx.tmp, 'clang-format-' + fname)
        with open(tool, 'w') as f:
            f.write('#!/venv/bin/python\n' + src)
        os.chmod(tool, 0o755)
        for arg in ('regular', 'final'):
            for bits in itertools.product((False, True), repeat=3):
                path = os.path.join(ctx.tmp, 'indent.c')
                with open(path, 'w') as f:
                    f.write('int  a;  int\tb;\n')
                p = IndentPass(arg, {'clang-format': tool})
                state, calls = p.new(path, None), 0
                while state is not None and calls < 12:
                    cand = os.path.join(ctx.tmp, 'indent-cand.c')
                    shutil.copy(path, cand)
                    before = open(cand).read()
                    res, st2 = p.transform(cand, state, ProcessEventNotifier(None))
                    calls += 1
                    if res != PassResult.OK:
                        trans.append((state != 0, state, bits[min(calls - 1, 2)], None, res.name))
                        break
                    accepted = bits[min(calls - 1, 2)]
                    if accepted:
                        shutil.copy(cand, path)
                        nxt = p.advance_on_success(cand, st2)
                    else:
                        nxt = p.advance(path, state)
                    trans.append((open(cand).read() != before, state, accepted, nxt, res.name))
                    state = nxt
                ctx.evaluations += 1
                ctx.count(f'indent:{fname}')
                if calls > 1:
                    ctx.nontriv(('indent', fname, arg, bits))
                if calls > 2:
                    ctx.violation('indent-does-not-terminate', f'indent::{arg} with a formatter that is {fname} and verdicts {list(bits)}: {calls} transform calls '
                                  f'(still going) - the proved bound is 2', {'mode': 'indent', 'formatter': fname, 'arg': arg, 'bits': list(bits)})
    cases = []
    for ch, c, b, nxt, resn in trans:
        if resn == 'OK':
            cases.append((f'(true, {c}, {coq.blit(b)})', [1, nxt] if nxt is not None else [-1]))
        else:
            # the pass ended (STOP / ERROR): the model ends when the cursor is not 0 or the formatter changed nothing
            cases.append((f'({coq.blit(ch)}, {c}, {coq.blit(b)})', [-1]))
    bad = coq.corr_eval('c03indent', ['From CV Require Import Passes.Termination Passes.TermCorr.'], 'indent_case', cases)
    ctx.corr_cases += len(cases)
    ctx.corr_disagree += len(bad)
    for i in bad[:5]:
        ctx.broke('correspondence', 'indent_step vs IndentPass', f'{cases[i]}')


def explore(ctx):
    rnd = random.Random(ctx.seed + 3)
    from cvise.passes.peep import PeepPass
    lims = {'a': len(PeepPass.regexes_to_replace), 'b': len(PeepPass.delimited_regexes_to_replace), 'c': 1}
    table = pass_table()
    small, ex, rn = texts_for(ctx, rnd)
    cases = {}
    max_paths = 24 if ctx.quick() else 200
    for entry in table:
        kind, name, arg, cls = entry
        lim = lims.get(arg, 0) if kind == 'peep' else 0
        tl = list(small)
        # peep walks every (position, rule) pair: keep its texts short
        spawns = name == 'lines' and arg != 'None'      # one process per new()
        if ctx.quick():
            cap, nr, mp = (4, 3, 3) if kind == 'peep' else (5, 4, 6) if spawns else (34, 25, max_paths)
        else:
            cap, nr, mp = (40, 30, 8) if kind == 'peep' else (60, 40, 24) if spawns else (250, 150, 60)
        tl += rnd.sample(ex, min(cap, len(ex)))
        tl += rn[:nr]
        nk = (5 if kind == 'peep' else 8 if spawns else 120) if ctx.quick() else (40 if kind == 'peep' else 60 if spawns else 600)
        tl += [gen_kind_text(rnd, kind, 5 if kind == 'peep' else 10) for _ in range(nk)]
        if spawns and ctx.quick():
            tl = tl[::3]
        import time
        t_ent = time.time()
        for text in tl:
            long_ok = arg == 'b' and text.startswith(' class a ; class b')
            if kind == 'peep' and len(text) > (30 if not ctx.quick() else 16 if arg != 'b' else 9) and not long_ok:
                continue
            explore_pass(ctx, entry, text, cases, lim, rnd, mp)
        ctx.extra.setdefault('seconds_per_pass', {})[f'{name}::{arg}'] = round(time.time() - t_ent, 1)
    # evaluate the Coq-side checkers on the observed transitions
    b = lambda v: 'true' if v else 'false'
    for kind, fn in (('pos', 'pos_case'), ('list', 'list_case'), ('peep', 'peep_case'), ('counter', 'counter_case')):
        items = list(cases.get(kind, {}).items())
        terms = []
        for (lim, c, acc, c2), _w in items:
            t = f'({ct(kind, c)},{b(acc)},{ct(kind, c2)})'
            if kind == 'peep':
                t = f'({lim},{ct(kind, c)},{b(acc)},{ct(kind, c2)})'
            terms.append((t, [1]))
        if not terms:
            continue
        bad = coq.corr_eval('c03' + kind, IMPORTS, fn, terms, shard=400)
        ctx.corr_cases += len(terms)
        ctx.corr_disagree += len(bad)
        ctx.count(f'transitions:{kind}', len(terms))
        for i in bad[:5]:
            (lim, c, acc, c2), (name, arg, text, script) = items[i]
            ctx.violation(f'step:{name}::{arg}', f'{name}::{arg} on {text!r}: transition {c} --{"accept" if acc else "reject"}--> {c2} breaks the termination hypothesis ({fn})',
                          {'pass': name, 'arg': arg, 'text': text, 'script': script, 'default': 'False'})
    # includes: model step and model run
    items = list(cases.get('includes', {}).items())
    terms = [(f'({c[0]},{c[1]},{b(acc)})', [c2[0], c2[1]]) for (_l, c, acc, c2), _w in items]
    if terms:
        bad = coq.corr_eval('c03inc', IMPORTS, 'includes_case', terms, shard=400)
        ctx.corr_cases += len(terms)
        ctx.corr_disagree += len(bad)
        for i in bad[:5]:
            ctx.broke('correspondence', 'includes_step vs IncludesPass', f'{items[i]}')
    items = list(cases.get('incrun', {}).items())
    terms = [(f'({n}, {"[" + ";".join(b(v) for v in vs) + "]" if vs else "(@nil bool)"})', [cnt]) for (n, vs), (cnt, *_r) in items]
    if terms:
        bad = coq.corr_eval('c03incrun', IMPORTS, 'includes_run', terms, shard=400)
        ctx.corr_cases += len(terms)
        ctx.corr_disagree += len(bad)
        for i in bad[:5]:
            ctx.broke('correspondence', 'includes model run vs IncludesPass run', f'{items[i]}')
    run_main_loop(ctx, rnd)
    run_growth_guard(ctx, rnd)
    run_giveup(ctx, rnd)
    run_stop_passes(ctx, rnd)
    run_unchanged_and_multifile(ctx, rnd)
    run_indent(ctx, rnd)
    ctx.sample({'passes': len(table), 'texts_per_pass': len(small) + len(rn), 'exhaustive_texts': len(ex)})


def replay(ctx, payload):
    r = payload['replay']
    if r.get('mode') == 'stop-pass':
        run_stop_passes(ctx, random.Random(1))
        return
    if r.get('mode') == 'indent':
        run_indent(ctx, random.Random(1))
        return
    if 'scenario' in r and r.get('mode') == 'growth':
        run_growth_guard(ctx, random.Random(1))
        return
    if 'scenario' in r:
        o = driver.run_scenario(r['scenario'], ctx.tmp, mode=r['mode'])
        print('replay: output', o.out)
        if r['mode'] == 'reduce' and o.code == 0:
            check_iterations(ctx, r['scenario'], o)
        return
    table = {(n, a): e for e in pass_table() for (_k, n, a, _c) in [e]}
    entry = table[(r['pass'], r['arg'])]
    from cvise.passes.peep import PeepPass
    lims = {'a': len(PeepPass.regexes_to_replace), 'b': len(PeepPass.delimited_regexes_to_replace), 'c': 1}
    lim = lims.get(r['arg'], 0) if entry[0] == 'peep' else 0
    cases = {}
    try:
        run = one_run(ctx, entry, r['text'], r['script'], r['default'] == 'True', random.Random(0), lim)
    except Hang:
        print('replay: HANG')
        ctx.violation('hang', 'replayed run hangs', r)
        return
    print('replay:', run.n, 'transform calls; configs', run.configs[:30], 'verdicts', run.asked[:30], 'bound', bound(entry[0], run.configs[0] if run.configs else None, lim))


LEVEL_TEXT = ('Machine-checked: any cursor system with a strictly decreasing measure proposes at most measure+1 candidates under EVERY verdict '
              'sequence (run_terminates); instantiated for position cursors (balanced, ternary: 2*len-pos), recomputed modification lists '
              '(ints, special: potential), peephole (position, rule) cursors (peep::a, peep::c; every peep::a rule is proved to shrink '
              'its match from the regenerated rule table), counters over shrinking text (blank, comments), the includes counter (exact '
              'model), the formatter pass (indent: exact model, at most two transform calls for any formatter), binary search ((n+1)(n+2), reduce_total); the main loop of the driver model performs at most size+1 iterations for '
              'any pass list and its result is independent of the fuel; a round without success ends after GIVEUP+N+1 candidates. The step '
              'hypotheses are evaluated inside Coq on every transition observed on the real pass objects across verdict trees; the main '
              'loop model is tied to CVise.reduce by the shim-driven correspondence.')
LEVEL_NOTE = ('Partial for peep::b: three of its 109 rules do not shrink their match (theorem C03_peep_b_rules_shrink_partial names them); its '
              'termination is only bounded by the harness. Step hypotheses of the real passes are checked on observed transitions, not proved '
              '(regular expressions are CPython\'s). Trusted: Coq kernel, abstraction functions, shim.')
TECHNIQUE = 'Rocq proof (well-founded measure per cursor family, main-loop fuel independence) + Coq-evaluated transition checkers on real pass runs + shim-driven correspondence'
