"""C10  The pass cache is transparent."""
import random

from vlib import driver, scengen
from props.common_driver import correspond, TRUSTED as T0

GENERATORS = []
COQ_TARGETS = ['Driver/Script.vo']
RULE = ('paired runs of the REAL CVise.reduce on identical inputs, cache on vs --no-cache, with pass groups that revisit '
        'contents (the same pass several times in a group, multi-round main loops, growing then undoing passes), 1-3 files, '
        'different N and different schedules for the two runs; contract-respecting scripted passes and deterministic tests; '
        'oracle: identical final bytes and exit; every run is also compared with the Coq model; non-trivial = distinct '
        'scenarios in which the cache was actually hit (the logging hook counts "cache hit" messages)'
        ' Also: contents of equal length and equal CRC-32 (the key must identify the contents).')
TRUSTED = T0
ASSUMPTIONS = ['deterministic test and passes; passes satisfy the C02 contract (the transparency theorem needs schedule independence)',
               'repr(pass) separates passes that can behave differently (key_injective hypothesis of the theorem)']


def gen(rnd):
    sc = scengen.gen_group(rnd, 'contract')
    g = sc['group']
    main = g['main']
    # make revisits likely: repeat passes, add a grow/undo pair
    if rnd.random() < 0.6:
        main.append(dict(rnd.choice(main)))
    if rnd.random() < 0.4:
        ch = rnd.choice('abcxyz')
        main.append({'key': 7, 'ops': [('dup', 0)], 'aos': 1, 'maxt': None, 'newfix': None})
        main.append({'key': 8, 'ops': [('del', 0)], 'aos': 1, 'maxt': None, 'newfix': None})
    sc['cfg']['no_cache'] = False
    return sc


class HitCounter:
    def __init__(self):
        self.hits = 0


def run_pair(ctx, sc, rnd, mode='reduce'):
    import logging
    hc = HitCounter()

    class H(logging.Handler):
        def emit(self, record):
            if 'cache hit' in record.getMessage():
                hc.hits += 1

    on = dict(sc)
    on['cfg'] = dict(sc['cfg'], no_cache=False)
    off = dict(sc)
    off['cfg'] = dict(sc['cfg'], no_cache=True, N=rnd.choice([1, 2, 3, 5]))
    off['sched'] = [rnd.randint(0, 7) for _ in range(50)]
    # count cache hits through cvise's own logging (the shim silences output, not handlers)
    h = H()
    logging.getLogger().addHandler(h)
    old = logging.getLogger().level
    try:
        o1 = driver.run_scenario(on, ctx.tmp, mode=mode, quiet_logging=False)
    finally:
        logging.getLogger().removeHandler(h)
    o2 = driver.run_scenario(off, ctx.tmp, mode=mode)
    return on, off, o1, o2, hc.hits


def sc_bug0(sc):
    return sc.get('bug0', 0)


def sc_extra0(sc):
    return sc.get('extra0', 0)


def oracle(ctx, on, off, o1, o2, mode='reduce'):
    if o1.diverged or o2.diverged:
        return
    if mode == 'reduce':
        clean = lambda o: o.code == 0 and not any(x.startswith('cvise_bug') or x.startswith('cvise_extra') for x in o.after)
        fin = lambda o: o.final
    else:
        # pass by pass: the first point where the files differ while both runs still respect the contract
        for p1, p2 in zip(o1.passes, o2.passes):
            if not all(p['code'] == 0 and p['bug'] == sc_bug0(on) and p['extra'] == sc_extra0(on) for p in (p1, p2)):
                return
            d1 = [p1['disk'][o1.order.index(n)] for n in o1.names]
            d2 = [p2['disk'][o2.order.index(n)] for n in o2.names]
            if d1 != d2:
                ctx.violation('cache-changes-result', f'after {p1["pass_"]}: cache on gives {d1}, --no-cache gives {d2}', {'on': on, 'off': off, 'mode': mode})
                return
        return
    if not (clean(o1) and clean(o2)):
        return   # a contract breach (unchanged OK etc.) — transparency is only claimed under the contract
    f1 = [fin(o1)[o1.order.index(n)] for n in o1.names]
    f2 = [fin(o2)[o2.order.index(n)] for n in o2.names]
    if f1 != f2:
        ctx.violation('cache-changes-result', f'cache on ends on {f1}, --no-cache ends on {f2}', {'on': on, 'off': off, 'mode': mode})


def explore(ctx):
    rnd = random.Random(ctx.seed + 10)
    red = []
    n = 70 if ctx.quick() else 800
    for it in range(n):
        sc = gen(rnd)
        if it % 3 == 0:
            sc['files'] = sc['files'][:1]
            sc['rules'] = [([a for a in atoms if a[1] == 0], out) for atoms, out in sc['rules']]
        on, off, o1, o2, hits = run_pair(ctx, sc, rnd)
        ctx.evaluations += 2
        if o1.diverged or o2.diverged:
            ctx.count('diverged')
            continue
        oracle(ctx, on, off, o1, o2)
        red.append((driver.coq_scenario(on, o1.perm, 'reduce'), o1.out, on))
        red.append((driver.coq_scenario(off, o2.perm, 'reduce'), o2.out, off))
        ctx.count(f'k={len(sc["files"])}:hits={"0" if hits == 0 else "1+" }')
        if hits:
            ctx.nontriv(repr((sc['files'], sc['group'], sc['rules'])))
    each = []
    for it in range(n):
        sc = scengen.gen_revisit(rnd, k=1 if it % 2 else None)
        on, off, o1, o2, hits = run_pair(ctx, sc, rnd, mode='each')
        ctx.evaluations += 2
        if o1.diverged or o2.diverged:
            ctx.count('diverged')
            continue
        oracle(ctx, on, off, o1, o2, mode='each')
        each.append((driver.coq_scenario(on, o1.perm), o1.out, on))
        each.append((driver.coq_scenario(off, o2.perm), o2.out, off))
        ctx.count(f'revisit:k={len(sc["files"])}:hits={"0" if hits == 0 else "1+"}')
        if hits:
            ctx.nontriv(repr((sc['files'], sc['passes'], sc['rules'])))
    # oracle-only sweep: sequential pairs (N = 1, empty schedule) differ in nothing but the cache switch
    for it in range(250 if ctx.quick() else 3000):
        sc = scengen.gen_revisit(rnd, k=rnd.choice([1, 1, 2]), alphabet=rnd.choice(['ab', 'abc']))
        sc['cfg']['N'] = 1
        sc['sched'] = []
        on = dict(sc, cfg=dict(sc['cfg'], no_cache=False))
        off = dict(sc, cfg=dict(sc['cfg'], no_cache=True))
        o1 = driver.run_scenario(on, ctx.tmp)
        o2 = driver.run_scenario(off, ctx.tmp)
        ctx.evaluations += 2
        ctx.count('sequential-pairs')
        oracle(ctx, on, off, o1, o2, mode='each')
    # contents that a checksum cannot tell apart: equal length, equal CRC-32, equal sum of bytes (Adler-32 differs)
    # - the key must identify the CONTENTS.  P = delete the first 'p'; then the file is replaced; then P again.
    for a, b in (('plumless', 'buckeroo'), ('xplumless;', 'xbuckeroo;')):
        sc = {'files': [('f0.c', a)], 'rules': [([], 0)],
              'passes': [{'key': 1, 'ops': [('delch', 'p')], 'aos': 1, 'maxt': None, 'newfix': None},
                         {'key': 2, 'ops': [('set', b)], 'aos': 1, 'maxt': None, 'newfix': None},
                         {'key': 1, 'ops': [('delch', 'p')], 'aos': 1, 'maxt': None, 'newfix': None},
                         {'key': 2, 'ops': [('set', a)], 'aos': 1, 'maxt': None, 'newfix': None},
                         {'key': 1, 'ops': [('delch', 'p')], 'aos': 1, 'maxt': None, 'newfix': None}],
              'cfg': {'N': 1, 'no_cache': False}, 'sched': []}
        # the first P must see `a` again later: undo its deletion by the set pass, as above
        on = dict(sc, cfg=dict(sc['cfg'], no_cache=False))
        off = dict(sc, cfg=dict(sc['cfg'], no_cache=True))
        o1 = driver.run_scenario(on, ctx.tmp)
        o2 = driver.run_scenario(off, ctx.tmp)
        ctx.evaluations += 2
        ctx.count('checksum-colliding-contents')
        oracle(ctx, on, off, o1, o2, mode='each')
    # a replay under --max-improvement: the pass shrinks the file in steps that each respect the limit but together exceed
    # it; the contents come back (a pass that undoes the reduction) and meet the same pass again
    for maximp in (1, 2, 3):
        for nn in (1, 3):
            for body in ('aaaab', 'xaayaaz'):
                sc = {'files': [('f0.c', body)], 'rules': [([], 0)],
                      'passes': [{'key': 1, 'ops': [('delch', 'a')], 'aos': 0, 'maxt': None, 'newfix': None},
                                 {'key': 2, 'ops': [('set', body)], 'aos': 1, 'maxt': None, 'newfix': None},
                                 {'key': 1, 'ops': [('delch', 'a')], 'aos': 0, 'maxt': None, 'newfix': None}],
                      'cfg': {'N': nn, 'no_cache': False, 'maximp': maximp}, 'sched': [0] * 40}
                on = dict(sc, cfg=dict(sc['cfg'], no_cache=False))
                off = dict(sc, cfg=dict(sc['cfg'], no_cache=True))
                o1 = driver.run_scenario(on, ctx.tmp)
                o2 = driver.run_scenario(off, ctx.tmp)
                ctx.evaluations += 2
                ctx.count('replay-under-max-improvement')
                oracle(ctx, on, off, o1, o2, mode='each')
                if not (o1.diverged or o2.diverged):
                    each.append((driver.coq_scenario(on, o1.perm), o1.out, on))
    # a pass whose new() rewrites the file (as the lines pass does when it reformats) and whose candidates are then all
    # rejected: what is remembered for the replay is the file as the pass LEFT it
    for nn in (1, 2):
        for body, fix in (('abc', 'ab'), ('a b c', 'abc')):
            sc = {'files': [('f0.c', body)], 'rules': [([('has', 0, 'a'), ('has', 0, 'b')], 0)],
                  'passes': [{'key': 1, 'ops': [('delch', 'a'), ('delch', 'b')], 'aos': 0, 'maxt': None, 'newfix': fix},
                             {'key': 2, 'ops': [('set', body)], 'aos': 1, 'maxt': None, 'newfix': None},
                             {'key': 1, 'ops': [('delch', 'a'), ('delch', 'b')], 'aos': 0, 'maxt': None, 'newfix': fix}],
                  'cfg': {'N': nn, 'no_cache': False}, 'sched': [1] * 30}
            on = dict(sc, cfg=dict(sc['cfg'], no_cache=False))
            off = dict(sc, cfg=dict(sc['cfg'], no_cache=True))
            o1 = driver.run_scenario(on, ctx.tmp)
            o2 = driver.run_scenario(off, ctx.tmp)
            ctx.evaluations += 2
            ctx.count('replay-after-rewrite-in-new-without-accept')
            oracle(ctx, on, off, o1, o2, mode='each')
            if not (o1.diverged or o2.diverged):
                each.append((driver.coq_scenario(on, o1.perm), o1.out, on))
    # hanging candidates: a replay pays no timeouts, a re-run pays them again - the limit is per round, so both end alike
    for nn in (1, 2):
        body = 'abc'
        P = {'key': 1, 'ops': [('delch', 'a'), ('delch', 'b'), ('delch', 'c')], 'aos': 0, 'maxt': None, 'newfix': None}
        G = {'key': 2, 'ops': [('set', body)], 'aos': 1, 'maxt': None, 'newfix': None}
        sc = {'files': [('f0.c', body)], 'rules': [([('nothas', 0, 'a')], 'timeout'), ([('nothas', 0, 'b')], 'timeout'), ([], 0)],
              'passes': [dict(P), dict(G), dict(P), dict(G), dict(P)],
              'cfg': {'N': nn, 'no_cache': False, 'maxto': 3}, 'sched': [1] * 60}
        on = dict(sc, cfg=dict(sc['cfg'], no_cache=False))
        off = dict(sc, cfg=dict(sc['cfg'], no_cache=True))
        o1 = driver.run_scenario(on, ctx.tmp)
        o2 = driver.run_scenario(off, ctx.tmp)
        ctx.evaluations += 2
        ctx.count('replay-with-hanging-candidates')
        oracle(ctx, on, off, o1, o2, mode='each')
        if not (o1.diverged or o2.diverged):
            each.append((driver.coq_scenario(off, o2.perm), o2.out, off))
    # bytes that a text-mode round trip would change (CR, CR LF, bytes that are not UTF-8, NUL): what a replay writes must be
    # byte for byte what the pass produced
    for body in ('a\r\nb\ra\r', 'a\xff\r\n\xe9a\x00z', '\r\na\n\ra'):
        sc = {'files': [('f0.c', body)], 'rules': [([('has', 0, '\r')], 0)],
              'passes': [{'key': 1, 'ops': [('delch', 'a')], 'aos': 0, 'maxt': None, 'newfix': None},
                         {'key': 2, 'ops': [('set', body)], 'aos': 1, 'maxt': None, 'newfix': None},
                         {'key': 1, 'ops': [('delch', 'a')], 'aos': 0, 'maxt': None, 'newfix': None}],
              'cfg': {'N': 1, 'no_cache': False}, 'sched': []}
        on = dict(sc, cfg=dict(sc['cfg'], no_cache=False))
        off = dict(sc, cfg=dict(sc['cfg'], no_cache=True))
        o1 = driver.run_scenario(on, ctx.tmp)
        o2 = driver.run_scenario(off, ctx.tmp)
        ctx.evaluations += 2
        ctx.count('replay-of-binary-contents')
        oracle(ctx, on, off, o1, o2, mode='each')
        if not (o1.diverged or o2.diverged):
            each.append((driver.coq_scenario(on, o1.perm), o1.out, on))
    ctx.sample({'scenario': {k: red[0][2][k] for k in ('files', 'group', 'rules', 'cfg')}, 'impl_output': red[0][1][:40]})
    correspond(ctx, 'c10', each, red)


def replay(ctx, payload):
    r = payload['replay']
    mode = r.get('mode', 'reduce')
    o1 = driver.run_scenario(r['on'], ctx.tmp, mode=mode)
    o2 = driver.run_scenario(r['off'], ctx.tmp, mode=mode)
    print('replay: on', o1.out[:12], 'off', o2.out[:12])
    oracle(ctx, r['on'], r['off'], o1, o2, mode=mode)


LEVEL_TEXT = ('Machine-checked refinement: the model of CVise.reduce/TestManager.run_pass (cache keyed on pass, file and joint '
              'contents) refines a specification with no cache, no schedule, no parallelism and no report-directory state; hence '
              'cache on and --no-cache end on the same files with the same exit for any N and any schedules (any number of '
              'files), under the C02 contract; plus replay soundness without any contract. The model is tied to the real driver '
              'each run and paired real runs (cache on / off, different N and schedules) are compared byte for byte.')
LEVEL_NOTE = 'Trusted: Coq kernel, driver model (validated each run), shim; key_injective: repr(pass) separates passes.'
TECHNIQUE = 'Rocq refinement proof to a cache-free, schedule-free specification + paired real runs + shim correspondence'
