"""C02  Parallel speculative reduction equals the sequential greedy reduction."""
import itertools
import random

from vlib import coq, driver, scengen
from vlib.scriptpass import apply_op, run_rules
from cvise.passes.abstract import PassResult

GENERATORS = []
COQ_TARGETS = ['Driver/Script.vo']
IMPORTS = ['From CV Require Import Base.Corr Driver.Round Driver.Outcome Driver.RunPass Driver.Script.']
RULE = ('scenario = (1-3 files, scripted passes, test rules, N, schedule stream); the REAL TestManager runs it under the '
        'scheduler shim; correspondence compares exit kind, worked/failed/executed, bug/extra dir counts, final files and '
        'the accepted sequence with the Coq model evaluated on the same scenario and schedule; the C02 oracle compares the '
        'accepted sequence and final files of contract-respecting scenarios across N in {1,2,3,5} x schedules (exhaustive '
        'streams over {0,1,2} up to a length bound for small rounds, random beyond) with an independent sequential reference; '
        'non-trivial = distinct scenario/schedule whose run accepts at least once and rejects at least once'
        " Also: directed scenarios (interesting / failing / interesting candidates) under ALL completion patterns up to a bound for N in {1,3,4}; a real-pool run where the earlier candidate's test is slow and a later one fast.")
TRUSTED = ['hand-written model coq/Driver/{Round,Outcome,RunPass,Script}.v tied to cvise/utils/testing.py by this correspondence run',
           'scheduler shim tools/vlib/shim.py (fake pebble pool / wait / Manager; assumes futures behave as concurrent.futures documents)']
ASSUMPTIONS = ['deterministic interestingness test (a function of the joint contents)',
               'contract: no ACCEPT-class candidate after a STOP/ERROR/unaltered/timeout/give-up candidate in one enumeration',
               'run_pass/reduce-level schedule independence is proved for the per-file loop (rounds); the lifting over files and passes is structural and is exercised by the correspondence runs']


def seq_reference(sc, order, flags=None):
    """Independent textbook loop over in-memory contents: one candidate at a time.
    order: file names in the manager's iteration order (ties of the size sort).
    flags['unaltered'] is set when some op of the pass leaves some content the loop reaches unchanged (such a candidate may be
    reported as a pass bug by a speculative test even when the loop itself never looks at it)."""
    names = [n for n, _ in sc['files']]
    disk = {n: c.encode('latin-1') for n, c in sc['files']}
    rules = [([tuple(a) for a in atoms], out) for atoms, out in sc['rules']]
    accepted = []

    def joint():
        return [disk[n] for n in names]

    for p in sc['passes']:
        ops = [tuple(o) for o in p['ops']]
        if sum(len(v) for v in disk.values()) == 0:
            break
        for n in sorted(order, key=lambda n: len(disk[n]), reverse=True):
            if len(disk[n]) == 0 or not ops:
                continue
            start = len(disk[n])
            state = 0
            while state is not None:
                if flags is not None and any(apply_op(o, disk[n]) == disk[n] for o in ops):
                    flags['unaltered'] = True
                # one round: enumerate from state until the first acceptable candidate
                win = None
                s = state
                while s is not None:
                    r = apply_op(ops[s], disk[n])
                    if r == PassResult.STOP:
                        break
                    if not isinstance(r, PassResult) and r != disk[n]:
                        trial = dict(disk)
                        trial[n] = r
                        if run_rules(rules, [trial[m] for m in names]) == 0:
                            win = (s, r)
                            break
                    s = s + 1 if s + 1 < len(ops) else None
                if win is None:
                    break
                s, r = win
                disk[n] = r
                accepted.append(joint())
                if len(r) >= 3 * start:
                    break
                state = s if p.get('aos', 0) == 0 else (s + 1 if s + 1 < len(ops) else None) if p['aos'] == 1 else 0
                if len(accepted) > 200:
                    return None
    return joint(), accepted


def contract_ok(o):
    """The run met the contract as observed: no bug reports, no timeouts, no ERROR/raise."""
    return all(p['code'] == 0 and p['bug'] == 0 and p['extra'] == 0 for p in o.passes)


def explore(ctx):
    rnd = random.Random(ctx.seed)
    cases = []
    nscen = 120 if ctx.quick() else 900
    # 1. random scenarios: correspondence + schedule-independence oracle
    for it in range(nscen):
        profile = 'contract' if it % 4 else 'faults'
        sc = scengen.gen_scenario(rnd, profile)
        runs = []
        variants = [(sc['cfg']['N'], sc['sched'])]
        if profile == 'contract':
            variants += [(1, []), (rnd.choice([2, 3, 5]), [rnd.randint(0, 7) for _ in range(40)])]
        for (n, sch) in variants:
            sc2 = dict(sc)
            sc2['cfg'] = dict(sc['cfg'], N=n)
            sc2['sched'] = sch
            o = driver.run_scenario(sc2, ctx.tmp)
            ctx.evaluations += 1
            if o.diverged:
                ctx.count('diverged')
                continue
            runs.append((sc2, o))
            cases.append((driver.coq_scenario(sc2, o.perm), o.out, sc2))
            acc = sum(p['worked'] for p in o.passes)
            rej = sum(p['failed'] for p in o.passes)
            ctx.count(f'{profile}:k={len(sc["files"])}:N={n}')
            if acc and rej:
                ctx.nontriv(repr((sc2['files'], sc2['passes'], sc2['rules'], n, sch)))
        if profile == 'contract' and runs and all(contract_ok(o) for _, o in runs):
            check_indep(ctx, sc, runs)
        elif profile == 'contract' and runs:
            # the observed runs reported a pass bug / an error.  Whether that is legitimate is decided WITHOUT the real driver: when no
            # op of any pass leaves any content reached by the textbook loop unchanged (and the profile has no ERROR / raising op, no
            # limits), nothing can be reported, every run must have ended cleanly, and the textbook comparison applies all the same
            fl = {}
            if seq_reference(runs[0][0], runs[0][1].order, fl) is not None and not fl.get('unaltered'):
                ctx.count('contract:decided-by-textbook-loop')
                bad_run = next(((sc2, o) for sc2, o in runs if any(p['bug'] != 0 for p in o.passes)), None)
                if bad_run is None:
                    continue
                ctx.violation('differs-from-sequential', f'N={bad_run[0]["cfg"]["N"]}: the run reported a pass bug / error exit (bug={[p["bug"] for p in bad_run[1].passes]}, '
                              f'code={[p["code"] for p in bad_run[1].passes]}) although no candidate of this scenario is unaltered, invalid input or an error: '
                              f'the textbook loop reports nothing', {'scenario': bad_run[0]})
                check_indep(ctx, sc, runs)
    # 2. exhaustive schedules for small single-pass rounds
    nex = 6 if ctx.quick() else 30
    slen = 5 if ctx.quick() else 7
    for it in range(nex):
        sc = scengen.gen_scenario(rnd, 'contract', k=rnd.choice([1, 2]), npasses=1, maxops=4)
        runs = []
        for n in (1, 2, 3):
            for sch in itertools.product((0, 1, 2), repeat=slen):
                sc2 = dict(sc)
                sc2['cfg'] = dict(sc['cfg'], N=n)
                sc2['sched'] = list(sch)
                o = driver.run_scenario(sc2, ctx.tmp)
                ctx.evaluations += 1
                if o.diverged:
                    break
                runs.append((sc2, o))
                if rnd.random() < 0.02:
                    cases.append((driver.coq_scenario(sc2, o.perm), o.out, sc2))
        ctx.count('exhaustive-schedule-sets')
        if runs and all(contract_ok(o) for _, o in runs):
            check_indep(ctx, sc, runs)
    # 3. directed: an interesting candidate, a failing one, another interesting one; every completion pattern
    directed = [
        {'files': [('f0.c', 'abcd')], 'rules': [([('nothas', 0, 'b')], 1), ([], 0)],
         'passes': [{'key': 1, 'ops': [('delch', 'a'), ('delch', 'b'), ('delch', 'c'), ('delch', 'd')], 'aos': 0, 'maxt': None, 'newfix': None}]},
        {'files': [('f0.c', 'abcde')], 'rules': [([('nothas', 0, 'b')], 3), ([('nothas', 0, 'c')], 1), ([], 0)],
         'passes': [{'key': 1, 'ops': [('delch', 'a'), ('inval',), ('delch', 'b'), ('delch', 'c'), ('delch', 'd'), ('delch', 'e')], 'aos': 1, 'maxt': None, 'newfix': None}]},
    ]
    dlen = 8 if ctx.quick() else 11
    for sc in directed:
        runs = []
        for n in (1, 3, 4):
            for sch in itertools.product((0, 1), repeat=dlen if n > 1 else 1):
                sc2 = dict(sc, cfg={'N': n, 'no_cache': True}, sched=list(sch))
                o = driver.run_scenario(sc2, ctx.tmp)
                ctx.evaluations += 1
                if o.diverged:
                    break
                runs.append((sc2, o))
        ctx.count('directed-schedule-sets')
        if runs and all(contract_ok(o) for _, o in runs):
            check_indep(ctx, dict(sc, cfg={'N': 1}), runs)
    # 4. real processes: the earlier candidate is interesting but its test is slow, a later one is interesting at once
    from vlib import realrun
    for n in ((2,) if ctx.quick() else (2, 3, 4)):
        rsc = {'files': [('f0.c', 'abcd')], 'timeout': 9, 'slow_s': 2.7,      # (well inside the timeout, longer than any "grace period")
               'rules': [([('nothas', 0, 'a'), ('has', 0, 'b')], 'slow0'), ([('has', 0, 'a'), ('nothas', 0, 'b')], 0), ([('has', 0, 'a'), ('has', 0, 'b')], 0)],
               'passes': [{'key': 1, 'ops': [('delch', 'a'), ('delch', 'b'), ('delch', 'c'), ('delch', 'd')], 'aos': 0}], 'cfg': {'N': n}}
        o = realrun.run_real(rsc, ctx.tmp, timeout=rsc['timeout'])
        ctx.evaluations += 1
        ctx.count('real-pool:slow-earlier-candidate')
        final = [c.decode('latin-1') for c in o.passes[-1]['disk']]
        if final != ['b']:
            ctx.violation('differs-from-sequential', f'real pool N={n}: deleting "a" is interesting (slow test), deleting "b" as well (fast test), both is not: the run ended on {final}, '
                          f'the one-at-a-time loop ends on ["b"]', {'scenario': rsc, 'real': True})
        else:
            ctx.nontriv(('real-slow-earlier', n))
    ctx.sample({'scenario': {k: cases[0][2][k] for k in ('files', 'passes', 'rules', 'cfg', 'sched')}, 'impl_output': cases[0][1][:40]})
    bad = coq.corr_eval('c02', IMPORTS, 'sc_run_each', [(a, b) for a, b, _ in cases], shard=150)
    ctx.count('model-out-of-fuel(undecided)', len(coq.LAST_FUEL))
    ctx.corr_cases += len(cases)
    ctx.corr_disagree += len(bad)
    for b in bad[:5]:
        ctx.broke('correspondence', 'Driver model vs TestManager.run_pass', f'scenario {cases[b][2]} impl output {cases[b][1]}')


def check_indep(ctx, sc, runs):
    base_sc, base = runs[0]
    ref = seq_reference(base_sc, base.order)
    sig = lambda o: (o.passes[-1]['disk'], [d for p in o.passes for d in p['acc']])
    for sc2, o in runs:
        if sig(o) != sig(base):
            ctx.violation('sched-dependence', f'accepted sequence / final files differ between N={base_sc["cfg"]["N"]} sched={base_sc["sched"]} and N={sc2["cfg"]["N"]} sched={sc2["sched"]}',
                          {'scenario': sc2, 'against': {'N': base_sc['cfg']['N'], 'sched': base_sc['sched']}})
            return
    if ref is not None:
        names = [n for n, _ in sc['files']]
        final = [base.passes[-1]['disk'][base.order.index(n)] for n in names]
        acc = [[d[base.order.index(n)] for n in names] for p in base.passes for d in p['acc']]
        if (final, acc) != (ref[0], ref[1]):
            ctx.violation('differs-from-sequential', f'parallel run accepted {acc} final {final}; textbook loop accepted {ref[1]} final {ref[0]}',
                          {'scenario': base_sc})


def replay(ctx, payload):
    r = payload['replay']
    sc = r['scenario']
    if r.get('real'):
        from vlib import realrun
        o = realrun.run_real(sc, ctx.tmp, timeout=sc['timeout'])
        final = [c.decode('latin-1') for c in o.passes[-1]['disk']]
        print('replay: final', final)
        if final != ['b']:
            ctx.violation('differs-from-sequential', f'final {final}', r)
        return
    o = driver.run_scenario(sc, ctx.tmp)
    runs = [(sc, o)]
    if 'against' in r:
        sc2 = dict(sc)
        sc2['cfg'] = dict(sc['cfg'], N=r['against']['N'])
        sc2['sched'] = r['against']['sched']
        runs.append((sc2, driver.run_scenario(sc2, ctx.tmp)))
    print('replay:', [(x.passes[-1]['disk'], sum(p['worked'] for p in x.passes)) for _, x in runs])
    fl = {}
    if seq_reference(sc, o.order, fl) is not None and not fl.get('unaltered') and any(p['bug'] != 0 for p in o.passes) and not sc['cfg'].get('die'):
        ctx.violation('differs-from-sequential', f'the run reported a pass bug (bug={[p["bug"] for p in o.passes]}) although no candidate of this scenario is unaltered', r)
    check_indep(ctx, sc, runs)


LEVEL_TEXT = ('Machine-checked theorems: for every N, every schedule stream and every side state the model of '
              'run_parallel_tests/process_done_futures/wait_for_first_success returns the first ACCEPT-class candidate, i.e. '
              'what the sequential loop returns, under the stated contract (proved generically and for the model of '
              'check_pass_result); lifted to the per-file loop of run_pass (accepted sequence, final contents). The model is '
              'tied to the real TestManager on every run through the scheduler shim (same schedule stream on both sides), and '
              'schedule independence is also checked directly on the real code against an independent sequential reference.')
LEVEL_NOTE = ('Trusted: Coq kernel; the hand-written driver model (validated every run); the shim replacing pebble/wait/Manager; '
              'deterministic test. Lifting from the per-file loop to run_pass over several files / reduce is exercised, not proved.')
TECHNIQUE = 'Rocq proof (invariant over the ordered futures list) + shim-driven correspondence with the real TestManager + differential oracle'
