import sys, os, json, tempfile, ast
sys.path.insert(0,'/verif/tools')
from vlib import driver, coq
base = tempfile.mkdtemp(dir='/verif/.work')
sc = ast.literal_eval(open(sys.argv[1]).read())
mode = sys.argv[2] if len(sys.argv)>2 else 'each'
o = driver.run_scenario(sc, base, mode=mode)
print('impl ', o.out)
for p in o.passes: print({k:v for k,v in p.items() if k in('pass_','code','exc','worked','failed','executed','bug','extra','leaked','futures')})
if hasattr(o,'exc'): print('exc', repr(o.exc))
t = driver.coq_scenario(sc, o.perm, mode)
fn = 'sc_run_each' if mode=='each' else 'sc_reduce'
r = coq.eval_terms('dbg', ['From CV Require Import Base.Corr Driver.Round Driver.Outcome Driver.RunPass Driver.Script.','From Coq Require Import List ZArith NArith.','Import ListNotations.'], [], [f'{fn} {t}'])
print('model', [int(x.replace('%Z','').strip('() ')) for x in r[0].strip('[]').split(';') if x.strip()])
