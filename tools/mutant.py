#!/usr/bin/env python3
"""Evaluate a seeded change: confirm it (stable tests still pass, its demo fails with it and passes
without it) in a scratch worktree, then apply it to /repo, run the given checks, undo it.
usage: tools/mutant.py <src_dir> <n> <name> <primary_prop> [other props...]"""
import json
import os
import re
import shutil
import subprocess
import sys
import time

src, n, name, props = os.path.abspath(sys.argv[1]), sys.argv[2], sys.argv[3], sys.argv[4:]
ROOT = os.path.dirname(os.path.dirname(os.path.abspath(__file__)))
patch = os.path.join(src, f'patch{n}.diff')
demo = next(os.path.join(src, f) for f in (f'demo{n}.py', f'demo{n}.sh') if os.path.exists(os.path.join(src, f)))
notes = os.path.join(src, f'notes{n}.md')
wt = f'/tmp/mutv-{name}'
meta = {'name': name, 'breaks': props[0], 'ran': []}


def sh(cmd, **kw):
    return subprocess.run(cmd, shell=True, capture_output=True, text=True, **kw)


sh(f'git -C /repo worktree remove --force {wt}')
r = sh(f'git -C /repo worktree add --detach {wt} HEAD')
assert r.returncode == 0, r.stderr
try:
    r = sh(f'git -C {wt} apply {patch}')
    meta['applies'] = r.returncode == 0
    if r.returncode != 0:
        print('patch does not apply:', r.stderr)
    else:
        t = sh(f'cd {wt} && /venv/bin/python -m pytest -q -p no:cacheprovider --timeout=900 --continue-on-collection-errors 2>&1 | tail -1')
        m = re.search(r'(\d+) passed', t.stdout)
        meta['stable_tests_passed_with_patch'] = int(m.group(1)) if m else 0
        runner = '/venv/bin/python' if demo.endswith('.py') else 'bash'
        env = dict(os.environ, REPO_UNDER_TEST=wt, PYTHONPATH=wt)
        d1 = subprocess.run(f'timeout 300 {runner} {demo}', shell=True, capture_output=True, text=True, env=env)
        meta['demo_exit_with_patch'] = d1.returncode
        sh(f'git -C {wt} checkout -- . && git -C {wt} clean -fdq')
        d0 = subprocess.run(f'timeout 300 {runner} {demo}', shell=True, capture_output=True, text=True, env=env)
        meta['demo_exit_without_patch'] = d0.returncode
        meta['demo_output_with_patch'] = (d1.stdout + d1.stderr)[-600:]
finally:
    sh(f'git -C /repo worktree remove --force {wt}')
confirmed = meta.get('applies') and meta.get('stable_tests_passed_with_patch', 0) >= 72 and meta.get('demo_exit_with_patch') not in (0, None) and meta.get('demo_exit_without_patch') == 0
meta['confirmed'] = bool(confirmed)
print(json.dumps({k: v for k, v in meta.items() if k != 'demo_output_with_patch'}))
if confirmed:
    REPO = os.environ.get('VERIF_REPO', '/repo')
    assert sh(f'git -C {REPO} status --porcelain --untracked-files=no').stdout.strip() == '', 'repo not clean'
    r = sh(f'git -C {REPO} apply {patch}')
    assert r.returncode == 0, r.stderr
    try:
        for p in props:
            t0 = time.time()
            c = sh(f'cd {ROOT} && timeout 2400 ./check {p} --tier quick')
            lines = [l for l in c.stdout.split('\n') if l.startswith(('VIOLATION', 'OK', 'KNOWN', '#'))]
            viol = [l for l in lines if l.startswith('VIOLATION')]
            res = {'check': p, 'exit': c.returncode, 'violation_lines': viol[:4], 'detail': [l for l in lines if l.startswith('#')][:3],
                   'with_failing_input': any('no-failing-input-found' not in v for v in viol), 'wall_s': round(time.time() - t0)}
            meta['ran'].append(res)
            print(json.dumps(res))
    finally:
        sh(f'git -C {REPO} checkout -- .')
    out = os.path.join(ROOT, 'seeded', name)
    os.makedirs(out, exist_ok=True)
    shutil.copy(patch, os.path.join(out, 'patch.diff'))
    shutil.copy(demo, os.path.join(out, os.path.basename(demo).replace(n, '', 1) if False else ('demo' + os.path.splitext(demo)[1])))
    meta['needs'] = open(notes).read() if os.path.exists(notes) else ''
    meta['what_i_ran'] = f'scratch worktree: git apply patch.diff; stable pytest suite; demo with and without the patch. /repo: git apply patch.diff; ./check <prop> --tier quick for {props}; git checkout -- .'
    json.dump(meta, open(os.path.join(out, 'meta.json'), 'w'), indent=1)
