"""Stand-in for flex (not installed) and translator of clex/clex.l.

Parses the lex subset clex.l uses (definitions, "strings", [classes], {NAME}, ., \\x escapes, ( ) | * + ?,
%option noyywrap, %{ %} blocks, one action per rule), fail-closed on anything else, and produces
  * coq/Gen/ClexRules.v : the rule list as Coq regular expressions with the action class of each rule;
  * a C scanner (DFA tables built here by Thompson + subset construction; longest match, first rule
    wins, unmatched byte echoed) that provides yyin / yytext / yylex() / input() and embeds the
    action code and user code of clex.l VERBATIM, to be compiled with the real clex/driver.c.
The DFA construction here and the derivative-based matcher in coq/Clex/Regex.v are independent
implementations of the same rule list; the C18 harness compares them on every run."""
import os
import re

from gen._util import REPO, TranslatorError, coq_list, write_if_changed

ESC = {'n': 10, 't': 9, 'v': 11, 'f': 12, 'r': 13, 'a': 7, 'b': 8, '0': 0}


class P:
    def __init__(self, s, defs):
        self.s, self.i, self.defs = s, 0, defs

    def peek(self):
        return self.s[self.i] if self.i < len(self.s) else None

    def alt(self):
        a = self.seq()
        while self.peek() == '|':
            self.i += 1
            a = ('alt', a, self.seq())
        return a

    def seq(self):
        items = []
        while self.peek() is not None and self.peek() not in '|)':
            items.append(self.post())
        if not items:
            return ('eps',)
        out = items[0]
        for x in items[1:]:
            out = ('seq', out, x)
        return out

    def post(self):
        a = self.atom()
        while self.peek() in ('*', '+', '?'):
            c = self.peek()
            self.i += 1
            if c == '*':
                a = ('star', a)
            elif c == '+':
                a = ('seq', a, ('star', a))
            else:
                a = ('alt', a, ('eps',))
        return a

    def esc(self):
        c = self.peek()
        if c is None:
            raise TranslatorError('dangling backslash in ' + self.s)
        self.i += 1
        if c in ESC:
            return ESC[c]
        if c.isalnum():
            raise TranslatorError(f'unsupported escape \\{c} in {self.s}')
        return ord(c)

    def atom(self):
        c = self.peek()
        self.i += 1
        if c == '(':
            a = self.alt()
            if self.peek() != ')':
                raise TranslatorError('unbalanced ( in ' + self.s)
            self.i += 1
            return a
        if c == '"':
            out = ('eps',)
            first = True
            while True:
                d = self.peek()
                if d is None:
                    raise TranslatorError('unterminated string in ' + self.s)
                self.i += 1
                if d == '"':
                    break
                b = self.esc() if d == '\\' else ord(d)
                ch = ('chr', frozenset([b]))
                out = ch if first else ('seq', out, ch)
                first = False
            return out
        if c == '[':
            neg = False
            if self.peek() == '^':
                neg = True
                self.i += 1
            members = set()
            first = True
            while True:
                d = self.peek()
                if d is None:
                    raise TranslatorError('unterminated class in ' + self.s)
                self.i += 1
                if d == ']' and not first:
                    break
                first = False
                lo = self.esc() if d == '\\' else ord(d)
                if self.peek() == '-' and self.i + 1 < len(self.s) and self.s[self.i + 1] != ']':
                    self.i += 1
                    e = self.peek()
                    self.i += 1
                    hi = self.esc() if e == '\\' else ord(e)
                    if hi < lo:
                        raise TranslatorError('bad range in ' + self.s)
                    members |= set(range(lo, hi + 1))
                else:
                    members.add(lo)
            if neg:
                members = set(range(256)) - members
            return ('chr', frozenset(members))
        if c == '{':
            j = self.s.index('}', self.i)
            name = self.s[self.i:j]
            self.i = j + 1
            if name not in self.defs:
                raise TranslatorError(f'unknown definition {{{name}}} (repetition counts are not supported)')
            return self.defs[name]
        if c == '.':
            return ('chr', frozenset(set(range(256)) - {10}))
        if c == '\\':
            return ('chr', frozenset([self.esc()]))
        if c in '*+?|)]}^$/<>':
            raise TranslatorError(f'unsupported operator {c!r} in {self.s}')
        return ('chr', frozenset([ord(c)]))


def parse_pattern(s, defs):
    p = P(s, defs)
    a = p.alt()
    if p.i != len(s):
        raise TranslatorError('trailing input in pattern ' + s)
    return a


def split_rule(line):
    """pattern = up to the first whitespace outside quotes / classes"""
    i, inq, incl = 0, False, False
    while i < len(line):
        c = line[i]
        if c == '\\':
            i += 2
            continue
        if inq:
            inq = c != '"'
        elif incl:
            incl = c != ']'
        elif c == '"':
            inq = True
        elif c == '[':
            incl = True
        elif c in ' \t':
            break
        i += 1
    return line[:i], line[i:].strip()


def brace_depth(text):
    depth, i = 0, 0
    while i < len(text):
        c = text[i]
        if text.startswith('/*', i):
            j = text.find('*/', i + 2)
            i = len(text) if j < 0 else j + 2
            continue
        if c == "'":
            j = i + 1
            while j < len(text) and text[j] != "'":
                j += 2 if text[j] == '\\' else 1
            i = j + 1
            continue
        if c == '"':
            j = i + 1
            while j < len(text) and text[j] != '"':
                j += 2 if text[j] == '\\' else 1
            i = j + 1
            continue
        if c == '{':
            depth += 1
        elif c == '}':
            depth -= 1
        i += 1
    return depth


def parse_lex(path):
    text = open(path).read()
    if '\r' in text:
        raise TranslatorError('CR in lex source')
    parts = re.split(r'^%%[ \t]*$', text, flags=re.M)
    if len(parts) != 3:
        raise TranslatorError('expected definitions %% rules %% user code')
    defsec, rulesec, user = parts
    defs, prologue = {}, []
    lines = defsec.split('\n')
    i = 0
    while i < len(lines):
        ln = lines[i]
        if ln.strip() == '%{':
            j = i + 1
            while lines[j].strip() != '%}':
                j += 1
            prologue.append('\n'.join(lines[i + 1:j]))
            i = j + 1
            continue
        if ln.startswith('%option'):
            if ln.split()[1:] != ['noyywrap']:
                raise TranslatorError('unsupported %option: ' + ln)
        elif ln.strip() == '':
            pass
        elif re.match(r'^[A-Za-z_][A-Za-z0-9_]*\s', ln):
            name, pat = ln.split(None, 1)
            defs[name] = parse_pattern(pat.strip(), defs)
        else:
            raise TranslatorError('unsupported definitions line: ' + ln)
        i += 1
    rules = []
    rl = rulesec.split('\n')
    i = 0
    while i < len(rl):
        ln = rl[i]
        i += 1
        if ln.strip() == '':
            continue
        if ln[0] in ' \t':
            raise TranslatorError('indented text in the rules section: ' + ln)
        pat, act = split_rule(ln)
        if not act.startswith('{'):
            raise TranslatorError('rule without a braced action: ' + ln)
        while brace_depth(act) > 0:
            if i >= len(rl):
                raise TranslatorError('unterminated action')
            act += '\n' + rl[i]
            i += 1
        if brace_depth(act) != 0:
            raise TranslatorError('unbalanced action: ' + act)
        rules.append((pat, parse_pattern(pat, defs), act))
    return prologue, rules, user


KINDS = ['TOK_KEYWORD', 'TOK_OP', 'TOK_IDENT', 'TOK_OTHER', 'TOK_NUMBER', 'TOK_WS', 'TOK_NEWLINE', 'TOK_STRING', 'TOK_UNKNOWN']


def classify_action(act):
    norm = ' '.join(act.split())
    m = re.fullmatch(r'\{ process_token\((TOK_[A-Z]+)\); \}', norm)
    if m:
        if m.group(1) not in KINDS:
            raise TranslatorError('unknown token kind ' + m.group(1))
        return ('tok', m.group(1))
    # an action that is empty apart from C comments does nothing (no string or character literal can hide a comment
    # opener in it: there is nothing else in the braces)
    if re.fullmatch(r'\{(\s|/\*.*?\*/)*\}', act.strip(), flags=re.DOTALL):
        return ('skip',)
    want = ("{ for ( ; ; ) { int c; while ( (c = input()) != '*' && c != EOF ) ; /* eat up text of comment */ if ( c == '*' ) "
            "{ while ( (c = input()) == '*' ) ; if ( c == '/' ) break; /* found the end */ } if ( c == EOF ) { exit(STOP); } } }")
    if norm == want:
        return ('comment',)
    raise TranslatorError('action not recognised (the Coq model knows process_token / empty / the comment eater): ' + norm[:200])


# ---- Coq output --------------------------------------------------------------------------
def ranges(s):
    xs = sorted(s)
    out = []
    for x in xs:
        if out and out[-1][1] == x - 1:
            out[-1][1] = x
        else:
            out.append([x, x])
    return out


def coq_re(a):
    k = a[0]
    if k == 'eps':
        return 'Eps'
    if k == 'chr':
        return '(Chr ' + coq_list([f'({lo}, {hi})' for lo, hi in ranges(a[1])], 'N * N') + '%N)'
    if k == 'seq':
        return f'(Seq {coq_re(a[1])} {coq_re(a[2])})'
    if k == 'alt':
        return f'(Alt {coq_re(a[1])} {coq_re(a[2])})'
    if k == 'star':
        return f'(Star {coq_re(a[1])})'
    raise TranslatorError(k)


def coq_act(c):
    if c[0] == 'tok':
        return f'(ATok {c[1]})'
    return 'ASkip' if c[0] == 'skip' else 'AComment'


# ---- DFA ------------------------------------------------------------------------------------
class NFA:
    def __init__(self):
        self.eps, self.tr, self.acc = [], [], {}

    def new(self):
        self.eps.append(set())
        self.tr.append([])
        return len(self.eps) - 1

    def build(self, a):
        k = a[0]
        s, t = self.new(), self.new()
        if k == 'eps':
            self.eps[s].add(t)
        elif k == 'chr':
            self.tr[s].append((a[1], t))
        elif k == 'seq':
            s1, t1 = self.build(a[1])
            s2, t2 = self.build(a[2])
            self.eps[s].add(s1)
            self.eps[t1].add(s2)
            self.eps[t2].add(t)
        elif k == 'alt':
            s1, t1 = self.build(a[1])
            s2, t2 = self.build(a[2])
            self.eps[s] |= {s1, s2}
            self.eps[t1].add(t)
            self.eps[t2].add(t)
        elif k == 'star':
            s1, t1 = self.build(a[1])
            self.eps[s] |= {s1, t}
            self.eps[t1] |= {s1, t}
        return s, t


def closure(n, states):
    todo, seen = list(states), set(states)
    while todo:
        x = todo.pop()
        for y in n.eps[x]:
            if y not in seen:
                seen.add(y)
                todo.append(y)
    return frozenset(seen)


def build_dfa(rules):
    n = NFA()
    start = n.new()
    for idx, (_p, a, _act) in enumerate(rules):
        s, t = n.build(a)
        n.eps[start].add(s)
        n.acc[t] = idx
    d0 = closure(n, {start})
    ids, trans, accept, todo = {d0: 0}, [], [], [d0]
    while todo:
        cur = todo.pop(0)
        row = [-1] * 256
        by = {}
        for x in cur:
            for cs, t in n.tr[x]:
                for b in cs:
                    by.setdefault(b, set()).add(t)
        for b, ts in by.items():
            nx = closure(n, ts)
            if nx not in ids:
                ids[nx] = len(ids)
                todo.append(nx)
            row[b] = ids[nx]
        while len(trans) <= ids[cur]:
            trans.append(None)
            accept.append(-1)
        trans[ids[cur]] = row
        acc = [n.acc[x] for x in cur if x in n.acc]
        accept[ids[cur]] = min(acc) if acc else -1
    return trans, accept


def emit_c(prologue, rules, user, trans, accept):
    o = ['/* GENERATED by tools/gen/lexgen.py from clex/clex.l: stand-in for the flex output */',
         '#include <stdio.h>', '#include <stdlib.h>', '#include <string.h>',
         'FILE *yyin; char *yytext; int yyleng;',
         'static unsigned char *yy_buf; static size_t yy_len, yy_pos; static int yy_loaded;',
         'static int input(void) { if (yy_pos >= yy_len) return EOF; return yy_buf[yy_pos++]; }']
    o += prologue
    o.append(f'static const short yy_trans[{len(trans)}][256] = {{')
    for row in trans:
        o.append('{' + ','.join(str(x) for x in row) + '},')
    o.append('};')
    o.append(f'static const short yy_accept[{len(accept)}] = {{' + ','.join(str(x) for x in accept) + '};')
    o.append('''int yylex(void) {
  if (!yy_loaded) {
    size_t cap = 4096; yy_buf = (unsigned char *)malloc(cap); yy_len = 0; int ch;
    while ((ch = fgetc(yyin)) != EOF) { if (yy_len + 1 >= cap) { cap *= 2; yy_buf = (unsigned char *)realloc(yy_buf, cap); } yy_buf[yy_len++] = (unsigned char)ch; }
    yy_loaded = 1;
  }
  while (yy_pos < yy_len) {
    int state = 0, last = -1; size_t last_len = 0, i;
    for (i = yy_pos; i < yy_len; i++) {
      state = yy_trans[state][yy_buf[i]];
      if (state < 0) break;
      if (yy_accept[state] >= 0) { last = yy_accept[state]; last_len = i + 1 - yy_pos; }
    }
    if (last < 0) { fputc(yy_buf[yy_pos], stdout); yy_pos++; continue; }
    yytext = (char *)malloc(last_len + 1); memcpy(yytext, yy_buf + yy_pos, last_len); yytext[last_len] = 0; yyleng = (int)last_len;
    yy_pos += last_len;
    switch (last) {''')
    for idx, (_p, _a, act) in enumerate(rules):
        o.append(f'    case {idx}: {act} break;')
    o.append('''    }
    free(yytext); yytext = 0;
  }
  return 0;
}''')
    o.append(user)
    return '\n'.join(o) + '\n'


def load():
    path = os.path.join(REPO, 'clex', 'clex.l')
    prologue, rules, user = parse_lex(path)
    acts = [classify_action(act) for _p, _a, act in rules]
    return prologue, rules, user, acts


def generate():
    prologue, rules, user, acts = load()
    out = ['(* GENERATED by tools/gen/lexgen.py from clex/clex.l — do not edit *)',
           'From Coq Require Import List NArith ZArith.', 'Import ListNotations.', 'From CV Require Import Clex.Regex.', '']
    rows = [f'({coq_re(a)}, {coq_act(c)})' for (_p, a, _act), c in zip(rules, acts)]
    out.append('Definition clex_rules : list (regex * action) := [\n ' + ';\n '.join(rows) + '\n].')
    # protocol constants from defs.h
    defs = open(os.path.join(REPO, 'clex', 'defs.h')).read()
    ok = re.search(r'^#define OK (\d+)$', defs, re.M)
    stop = re.search(r'^#define STOP (\d+)$', defs, re.M)
    if not ok or not stop:
        raise TranslatorError('defs.h: OK / STOP not found')
    enum = re.search(r'enum tok_kind \{([^}]*)\}', defs)
    names = [x.split('=')[0].strip() for x in enum.group(1).split(',') if x.strip()]
    if names != KINDS:
        raise TranslatorError(f'defs.h: token kinds {names}')
    out.append(f'Definition EXIT_OK : Z := {ok.group(1)}%Z.\nDefinition EXIT_STOP : Z := {stop.group(1)}%Z.')
    write_if_changed('ClexRules.v', '\n'.join(out) + '\n')
    return {'rules': len(rules)}


def build_scanner(dest):
    prologue, rules, user, acts = load()
    trans, accept = build_dfa(rules)
    with open(dest, 'w') as f:
        f.write(emit_c(prologue, rules, user, trans, accept))
    return {'states': len(trans), 'rules': len(rules)}


if __name__ == '__main__':
    print(generate())
