"""Translator: the methods of the pass classes (cvise/passes/*.py, incl. BinaryState) -> PyMini
(coq/Py/PyMini.v).  Fail-closed: every statement / expression form it does not know raises.

What the translation keeps is exactly what the write analysis needs: which variable a value flows
to, which object a store goes through, which translated method is called with which arguments,
and the control structure.  Reads yield RAny, literals / arithmetic / library results RFresh.

TRUSTED (stated in DESIGN.md): library functions and the methods listed in PURE_METHODS do not
write through their arguments or receiver; callables reached through a subscript / attribute
(`config['replace_fn'](...)`) are one of the nested functions or lambdas of the same class."""
import ast
import os

from gen._util import REPO, TranslatorError, coq_string, coq_list, write_if_changed

PASS_DIR = 'cvise/passes'
# method names that never modify their receiver or arguments (str / re / dict / file-read / logging / subprocess API)
PURE_METHODS = {
    'format', 'split', 'strip', 'rstrip', 'lstrip', 'startswith', 'endswith', 'isspace', 'isdigit', 'join', 'group', 'groups', 'span',
    'start', 'finditer', 'findall', 'search', 'match', 'sub', 'compile', 'get', 'keys', 'items', 'values', 'find', 'replace',
    'lower', 'upper', 'count', 'index', 'debug', 'info', 'warning', 'error', 'exists', 'is_file', 'decode', 'encode',
    'splitlines', 'copy', 'deepcopy', 'end', 'real_chunk', 'dirname', 'basename', 'isfile', 'getsize', 'which', 'fullmatch',
}
# methods whose result is a new object / immutable value (cannot alias receiver or arguments)
FRESH_RESULT = {
    'format', 'split', 'strip', 'rstrip', 'lstrip', 'startswith', 'endswith', 'isspace', 'isdigit', 'join', 'span', 'start',
    'finditer', 'findall', 'compile', 'sub', 'replace', 'lower', 'upper', 'count', 'index', 'find', 'decode', 'encode',
    'splitlines', 'copy', 'deepcopy', 'read', 'readlines', 'readline', 'communicate', 'end', 'real_chunk', 'exists', 'is_file',
    'dirname', 'basename', 'isfile', 'getsize', 'keys', 'items', 'values',
}
# modules whose functions are library calls: they do not write through their arguments
LIB_MODULES = {'time', 're', 'os', 'shutil', 'subprocess', 'logging', 'tempfile', 'nestedmatcher', 'copy', 'difflib', 'filecmp', 'json', 'math', 'sys', 'platform'}
PURE_FUNCS = {'len', 'str', 'int', 'min', 'max', 'list', 'reversed', 'range', 'enumerate', 'sorted', 'open', 'isinstance', 'repr', 'tuple',
              'dict', 'set', 'bool', 'float', 'abs', 'sum', 'any', 'all', 'zip', 'print', 'type', 'bytes', 'hash', 'id', 'ord', 'chr'}
FRESH_FUNCS = PURE_FUNCS - {'min', 'max'}


class Meth:
    def __init__(self, qname, params, static):
        self.qname, self.params, self.static = qname, params, static
        self.locals = []
        self.body = 'SSkip'


class ClassInfo:
    def __init__(self, name, bases):
        self.name, self.bases = name, bases
        self.methods = {}       # python name -> ast.FunctionDef
        self.static = set()
        self.callables = []     # qnames of nested defs / lambdas (targets of indirect calls)


def seq(stmts):
    stmts = [s for s in stmts if s != 'SSkip']
    if not stmts:
        return 'SSkip'
    out = stmts[-1]
    for s in reversed(stmts[:-1]):
        out = f'(SSeq {s} {out})'
    return out


def sif(a, b):
    return f'(SIf {a} {b})'


class Translator:
    def __init__(self):
        self.classes = {}
        self.table = []          # (qname, Meth)
        self.uses_binary = set()

    # ---- collection ------------------------------------------------------------------
    def load(self):
        files = sorted(f for f in os.listdir(os.path.join(REPO, PASS_DIR)) if f.endswith('.py') and f != '__init__.py')
        self.sources = {}
        for f in files:
            rel = os.path.join(PASS_DIR, f)
            tree = ast.parse(open(os.path.join(REPO, rel)).read())
            self.sources[rel] = tree
            for node in tree.body:
                if isinstance(node, ast.ClassDef):
                    bases = [b.id if isinstance(b, ast.Name) else ast.unparse(b) for b in node.bases]
                    ci = ClassInfo(node.name, bases)
                    for item in node.body:
                        if isinstance(item, ast.FunctionDef):
                            ci.methods[item.name] = item
                            for d in item.decorator_list:
                                dn = d.id if isinstance(d, ast.Name) else ast.unparse(d)
                                if dn in ('staticmethod',):
                                    ci.static.add(item.name)
                                elif dn in ('classmethod', 'property', 'unique'):
                                    raise TranslatorError(f'{rel}: decorator {dn} on {node.name}.{item.name}')
                                else:
                                    raise TranslatorError(f'{rel}: unknown decorator {dn}')
                        elif isinstance(item, (ast.Assign, ast.Expr, ast.ClassDef, ast.AnnAssign, ast.Pass, ast.For, ast.If)):
                            if any(isinstance(n, (ast.FunctionDef, ast.Lambda)) for n in ast.walk(item) if not isinstance(item, ast.ClassDef)):
                                raise TranslatorError(f'{rel}: callable defined in a class-level statement of {node.name}')
                            continue      # class constants (tables built at import time), docstrings, nested enum
                        else:
                            raise TranslatorError(f'{rel}: class body statement {type(item).__name__}')
                    if node.name in self.classes:
                        raise TranslatorError(f'duplicate class {node.name}')
                    self.classes[node.name] = ci
                    src = ast.unparse(node)
                    if 'BinaryState' in src and node.name != 'BinaryState':
                        self.uses_binary.add(node.name)

    def resolve(self, cls, mname):
        """method lookup through the bases -> (class name, FunctionDef) or None"""
        seen = set()
        todo = [cls]
        while todo:
            c = todo.pop(0)
            if c in seen or c not in self.classes:
                continue
            seen.add(c)
            ci = self.classes[c]
            if mname in ci.methods:
                return c, ci.methods[mname]
            todo += ci.bases
        return None

    # ---- one function ------------------------------------------------------------------
    def translate_all(self):
        for cname, ci in self.classes.items():
            for mname, fd in ci.methods.items():
                self.translate_function(cname, f'{cname}.{mname}', fd, mname in ci.static)
        return self.table

    def translate_function(self, cname, qname, fd, static, is_lambda=False):
        a = fd.args
        if a.vararg or a.kwarg or a.kwonlyargs or a.posonlyargs:
            raise TranslatorError(f'{qname}: unsupported parameter kinds')
        params = [x.arg for x in a.args]
        m = Meth(qname, params, static)
        ft = FuncTranslator(self, cname, m)
        if is_lambda:
            st, v = ft.expr(fd.body)
            m.body = seq(st + [f'(SReturn {coq_string(v)})'])
        else:
            m.body = ft.block(fd.body)
        m.locals = [x for x in ft.locals if x not in params]
        self.table.append((qname, m))
        return m


class FuncTranslator:
    def __init__(self, tr, cname, m):
        self.tr, self.cname, self.m = tr, cname, m
        self.locals = []
        self.ntemp = 0
        self.scope = set(m.params)
        self.assigned_names = set()

    def temp(self):
        self.ntemp += 1
        n = f'_t{self.ntemp}'
        self.locals.append(n)
        return n

    def declare(self, name):
        if name not in self.m.params and name not in self.locals:
            self.locals.append(name)
        self.scope.add(name)

    def fresh(self):
        t = self.temp()
        return [f'(SAssign {coq_string(t)} RFresh)'], t

    def anyval(self):
        t = self.temp()
        return [f'(SAssign {coq_string(t)} RAny)'], t

    def err(self, node, what):
        raise TranslatorError(f'{self.m.qname} line {getattr(node, "lineno", "?")}: {what}')

    # ---- expressions: -> (stmts, var) ---------------------------------------------------
    def expr(self, e):
        if isinstance(e, ast.Name):
            if e.id in self.scope:
                return [], e.id
            return self.anyval()            # module / builtin / class name: a shared, pre-existing object
        if isinstance(e, ast.Constant):
            return self.fresh()
        if isinstance(e, ast.JoinedStr):
            st = []
            for v in e.values:
                if isinstance(v, ast.FormattedValue):
                    s1, _ = self.expr(v.value)
                    st += s1
                elif not isinstance(v, ast.Constant):
                    self.err(e, 'f-string part')
            s2, t = self.fresh()
            return st + s2, t
        if isinstance(e, (ast.BinOp,)):
            s1, _ = self.expr(e.left)
            s2, _ = self.expr(e.right)
            s3, t = self.fresh()
            return s1 + s2 + s3, t
        if isinstance(e, ast.UnaryOp):
            s1, _ = self.expr(e.operand)
            s3, t = self.fresh()
            return s1 + s3, t
        if isinstance(e, ast.Compare):
            st = []
            for x in [e.left] + e.comparators:
                s1, _ = self.expr(x)
                st += s1
            s3, t = self.fresh()
            return st + s3, t
        if isinstance(e, ast.BoolOp):
            t = self.temp()
            # first operand always evaluated; each later one only if reached; the result is one of them
            def chain(vals):
                s1, v1 = self.expr(vals[0])
                here = s1 + [f'(SAssign {coq_string(t)} (RVar {coq_string(v1)}))']
                if len(vals) == 1:
                    return seq(here)
                return seq(here + [sif('SSkip', chain(vals[1:]))])
            return [chain(e.values)], t
        if isinstance(e, ast.IfExp):
            t = self.temp()
            s0, _ = self.expr(e.test)
            s1, v1 = self.expr(e.body)
            s2, v2 = self.expr(e.orelse)
            return s0 + [sif(seq(s1 + [f'(SAssign {coq_string(t)} (RVar {coq_string(v1)}))']),
                             seq(s2 + [f'(SAssign {coq_string(t)} (RVar {coq_string(v2)}))']))], t
        if isinstance(e, ast.Attribute):
            s1, _ = self.expr(e.value)
            s2, t = self.anyval()
            return s1 + s2, t
        if isinstance(e, ast.Subscript):
            s1, _ = self.expr(e.value)
            if isinstance(e.slice, ast.Slice):
                st = []
                for part in (e.slice.lower, e.slice.upper, e.slice.step):
                    if part is not None:
                        sp, _ = self.expr(part)
                        st += sp
                s2, t = self.fresh()       # slicing builds a new sequence
                return s1 + st + s2, t
            s0, _ = self.expr(e.slice)
            s2, t = self.anyval()
            return s1 + s0 + s2, t
        if isinstance(e, (ast.Tuple, ast.List, ast.Set)):
            st = []
            for x in e.elts:
                if isinstance(x, ast.Starred):
                    self.err(e, 'starred element')
                s1, _ = self.expr(x)
                st += s1
            s2, t = self.fresh()
            return st + s2, t
        if isinstance(e, ast.Dict):
            st = []
            for k, v in zip(e.keys, e.values):
                if k is None:
                    self.err(e, 'dict unpacking')
                s1, _ = self.expr(k)
                s2, _ = self.expr(v)
                st += s1 + s2
            s3, t = self.fresh()
            return st + s3, t
        if isinstance(e, (ast.ListComp, ast.GeneratorExp, ast.SetComp)):
            return self.comprehension(e.generators, [e.elt])
        if isinstance(e, ast.DictComp):
            return self.comprehension(e.generators, [e.key, e.value])
        if isinstance(e, ast.Lambda):
            return self.nested_callable(e, f'<lambda{e.lineno}_{e.col_offset}>', e)
        if isinstance(e, ast.Call):
            return self.call(e)
        self.err(e, f'expression form {type(e).__name__}')

    def comprehension(self, gens, elts):
        pre = []
        inner = []
        closes = []
        for g in gens:
            if g.is_async:
                self.err(g, 'async comprehension')
            s1, _ = self.expr(g.iter)
            tgt = self.bind_target_any(g.target)
            conds = []
            for c in g.ifs:
                sc, _ = self.expr(c)
                conds += sc
            closes.append((s1, tgt, conds))
        body = []
        for x in elts:
            sx, _ = self.expr(x)
            body += sx
        cur = seq(body)
        for s1, tgt, conds in reversed(closes):
            cur = seq(s1 + [f'(SLoop {seq(tgt + conds + [sif(cur, "SSkip")])})'])
        s3, t = self.fresh()
        return [cur] + s3, t

    def bind_target_any(self, target):
        """assignment of unknown element values to a (possibly nested) target"""
        if isinstance(target, ast.Name):
            self.declare(target.id)
            return [f'(SAssign {coq_string(target.id)} RAny)']
        if isinstance(target, (ast.Tuple, ast.List)):
            out = []
            for x in target.elts:
                out += self.bind_target_any(x)
            return out
        if isinstance(target, (ast.Attribute, ast.Subscript)):
            return self.store(target)
        self.err(target, f'assignment target {type(target).__name__}')

    def store(self, target):
        if isinstance(target.value, ast.Name) and target.value.id not in self.scope:
            # a store through a global name (class attribute, module-level table): shared, pre-existing state
            s0, g = self.anyval()
            return s0 + [f'(SStoreAny {coq_string(g)})']
        s1, base = self.expr(target.value)
        if isinstance(target, ast.Attribute):
            return s1 + [f'(SStore {coq_string(base)} {coq_string(target.attr)})']
        if isinstance(target.slice, ast.Constant) and isinstance(target.slice.value, str):
            return s1 + [f'(SStore {coq_string(base)} {coq_string(target.slice.value)})']
        s2 = []
        if not isinstance(target.slice, ast.Slice):
            s2, _ = self.expr(target.slice)
        return s1 + s2 + [f'(SStoreAny {coq_string(base)})']

    def nested_callable(self, node, name, fd):
        qn = f'{self.m.qname}.{name}'
        # a nested function must not use variables of the enclosing function (no closures over cursors)
        own = {a.arg for a in fd.args.args}
        assigned = {n.id for n in ast.walk(fd) if isinstance(n, ast.Name) and isinstance(n.ctx, ast.Store)}
        for n in ast.walk(fd.body if isinstance(fd, ast.Lambda) else ast.Module(body=fd.body, type_ignores=[])):
            if isinstance(n, ast.Name) and isinstance(n.ctx, ast.Load) and n.id not in own and n.id not in assigned \
                    and (n.id in self.scope or n.id in self.m.params):
                self.err(node, f'nested function {name} captures {n.id}')
        self.tr.translate_function(self.cname, qn, fd, True, is_lambda=isinstance(fd, ast.Lambda))
        self.tr.classes[self.cname].callables.append((qn, len(fd.args.args)))
        return self.fresh()

    def args_of(self, call, params, first=None):
        """-> (stmts, list of arg vars in parameter order)"""
        st = []
        vals = {}
        pos = list(params)
        if first is not None:
            vals[pos[0]] = first
            pos = pos[1:]
        if len(call.args) > len(pos):
            self.err(call, 'too many positional arguments')
        for p, a in zip(pos, call.args):
            if isinstance(a, ast.Starred):
                self.err(call, 'starred argument')
            s1, v = self.expr(a)
            st += s1
            vals[p] = v
        for kw in call.keywords:
            if kw.arg is None or kw.arg not in params:
                self.err(call, f'keyword argument {kw.arg}')
            s1, v = self.expr(kw.value)
            st += s1
            vals[kw.arg] = v
        out = []
        for p in params:
            if p not in vals:
                s1, v = self.fresh()       # default value
                st += s1
                vals[p] = v
            out.append(vals[p])
        return st, out

    def rcall(self, qname, argvars):
        t = self.temp()
        return [f'(SAssign {coq_string(t)} (RCall {coq_string(qname)} {coq_list([coq_string(a) for a in argvars], "var")}))'], t

    def eval_args(self, call):
        st, vs = [], []
        for a in call.args:
            if isinstance(a, ast.Starred):
                s1, v = self.expr(a.value)
            else:
                s1, v = self.expr(a)
            st += s1
            vs.append(v)
        for kw in call.keywords:
            s1, v = self.expr(kw.value)
            st += s1
            vs.append(v)
        return st, vs

    def call(self, c):
        f = c.func
        if isinstance(f, ast.Attribute):
            m = f.attr
            recv = f.value
            # self.method(...)
            if isinstance(recv, ast.Name) and recv.id == 'self' and 'self' in self.m.params:
                r = self.tr.resolve(self.cname, m)
                if r is not None:
                    owner, fd = r
                    static = m in self.tr.classes[owner].static
                    params = [x.arg for x in fd.args.args]
                    st, av = self.args_of(c, params, None if static else 'self')
                    s2, t = self.rcall(f'{owner}.{m}', av)
                    return st + s2, t
            # BinaryState.create(...) and cursor methods of BinaryState
            bs = self.tr.classes.get('BinaryState')
            if bs and isinstance(recv, ast.Name) and recv.id == 'BinaryState' and m in bs.methods and m in bs.static:
                params = [x.arg for x in bs.methods[m].args.args]
                st, av = self.args_of(c, params)
                s2, t = self.rcall(f'BinaryState.{m}', av)
                return st + s2, t
            # module function: re.compile(...), shutil.move(...), copy.copy(x)
            root = recv
            while isinstance(root, ast.Attribute):
                root = root.value
            if isinstance(root, ast.Name) and root.id in LIB_MODULES and root.id not in self.scope:
                st, vs = self.eval_args(c)
                if (root.id == 'copy' and m in ('copy', 'deepcopy')) or m in FRESH_RESULT or root.id in ('os', 'shutil', 'logging', 'subprocess', 're', 'tempfile', 'nestedmatcher'):
                    s2, t = self.fresh()
                else:
                    s2, t = self.anyval()
                return st + s2, t
            if bs and m in bs.methods and m not in bs.static and not m.startswith('__') \
                    and (self.cname in self.tr.uses_binary or self.cname == 'BinaryState'):
                s1, rv = self.expr(recv)
                params = [x.arg for x in bs.methods[m].args.args]
                st, av = self.args_of(c, params, rv)
                s2, t = self.rcall(f'BinaryState.{m}', av)
                if m in ('copy', 'end'):
                    # the receiver may also be a dict / a regex match: then a pure library method with a fresh result
                    s3 = [f'(SAssign {coq_string(t)} RFresh)']
                    return s1 + st + [sif(seq(s2), seq(s3))], t
                return s1 + st + s2, t
            # method of some object
            s1, rv = self.expr(recv)
            st, vs = self.eval_args(c)
            eff = [] if m in PURE_METHODS else [f'(SStoreAny {coq_string(rv)})']
            s2, t = self.fresh() if m in FRESH_RESULT else self.anyval()
            return s1 + st + eff + s2, t
        if isinstance(f, ast.Name):
            if f.id in self.scope:
                # a local variable holding a callable: one of the nested functions of the class
                return self.indirect(c)
            if f.id in PURE_FUNCS:
                st, vs = self.eval_args(c)
                s2, t = self.fresh() if f.id in FRESH_FUNCS else self.anyval()
                return st + s2, t
            if f.id in self.tr.classes or (f.id[:1].isupper() and f.id not in self.scope):
                # constructor of a library / project class: fresh object, arguments only read
                st, vs = self.eval_args(c)
                s2, t = self.fresh()
                return st + s2, t
            self.err(c, f'call of unknown function {f.id}')
        if isinstance(f, (ast.Subscript,)):
            s0, _ = self.expr(f)
            s1, t = self.indirect(c)
            return s0 + s1, t
        self.err(c, f'call through {type(f).__name__}')

    def indirect(self, c):
        st, vs = self.eval_args(c)
        if c.keywords:
            self.err(c, 'keyword arguments in an indirect call')
        t = self.temp()
        self.pending_indirect = getattr(self, 'pending_indirect', [])
        # resolved when the class is complete: placeholder replaced in finish()
        ph = f'@@INDIRECT:{self.cname}:{len(vs)}:{t}:{"|".join(vs)}@@'
        return st + [ph], t

    # ---- statements ----------------------------------------------------------------------
    def block(self, stmts):
        return seq([self.stmt(s) for s in stmts])

    def assign_to(self, target, v):
        if isinstance(target, ast.Name):
            self.declare(target.id)
            return [f'(SAssign {coq_string(target.id)} (RVar {coq_string(v)}))']
        if isinstance(target, (ast.Tuple, ast.List)):
            return self.bind_target_any(target)
        if isinstance(target, (ast.Attribute, ast.Subscript)):
            return self.store(target)
        self.err(target, f'assignment target {type(target).__name__}')

    def stmt(self, s):
        if isinstance(s, ast.Pass):
            return 'SSkip'
        if isinstance(s, ast.Expr):
            if isinstance(s.value, ast.Constant):
                return 'SSkip'
            st, _ = self.expr(s.value)
            return seq(st)
        if isinstance(s, ast.Assign):
            st, v = self.expr(s.value)
            for tg in s.targets:
                st += self.assign_to(tg, v)
            return seq(st)
        if isinstance(s, ast.AnnAssign):
            if s.value is None:
                return 'SSkip'
            st, v = self.expr(s.value)
            return seq(st + self.assign_to(s.target, v))
        if isinstance(s, ast.AugAssign):
            st, v = self.expr(s.value)
            if isinstance(s.target, ast.Name):
                self.declare(s.target.id)
                x = coq_string(s.target.id)
                if isinstance(s.value, ast.Constant) and isinstance(s.value.value, (int, float)) and not isinstance(s.value.value, bool):
                    return seq(st + [f'(SAssign {x} RFresh)'])       # numeric: rebinds the name
                return seq(st + [f'(SStoreAny {x})', f'(SAssign {x} RAny)'])    # may be an in-place update of a mutable object
            return seq(st + self.store(s.target))
        if isinstance(s, ast.Return):
            if s.value is None:
                st, v = self.fresh()
            else:
                st, v = self.expr(s.value)
            return seq(st + [f'(SReturn {coq_string(v)})'])
        if isinstance(s, ast.If):
            st, _ = self.expr(s.test)
            return seq(st + [sif(self.block(s.body), self.block(s.orelse))])
        if isinstance(s, ast.While):
            st, _ = self.expr(s.test)
            body = seq(st + [sif(self.block(s.body), 'SBreak')])
            return seq([f'(SLoop {body})', self.block(s.orelse)])
        if isinstance(s, ast.For):
            st, _ = self.expr(s.iter)
            tgt = self.bind_target_any(s.target)
            body = seq(tgt + [self.block(s.body)])
            return seq(st + [f'(SLoop {body})', self.block(s.orelse)])
        if isinstance(s, ast.With):
            st = []
            for it in s.items:
                s1, v = self.expr(it.context_expr)
                st += s1
                if it.optional_vars is not None:
                    st += self.assign_to(it.optional_vars, v)
            return seq(st + [self.block(s.body)])
        if isinstance(s, ast.Try):
            body = seq([self.block(s.body), self.block(s.orelse)])
            hs = 'SRaise'
            for h in s.handlers:
                pre = []
                if h.name:
                    self.declare(h.name)
                    pre = [f'(SAssign {coq_string(h.name)} RFresh)']
                hs = sif(seq(pre + [self.block(h.body)]), hs)
            core = f'(STry {body} {hs})' if s.handlers else body
            if s.finalbody:
                fin = self.block(s.finalbody)
                return seq([f'(STry {core} {seq([fin, "SRaise"])})', fin])
            return core
        if isinstance(s, ast.Raise):
            st = []
            if s.exc is not None:
                st, _ = self.expr(s.exc)
            return seq(st + ['SRaise'])
        if isinstance(s, ast.Break):
            return 'SBreak'
        if isinstance(s, ast.Continue):
            return 'SContinue'
        if isinstance(s, ast.Assert):
            st, _ = self.expr(s.test)
            return seq(st + [sif('SSkip', 'SRaise')])
        if isinstance(s, ast.Delete):
            out = []
            for tg in s.targets:
                if isinstance(tg, ast.Name):
                    continue
                if isinstance(tg, (ast.Attribute, ast.Subscript)):
                    s1, base = self.expr(tg.value)
                    out += s1 + [f'(SStoreAny {coq_string(base)})']
                else:
                    self.err(s, 'del target')
            return seq(out)
        if isinstance(s, ast.FunctionDef):
            if s.decorator_list:
                self.err(s, 'decorated nested function')
            st, v = self.nested_callable(s, f'{s.name}@{s.lineno}', s)
            self.declare(s.name)
            return seq(st + [f'(SAssign {coq_string(s.name)} (RVar {coq_string(v)}))'])
        if isinstance(s, (ast.Import, ast.ImportFrom)):
            return 'SSkip'
        self.err(s, f'statement form {type(s).__name__}')


def resolve_indirect(tr):
    """an indirect call may reach any nested function / lambda of the same class with that many parameters"""
    import re
    for i, (qn, m) in enumerate(tr.table):
        def repl(mo):
            cname, n, t, vs = mo.group(1), int(mo.group(2)), mo.group(3), mo.group(4)
            args = [v for v in vs.split('|') if v]
            cands = [q for q, k in tr.classes[cname].callables if k == n]
            alts = [f'(SAssign {coq_string(t)} (RCall {coq_string(q)} {coq_list([coq_string(a) for a in args], "var")}))' for q in cands]
            # ... or a library callable (e.g. a compiled regex method): arguments only read
            cur = f'(SAssign {coq_string(t)} RAny)'
            for a in alts:
                cur = sif(a, cur)
            return cur
        m.body = re.sub(r'@@INDIRECT:([^:]+):(\d+):([^:]+):([^@]*)@@', repl, m.body)


ROLES = ('new', 'advance', 'advance_on_success', 'transform')


def generate():
    tr = Translator()
    tr.load()
    tr.translate_all()
    resolve_indirect(tr)
    names = [q for q, _ in tr.table]
    if len(set(names)) != len(names):
        raise TranslatorError('duplicate method names: ' + ', '.join(sorted({n for n in names if names.count(n) > 1})))
    out = ['(* GENERATED by tools/gen/pymini.py from cvise/passes/*.py — do not edit *)',
           'From Coq Require Import List String.', 'Import ListNotations.', 'From CV Require Import Py.PyMini.', 'Local Open Scope string_scope.', '']
    rows = []
    for q, m in tr.table:
        rows.append(f'({coq_string(q)}, mkm {coq_list([coq_string(p) for p in m.params], "var")} {coq_list([coq_string(p) for p in m.locals], "var")}\n   {m.body})')
    out.append('Definition py_table : table := [\n ' + ';\n '.join(rows) + '\n].')
    roles = {r: [] for r in ROLES}
    for cname, ci in tr.classes.items():
        if cname in ('BinaryState', 'PassResult', 'ProcessEventNotifier', 'ProcessEventType', 'ProcessEvent'):
            continue
        for r in ROLES:
            got = tr.resolve(cname, r)
            if got is None:
                if cname == 'AbstractPass':
                    continue
                raise TranslatorError(f'{cname} has no {r}')
            owner, fd = got
            params = [x.arg for x in fd.args.args]
            if 'state' not in params and r != 'new':
                raise TranslatorError(f'{owner}.{r} has no state parameter')
            q = f'{owner}.{r}'
            idx = params.index('state') if 'state' in params else 0
            if (q, idx) not in roles[r]:
                roles[r].append((q, idx))
    for r in ROLES:
        out.append(f'(* (method, index of the cursor parameter) *)\nDefinition {r}_methods : list (string * nat) := '
                   + coq_list([f'({coq_string(q)}, {i})' for q, i in roles[r]], 'string * nat') + '.')
    bs = [q for q in names if q.startswith('BinaryState.') and not q.startswith('BinaryState.__')]
    out.append('Definition binary_state_methods : list string := ' + coq_list([coq_string(q) for q in bs], 'string') + '.')
    write_if_changed('PyMethods.v', '\n'.join(out) + '\n')
    return {'methods': len(names), 'roles': {r: len(v) for r, v in roles.items()}}


if __name__ == '__main__':
    print(generate())
