"""Helpers shared by the translators (fail-closed: anything unexpected raises)."""
import os

REPO = os.environ.get('VERIF_REPO', '/repo')
ROOT = os.environ.get('VERIF_ROOT', '/verif')
GEN = os.path.join(ROOT, 'coq', 'Gen')


class TranslatorError(Exception):
    pass


def coq_string(s):
    if not isinstance(s, str):
        raise TranslatorError(f'not a string: {s!r}')
    for ch in s:
        if ord(ch) < 32 or ord(ch) > 126:
            raise TranslatorError(f'non-printable character in {s!r}')
    return '"' + s.replace('"', '""') + '"'


def coq_list(items, ty=None):
    if not items:
        return f'(@nil {ty})' if ty else '[]'
    return '[' + '; '.join(items) + ']'


def coq_opt(x, f=lambda v: v):
    return 'None' if x is None else f'(Some {f(x)})'


def write_if_changed(name, text):
    os.makedirs(GEN, exist_ok=True)
    p = os.path.join(GEN, name)
    old = open(p).read() if os.path.exists(p) else None
    if old != text:
        with open(p, 'w') as f:
            f.write(text)
    return p
