"""Translator for the Python side of the driver/helper conventions (C14): accepted pass
arguments, return codes the passes test for, count-message literals; and the clex mode table
from clex/driver.c."""
import ast
import os
import re

from gen._util import REPO, TranslatorError, coq_string, coq_list, write_if_changed


def parse(rel):
    return ast.parse(open(os.path.join(REPO, rel)).read())


def is_self_arg(n):
    return isinstance(n, ast.Attribute) and n.attr == 'arg' and isinstance(n.value, ast.Name) and n.value.id == 'self'


def accepted_args(rel):
    vals = []
    for node in ast.walk(parse(rel)):
        if isinstance(node, ast.Compare) and is_self_arg(node.left) and len(node.ops) == 1:
            op, cmp = node.ops[0], node.comparators[0]
            if isinstance(op, (ast.Eq, ast.NotEq)) and isinstance(cmp, ast.Constant) and isinstance(cmp.value, str):
                vals.append(cmp.value)
            elif isinstance(op, (ast.In, ast.NotIn)) and isinstance(cmp, (ast.List, ast.Tuple, ast.Set)):
                for e in cmp.elts:
                    if not (isinstance(e, ast.Constant) and isinstance(e.value, str)):
                        raise TranslatorError(f'{rel}: non-literal in self.arg membership test')
                    vals.append(e.value)
            elif isinstance(op, (ast.Is, ast.IsNot)) and isinstance(cmp, ast.Constant) and cmp.value is None:
                pass      # a test for "no argument at all": names no string argument
            else:
                raise TranslatorError(f'{rel}: unrecognised test on self.arg')
    out = []
    for v in vals:
        if v not in out:
            out.append(v)
    return out


def peep_args():
    # peep.py tests self.arg through helper comparisons too; collect every literal compared with it
    return accepted_args('cvise/passes/peep.py')


def returncodes(rel):
    vals = []
    for node in ast.walk(parse(rel)):
        if isinstance(node, ast.Compare) and isinstance(node.left, ast.Name) and node.left.id == 'returncode':
            for op, cmp in zip(node.ops, node.comparators):
                if isinstance(op, (ast.Eq, ast.NotEq)) and isinstance(cmp, ast.Constant) and isinstance(cmp.value, int):
                    vals.append(cmp.value)
                else:
                    raise TranslatorError(f'{rel}: unrecognised test on returncode')
    return sorted(set(vals))


def stop_codes(rel):
    """return codes mapped to PassResult.STOP: constants compared with returncode inside a test whose
    body/value is PassResult.STOP"""
    src = open(os.path.join(REPO, rel)).read()
    tree = ast.parse(src)
    res = []

    def consts(test):
        out = []
        for n in ast.walk(test):
            if isinstance(n, ast.Compare) and isinstance(n.left, ast.Name) and n.left.id == 'returncode' and isinstance(n.ops[0], ast.Eq):
                out.append(n.comparators[0].value)
        return out

    def mentions_stop(node):
        return any(isinstance(n, ast.Attribute) and n.attr == 'STOP' for n in ast.walk(node))

    for node in ast.walk(tree):
        if isinstance(node, ast.IfExp) and mentions_stop(node.body) and not mentions_stop(node.orelse):
            res += consts(node.test)
        if isinstance(node, ast.If) and any(mentions_stop(s) for s in node.body) and not any(
                isinstance(s, (ast.If,)) for s in node.body):
            res += consts(node.test)
    return sorted(set(res))


def count_literals():
    tree = parse('cvise/passes/clangbinarysearch.py')
    rx, prefix = None, None
    for node in ast.walk(tree):
        if isinstance(node, ast.Call) and isinstance(node.func, ast.Attribute):
            if node.func.attr == 'match' and isinstance(node.func.value, ast.Name) and node.func.value.id == 're':
                a = node.args[0]
                if isinstance(a, ast.Constant) and isinstance(a.value, str):
                    rx = a.value
            if node.func.attr == 'startswith' and node.args and isinstance(node.args[0], ast.Constant) \
                    and str(node.args[0].value).startswith('Available'):
                prefix = node.args[0].value
    if rx is None or prefix is None:
        raise TranslatorError('count literals not found in clangbinarysearch.py')
    m = re.fullmatch(r'(.*)\(\[0-9\]\+\)\$', rx)
    if not m:
        raise TranslatorError(f'count regex has an unexpected shape: {rx!r}')
    return rx, m.group(1), prefix


def clex_modes():
    src = open(os.path.join(REPO, 'clex/driver.c')).read()
    m = re.search(r'int\s+main\s*\(', src)
    main = src[m.start():]
    macros = {}
    for f in ('clex/defs.h', 'clex/driver.c'):
        for mm in re.finditer(r'^\s*#\s*define\s+(\w+)\s+\(?\s*(-?\d+)\s*\)?\s*$', open(os.path.join(REPO, f)).read(), re.M):
            macros[mm.group(1)] = int(mm.group(2))

    def const(tok):
        if re.fullmatch(r'-?\d+', tok):
            return int(tok)
        if tok in macros:
            return macros[tok]
        raise TranslatorError(f'clex: bound {tok!r} is neither a literal nor a #define of an integer')

    exact = re.findall(r'strcmp\s*\(\s*cmd\s*,\s*"([^"]+)"\s*\)\s*==\s*0', main)
    pref = []
    for mm in re.finditer(r'strncmp\s*\(\s*cmd\s*,\s*"([^"]+)"\s*,\s*(\d+)\s*\)\s*==\s*0\s*\)\s*\{(.*?)\}', main, re.S):
        p, n, body = mm.group(1), int(mm.group(2)), mm.group(3)
        if len(p) != n:
            raise TranslatorError(f'clex: strncmp length {n} does not match prefix {p!r}')
        a = re.search(r'assert\s*\(\s*n_toks\s*(>=?)\s*(\w+)\s*&&\s*n_toks\s*(<=?)\s*(\w+)\s*\)', body)
        if not a or f'&cmd[{n}]' not in body:
            raise TranslatorError(f'clex: bounds of mode {p!r} not recognised')
        lo, hi = const(a.group(2)), const(a.group(4))
        # stored as an exclusive lower and an inclusive upper bound
        pref.append((p, lo if a.group(1) == '>' else lo - 1, hi if a.group(3) == '<=' else hi - 1))
    if not exact or not pref:
        raise TranslatorError('clex mode chain not recognised')
    return exact, pref


def generate():
    out = ['(* GENERATED by tools/gen/pyconv.py from cvise/passes/*.py and clex/driver.c — do not edit *)',
           'From Coq Require Import List String ZArith.', 'Import ListNotations.', 'Open Scope string_scope.', '']
    args = {
        'balanced': accepted_args('cvise/passes/balanced.py'),
        'ints': accepted_args('cvise/passes/ints.py'),
        'special': accepted_args('cvise/passes/special.py'),
        'ternary': accepted_args('cvise/passes/ternary.py'),
        'indent': accepted_args('cvise/passes/indent.py'),
        'peep': peep_args(),
    }
    for k, v in args.items():
        if not v:
            raise TranslatorError(f'no accepted arguments found for {k}')
    out.append('Definition py_args : list (string * list string) := ' + coq_list(
        ['(%s, %s)' % (coq_string(k), coq_list([coq_string(x) for x in v])) for k, v in args.items()]) + '.')
    # lines.py: the strings the pass itself singles out (no formatter for "None", ...); every other argument goes to topformflat
    out.append('Definition lines_literals : list string := ' + coq_list([coq_string(x) for x in accepted_args('cvise/passes/lines.py')]) + '.')
    zl = lambda l: coq_list([f'({x})%Z' for x in l], 'Z')
    out.append('Definition py_clang_stop : list Z := ' + zl(stop_codes('cvise/passes/clang.py')) + '.')
    out.append('Definition py_clangbin_stop : list Z := ' + zl(stop_codes('cvise/passes/clangbinarysearch.py')) + '.')
    out.append('Definition py_clex_codes : list Z := ' + zl(returncodes('cvise/passes/clex.py')) + '.')
    out.append('Definition py_clex_stop : list Z := ' + zl(stop_codes('cvise/passes/clex.py')) + '.')
    rx, rx_prefix, prefix = count_literals()
    out.append('Definition py_count_regex_prefix : string := ' + coq_string(rx_prefix) + '.')
    out.append('Definition py_count_stderr_prefix : string := ' + coq_string(prefix) + '.')
    exact, pref = clex_modes()
    out.append('Definition clex_exact : list string := ' + coq_list([coq_string(x) for x in exact]) + '.')
    out.append('Definition clex_prefixed : list (string * nat * nat) := ' + coq_list(
        ['(%s, %d, %d)' % (coq_string(p), lo, hi) for p, lo, hi in pref]) + '.')
    write_if_changed('PyConv.v', '\n'.join(out) + '\n')
    return {'args': {k: len(v) for k, v in args.items()}, 'clex_modes': len(exact) + len(pref)}
