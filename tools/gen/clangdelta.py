"""Translator for the C++ side (clang_delta cannot be built offline, so this extractor is the
only tie): registrations + MultipleRewrites flags + exit-code / message conventions (C14) and the
control-flow skeleton of HandleTranslationUnit for every registered transformation (C19).
Fail-closed: any statement form it does not recognise raises."""
import glob
import os
import re

from gen._util import REPO, TranslatorError, coq_string, coq_list, write_if_changed

CD = os.path.join(REPO, 'clang_delta')

MUTATORS = r'(?:Insert\w*|Remove\w*|Replace\w*|IncreaseIndentation|overwriteChangedFiles)'


def strip_comments_strings(src, keep_strings=False):
    out = []
    i, n = 0, len(src)
    while i < n:
        c = src[i]
        if src.startswith('//', i):
            j = src.find('\n', i)
            i = n if j < 0 else j
        elif src.startswith('/*', i):
            j = src.find('*/', i + 2)
            i = n if j < 0 else j + 2
            out.append(' ')
        elif c == '"':
            j = i + 1
            while j < n and src[j] != '"':
                j += 2 if src[j] == '\\' else 1
            out.append(src[i:j + 1] if keep_strings else '""')
            i = j + 1
        elif c == "'":
            j = i + 1
            while j < n and src[j] != "'":
                j += 2 if src[j] == '\\' else 1
            out.append("' '")
            i = j + 1
        else:
            out.append(c)
            i += 1
    return ''.join(out)


def match_close(s, i, op, cl):
    """s[i] == op; index of the matching close"""
    d = 0
    for j in range(i, len(s)):
        if s[j] == op:
            d += 1
        elif s[j] == cl:
            d -= 1
            if d == 0:
                return j
    raise TranslatorError('unbalanced ' + op)


# ---------------------------------------------------------------------------------------------
# function table of a translation unit: name -> list of bodies (name-based over-approximation)
FUNC_RE = re.compile(r'(?:^|[;}\s])(?:[\w:<>\*&,~\s]+?[\s\*&])?((?:\w+(?:<[^<>;{}()]*>)?::)*~?\w+)\s*\(([^;{}()]|\([^()]*\))*\)\s*(?:const\s*)?(?:override\s*)?(?::[^;{]*?)?\{', re.S)
KEYWORDS = {'if', 'for', 'while', 'switch', 'return', 'sizeof', 'catch', 'else', 'do', 'new', 'delete', 'case',
            'static_cast', 'dyn_cast', 'dyn_cast_or_null', 'cast', 'isa', 'const_cast', 'reinterpret_cast'}


def functions_of(src):
    """[(qualified name, body text, enclosing class or None)] for every definition with a body."""
    res = []
    # class extents, to attribute inline methods
    classes = []
    for m in re.finditer(r'\b(?:class|struct)\s+((?:\w+::)*\w+)[^;{]*\{', src):
        try:
            end = match_close(src, m.end() - 1, '{', '}')
        except TranslatorError:
            continue
        classes.append((m.start(), end, m.group(1).split('::')[-1]))      # Outer::Inner { ... } defines Inner
    pos = 0
    for m in FUNC_RE.finditer(src):
        name = m.group(1)
        base = name.split('::')[-1]
        if base in KEYWORDS:
            continue
        b0 = m.end() - 1
        try:
            b1 = match_close(src, b0, '{', '}')
        except TranslatorError:
            continue
        cls = None
        name = re.sub(r'<[^<>]*>', '', name)          # Class<T, U>::method -> Class::method
        if '::' in name:
            cls = name.split('::')[-2]
        else:
            inner = [c for c in classes if c[0] < m.start() and b1 <= c[1]]
            if inner:
                cls = max(inner, key=lambda c: c[0])[2]
        res.append((name, src[b0:b1 + 1], cls))
    return res


def tu_sources(cpp):
    """The .cpp, the project headers it includes, and Transformation.{h,cpp}."""
    files = [cpp]
    seen = set(files)
    todo = [cpp]
    while todo:
        f = todo.pop()
        try:
            txt = open(os.path.join(CD, f)).read()
        except OSError:
            continue
        for inc in re.findall(r'#include\s+"([\w./]+)"', txt):
            if inc not in seen and os.path.exists(os.path.join(CD, inc)):
                seen.add(inc)
                files.append(inc)
                todo.append(inc)
    for extra in ('Transformation.h', 'Transformation.cpp'):
        if extra not in seen:
            files.append(extra)
    return files


def mutating_helpers():
    """RewriteUtils methods that (transitively) reach a mutating Rewriter call."""
    src = strip_comments_strings(open(os.path.join(CD, 'RewriteUtils.cpp')).read())
    funcs = {}
    for name, body, cls in functions_of(src):
        funcs.setdefault(name.split('::')[-1], []).append(body)
    sink = re.compile(r'TheRewriter\s*(?:->|\.)\s*' + MUTATORS + r'\s*\(')
    mut = {n for n, bs in funcs.items() if any(sink.search(b) for b in bs)}
    changed = True
    while changed:
        changed = False
        for n, bs in funcs.items():
            if n in mut:
                continue
            for b in bs:
                calls = set(re.findall(r'\b(\w+)\s*\(', b))
                if calls & mut:
                    mut.add(n)
                    changed = True
                    break
    return mut, set(funcs)


_FILE_CACHE = {}


def file_info(f):
    if f not in _FILE_CACHE:
        txt = strip_comments_strings(open(os.path.join(CD, f)).read())
        _FILE_CACHE[f] = (txt, functions_of(txt))
    return _FILE_CACHE[f]


class TU:
    """Functions of one translation unit keyed by (class, method); may-rewrite is a least fixpoint.
    Calls are resolved through the receiver's declared class when it can be found, otherwise
    conservatively through every definition with that bare name."""

    CALL = re.compile(r'(?:\b(\w+)\s*(->|\.)\s*)?\b(\w+)\s*\(')

    def __init__(self, cpp, helpers_mut):
        self.cpp = cpp
        self.text = ''
        self.defs = {}        # (cls, base) -> [body]
        self.by_base = {}     # base -> set of cls
        for f in tu_sources(cpp):
            txt, funcs = file_info(f)
            self.text += '\n' + txt
            for name, body, cls in funcs:
                base = name.split('::')[-1]
                self.defs.setdefault((cls, base), []).append(body)
                self.by_base.setdefault(base, set()).add(cls)
        self._types = {}
        self.classes = {c for c, _ in self.defs if c}
        # direct base classes declared in this translation unit (template arguments and namespaces dropped)
        self.bases = {}
        for m in re.finditer(r'\b(?:class|struct)\s+(\w+)\s*(?:final\s*)?:\s*([^{;]+)\{', self.text):
            bl = []
            for part in re.sub(r'<[^<>]*(?:<[^<>]*>[^<>]*)*>', '', m.group(2)).split(','):
                ws = [w for w in re.findall(r'[\w:]+', part) if w not in ('public', 'private', 'protected', 'virtual')]
                if ws:
                    bl.append(ws[-1].split('::')[-1])
            self.bases.setdefault(m.group(1), []).extend(bl)
        hm = '|'.join(sorted(helpers_mut)) or 'NOHELPER'
        self.sink = re.compile(r'(?:TheRewriter\s*(?:->|\.)\s*' + MUTATORS + r'\s*\()|(?:RewriteHelper\s*->\s*(?:' + hm + r')\s*\()')
        self.types = {}
        self.rw = set()
        for k, bodies in self.defs.items():
            if any(self.sink.search(b) for b in bodies):
                self.rw.add(k)
        changed = True
        while changed:
            changed = False
            for k, bodies in self.defs.items():
                if k in self.rw:
                    continue
                if any(self.text_may_rewrite(b, cls=k[0]) for b in bodies):
                    self.rw.add(k)
                    changed = True

    def ancestors(self, c):
        seen, todo = [], [c]
        while todo:
            x = todo.pop()
            if x in seen:
                continue
            seen.append(x)
            todo += self.bases.get(x, [])
        return seen

    def class_rewrites(self, cls):
        return any(c == cls for c, _ in self.rw)

    def targets(self, recv, op, meth, cls, scope):
        """definitions a call may reach: list of (cls, base) keys"""
        if meth in KEYWORDS:
            return []
        if recv is None or recv == 'this':
            ks = [(cls, meth)] if (cls, meth) in self.defs else []
            if not ks:
                for c in (None, 'Transformation'):
                    if (c, meth) in self.defs:
                        ks.append((c, meth))
            if not ks and meth in self.by_base and cls is None:
                ks = [(c, meth) for c in self.by_base[meth]]
            if not ks and meth in self.by_base:
                # an inherited or outer-class method: any definition with that name
                ks = [(c, meth) for c in self.by_base[meth]]
            return ks
        if recv == 'RewriteHelper' or recv == 'TheRewriter':
            return []      # handled by the sink pattern
        rc = self.type_of(recv, scope)
        trav = meth.startswith('Traverse') or meth.startswith('Visit') or meth.startswith('WalkUp')
        if rc in self.classes or any(a in self.classes for a in self.ancestors(rc) if rc):
            anc = self.ancestors(rc)
            if trav:
                return [k for k in self.defs if k[0] in anc]
            return [(a, meth) for a in anc if (a, meth) in self.defs]
        if trav:
            if rc is not None:
                return []          # a clang / llvm object, not one of ours
            return [k for k in self.defs if k[0] and (k[0].endswith('Visitor') or k[0].endswith('Wrap'))]
        if meth in self.by_base and rc is None:
            return [(c, meth) for c in self.by_base[meth]]
        return []

    TEMP_CALL = re.compile(r'\b(\w+)\s*\([^()]*\)\s*\.\s*((?:Traverse|Visit|WalkUp)\w*)\s*\(')

    def text_may_rewrite(self, text, cls=None, scope=''):
        if self.sink.search(text):
            return True
        # Visitor(this).TraverseDecl(...): a temporary of one of our visitor classes
        for m in self.TEMP_CALL.finditer(text):
            anc = self.ancestors(m.group(1))
            if any(k in self.rw for k in self.defs if k[0] in anc):
                return True
        for m in self.CALL.finditer(text):
            recv, op, meth = m.group(1), m.group(2), m.group(3)
            for k in self.targets(recv, op, meth, cls, scope + text):
                if k in self.rw:
                    return True
        return False

    def type_of(self, var, local_text):
        key = (var, local_text)
        if key in self._types:
            return self._types[key]
        r = self._type_of(var, local_text)
        self._types[key] = r
        return r

    DECL1 = re.compile(r'\b(\w+)\s*(?:<[^;>]*>)?\s*[\*&]\s*(\w+)\s*[;=,)]')
    DECL2 = re.compile(r'\b(\w+)\s+(\w+)\s*(?:\([^;]*\))?\s*;')
    NOTYPE = ('return', 'new', 'delete', 'else', 'const')

    def global_types(self):
        if not hasattr(self, '_gt'):
            gt = {}
            for rx in (self.DECL1, self.DECL2):
                for m in rx.finditer(self.text):
                    if m.group(1) not in self.NOTYPE and m.group(2) not in gt:
                        gt[m.group(2)] = m.group(1)
            self._gt = gt
        return self._gt

    def _type_of(self, var, local_text):
        if local_text:
            m = re.search(r'\b(\w+)\s*(?:<[^;>]*>)?\s*[\*&]\s*' + re.escape(var) + r'\s*[;=,)]', local_text) or \
                re.search(r'\b(\w+)\s+' + re.escape(var) + r'\s*(?:\([^;]*\))?\s*;', local_text)
            if m and m.group(1) not in self.NOTYPE:
                return m.group(1)
        return self.global_types().get(var)


# ---------------------------------------------------------------------------------------------
# statement parser for HandleTranslationUnit
class Skel:
    def __init__(self, tu, body, cls):
        self.tu = tu
        self.body = body
        self.cls = cls
        self.nopaque = 0

    def cond(self, c):
        c1 = re.sub(r'\s+', '', c)
        if c1 == 'QueryInstanceOnly':
            return 'CQuery'
        if c1 == 'TransformationCounter>ValidInstanceNum':
            return 'CCounterGtValid'
        if c1 == '!checkCounterValidity()':
            return 'CNotCheckValid'
        k = self.nopaque
        self.nopaque += 1
        return f'(COpaque {k})'

    def stmts(self, s):
        """parse a sequence of statements; returns Coq term"""
        items = []
        i, n = 0, len(s)
        while i < n:
            if s[i].isspace() or s[i] == ';':
                i += 1
                continue
            st, i = self.stmt(s, i)
            items.append(st)
        if not items:
            return 'SSkip'
        t = items[-1]
        for x in reversed(items[:-1]):
            t = f'(SSeq {x} {t})'
        return t

    def stmt(self, s, i):
        n = len(s)
        while i < n and s[i].isspace():
            i += 1
        if s[i] == '{':
            j = match_close(s, i, '{', '}')
            return self.stmts(s[i + 1:j]), j + 1
        m = re.compile(r'if\s*\(').match(s, i)
        if m:
            p0 = m.end() - 1
            p1 = match_close(s, p0, '(', ')')
            c = self.cond(s[p0 + 1:p1])
            t, j = self.stmt(s, p1 + 1)
            k = j
            while k < n and s[k].isspace():
                k += 1
            if s.startswith('else', k) and not (s[k + 4:k + 5].isalnum() or s[k + 4:k + 5] == '_'):
                e, j = self.stmt(s, k + 4)
            else:
                e = 'SSkip'
            return f'(SIf {c} {t} {e})', j
        m = re.compile(r'(for|while)\s*\(').match(s, i)
        if m:
            p0 = m.end() - 1
            p1 = match_close(s, p0, '(', ')')
            hdr = s[p0 + 1:p1]
            b, j = self.stmt(s, p1 + 1)
            k = self.nopaque
            self.nopaque += 1
            hd = f'(SEffect {"true" if self.tu.text_may_rewrite(hdr, cls=self.cls, scope=self.body) else "false"})'
            return f'(SSeq {hd} (SIf (COpaque {k}) {b} SSkip))', j
        if re.compile(r'(do|switch|try|goto|case|default)\b').match(s, i):
            raise TranslatorError(f'{self.tu.cpp}: unsupported statement in HandleTranslationUnit: {s[i:i + 40]!r}')
        m = re.compile(r'return\b').match(s, i)
        if m:
            j = s.index(';', i)
            rest = s[m.end():j].strip()
            if rest:
                raise TranslatorError(f'{self.tu.cpp}: return with a value in HandleTranslationUnit')
            return 'SReturn', j + 1
        # expression / declaration statement up to the ';' at nesting depth 0
        d = 0
        j = i
        while j < n:
            if s[j] in '({[':
                d += 1
            elif s[j] in ')}]':
                d -= 1
            elif s[j] == ';' and d == 0:
                break
            j += 1
        if j >= n:
            raise TranslatorError(f'{self.tu.cpp}: unterminated statement {s[i:i + 40]!r}')
        e = s[i:j].strip()
        e1 = re.sub(r'\s+', '', e)
        if e1 == 'TransError=TransMaxInstanceError':
            return '(SSetErr 0)', j + 1
        if e1 == 'TransError=TransInternalError':
            return '(SSetErr 1)', j + 1
        if e1.startswith('TransError='):
            return '(SSetErr 2)', j + 1
        if e1 == 'ValidInstanceNum=0':
            return 'SSetValid0', j + 1
        if re.search(r'\b(TransformationCounter|QueryInstanceOnly)\s*=[^=]', e):
            raise TranslatorError(f'{self.tu.cpp}: HandleTranslationUnit assigns a protocol variable: {e!r}')
        rw = self.tu.text_may_rewrite(e, cls=self.cls, scope=self.body)
        return f'(SEffect {"true" if rw else "false"})', j + 1


def conditional_registrations():
    """names registered inside a preprocessor conditional: they exist in some builds only"""
    out = []
    for f in sorted(glob.glob(os.path.join(CD, '*.cpp'))):
        src = strip_comments_strings(open(f).read(), keep_strings=True)
        for m in re.finditer(r'RegisterTransformation\s*<[^>]*>\s*\w+\s*\(\s*"([^"]+)"', src):
            depth = 0
            for line in src[:m.start()].split('\n'):
                if re.match(r'\s*#\s*if', line):
                    depth += 1
                elif re.match(r'\s*#\s*endif', line):
                    depth -= 1
            if depth > 0:
                out.append(m.group(1))
    return out


class DriverSkel(Skel):
    """TransformationManager::doTransformation: an effect is anything that opens or writes the output"""
    SINK = re.compile(r'\b(getOutStream|closeOutStream|output\w*Source)\s*\(')

    def cond(self, c):
        if re.sub(r'\s+', '', c) == 'QueryInstanceOnly':
            return 'CQuery'
        k = self.nopaque
        self.nopaque += 1
        return f'(COpaque {k})'

    def stmt(self, s, i):
        n = len(s)
        while i < n and s[i].isspace():
            i += 1
        if re.compile(r'return\b').match(s, i):
            return 'SReturn', s.index(';', i) + 1
        if s[i] == '{' or re.compile(r'(if|for|while)\s*\(').match(s, i):
            return super().stmt(s, i)
        if re.compile(r'(do|switch|try|goto|case|default)\b').match(s, i):
            raise TranslatorError(f'doTransformation: unsupported statement {s[i:i + 40]!r}')
        d, j = 0, i
        while j < n:
            if s[j] in '({[':
                d += 1
            elif s[j] in ')}]':
                d -= 1
            elif s[j] == ';' and d == 0:
                break
            j += 1
        if j >= n:
            raise TranslatorError('doTransformation: unterminated statement')
        e = s[i:j]
        if re.search(r'\bQueryInstanceOnly\s*=[^=]', e):
            raise TranslatorError('doTransformation assigns QueryInstanceOnly')
        return f'(SEffect {"true" if self.SINK.search(e) else "false"})', j + 1


def driver_skeleton():
    src = strip_comments_strings(open(os.path.join(CD, 'TransformationManager.cpp')).read())
    m = re.search(r'bool\s+TransformationManager::doTransformation\s*\([^)]*\)\s*\{', src)
    if not m:
        raise TranslatorError('TransformationManager::doTransformation not found')
    b0 = m.end() - 1
    b1 = match_close(src, b0, '{', '}')
    body = src[b0 + 1:b1]

    class NoTU:
        cpp = 'TransformationManager.cpp'

        def text_may_rewrite(self, *a, **k):
            return False
    sk = DriverSkel(NoTU(), body, 'TransformationManager')
    # loop headers go through text_may_rewrite of the TU: none expected here
    term = sk.stmts(body)
    if 'CQuery' not in term:
        raise TranslatorError('doTransformation does not test QueryInstanceOnly')
    return sk.nopaque, term


def manager_counter_writes():
    """statements of TransformationManager.{h,cpp} that write the counters between the command line and the hand-over to the
    transformation - other than the two setters and the constructor's initialisers (expected: none), and the hand-over itself"""
    bad = []
    for fn in ('TransformationManager.h', 'TransformationManager.cpp'):
        src = strip_comments_strings(open(os.path.join(CD, fn)).read())
        for m in re.finditer(r'\b(TransformationCounter|ToCounter)\s*(=(?!=)|\+\+|--|[-+*/|&^%]=|<<=|>>=)([^;]*);', src):
            stmt = ' '.join(m.group(0).split())
            if fn.endswith('.h') and stmt in ('TransformationCounter = Counter;', 'ToCounter = Counter;'):
                continue
            bad.append(f'{fn}: {stmt}')
        for m in re.finditer(r'(\+\+|--)\s*(TransformationCounter|ToCounter)\b', src):
            bad.append(f'{fn}: {m.group(0)}')
    cpp = strip_comments_strings(open(os.path.join(CD, 'TransformationManager.cpp')).read())
    hand = [' '.join(x.split()) for x in re.findall(r'CurrentTransformationImpl\s*->\s*set(?:Transformation|To)Counter\s*\([^)]*\)', cpp)]
    want = ['CurrentTransformationImpl->setTransformationCounter(TransformationCounter)', 'CurrentTransformationImpl->setToCounter(ToCounter)']
    if sorted(hand) != sorted(want):
        bad.append('TransformationManager.cpp: hand-over ' + ' / '.join(hand))
    return bad


def unit_handler_stops():
    """`bool X::HandleTopLevelDecl(...)` returning anything but true: clang stops parsing then and HandleTranslationUnit
    (which holds the protocol clauses) is never called"""
    bad = []
    for f in sorted(glob.glob(os.path.join(CD, '*.cpp'))):
        src = strip_comments_strings(open(f).read())
        for m in re.finditer(r'\bbool\s+[\w:<>]*::HandleTopLevelDecl\s*\([^)]*\)\s*\{', src):
            i = m.end()
            depth = 1
            while i < len(src) and depth:
                depth += {'{': 1, '}': -1}.get(src[i], 0)
                i += 1
            body = src[m.end():i]
            rets = [' '.join(r.split()) for r in re.findall(r'\breturn\b([^;]*);', body)]
            if not rets:
                bad.append(f'{os.path.basename(f)}: HandleTopLevelDecl has no return')
            for r in rets:
                if r != 'true':
                    bad.append(f'{os.path.basename(f)}: HandleTopLevelDecl returns {r}')
    return bad


def warn_supported():
    """the transformations the tool's own help text names as supporting --warn-on-counter-out-of-bounds"""
    src = open(os.path.join(CD, 'ClangDelta.cpp')).read()
    m = re.search(r'"\s*--warn-on-counter-out-of-bounds:\s*"(.*?)<<\s*"\\n"', src, flags=re.DOTALL)
    if not m:
        raise TranslatorError('ClangDelta.cpp: help text of --warn-on-counter-out-of-bounds not found')
    text = ''.join(re.findall(r'"((?:[^"\\]|\\.)*)"', m.group(1)))
    m2 = re.search(r'\(([^()]*) (?:is|are) supported\)', text)
    if not m2:
        raise TranslatorError(f'ClangDelta.cpp: help text of --warn-on-counter-out-of-bounds does not list the supported transformations: {text!r}')
    names = [w for w in re.split(r'[\s,]+', m2.group(1)) if w and w != 'and']
    known = {r[0] for r in registrations()}
    for w in names:
        if w not in known:
            raise TranslatorError(f'ClangDelta.cpp: help text names {w!r}, which is not a registered transformation')
    return names


def counter_validity_table():
    """Transformation::checkCounterValidity() evaluated for the 8 combinations of (counter > instances,
    to-counter > instances, warn flag): -> rows (c, t, w, returns_false, sets_max_instance_error).
    The skeletons treat `!checkCounterValidity()` as an atomic condition; this table ties that assumption to the source."""
    src = strip_comments_strings(open(os.path.join(CD, 'Transformation.cpp')).read())
    m = re.search(r'bool\s+Transformation::checkCounterValidity\s*\(\s*\)\s*\{', src)
    if not m:
        raise TranslatorError('Transformation::checkCounterValidity not found')
    b0 = m.end() - 1
    body = src[b0 + 1:match_close(src, b0, '{', '}')]
    if re.search(r'\b(for|while|do|switch|goto)\b', body):
        raise TranslatorError('checkCounterValidity: unsupported control flow')

    def parse(s):
        items, i = [], 0
        while i < len(s):
            if s[i].isspace() or s[i] == ';':
                i += 1
                continue
            if s[i] == '{':
                j = match_close(s, i, '{', '}')
                items.append(('block', parse(s[i + 1:j])))
                i = j + 1
                continue
            mm = re.compile(r'if\s*\(').match(s, i)
            if mm:
                p1 = match_close(s, mm.end() - 1, '(', ')')
                cond = re.sub(r'\s+', '', s[mm.end():p1])
                k = p1 + 1
                while s[k].isspace():
                    k += 1
                if s[k] == '{':
                    j = match_close(s, k, '{', '}')
                    th = parse(s[k + 1:j])
                    k = j + 1
                else:
                    j = s.index(';', k)
                    th = parse(s[k:j + 1])
                    k = j + 1
                el = []
                k2 = k
                while k2 < len(s) and s[k2].isspace():
                    k2 += 1
                if s.startswith('else', k2):
                    k2 += 4
                    while s[k2].isspace():
                        k2 += 1
                    if s[k2] == '{':
                        j = match_close(s, k2, '{', '}')
                        el = parse(s[k2 + 1:j])
                        k = j + 1
                    else:
                        j = s.index(';', k2)
                        el = parse(s[k2:j + 1])
                        k = j + 1
                items.append(('if', cond, th, el))
                i = k
                continue
            j = s.index(';', i)
            items.append(('stmt', re.sub(r'\s+', '', s[i:j])))
            i = j + 1
        return items

    prog = parse(body)
    CONDS = {'TransformationCounter>ValidInstanceNum': 'c', 'ToCounter>ValidInstanceNum': 't', 'WarnOnCounterOutOfBounds': 'w'}

    def run(items, env, st):
        for it in items:
            if st['ret'] is not None:
                return
            if it[0] == 'block':
                run(it[1], env, st)
            elif it[0] == 'if':
                if it[1] not in CONDS:
                    raise TranslatorError(f'checkCounterValidity: condition {it[1]!r}')
                run(it[2] if env[CONDS[it[1]]] else it[3], env, st)
            else:
                e = it[1]
                if e == 'returntrue':
                    st['ret'] = True
                elif e == 'returnfalse':
                    st['ret'] = False
                elif e == 'TransError=TransMaxInstanceError':
                    st['err'] = True
                elif e == 'TransformationCounter=ValidInstanceNum':
                    env['c'] = False        # clamped
                elif e == 'ToCounter=ValidInstanceNum':
                    env['t'] = False
                elif e.startswith('cerr<<'):
                    pass
                else:
                    raise TranslatorError(f'checkCounterValidity: statement {e!r}')
    rows = []
    for c in (False, True):
        for t in (False, True):
            for w in (False, True):
                st = {'ret': None, 'err': False}
                run(prog, {'c': c, 't': t, 'w': w}, st)
                if st['ret'] is None:
                    raise TranslatorError('checkCounterValidity: falls off the end')
                rows.append((c, t, w, st['ret'] is False, st['err']))
    return rows


def built_sources():
    """the .cpp files that are compiled into clang_delta: the add_executable(clang_delta ...) list of CMakeLists.txt
    (a registration in a file that is not linked does not exist in the tool)"""
    p = os.path.join(CD, 'CMakeLists.txt')
    txt = re.sub(r'#[^\n]*', '', open(p).read())
    ms = re.findall(r'add_executable\s*\(\s*clang_delta\b([^)]*)\)', txt)
    if len(ms) != 1:
        raise TranslatorError(f'{p}: expected exactly one add_executable(clang_delta ...)')
    body = ms[0]
    if '$<' in body or re.search(r'\$\{(?!(CMAKE|PROJECT)_BINARY_DIR\})', body):
        raise TranslatorError(f'{p}: add_executable(clang_delta ...) uses variables or generator expressions')
    files = [w for w in body.split() if w.endswith('.cpp') and not w.startswith('$')]
    for w in files:
        if not os.path.exists(os.path.join(CD, w)):
            raise TranslatorError(f'{p}: lists {w}, which does not exist')
    return set(files)


def registrations():
    regs = []
    built = built_sources()
    for f in sorted(glob.glob(os.path.join(CD, '*.cpp'))):
        if os.path.basename(f) not in built:
            continue
        src = strip_comments_strings(open(f).read(), keep_strings=True)
        ms = re.findall(r'static\s+RegisterTransformation\s*<\s*(\w+)\s*(?:,\s*[\w:]+\s*)?>\s*(\w+)\s*\(\s*"([^"]+)"\s*,', src)
        if 'RegisterTransformation' in src and os.path.basename(f) not in ('TransformationManager.cpp',) and not ms:
            raise TranslatorError(f'{f}: RegisterTransformation in an unrecognised form')
        for cls, var, name in ms:
            regs.append((name, cls, os.path.basename(f)))
    return regs


def multi_flag(cls):
    h = os.path.join(CD, cls + '.h')
    if not os.path.exists(h):
        raise TranslatorError(f'no header for class {cls}')
    src = strip_comments_strings(open(h).read())
    m = re.search(re.escape(cls) + r'\s*\(\s*const\s+char\s*\*\s*\w+\s*,\s*const\s+char\s*\*\s*\w+\s*(?:,[^)]*)?\)\s*:\s*Transformation\s*\(([^)]*)\)', src)
    if not m:
        raise TranslatorError(f'{cls}.h: constructor not recognised')
    args = [a.strip() for a in m.group(1).split(',')]
    if len(args) == 2:
        return False
    if len(args) == 3 and args[2] in ('true', 'false'):
        return args[2] == 'true'
    raise TranslatorError(f'{cls}.h: Transformation(...) arguments not recognised: {args}')


def htu_body(cls):
    cpp = cls + '.cpp'
    src = strip_comments_strings(open(os.path.join(CD, cpp)).read())
    m = re.search(r'void\s+' + re.escape(cls) + r'::HandleTranslationUnit\s*\([^)]*\)\s*\{', src)
    if not m:
        raise TranslatorError(f'{cpp}: HandleTranslationUnit not found')
    b0 = m.end() - 1
    b1 = match_close(src, b0, '{', '}')
    return cpp, src[b0 + 1:b1]


def conventions():
    c = {}
    cd = strip_comments_strings(open(os.path.join(CD, 'ClangDelta.cpp')).read(), keep_strings=True)
    m = re.search(r'static\s+void\s+DieOnBadCmdArg[^{]*\{(.*?)\n\}', cd, re.S)
    e = re.search(r'exit\s*\(\s*(-?\d+)\s*\)', m.group(1)) if m else None
    if not e:
        raise TranslatorError('DieOnBadCmdArg exit code not found')
    c['exit_generic'] = int(e.group(1)) % 256
    tm = strip_comments_strings(open(os.path.join(CD, 'TransformationManager.cpp')).read(), keep_strings=True)
    m = re.search(r'int\s+TransformationManager::ErrorInvalidCounter\s*=\s*(\d+)\s*;', tm)
    if not m:
        raise TranslatorError('ErrorInvalidCounter not found')
    c['exit_invalid_counter'] = int(m.group(1))
    msgs = re.findall(r'<<\s*"(Available transformation instances: )"', tm)
    if len(msgs) != 2:
        raise TranslatorError('count messages not found twice in TransformationManager.cpp')
    c['count_msg'] = msgs[0]
    m = re.search(r'static\s+void\s+Die\s*\([^)]*\)\s*\{(.*?)\n\}', cd, re.S)
    if not m or 'exit(ErrorCode)' not in re.sub(r'\s+', '', m.group(1)):
        raise TranslatorError('Die() does not exit(ErrorCode)')
    if not re.search(r'static\s+int\s+ErrorCode\s*=\s*-1\s*;', cd):
        raise TranslatorError('initial ErrorCode is not -1')
    dh = open(os.path.join(REPO, 'clex/defs.h')).read()
    c['clex_ok'] = int(re.search(r'#define\s+OK\s+(\d+)', dh).group(1))
    c['clex_stop'] = int(re.search(r'#define\s+STOP\s+(\d+)', dh).group(1))
    return c


def skeleton_of(name, cls, mut):
    """(number of opaque conditions, Coq term) of one registered transformation"""
    cpp, body = htu_body(cls)
    tu = TU(cpp, mut)
    sk = Skel(tu, body, cls)
    term = sk.stmts(body)
    for cb in ('HandleTopLevelDecl', 'Initialize', 'HandleTagDeclDefinition', 'HandleInlineFunctionDefinition'):
        bodies = tu.defs.get((cls, cb), [])
        if bodies:
            rw = any(tu.text_may_rewrite(b, cls=cls) for b in bodies)
            term = f'(SSeq (SEffect {"true" if rw else "false"}) {term})'
    return sk.nopaque, term


def generate():
    _FILE_CACHE.clear()
    regs = registrations()
    mut, _all = mutating_helpers()
    out = ['(* GENERATED by tools/gen/clangdelta.py from clang_delta/*.{cpp,h}, clex/defs.h — do not edit *)',
           'From Coq Require Import List String ZArith.', 'Import ListNotations.', 'Open Scope string_scope.',
           'From CV Require Import ClangDelta.Skeleton.', '']
    rows, sk_rows = [], []
    stats = {'registrations': len(regs), 'opaque_max': 0}
    for name, cls, f in regs:
        multi = multi_flag(cls)
        rows.append('(%s, %s, %s)' % (coq_string(name), coq_string(cls), 'true' if multi else 'false'))
        cpp, body = htu_body(cls)
        tu = TU(cpp, mut)
        sk = Skel(tu, body, cls)
        term = sk.stmts(body)
        # the other ASTConsumer callbacks of the class run before HandleTranslationUnit
        for cb in ('HandleTopLevelDecl', 'Initialize', 'HandleTagDeclDefinition', 'HandleInlineFunctionDefinition'):
            bodies = tu.defs.get((cls, cb), [])
            if bodies:
                rw = any(tu.text_may_rewrite(b, cls=cls) for b in bodies)
                term = f'(SSeq (SEffect {"true" if rw else "false"}) {term})'
        stats['opaque_max'] = max(stats['opaque_max'], sk.nopaque)
        sk_rows.append('(%s, %d, %s)' % (coq_string(name), sk.nopaque, term))
    out.append('Definition registrations : list (string * string * bool) := ' + coq_list(rows) + '.')
    out.append('Definition skeletons : list (string * nat * stmt) := ' + coq_list(sk_rows) + '.')
    c = conventions()
    out.append(f'Definition cxx_exit_generic : Z := {c["exit_generic"]}%Z.')
    out.append(f'Definition cxx_exit_invalid_counter : Z := {c["exit_invalid_counter"]}%Z.')
    out.append(f'Definition cxx_count_msg : string := {coq_string(c["count_msg"])}.')
    out.append(f'Definition clex_ok : Z := {c["clex_ok"]}%Z.')
    out.append(f'Definition clex_stop : Z := {c["clex_stop"]}%Z.')
    out.append('Definition mutating_helpers : list string := ' + coq_list([coq_string(x) for x in sorted(mut)]) + '.')
    out.append('Definition conditional_registrations : list string := ' + coq_list([coq_string(x) for x in conditional_registrations()], 'string') + '.')
    b = lambda v: 'true' if v else 'false'
    out.append('(* Transformation::checkCounterValidity: (counter > instances, to-counter > instances, warn, returns false, sets TransMaxInstanceError) *)')
    out.append('Definition counter_validity_table : list (bool * bool * bool * bool * bool) := '
               + coq_list(['(%s, %s, %s, %s, %s)' % tuple(b(x) for x in r) for r in counter_validity_table()]) + '.')
    out.append('(* writes to the counters inside the manager (besides setters / initialisers / the hand-over) and consumers that stop the parse early *)')
    out.append('Definition manager_counter_writes : list string := ' + coq_list([coq_string(x) for x in manager_counter_writes()], 'string') + '.')
    out.append('Definition unit_handler_stops : list string := ' + coq_list([coq_string(x) for x in unit_handler_stops()], 'string') + '.')
    out.append('(* the transformations that the help text of --warn-on-counter-out-of-bounds names as supporting it *)')
    out.append('Definition warn_supported : list string := ' + coq_list([coq_string(x) for x in warn_supported()], 'string') + '.')
    dn, dterm = driver_skeleton()
    out.append(f'(* TransformationManager::doTransformation: effects = opening / writing the output *)\nDefinition driver_skeleton : nat * stmt := ({dn}, {dterm}).')
    write_if_changed('ClangDelta.v', '\n'.join(out) + '\n')
    stats['mutating_helpers'] = len(mut)
    return stats
