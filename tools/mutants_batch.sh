#!/bin/bash
# run inside a `vp run --with-repo` snapshot: evaluates every seeded candidate listed on stdin
# lines: <src_dir> <n> <name> <props...>
cd "$(dirname "$0")/.."
export VERIF_REPO="${VP_RUN_REPO:-/repo}"
./check --setup >/dev/null 2>&1
while read -r src n name props; do
  [ -z "$src" ] && continue
  echo "=== $name"
  python3 tools/mutant.py "$src" "$n" "$name" $props 2>&1 | tail -8
done
