"""Instrumented interestingness test for real-pool runs: evaluates the scenario's rules on the
files of its cwd, appends (pid, cwd, manifest, verdict) to the log, then applies the verdict:
exit code, SIGKILL to itself (negative codes), or a hang (optionally after forking a child)."""
import hashlib
import json
import os
import signal
import subprocess
import sys
import time

sys.path.insert(0, os.path.dirname(os.path.dirname(os.path.abspath(__file__))))


def main():
    spec = json.load(open(sys.argv[1]))
    names = spec['names']
    contents = []
    for n in names:
        try:
            with open(n, 'rb') as f:
                contents.append(f.read())
        except OSError:
            contents.append(b'')
    from vlib.scriptpass import run_rules
    rules = [([tuple(a) for a in atoms], out) for atoms, out in spec['rules']]
    out = run_rules(rules, contents)
    manifest = {}
    for dp, dns, fns in os.walk('.'):
        for fn in fns:
            p = os.path.join(dp, fn)
            with open(p, 'rb') as f:
                manifest[os.path.relpath(p, '.')] = hashlib.sha1(f.read()).hexdigest()
    child = None
    if out == 'timeout' and spec.get('fork_on_hang'):
        # a helper the test starts for its real work; with 'setsid' in a session / process group of its own (timeout(1), setsid(1), job control)
        if spec.get('fork_on_hang') == 'term-proof':
            # a helper that ignores SIGTERM (an ignored signal stays ignored across exec)
            child = subprocess.Popen(['sh', '-c', 'trap "" TERM; exec sleep 300']).pid
        else:
            child = subprocess.Popen(['sleep', '300'], start_new_session=(spec.get('fork_on_hang') == 'setsid')).pid
    rec = {'pid': os.getpid(), 'cwd': os.getcwd(), 'manifest': manifest, 'verdict': out, 'child': child,
           'contents': [c.decode('latin-1') for c in contents]}
    with open(spec['log'], 'a') as f:
        f.write(json.dumps(rec) + '\n')
    if spec.get('noise'):
        # a noisy test: bytes that are not valid UTF-8, and a lot of them
        sys.stdout.buffer.write(b'\xff\xfe noisy \xc3\x28\n' * int(spec.get('noise')))
        sys.stdout.buffer.flush()
        sys.stderr.buffer.write(b'\x80\x81 stderr noise\n' * int(spec.get('noise')))
        sys.stderr.buffer.flush()
    if out == 'timeout':
        if spec.get('hang_writes'):
            # a hanging test that keeps producing files in its directory (a build that never finishes)
            for k in range(30000):
                try:
                    with open('obj-%d.tmp' % k, 'w') as f:
                        f.write('x')
                except OSError:
                    pass
                time.sleep(0.005)
        time.sleep(300)
        sys.exit(1)
    if out == 'slow0':
        # interesting, but only after a while
        subprocess.call(['sleep', str(spec.get('slow_s', 1.2))])
        sys.exit(0)
    if out == 'slow':
        # a test that takes a while but finishes on its own, well inside the timeout
        subprocess.call(['sleep', str(spec.get('slow_s', 1.2))])
        sys.exit(1)
    if isinstance(out, int) and out < 0:
        os.kill(os.getpid(), -out)
        time.sleep(5)
    sys.exit(out)


main()
