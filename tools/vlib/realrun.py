"""Real-pool runs: the genuine pebble ProcessPool, real subprocesses for the interestingness
test (tools/vlib/testscript.py), real timeouts.  Nondeterministic schedule: used for the
OS-level observations of C05 C08 C09 (not for model correspondence)."""
import json
import logging
import os
import shutil
import tempfile
import time

from vlib.driver import DEFAULT_CFG, mk_passes, snapshot_dir, EXC_CODES


class RealObs:
    pass


def pid_alive(pid):
    try:
        os.kill(pid, 0)
    except ProcessLookupError:
        return False
    except PermissionError:
        return True
    # a zombie child of ours still "exists": reap/inspect through /proc
    try:
        with open(f'/proc/{pid}/stat') as f:
            st = f.read().split(') ')[-1].split()[0]
        return st != 'Z'
    except OSError:
        return False


class SlowPutQueue:
    """the manager's queue as the workers see it when the registration message takes a while to get through (a loaded
    machine, the first use of the connection in a fresh worker): STARTED events are delayed, everything else is passed on"""

    def __init__(self, q, delay):
        self.q, self.delay = q, delay

    def put(self, ev):
        if getattr(getattr(ev, 'type', None), 'name', '') == 'STARTED':
            time.sleep(self.delay)
        self.q.put(ev)

    def get(self):
        return self.q.get()

    def empty(self):
        return self.q.empty()


def slow_manager(real_manager, delay):
    class M:
        def __init__(self):
            self.m = real_manager()

        def Queue(self):
            return SlowPutQueue(self.m.Queue(), delay)
    return M


def run_real(sc, base, timeout=2, fork_on_hang=False, passes=None, mode='each', slow_registration=None):
    from cvise.utils import testing, statistics
    from cvise.cvise import CVise

    cfg = dict(DEFAULT_CFG)
    cfg.update(sc.get('cfg', {}))
    work = tempfile.mkdtemp(prefix='rwork-', dir=base)
    tmpd = tempfile.mkdtemp(prefix='rtmp-', dir=base)
    names = [n for n, _ in sc['files']]
    for n, c in sc['files']:
        p = os.path.join(work, n)
        os.makedirs(os.path.dirname(p), exist_ok=True)
        with open(p, 'wb') as f:
            f.write(c.encode('latin-1') if isinstance(c, str) else c)
    spec = os.path.join(base, 'spec-%s.json' % os.path.basename(work))
    log = spec + '.log'
    with open(spec, 'w') as f:
        json.dump({'names': names, 'rules': sc['rules'], 'log': log, 'fork_on_hang': fork_on_hang, 'noise': sc.get('noise', 0), 'slow_s': sc.get('slow_s', 1.2), 'hang_writes': bool(sc.get('hang_writes'))}, f)
    script = os.path.join(work, 'test.sh')
    with open(script, 'w') as f:
        # the pid is noted by the shell at once (the instrumented test itself needs ~0.1 s to start): a test that is
        # abandoned right after its start is still known to the harness
        f.write('#!/bin/sh\necho $$ >> %s.pids\nexec /venv/bin/python %s %s\n' % (log, os.path.join(os.path.dirname(os.path.abspath(__file__)), 'testscript.py'), spec))
    os.chmod(script, 0o755)
    o = RealObs()
    o.names, o.work, o.tmpd = names, work, tmpd
    o.passes = []
    o.accepted = []
    old_cwd, old_tmp = os.getcwd(), tempfile.tempdir
    os.chdir(work)
    tempfile.tempdir = tmpd
    os.environ['TMPDIR'] = tmpd
    lvl = logging.root.manager.disable
    logging.disable(logging.CRITICAL)
    o.before = snapshot_dir(work)
    t0 = time.time()
    real_manager = testing.Manager
    if slow_registration:
        testing.Manager = slow_manager(real_manager, slow_registration)
    try:
        stats = statistics.PassStatistic()
        tm = testing.TestManager(stats, script, timeout, cfg['save_temps'], names, cfg['N'], cfg['no_cache'], True,
                                 cfg['silent'], cfg['die'], False, cfg['maximp'], cfg['nogiveup'], cfg['also'],
                                 None, cfg['skipn'], 1.0)
        tm.GIVEUP_CONSTANT = cfg['giveup']
        tm.MAX_TIMEOUTS = cfg['maxto']
        tm.MAX_CRASH_DIRS = cfg['maxcrash']
        tm.MAX_EXTRA_DIRS = cfg['maxextra']
        order = [str(p) for p in tm.test_cases]
        o.order = order

        def joint():
            res = []
            for n in names:
                with open(n, 'rb') as f:
                    res.append(f.read())
            return res

        orig_pr = tm.process_result

        def process_result(env):
            orig_pr(env)
            o.accepted.append(joint())

        tm.process_result = process_result
        ps = passes if passes is not None else mk_passes(sc['passes'])
        for p in ps:
            code, exc = 0, None
            try:
                tm.run_pass(p)
            except BaseException as e:
                exc = e
                code = EXC_CODES.get(type(e).__name__, 50)
                stats.last_pass_name = None
            o.passes.append(dict(pass_=repr(p), code=code, exc=exc, disk=joint(),
                                 leaked=sorted(x for x in os.listdir(tmpd) if not x.startswith('pymp-'))))
            if code:
                break
        o.stats = stats
    finally:
        testing.Manager = real_manager
        o.wall = time.time() - t0
        os.chdir(old_cwd)
        tempfile.tempdir = old_tmp
        os.environ['TMPDIR'] = old_tmp or '/tmp'
        logging.disable(lvl)
    o.after = snapshot_dir(work)
    o.log = []
    if os.path.exists(log):
        for line in open(log):
            try:
                o.log.append(json.loads(line))
            except ValueError:
                pass
    time.sleep(0.15)
    early = []
    if os.path.exists(log + '.pids'):
        for line in open(log + '.pids'):
            if line.strip().isdigit():
                early.append(int(line))
        os.remove(log + '.pids')
    o.started_pids = early
    known = {r['pid'] for r in o.log}
    o.alive = [r['pid'] for r in o.log if pid_alive(r['pid'])] + [r['child'] for r in o.log if r.get('child') and pid_alive(r['child'])] \
        + [pid for pid in early if pid not in known and pid_alive(pid)]
    for pid in o.alive:
        try:
            os.kill(pid, 9)
        except OSError:
            pass
    o.tmp_listing = sorted(x for x in os.listdir(tmpd) if not x.startswith('pymp-'))
    shutil.rmtree(work, ignore_errors=True)
    shutil.rmtree(tmpd, ignore_errors=True)
    for x in (spec, log):
        try:
            os.remove(x)
        except OSError:
            pass
    return o
