"""Runs /repo's cvise.py command line in this process with a chosen sys.platform (argv[1]) — the driver decides from
it whether the 'windows' pass option is active.  chardet (not installed here) and, after all imports, msvcrt (Windows only) are stubbed;
nothing else of the program is replaced."""
import os
import runpy
import sys
import types

for name in ('chardet',):
    try:
        __import__(name)
    except ImportError:
        sys.modules[name] = types.ModuleType(name)
repo = os.environ.get('VERIF_REPO', '/repo')
sys.path.insert(0, repo)
# everything the script imports is imported first, under the real platform (the standard library and the project's
# modules choose their own implementation from sys.platform at import time); only the script's own code sees argv[1]
import argparse, datetime, importlib.util, logging, os.path, platform, shutil, tempfile, time  # noqa: E401,E402
import psutil  # noqa: E402,F401
import cvise.cvise, cvise.passes.abstract, cvise.utils.misc, cvise.utils.statistics, cvise.utils.testing  # noqa: E401,E402,F401
import cvise.utils.error, cvise.utils.externalprograms  # noqa: E401,E402,F401
# the look-up of the helper programs (shutil.which) is done under the real platform and its result handed to the script
_found = cvise.utils.externalprograms.find_external_programs()
cvise.utils.externalprograms.find_external_programs = lambda: _found
sys.platform = sys.argv[1]
sys.modules.setdefault('msvcrt', types.ModuleType('msvcrt'))
sys.argv = [os.path.join(repo, 'cvise.py')] + sys.argv[2:]
runpy.run_path(sys.argv[0], run_name='__main__')
