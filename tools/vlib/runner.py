"""Generic flow of one property check (DESIGN 2.3):
regen -> build -> gate -> Print Assumptions -> correspondence + property oracle on the
implementation -> verdict (VIOLATION with replay / no-failing-input-found / KNOWN-FINDING)."""
import hashlib
import importlib
import json
import os
import re
import shutil
import sys
import time
import traceback

from vlib import coq

ROOT = os.environ.get('VERIF_ROOT', '/verif')
EVID = os.path.join(ROOT, 'evidence')
REPLAYS = os.path.join(ROOT, 'replays')
FINDINGS = os.path.join(ROOT, 'known_findings.txt')


class Violation:
    """A concrete failing input on the implementation."""

    def __init__(self, sig, what, replay):
        self.sig = sig  # stable signature used to match known findings
        self.what = what
        self.replay = replay  # JSON-able dict sufficient to re-run


class Ctx:
    def __init__(self, pid, tier, seed):
        self.pid = pid
        self.tier = tier
        self.seed = seed
        self.t0 = time.time()
        self.work = os.path.join(ROOT, '.work', f'{pid}-{os.getpid()}')
        shutil.rmtree(self.work, ignore_errors=True)
        os.makedirs(self.work)
        self.tmp = os.path.join(self.work, 'tmp')
        os.makedirs(self.tmp)
        os.environ['TMPDIR'] = self.tmp
        import tempfile

        tempfile.tempdir = self.tmp
        # accumulators
        self.broken = []  # (kind, name, detail): proof / translator / correspondence breaks
        self.violations = []
        self.evaluations = 0
        self.nontrivial = set()
        self.samples = []
        self.hist = {}
        self.notes = []
        self.assumptions = []
        self.trusted = []
        self.corr_cases = 0
        self.corr_disagree = 0
        self.obligations = 0
        self.discharged = 0
        self.extra = {}

    def quick(self):
        return self.tier == 'quick'

    def count(self, key, n=1):
        self.hist[key] = self.hist.get(key, 0) + n

    def sample(self, s, cap=6):
        if len(self.samples) < cap:
            self.samples.append(s)

    def nontriv(self, key):
        self.nontrivial.add(key if isinstance(key, (str, int, tuple)) else json.dumps(key, sort_keys=True, default=str))

    def broke(self, kind, name, detail=''):
        self.broken.append((kind, name, str(detail)[:4000]))

    def violation(self, sig, what, replay):
        self.violations.append(Violation(sig, what, replay))

    def cleanup(self):
        shutil.rmtree(self.work, ignore_errors=True)


def load_findings():
    known, fixed = [], []
    if os.path.exists(FINDINGS):
        for line in open(FINDINGS):
            line = line.strip()
            if not line or line.startswith('#'):
                continue
            m = re.match(r'^(finding|fixed):\s*property=(\S+)\s+(\S+)\s*(.*)$', line)
            if not m:
                continue
            if m.group(1) == 'finding':
                known.append({'property': m.group(2), 'sig': m.group(3), 'what': m.group(4)})
            else:
                fixed.append({'property': m.group(2), 'commit': m.group(3), 'what': m.group(4)})
    return known, fixed


def run_generators(ctx, mod):
    gens = getattr(mod, 'GENERATORS', [])
    for g in gens:
        try:
            gm = importlib.import_module('gen.' + g)
            gm.generate()
        except Exception as e:  # fail-closed translator = broken tie
            ctx.broke('translator', g, traceback.format_exc())


def proof_stage(ctx, mod):
    prop_file = f'Props/{ctx.pid}.v'
    names = coq.theorems_of(prop_file)
    ctx.obligations = len(names)
    problems = coq.gate()
    for p in problems:
        ctx.broke('gate', p)
    ok, log, secs = coq.build([prop_file + 'o'] + list(getattr(mod, 'COQ_TARGETS', [])))
    ctx.extra['build_s'] = round(secs, 1)
    if not ok:
        errs = re.findall(r'File "\./([^"]+)", line (\d+)[^\n]*\n(?:.*\n){0,6}?Error:([^\n]*(?:\n[^\n]+){0,3})', log)
        detail = '; '.join(f'{f}:{l}:{" ".join(e.split())[:300]}' for f, l, e in errs) or log[-1500:]
        ctx.broke('proof', prop_file, detail)
        ctx.discharged = 0
        ctx.extra['assumptions'] = {}
        return False
    res, err = coq.print_assumptions(f'Props.{ctx.pid}', names)
    allowed = set(getattr(mod, 'ALLOWED_AXIOMS', []))
    disc = 0
    rep = {}
    for n in names:
        axs = res.get(n)
        if axs is None:
            ctx.broke('proof', n, 'Print Assumptions failed: ' + err[-500:])
            continue
        rep[n] = axs if axs else 'Closed under the global context'
        bad = [a for a in axs if a not in allowed]
        if bad:
            ctx.broke('assumptions', n, 'depends on ' + ', '.join(bad))
        else:
            disc += 1
    ctx.discharged = disc
    ctx.extra['assumptions'] = rep
    if ctx.tier == 'thorough':
        # independent re-check of the compiled property library and everything it depends on
        import subprocess
        import time
        t0 = time.time()
        r = subprocess.run(['timeout', '1500', 'coqchk', '-silent', '-o', '-Q', '.', coq.LOGICAL, f'{coq.LOGICAL}.Props.{ctx.pid}'],
                           cwd=coq.COQ, capture_output=True, text=True)
        out = r.stdout + r.stderr
        m = re.search(r'\* Axioms:(.*?)\n\s*\n', out, re.S)
        axioms = ' '.join(m.group(1).split()) if m else None
        unsafe = re.findall(r'\* (Constants/Inductives relying on [^:]*|Inductives whose positivity is assumed): (?!<none>)([^\n]+)', out)
        ctx.extra['coqchk'] = {'exit': r.returncode, 'axioms': axioms, 'seconds': round(time.time() - t0, 1)}
        if r.returncode != 0 or axioms is None:
            ctx.broke('proof', 'coqchk', out[-800:])
        elif axioms != '<none>' or unsafe:
            ctx.broke('assumptions', 'coqchk', f'axioms: {axioms}; {unsafe}')
    return not problems and disc == len(names)


def write_replay(ctx, name, payload):
    os.makedirs(REPLAYS, exist_ok=True)
    blob = json.dumps(payload, sort_keys=True, indent=1, default=str)
    h = hashlib.sha1(blob.encode()).hexdigest()[:10]
    path = os.path.join(REPLAYS, f'{ctx.pid}-{name}-{h}.json')
    with open(path, 'w') as f:
        f.write(blob + '\n')
    return os.path.relpath(path, ROOT)


def write_evidence(ctx, mod, nviol):
    os.makedirs(EVID, exist_ok=True)
    tb = [
        'Coq 8.16.1 kernel + coqc; vm_compute (bytecode VM) used in table proofs and in model evaluation; no native_compute',
        'axioms (Print Assumptions): '
        + json.dumps(ctx.extra.get('assumptions', {}), sort_keys=True),
    ] + list(getattr(mod, 'TRUSTED', [])) + ctx.trusted
    cov = {
        'obligations': max(ctx.obligations, 0),
        'discharged': ctx.discharged,
        'checker_cmd': f'cd /verif/coq && make Props/{ctx.pid}.vo && coqc Print Assumptions script (tools/vlib/coq.py); thorough tier adds coqchk -o -Q . CV CV.Props.{ctx.pid}',
        'trusted_base': tb,
        'evaluations': ctx.evaluations,
        'distinct_nontrivial': len(ctx.nontrivial),
        'rule': getattr(mod, 'RULE', ''),
        'samples': ctx.samples or ['(no correspondence sample recorded)'],
        'correspondence_cases': ctx.corr_cases,
        'correspondence_disagreements': ctx.corr_disagree,
        'input_distribution': ctx.hist,
        'broken': [list(b) for b in ctx.broken],
        'theorems': coq.theorems_of(f'Props/{ctx.pid}.v') if os.path.exists(os.path.join(coq.COQ, f'Props/{ctx.pid}.v')) else [],
        'notes': ctx.notes,
    }
    cov.update({k: v for k, v in ctx.extra.items() if k not in ('assumptions',)})
    ev = {
        'property_id': ctx.pid,
        'tier': ctx.tier,
        'seed': ctx.seed,
        'level': 'proof',
        'coverage': cov,
        'assumptions': list(getattr(mod, 'ASSUMPTIONS', [])) + ctx.assumptions,
        'wall_s': round(time.time() - ctx.t0, 2),
        'violations': nviol,
    }
    with open(os.path.join(EVID, f'{ctx.pid}.json'), 'w') as f:
        json.dump(ev, f, indent=1, sort_keys=True, default=str)
        f.write('\n')


def run_check(pid, tier, seed, replay=None):
    import logging
    logging.getLogger().addHandler(logging.NullHandler())
    logging.disable(logging.CRITICAL)   # cvise logs through the root logger; the harness observes, it does not print
    mod = importlib.import_module('props.' + pid.lower())
    ctx = Ctx(pid, tier, seed)
    rc = 0
    try:
        if replay is not None:
            payload = json.load(open(replay))
            mod.replay(ctx, payload)
        else:
            run_generators(ctx, mod)
            proof_stage(ctx, mod)
            try:
                mod.explore(ctx)
            except Exception:
                ctx.broke('harness', 'explore', traceback.format_exc())
        known, _fixed = load_findings()
        known = [k for k in known if k['property'] == pid]
        reported = 0
        seen_known = set()
        seen_sig = set()
        for v in ctx.violations:
            k = next((k for k in known if k['sig'] == v.sig), None)
            if k is not None:
                if v.sig not in seen_known:
                    seen_known.add(v.sig)
                    print(f'KNOWN-FINDING: property={pid} {v.sig} {k["what"]}')
                continue
            if v.sig in seen_sig:
                continue
            seen_sig.add(v.sig)
            path = write_replay(ctx, re.sub(r'[^A-Za-z0-9_.-]', '_', v.sig)[:40], {'property': pid, 'sig': v.sig, 'what': v.what, 'replay': v.replay})
            print(('# ' + v.what)[:600].replace('\n', ' '))
            print(f'VIOLATION property={pid} replay={path}')
            reported += 1
            rc = 1
        if reported == 0 and ctx.broken:
            payload = {
                'property': pid,
                'no_failing_input_found': True,
                'no_longer_checks': [{'kind': k, 'name': n, 'detail': d} for k, n, d in ctx.broken],
            }
            path = write_replay(ctx, 'unproved', payload)
            names = ', '.join(f'{k}:{n}' for k, n, _ in ctx.broken[:4])
            print(f'# no longer checks: {names}')
            print(f'VIOLATION property={pid} replay={path} no-failing-input-found')
            reported = 1
            rc = 1
        if replay is None:
            write_evidence(ctx, mod, reported)
        if rc == 0:
            print(f'OK property={pid} tier={tier} theorems={ctx.discharged}/{ctx.obligations} '
                  f'cases={ctx.evaluations} wall={time.time() - ctx.t0:.1f}s')
    finally:
        ctx.cleanup()
    return rc
