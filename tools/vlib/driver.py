"""Run driver scenarios on the REAL TestManager / CVise (under the scheduler shim) and print the
same scenarios as Coq terms for coq/Driver/Script.v."""
import hashlib
import json
import os
import shutil
import stat
import sys
import tempfile

from vlib import shim
from vlib.scriptpass import ScriptPass, run_rules, coq_pass, coq_rules, coq_content

EXC_CODES = {'PassBugError': 1, 'AssertionError': 2, 'ZeroSizeError': 3, 'InsaneTestCaseError': 4}

DEFAULT_CFG = dict(N=2, no_cache=True, silent=False, die=False, maximp=None, nogiveup=False, also=None,
                   skipn=None, save_temps=False, giveup=50000, maxto=20, maxcrash=10, maxextra=25000)


def mk_passes(specs):
    return [ScriptPass(s['key'], [tuple(o) for o in s['ops']], s.get('aos', 0), s.get('maxt'), s.get('newfix'), s.get('via_temp', False)) for s in specs]


class Obs:
    diverged = False
    scribble_leaks = None


class Diverged(BaseException):
    pass


def snapshot_dir(root):
    out = {}
    for dp, dns, fns in os.walk(root):
        for fn in fns:
            p = os.path.join(dp, fn)
            rel = os.path.relpath(p, root)
            try:
                with open(p, 'rb') as f:
                    data = f.read()
                out[rel] = (hashlib.sha1(data).hexdigest(), stat.S_IMODE(os.lstat(p).st_mode), data if len(data) < 4096 else None)
            except OSError:
                out[rel] = ('?', 0, None)
        for dn in dns:
            p = os.path.join(dp, dn)
            out[os.path.relpath(p, root) + '/'] = ('dir', stat.S_IMODE(os.lstat(p).st_mode), None)
    return out


def run_scenario(sc, base, fast=True, mode='each', real_passes=None, on_test=None, keep=False, quiet_logging=True, prepare=None):
    """Returns Obs with .out (flat ints, comparable with Script.sc_run_each / sc_reduce),
    .perm (model file index -> logical index), plus raw observations for the property oracles."""
    from cvise.utils import testing, statistics
    from cvise.cvise import CVise

    cfg = dict(DEFAULT_CFG)
    cfg.update(sc.get('cfg', {}))
    work = tempfile.mkdtemp(prefix='work-', dir=base)
    tmpd = tempfile.mkdtemp(prefix='tmpd-', dir=base)
    names = [n for n, _ in sc['files']]
    for n, c in sc['files']:
        p = os.path.join(work, n)
        os.makedirs(os.path.dirname(p), exist_ok=True)
        with open(p, 'wb') as f:
            f.write(c.encode('latin-1') if isinstance(c, str) else c)
    import math

    def dirname(prefix, i, mx):
        digits = int(round(math.log10(mx), 0))
        return ('{0}{1:0' + str(digits) + 'd}').format(prefix, i)

    for i in range(sc.get('bug0', 0)):
        os.mkdir(os.path.join(work, dirname('cvise_bug_', i, cfg['maxcrash'])))
    for i in range(sc.get('extra0', 0)):
        os.mkdir(os.path.join(work, dirname('cvise_extra_', i, cfg['maxextra'])))
    script = os.path.join(work, 'test.sh')
    rules = [([tuple(a) for a in atoms], out) for atoms, out in sc['rules']]
    testlog = []

    def read_joint(cwd):
        res = []
        for n in names:
            try:
                with open(os.path.join(cwd, n), 'rb') as f:
                    res.append(f.read())
            except OSError:
                res.append(None)
        return res

    def fast_test(cwd):
        contents = read_joint(cwd)
        out = run_rules(rules, [c if c is not None else b'' for c in contents])
        rc = shim.TIMEOUT_EXIT if out == 'timeout' else out
        manifest = {}
        for dp, dns, fns in os.walk(cwd):
            for fn in fns:
                fp = os.path.join(dp, fn)
                with open(fp, 'rb') as fh:
                    manifest[os.path.relpath(fp, cwd)] = fh.read()
        testlog.append((tuple(contents), rc, cwd, manifest))
        for n in names:
            if os.path.islink(os.path.join(cwd, n)):
                o.links_in_test_dir.append((n, cwd))
        if sc.get('scribble'):
            # a test that litters its directory and clobbers the other test cases in it
            with open(os.path.join(cwd, 'junk.tmp'), 'w') as fh:
                fh.write('junk')
            tm_ = getattr(o, 'tm', None)
            cur = str(getattr(tm_, 'current_test_case', '')) if tm_ is not None else ''
            for n in names:
                if sc['scribble'] != 'all' and (n == cur or 'cvise-sanity-' in cwd):
                    continue      # leave the candidate itself alone
                user = os.path.join(work, n)
                try:
                    with open(user, 'rb') as fh:
                        user_before = fh.read()
                except OSError:
                    user_before = None
                try:
                    with open(os.path.join(cwd, n), 'ab') as fh:
                        fh.write(b'#scribble')
                except OSError:
                    pass
                try:
                    with open(user, 'rb') as fh:
                        user_after = fh.read()
                except OSError:
                    user_after = None
                if user_after != user_before:
                    # a write inside the test's own directory changed the user's file (shared inode / same directory)
                    o.scribble_leaks.append((n, cwd))
                    if user_before is not None:
                        with open(user, 'wb') as fh:       # undo, so that the run stays comparable
                            fh.write(user_before)
        if sc.get('truncate') is not None and rc == 0 and 'cvise-sanity-' not in cwd:
            # a test that "cleans up" the candidate it was given (in its own directory) before saying yes
            tm_ = getattr(o, 'tm', None)
            cur = str(getattr(tm_, 'current_test_case', '')) if tm_ is not None else ''
            if cur:
                try:
                    with open(os.path.join(cwd, cur), 'rb') as fh:
                        data_ = fh.read()
                    with open(os.path.join(cwd, cur), 'wb') as fh:
                        fh.write(data_[:sc['truncate']])
                except OSError:
                    pass
        if out == 'norun':
            if 'cvise-sanity-' in cwd and not sc.get('sanity_fault'):
                return 1      # the fault is scripted for worker processes only (unless the scenario asks for it)
            raise OSError(11, 'scripted: the test process could not be started')
        return rc

    if fast:
        with open(script, 'w') as f:
            f.write('#!/bin/sh\nexit 1\n')
    else:
        spec = os.path.join(base, 'spec-%s.json' % os.path.basename(work))
        with open(spec, 'w') as f:
            json.dump({'names': names, 'rules': sc['rules'], 'log': spec + '.log'}, f)
        with open(script, 'w') as f:
            f.write('#!/bin/sh\nexec /venv/bin/python %s %s\n' % (os.path.join(os.path.dirname(os.path.abspath(__file__)), 'testscript.py'), spec))
    os.chmod(script, 0o755)

    o = Obs()
    o.scribble_leaks = []
    o.links_in_test_dir = []
    o.work, o.tmpd, o.names = work, tmpd, names
    o.accepted = []
    o.passes = []
    o.testlog = testlog
    old_cwd = os.getcwd()
    old_tmp = tempfile.tempdir
    os.chdir(work)
    tempfile.tempdir = tmpd
    os.environ['TMPDIR'] = tmpd
    if prepare:
        prepare(work)
    o.before = snapshot_dir(work)
    o.cwd_before = os.getcwd()
    o.cwd_after = None

    def note_cwd():
        # where the code under test left the process (recorded the first time it differs), then back to the working directory
        try:
            here = os.getcwd()
        except OSError:
            here = '<a directory that no longer exists>'
        if o.cwd_after is None and here != o.cwd_before:
            o.cwd_after = here
        os.chdir(work)
    old_stdin = sys.stdin
    if sc.get('keys'):
        # keys typed by the user while C-Vise runs ('s' = skip the rest of this pass, 'd' = toggle diffs): the key logger is on
        # and reads them from standard input
        rfd, wfd = os.pipe()
        os.write(wfd, sc['keys'].encode())
        os.close(wfd)
        sys.stdin = os.fdopen(rfd, 'r')
    orig_copyfile = shutil.copyfile
    if sc.get('copy_fault') is not None:
        # the k-th copy INTO a candidate / sanity folder creates the file and fails before writing (ENOSPC on a full /tmp)
        left = {'k': sc['copy_fault']}

        def copyfile(src, dst, *a, **kw):
            tm_ = getattr(o, 'tm', None)
            cur_ = str(getattr(tm_, 'current_test_case', '')) if tm_ is not None else ''
            is_cur = bool(cur_) and os.path.abspath(str(src)) == os.path.abspath(os.path.join(work, cur_))
            # (the file being reduced is overwritten by the transformation anyway: the fault is scripted for the other test cases)
            if os.path.abspath(str(dst)).startswith(tmpd + os.sep) and (not is_cur or len(names) == 1):
                left['k'] -= 1
                if left['k'] == 0:
                    en = sc.get('copy_fault_errno', 28)
                    if en == 28:
                        with open(dst, 'wb'):
                            pass      # created, nothing written yet
                        raise OSError(28, 'scripted: No space left on device')
                    raise OSError(en, 'scripted: the copy is refused')      # 13 / 1: PermissionError before anything is created
            return orig_copyfile(src, dst, *a, **kw)

        shutil.copyfile = copyfile
    try:
        with shim.installed(sc.get('sched', []), fast_test if fast else None, quiet_logging=quiet_logging) as st:
            if on_test:
                st.on_test = on_test
            st.max_scheduled = sc.get('max_scheduled', 60000)
            o.shim = st
            stats = statistics.PassStatistic()
            try:
                tm = testing.TestManager(stats, script, 10, cfg['save_temps'], names, cfg['N'], cfg['no_cache'], not sc.get('keys'),
                                         cfg['silent'], cfg['die'], False, cfg['maximp'], cfg['nogiveup'], cfg['also'],
                                         (None if sc.get('start_with_key') is None else 'ScriptPass::%d' % sc['start_with_key']), cfg['skipn'], sc.get('stopping_threshold', 1.0))
            except Exception as e:
                o.ctor_exc = e
                o.out = [50]
                return o
            st.test_script = str(tm.test_script)
            tm.GIVEUP_CONSTANT = cfg['giveup']
            tm.MAX_TIMEOUTS = cfg['maxto']
            tm.MAX_CRASH_DIRS = cfg['maxcrash']
            tm.MAX_EXTRA_DIRS = cfg['maxextra']
            o.tm = tm
            if sc.get('skip_check'):
                # as cvise.py does for --skip-interestingness-test-check: the reducer object is built around the manager
                from cvise.cvise import CVise as _CV
                _CV(tm, True)
            order = [str(p) for p in tm.test_cases]        # set iteration order = model file index
            o.order = order
            o.perm = [names.index(n) for n in order]

            def joint():
                res = []
                for n in order:
                    with open(os.path.join(work, n), 'rb') as f:      # (not relative: the code under test may have moved the process)
                        res.append(f.read())
                return res

            orig_pr = tm.process_result

            o.accepted_before = []

            def process_result(env):
                o.accepted_before.append(joint())
                orig_pr(env)
                o.accepted.append(joint())
                if len(o.accepted) > sc.get('max_accepts', 120):
                    o.diverged = True
                    raise Diverged()

            tm.process_result = process_result
            o.disk0 = joint()

            def counts():
                # report directories anywhere below the working directory (they belong at its top level)
                b = x = 0
                for _dp, dns, _fns in os.walk(work):
                    b += len([d_ for d_ in dns if d_.startswith('cvise_bug_')])
                    x += len([d_ for d_ in dns if d_.startswith('cvise_extra_')])
                return (b, x)

            def stat_of(p):
                s = stats.stats.get(repr(p))
                return (s.worked, s.failed, s.totally_executed) if s else (0, 0, 0)

            if sc.get('setup_delay'):
                # work done between creating the statistics object and starting the clock of the run (cvise.py: --to-utf8,
                # writing the --commands script, probing colordiff)
                import time as _t
                _t.sleep(sc['setup_delay'])
            import time as _t
            o.t_run0 = _t.monotonic()
            passes = real_passes if real_passes is not None else mk_passes(sc.get('passes', []))
            o.pass_objs = passes
            out = []
            if mode == 'each':
                for p in passes:
                    w0, f0, e0 = stat_of(p)
                    a0 = len(o.accepted)
                    t0_ = len(testlog)
                    code = 0
                    exc = None
                    try:
                        tm.run_pass(p)
                    except BaseException as e:  # SystemExit from the KeyboardInterrupt path included
                        exc = e
                        code = EXC_CODES.get(type(e).__name__, 50)
                        if isinstance(e, shim.Budget):
                            o.diverged = True
                        # the statistics object refuses the next start() after an aborted pass
                        stats.last_pass_name = None
                    note_cwd()
                    w1, f1, e1 = stat_of(p)
                    b, x = counts()
                    d = joint()
                    leaked = sorted(os.listdir(tmpd))
                    o.passes.append(dict(pass_=repr(p), code=code, exc=exc, worked=w1 - w0, failed=f1 - f0,
                                         executed=e1 - e0, bug=b, extra=x, disk=d, acc=o.accepted[a0:], acc_before=o.accepted_before[a0:], leaked=leaked,
                                         test_codes=[rc_ for (_c, rc_, _w, _l) in testlog[t0_:]],
                                         futures=len(getattr(tm, 'futures', []) or []),
                                         folders=len(getattr(tm, 'temporary_folders', {}) or {})))
                    out += [code, w1 - w0, f1 - f0, e1 - e0, b, x] + enc_disk(d) + [len(o.accepted[a0:])]
                    for dd in o.accepted[a0:]:
                        out += enc_disk(dd)
                    if code != 0:
                        break
            else:
                grp = sc['group']
                pg = {k: mk_passes(grp.get(k, [])) for k in ('first', 'main', 'last')}
                cv = CVise(tm, bool(sc.get('skip_check')))
                code = 0
                o.after_pass = []
                orig_rp = tm.run_pass

                def run_pass(p):
                    if len(o.after_pass) > sc.get('max_passes', 400):
                        # cached passes replay without scheduling anything: bound the main loop itself
                        o.diverged = True
                        raise Diverged()
                    try:
                        orig_rp(p)
                    finally:
                        o.after_pass.append((repr(p), joint(), sorted(os.listdir(tmpd))))

                tm.run_pass = run_pass
                try:
                    cv.reduce(pg, bool(sc.get('skip_initial')))      # --skip-initial-passes: the 'first' category is not run
                except BaseException as e:
                    o.exc = e
                    code = EXC_CODES.get(type(e).__name__, 50)
                    if isinstance(e, shim.Budget):
                        o.diverged = True
                note_cwd()
                b, x = counts()
                d = joint()
                o.final = d
                o.code = code
                o.leaked = sorted(os.listdir(tmpd))
                out = [code, b, x] + enc_disk(d) + [len(o.accepted)]
                for dd in o.accepted:
                    out += enc_disk(dd)
            o.out = out
            o.t_run = _t.monotonic() - o.t_run0
            o.sched_used = st.sched.pos
            o.stats = stats
    finally:
        shutil.copyfile = orig_copyfile
        if sys.stdin is not old_stdin:
            try:
                sys.stdin.close()
            except OSError:
                pass
            sys.stdin = old_stdin
        if o.cwd_after is None:
            try:
                o.cwd_after = os.getcwd()
            except OSError:
                o.cwd_after = '<a directory that no longer exists>'
        os.chdir(old_cwd)
        tempfile.tempdir = old_tmp
        os.environ['TMPDIR'] = old_tmp or '/tmp'
        o.after = snapshot_dir(work)
        o.tmp_listing = sorted(os.listdir(tmpd))
        if not keep:
            shutil.rmtree(work, ignore_errors=True)
            shutil.rmtree(tmpd, ignore_errors=True)
    return o


def enc_content(b):
    return [len(b)] + list(b)


def enc_disk(d):
    out = [len(d)]
    for c in d:
        out += enc_content(c)
    return out


def coq_scenario(sc, perm, mode='each'):
    """Scenario as a Coq `scenario` term, files in model order (perm: model index -> logical index)."""
    cfg = dict(DEFAULT_CFG)
    cfg.update(sc.get('cfg', {}))
    inv = {logical: model for model, logical in enumerate(perm)}

    def optz(v):
        return 'None' if v is None else f'(Some ({v})%Z)'

    def b(v):
        return 'true' if v else 'false'

    g = (f'(mkcfg {cfg["N"]} {b(cfg["silent"])} {b(cfg["die"])} {optz(cfg["maximp"])} {b(cfg["nogiveup"])} '
         f'{optz(cfg["also"])} {cfg["giveup"]} {cfg["maxto"]} {cfg["maxcrash"]} {cfg["maxextra"]})')
    from fractions import Fraction
    fr = Fraction(sc.get('stopping_threshold', 1.0))
    thr = (fr.numerator, fr.denominator)
    rc = f'(mkrcfg {g} {b(cfg["no_cache"])} {cfg["skipn"] or 0} {b(cfg["save_temps"])} ({thr[0]})%Z ({thr[1]})%Z {sc.get("fuel", 60)})'
    rules = [([((a[0], inv[a[1]]) + tuple(a[2:])) for a in atoms], out) for atoms, out in sc['rules']]
    disk = '[' + '; '.join(coq_content(sc['files'][l][1]) for l in perm) + ']'
    sch = '[' + ';'.join(str(x) for x in sc.get('sched', [])) + ']' if sc.get('sched') else '(@nil nat)'

    def plist(specs):
        ps = mk_passes(specs)
        return '[' + '; '.join(coq_pass(p) for p in ps) + ']' if ps else '(@nil spass)'

    start = 'None' if sc.get('start_with_key') is None else f'(Some {sc["start_with_key"] * 1000}%N)'
    if mode == 'each':
        first, main, last = '(@nil spass)', plist(sc['passes']), '(@nil spass)'
    else:
        grp = sc['group']
        first, main, last = plist(grp.get('first', [])), plist(grp.get('main', [])), plist(grp.get('last', []))
    return (f'(mksc {rc} {coq_rules(rules)} {first} {main} {last} {disk} {sch} {sc.get("bug0", 0)} {sc.get("extra0", 0)} {start})')
