"""Coq side of the pipeline: project file, build, forbidden-word gate, Print Assumptions,
and evaluation of model definitions on harness-written cases (vm_compute inside coqc)."""
import fcntl
import glob
import os
import re
import subprocess
import time

ROOT = os.environ.get('VERIF_ROOT', '/verif')
COQ = os.path.join(ROOT, 'coq')
WORK = os.path.join(ROOT, '.work')
LOGICAL = 'CV'

FORBIDDEN = re.compile(
    r'\b(Admitted|admit|Axiom|Axioms|Parameter|Parameters|Conjecture|Conjectures|Hypothesis|Hypotheses|Variables?|'
    r'Unset\s+Guard|bypass_check|type-in-type|impredicative-set|Admit\s+Obligations|native_compute)\b'
)
# Variable/Hypothesis are allowed inside Sections only.
SECTION_ONLY = {'Variable', 'Variables', 'Hypothesis', 'Hypotheses'}

# Axioms of the standard library a theorem may depend on (none expected; listed for reporting).
STDLIB_AXIOMS = {
    'functional_extensionality_dep',
    'proof_irrelevance',
    'classic',
    'JMeq_eq',
    'Eqdep.Eq_rect_eq.eq_rect_eq',
    'eq_rect_eq',
    'propositional_extensionality',
}


class Lock:
    def __enter__(self):
        os.makedirs(COQ, exist_ok=True)
        self.f = open(os.path.join(COQ, '.lock'), 'w')
        fcntl.flock(self.f, fcntl.LOCK_EX)
        return self

    def __exit__(self, *a):
        fcntl.flock(self.f, fcntl.LOCK_UN)
        self.f.close()


def strip_comments(src):
    out = []
    depth = 0
    i = 0
    n = len(src)
    in_str = False
    while i < n:
        c = src[i]
        if depth == 0 and c == '"':
            in_str = not in_str
            out.append(c)
            i += 1
            continue
        if not in_str and src.startswith('(*', i):
            depth += 1
            i += 2
            continue
        if not in_str and depth > 0 and src.startswith('*)', i):
            depth -= 1
            i += 2
            continue
        if depth == 0:
            out.append(c)
        elif c == '\n':
            out.append('\n')
        i += 1
    return ''.join(out)


def v_files():
    fs = []
    for p in glob.glob(os.path.join(COQ, '**', '*.v'), recursive=True):
        rel = os.path.relpath(p, COQ)
        if rel.startswith('.'):
            continue
        fs.append(rel)
    return sorted(fs)


def gate():
    """Forbidden-word gate over every .v file of the development. Returns list of problems."""
    problems = []
    for rel in v_files():
        src = strip_comments(open(os.path.join(COQ, rel)).read())
        depth = 0
        for ln, line in enumerate(src.split('\n'), 1):
            if re.match(r'\s*Section\b', line):
                depth += 1
            for m in FORBIDDEN.finditer(line):
                w = m.group(1)
                if w in SECTION_ONLY:
                    if depth > 0:
                        continue
                problems.append(f'{rel}:{ln}: forbidden `{w}`')
            if re.match(r'\s*End\b', line) and depth > 0:
                depth -= 1
    return problems


def ensure_makefile():
    files = v_files()
    listing = '\n'.join(files) + '\n'
    lp = os.path.join(COQ, '.filelist')
    old = open(lp).read() if os.path.exists(lp) else None
    mk = os.path.join(COQ, 'Makefile')
    if old != listing or not os.path.exists(mk) or not os.path.exists(os.path.join(COQ, 'Makefile.conf')):
        with open(os.path.join(COQ, '_CoqProject'), 'w') as f:
            f.write(f'-Q . {LOGICAL}\n-arg -w -arg -notation-overridden,-deprecated-hint-without-locality,-deprecated-instance-without-locality\n')
            f.write(listing)
        r = subprocess.run(['coq_makefile', '-f', '_CoqProject', '-o', 'Makefile'], cwd=COQ, capture_output=True, text=True)
        if r.returncode != 0:
            raise RuntimeError('coq_makefile failed: ' + r.stderr)
        with open(lp, 'w') as f:
            f.write(listing)


def build(targets=None, timeout=1500, jobs=16):
    """make the given .vo targets (or everything). Returns (ok, log)."""
    with Lock():
        ensure_makefile()
        cmd = ['timeout', str(timeout), 'make', f'-j{jobs}', '-k']
        if targets:
            cmd += targets
        t0 = time.time()
        r = subprocess.run(cmd, cwd=COQ, capture_output=True, text=True)
        log = r.stdout + r.stderr
        return r.returncode == 0, log, time.time() - t0


def theorems_of(prop_file):
    """Names of the Theorems stated in Props/<file>.v (the property's obligation list)."""
    src = strip_comments(open(os.path.join(COQ, prop_file)).read())
    return re.findall(r'^\s*Theorem\s+([A-Za-z0-9_\']+)', src, re.M)


def coqc_script(name, text, timeout=600):
    """Compile a throw-away script against the built development; returns (rc, stdout+stderr)."""
    os.makedirs(WORK, exist_ok=True)
    d = os.path.join(WORK, f'coq-{name}-{os.getpid()}')
    os.makedirs(d, exist_ok=True)
    p = os.path.join(d, name + '.v')
    with open(p, 'w') as f:
        f.write(text)
    r = subprocess.run(
        ['bash', '-c', 'ulimit -s unlimited 2>/dev/null; exec timeout "$0" coqc -Q "$1" "$2" -w -all "$3"', str(timeout), COQ, LOGICAL, p],
        cwd=d,
        capture_output=True,
        text=True,
    )
    return r.returncode, r.stdout + r.stderr, d


def print_assumptions(prop_module, names):
    """Returns {theorem: [axioms]} ([] = closed under the global context), None if not checkable."""
    if not names:
        return {}
    lines = [f'From {LOGICAL} Require Import {prop_module}.']
    for n in names:
        lines.append(f'Redirect "assum_{n}" Print Assumptions {n}.')
    rc, out, d = coqc_script('assum', '\n'.join(lines) + '\n')
    res = {}
    for n in names:
        p = os.path.join(d, f'assum_{n}.out')
        if rc != 0 or not os.path.exists(p):
            res[n] = None
            continue
        txt = open(p).read()
        if 'Closed under the global context' in txt:
            res[n] = []
        else:
            axs = re.findall(r'^([A-Za-z_][\w\.\']*)\s*:', txt, re.M)
            res[n] = axs if axs else ['<unparsed: %s>' % txt.strip()[:200]]
    subprocess.run(['rm', '-rf', d])
    return res, (out if rc != 0 else '')


def eval_terms(name, imports, defs, terms, timeout=900):
    """Evaluate each Coq term with vm_compute; returns list of result strings (one per term).
    The harness controls all printing through Redirect so wrapped output is never parsed by position."""
    lines = list(imports) + ['Set Printing Width 1000000.', 'Set Printing Depth 1000000.'] + list(defs)
    for i, t in enumerate(terms):
        lines.append(f'Redirect "r{i}" Eval vm_compute in ({t}).')
    rc, out, d = coqc_script(name, '\n'.join(lines) + '\n', timeout=timeout)
    results = []
    try:
        if rc != 0:
            k = out.rfind('Error')
            raise RuntimeError('coqc failed on generated cases: ' + out[:300] + ' ... ' + out[max(0, k - 200):k + 1500])
        for i in range(len(terms)):
            txt = open(os.path.join(d, f'r{i}.out')).read()
            txt = ' '.join(txt.split())
            m = re.match(r'^= (.*) : [^:]*$', txt)
            results.append(m.group(1) if m else txt)
    finally:
        subprocess.run(['rm', '-rf', d])
    return results


def parse_nat_list(s):
    s = s.strip()
    if s in ('[]', 'nil'):
        return []
    assert s.startswith('[') and s.endswith(']'), s[:200]
    return [int(x.replace('%nat', '').replace('%Z', '').replace('%N', '').strip('() ')) for x in s[1:-1].split(';')]


# -- small helpers to print Python data as Coq terms ---------------------------------------
def zlit(n):
    return f'({n})%Z'


def nlit(n):
    return f'{n}%N'


def natlit(n):
    assert 0 <= n < 5000, n
    return f'{n}%nat'


def blit(b):
    return 'true' if b else 'false'


def lst(items):
    return '[' + '; '.join(items) + ']'


def opt(x, f=lambda v: v):
    return 'None' if x is None else f'(Some {f(x)})'


def text_lit(s):
    """Python str -> list N of code points."""
    return lst([f'{ord(c)}' for c in s]) + '%N' if s else '(@nil N)'


def zlist(xs):
    return '[' + ';'.join(str(int(x)) for x in xs) + ']%Z' if xs else '(@nil Z)'


def corr_eval(name, imports, fn, cases, shard=1200, timeout=900, defs=()):
    """cases: list of (coq_input_term, [int outputs observed on the implementation]).
    Evaluates `fn input` inside Coq for every case and returns the indices that differ."""
    from concurrent.futures import ThreadPoolExecutor

    shards = [cases[i:i + shard] for i in range(0, len(cases), shard)]

    def one(si):
        cs = shards[si]
        body = ';\n '.join(f'({inp}, {zlist(out)})' for inp, out in cs)
        d = [f'Definition cases := [\n {body}\n].']
        r = eval_terms(f'{name}{si}', list(imports) + ['From CV Require Import Base.Corr.',
                                                        'From Coq Require Import List ZArith NArith.', 'Import ListNotations.', 'Open Scope nat_scope.'],
                       list(defs) + d, [f'mismatches ({fn}) cases'], timeout=timeout)
        return [(si * shard + k) if k < 1000000 else -(si * shard + k - 1000000) - 1 for k in parse_nat_list(r[0])]

    bad = []
    LAST_FUEL.clear()
    with ThreadPoolExecutor(max_workers=8) as ex:
        for r in ex.map(one, range(len(shards))):
            for k in r:
                if k >= 0:
                    bad.append(k)
                else:
                    LAST_FUEL.append(-k - 1)   # the model ran out of fuel on this case: undecided, not a disagreement
    return bad


LAST_FUEL = []
