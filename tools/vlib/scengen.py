"""Scenario generators for the driver properties (C01 C02 C08 C09 C10 C16 C20).
Every random choice comes from the Random object passed in."""

ALPHA = 'abcxyz'


def gen_content(rnd, lo=1, hi=6):
    return ''.join(rnd.choice(ALPHA) for _ in range(rnd.randint(lo, hi)))


def gen_ops(rnd, n, profile, maxlen):
    ops = []
    for _ in range(n):
        r = rnd.random()
        if profile == 'contract':
            if r < 0.45:
                ops.append(('del', rnd.randint(0, maxlen)))
            elif r < 0.65:
                ops.append(('delch', rnd.choice(ALPHA)))
            elif r < 0.75:
                ops.append(('dup', rnd.randint(0, maxlen - 1)))
            elif r < 0.85:
                ops.append(('swap', rnd.randint(0, maxlen - 1)))
            elif r < 0.92:
                ops.append(('set', gen_content(rnd, 1, 4)))
            else:
                ops.append(('inval',))
        else:
            if r < 0.30:
                ops.append(('del', rnd.randint(0, maxlen)))
            elif r < 0.42:
                ops.append(('delch', rnd.choice(ALPHA)))
            elif r < 0.50:
                ops.append(('dup', rnd.randint(0, maxlen - 1)))
            elif r < 0.56:
                ops.append(('swap', rnd.randint(0, maxlen - 1)))
            elif r < 0.62:
                ops.append(('set', gen_content(rnd, 0, 4)))
            elif r < 0.72:
                ops.append(('same',))
            elif r < 0.80:
                ops.append(('inval',))
            elif r < 0.86:
                ops.append(('stop',))
            elif r < 0.93:
                ops.append(('err',))
            else:
                ops.append(('raise',))
    if profile == 'contract' and rnd.random() < 0.3:
        ops += [('stop',)] * rnd.randint(1, 2)   # STOP only as a terminal suffix
    return ops


def gen_rules(rnd, k, profile):
    rules = []
    nr = rnd.randint(1, 3)
    for i in range(nr):
        atoms = []
        for _ in range(rnd.randint(0, 2)):
            f = rnd.randrange(k)
            kind = rnd.choice(['has', 'has', 'nothas', 'lenge', 'lenlt'])
            if kind in ('has', 'nothas'):
                atoms.append((kind, f, rnd.choice(ALPHA)))
            else:
                atoms.append((kind, f, rnd.randint(0, 5)))
        if profile == 'contract':
            out = rnd.choice([0, 0, 0, 1, 2])
        else:
            out = rnd.choice([0, 0, 0, 1, 3, -9, 'timeout', 77, 'norun'])
        rules.append((atoms, out))
    if rnd.random() < 0.5:
        rules.append(([], 0 if rnd.random() < 0.6 else 1))
    return rules


def make_interesting(rnd, files, rules):
    """Prepend a rule so that the initial joint contents exit 0 (sanity check passes)."""
    from vlib.scriptpass import run_rules
    cs = [c.encode('latin-1') for _, c in files]
    if run_rules(rules, cs) == 0:
        return rules
    atoms = []
    for f, (_, c) in enumerate(files):
        if c:
            atoms.append(('has', f, c[0]))
    return [(atoms, 0)] + rules


def gen_scenario(rnd, profile='contract', k=None, npasses=None, maxops=5, sched_len=None):
    k = k or rnd.choice([1, 1, 2, 2, 3])
    # (one layout in four: the same base name in different directories)
    names = (['f0.c', 'b/f0.c', 'c/d/f0.c'] if rnd.random() < 0.25 else ['f0.c', 'b/f1.c', 'f2.c'])[:k]
    files = [(names[i], gen_content(rnd)) for i in range(k)]
    maxlen = max(len(c) for _, c in files)
    rules = make_interesting(rnd, files, gen_rules(rnd, k, profile))
    npasses = npasses or rnd.randint(1, 3)
    passes = []
    for i in range(npasses):
        passes.append({'key': i + 1, 'ops': gen_ops(rnd, rnd.randint(1, maxops), profile, maxlen),
                       'aos': rnd.choice([0, 0, 1, 2]),
                       'maxt': None if (profile == 'contract' or rnd.random() < 0.7) else rnd.randint(1, 2),
                       'newfix': None})
    cfg = {'N': rnd.choice([1, 2, 3, 5]), 'no_cache': True}
    sc = {'files': files, 'rules': rules, 'passes': passes, 'cfg': cfg,
          'sched': [rnd.randint(0, 7) for _ in range(sched_len or rnd.randint(0, 60))]}
    if profile == 'faults':
        cfg.update({
            'silent': rnd.random() < 0.25,
            'die': rnd.random() < 0.15,
            'maximp': rnd.choice([None, None, 0, 1, 2]),
            'nogiveup': rnd.random() < 0.2,
            'also': rnd.choice([None, None, 3, 77]),
            'skipn': rnd.choice([None, None, 0, 1, 2]),
            'giveup': rnd.choice([50000, 2, 3, 5]),
            'maxto': rnd.choice([20, 1, 2]),
            'maxcrash': rnd.choice([10, 1, 2, 3]),
            'maxextra': rnd.choice([25000, 1, 2]),
        })
        sc['bug0'] = rnd.choice([0, 0, 1, 3])
        sc['extra0'] = rnd.choice([0, 0, 1, 2])
        for p in passes:
            if rnd.random() < 0.15:
                p['newfix'] = gen_content(rnd, 1, 4)
    return sc


def aos_loops(sc):
    """A scripted pass with aos=restart/stay and a size-neutral or growing op can loop forever
    (C03 is about the real passes; the driver model takes any pass).  Such scenarios need the
    model's fuel; the generator keeps them but the harness bounds the run."""
    return any(p['aos'] in (0, 2) and any(o[0] in ('dup', 'swap', 'set', 'same') for o in p['ops']) for p in sc['passes'])


def gen_group(rnd, profile='faults', k=None):
    """A scenario for CVise.reduce: first / main / last groups; passes may repeat so that the
    cache meets the same contents again."""
    sc = gen_scenario(rnd, profile, k=k, npasses=rnd.randint(2, 4))
    ps = sc.pop('passes')
    main = ps[: max(1, len(ps) - 1)]
    if rnd.random() < 0.5:
        main = main + [dict(main[0])]          # same pass (same key) twice in the group
    sc['group'] = {'first': ps[-1:] if rnd.random() < 0.5 else [], 'main': main,
                   'last': [dict(ps[0])] if rnd.random() < 0.5 else []}
    sc['cfg']['no_cache'] = rnd.random() < 0.3
    return sc


def gen_revisit(rnd, k=None, alphabet='ab'):
    """Tiny contents over a tiny alphabet and a long sequence drawn from a pool of three passes:
    the same pass meets the same file content (and the same joint contents) again and again —
    what the pass cache is about."""
    k = k or rnd.choice([1, 2, 2])
    # (one layout in four: the same base name in different directories)
    names = (['f0.c', 'b/f0.c', 'c/d/f0.c'] if rnd.random() < 0.25 else ['f0.c', 'b/f1.c', 'f2.c'])[:k]
    files = [(names[i], ''.join(rnd.choice(alphabet) for _ in range(rnd.randint(2, 3)))) for i in range(k)]

    def op():
        r = rnd.random()
        if r < 0.3:
            return ('delch', rnd.choice(alphabet))
        if r < 0.45:
            return ('del', rnd.randint(0, 2))
        if r < 0.65:
            return ('dup', rnd.randint(0, 1))
        if r < 0.85:
            return ('swap', rnd.randint(0, 1))
        return ('set', ''.join(rnd.choice(alphabet) for _ in range(rnd.randint(1, 3))))

    pool = [{'key': i + 1, 'ops': [op() for _ in range(rnd.randint(1, 2))], 'aos': rnd.choice([0, 1]),
             'maxt': rnd.choice([None, None, None, 1]), 'newfix': None} for i in range(3)]
    if rnd.random() < 0.3:      # same class and argument, different limit: must be different cache keys
        pool[1] = dict(pool[0], key=pool[0]['key'], maxt=(1 if pool[0]['maxt'] is None else None))
    passes = [dict(rnd.choice(pool)) for _ in range(rnd.randint(6, 10))]
    rules = []
    for _ in range(rnd.randint(1, 3)):
        atoms = [(rnd.choice(['has', 'nothas']), rnd.randrange(k), rnd.choice(alphabet)) for _ in range(rnd.randint(1, 2))]
        rules.append((atoms, rnd.choice([0, 0, 1])))
    if rnd.random() < 0.5:
        rules.append(([], rnd.choice([0, 1])))
    rules = make_interesting(rnd, files, rules)
    return {'files': files, 'rules': rules, 'passes': passes,
            'cfg': {'N': rnd.choice([1, 2, 3]), 'no_cache': False},
            'sched': [rnd.randint(0, 7) for _ in range(rnd.randint(0, 40))]}
