"""The textbook one-candidate-at-a-time reduction loop, driving REAL pass objects imported
from /repo.  It is the second oracle for C02 and the driver for the per-pass properties
(C03 C06 C07 C11 C15).  Mirrors what TestManager does with a single in-flight candidate:
transform on a private copy (with a pickled copy of the cursor, as pebble would hand it to a
worker), accept -> copy over + advance_on_success(candidate path, returned state),
otherwise -> advance(current path, state)."""
import os
import pickle
import shutil
import tempfile

from cvise.passes.abstract import PassResult, ProcessEventNotifier


class Step:
    __slots__ = ('k', 'state_repr', 'result', 'accepted', 'before', 'after', 'extra')

    def __init__(self, k, state_repr, result, accepted, before, after, extra=None):
        self.k = k
        self.state_repr = state_repr
        self.result = result
        self.accepted = accepted
        self.before = before
        self.after = after
        self.extra = extra


class RefLoopError(Exception):
    pass


def read_bytes(p):
    with open(p, 'rb') as f:
        return f.read()


def run_ref(pass_, path, interesting, workdir, max_steps=100000, observe=None, check_sanity=None,
            pickle_states=True, stop_on_unchanged=False, continue_after_exception=False):
    """Returns (steps, final_bytes, end_reason).  interesting(candidate_path) -> bool.
    observe(state) -> JSON-able description recorded before each transform."""
    steps = []
    state = pass_.new(path, check_sanity)
    k = 0
    reason = 'exhausted'
    while state is not None:
        if k >= max_steps:
            reason = 'max_steps'
            break
        folder = tempfile.mkdtemp(prefix='ref-', dir=workdir)
        cand = os.path.join(folder, os.path.basename(path))
        shutil.copy2(path, cand)
        before = read_bytes(path)
        st_in = pickle.loads(pickle.dumps(state)) if pickle_states else state
        obs = observe(state) if observe else None
        try:
            res, st_out = pass_.transform(cand, st_in, ProcessEventNotifier(None))
        except Exception as e:  # the driver's worker swallows it (TestEnvironment.run); candidate is not accepted
            steps.append(Step(k, obs, 'EXC:' + type(e).__name__, False, before, None, {'exc': repr(e)[:300]}))
            shutil.rmtree(folder, ignore_errors=True)
            if not continue_after_exception:
                reason = 'exception'
                break
            k += 1
            state = pass_.advance(path, state)
            continue
        after = read_bytes(cand) if os.path.exists(cand) else None
        leftovers = sorted(x for x in os.listdir(folder) if x != os.path.basename(path))
        accepted = False
        if res == PassResult.OK:
            if after == before:
                # the driver reports a pass bug and ignores the candidate
                accepted = False
                if stop_on_unchanged:
                    steps.append(Step(k, obs, res.name, False, before, after, {'leftovers': leftovers, 'unchanged': True}))
                    shutil.rmtree(folder, ignore_errors=True)
                    reason = 'unchanged-ok'
                    break
            else:
                accepted = bool(interesting(cand))
        steps.append(Step(k, obs, res.name, accepted, before, after, {'leftovers': leftovers}))
        k += 1
        if res in (PassResult.STOP, PassResult.ERROR):
            shutil.rmtree(folder, ignore_errors=True)
            reason = res.name
            break
        if accepted:
            shutil.copy(cand, path)
            state = pass_.advance_on_success(cand, st_out)
        else:
            state = pass_.advance(path, state)
        shutil.rmtree(folder, ignore_errors=True)
    return steps, read_bytes(path), reason
