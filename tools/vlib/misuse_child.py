"""Run one start-up misuse case on the REAL TestManager / CVise.reduce and print a JSON verdict.
With argv[2] == 'drop' the process first changes to the unprivileged user `nobody`, because for
root os.access() grants read/write on mode-000 files."""
import json
import os
import stat
import sys


def snapshot(root):
    out = {}
    for dp, dns, fns in os.walk(root):
        for fn in fns + dns:
            p = os.path.join(dp, fn)
            try:
                st = os.lstat(p)
                data = None
                if stat.S_ISREG(st.st_mode):
                    try:
                        with open(p, 'rb') as f:
                            data = f.read().decode('latin-1')
                    except OSError:
                        data = '<unreadable>'
                out[os.path.relpath(p, root)] = [stat.S_IMODE(st.st_mode), data]
            except OSError:
                pass
    return out


def main():
    case = json.load(open(sys.argv[1]))
    work = case['work']
    # import everything BEFORE dropping root: the interpreter's library lives under /root
    import tempfile, logging, shutil, subprocess, traceback, filecmp, difflib, platform, math, encodings.utf_8, encodings.latin_1  # noqa
    from cvise.utils import testing, statistics  # noqa
    from cvise.utils.error import CViseError  # noqa
    from cvise.cvise import CVise  # noqa
    import multiprocessing.managers, multiprocessing.queues, multiprocessing.pool  # noqa
    if len(sys.argv) > 2 and sys.argv[2] == 'drop':
        os.setgid(65534)
        os.setuid(65534)
    os.chdir(work)
    os.environ['TMPDIR'] = case['tmp']
    import tempfile
    tempfile.tempdir = case['tmp']
    import logging
    logging.disable(logging.CRITICAL)
    from cvise.utils import testing, statistics
    from cvise.utils.error import CViseError
    from cvise.cvise import CVise
    before = snapshot(work)
    res = {'exc': None}
    try:
        tm = testing.TestManager(statistics.PassStatistic(), case['script'], 10, False, case['test_cases'], 1, True, True,
                                 False, False, False, None, False, case.get('also_interesting'), None, None, 1.0)
        cv = CVise(tm, False)
        cv.reduce({'first': [], 'main': [], 'last': []}, False)
    except BaseException as e:
        res['exc'] = type(e).__name__
        res['is_cvise_error'] = isinstance(e, CViseError)
        try:
            res['str'] = str(e)
        except BaseException as e2:
            res['str_raises'] = type(e2).__name__ + ': ' + str(e2)
        res['access'] = getattr(e, 'error', None)
        res['path'] = str(getattr(e, 'path', ''))
    res['unchanged'] = snapshot(work) == before
    res['tmp_left'] = sorted(os.listdir(case['tmp']))
    print(json.dumps(res))


main()
