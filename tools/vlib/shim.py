"""Scheduler shim: drives the REAL cvise.utils.testing.TestManager deterministically, from
outside (module-attribute patching only; nothing in /repo is edited).

pebble.ProcessPool -> FakePool, testing.wait -> fake_wait, testing.Manager -> FakeManager.
A fake future answers done() from the schedule stream (one number per query on a pending
future; odd = completed) and wait(FIRST_COMPLETED) consumes one number choosing which pending
future completes.  Completion = pickle the TestEnvironment as pebble would, unpickle, call the
real run() in-process, pickle the result back.  coq/Driver/Round.v consumes the same stream."""
import contextlib
import io
import logging
import os
import pickle
import concurrent.futures

TIMEOUT_EXIT = 124  # the scripted test's way of saying "I would hang": the future raises TimeoutError


class Budget(BaseException):
    """more candidates were scheduled than the scenario allows: the run under test does not come to an end"""


class Sched:
    def __init__(self, nums):
        self.nums = list(nums)
        self.pos = 0

    def next(self):
        v = self.nums[self.pos] if self.pos < len(self.nums) else 0
        self.pos += 1
        return v


class ShimState:
    def __init__(self, sched, fast_test=None, pickle_envs=True, quiet=True):
        self.sched = sched
        self.fast_test = fast_test  # callable(cwd) -> int exit code (or TIMEOUT_EXIT)
        self.pickle_envs = pickle_envs
        self.quiet = quiet
        self.ran = []          # orders of the candidates whose run() was executed
        self.cancelled = []
        self.scheduled = 0
        self.max_scheduled = 60000
        self.polls = 0
        self.waits = 0
        self.run_cwds = []     # cwd of every interestingness test invocation
        self.on_test = None    # optional observer(cwd) called inside the test


CURRENT = None
_QUEUES = {}


class FakeQueue:
    def __init__(self):
        self.items = []
        self.qid = id(self)
        _QUEUES[self.qid] = self

    def put(self, x):
        self.items.append(x)

    def get(self):
        return self.items.pop(0)

    def empty(self):
        return not self.items

    def __reduce__(self):
        return (_lookup_queue, (self.qid,))


def _lookup_queue(qid):
    return _QUEUES[qid]


class FakeManager:
    def Queue(self):
        return FakeQueue()


class FakeFuture:
    def __init__(self, st, fn, timeout):
        self.st = st
        self.fn = fn
        self.timeout = timeout
        self.state = 'pending'
        self._result = None
        self._timed_out = False
        self._exc = None

    def _complete(self):
        if self.state != 'pending':
            return
        env = self.fn.__self__
        try:
            if self.st.pickle_envs:
                env = pickle.loads(pickle.dumps(env))
            buf = io.StringIO()
            cm = contextlib.redirect_stdout(buf) if self.st.quiet else contextlib.nullcontext()
            cm2 = contextlib.redirect_stderr(buf) if self.st.quiet else contextlib.nullcontext()
            with cm, cm2:
                res = env.run()
            if self.st.pickle_envs:
                res = pickle.loads(pickle.dumps(res))
            self._result = res
            self.st.ran.append(env.order)
            if res.exitcode == TIMEOUT_EXIT:
                self._timed_out = True
        except Exception as e:  # e.g. unpicklable cursor: pebble would fail the task with it
            self._exc = e
        self.state = 'done'

    def done(self):
        if self.state == 'pending':
            self.st.polls += 1
            if self.st.sched.next() % 2 == 1:
                self._complete()
        return self.state != 'pending'

    def cancel(self):
        if self.state == 'pending':
            self.state = 'cancelled'
            self.st.cancelled.append(self.fn.__self__.order)
            return True
        return False

    def cancelled(self):
        return self.state == 'cancelled'

    def exception(self, timeout=None):
        self._complete()
        if self.state == 'cancelled':
            raise concurrent.futures.CancelledError()
        if self._timed_out:
            return TimeoutError('Task timeout', self.timeout)
        return self._exc

    def result(self, timeout=None):
        self._complete()
        if self.state == 'cancelled':
            raise concurrent.futures.CancelledError()
        if self._timed_out:
            raise TimeoutError('Task timeout', self.timeout)
        if self._exc is not None:
            raise self._exc
        return self._result


class FakePool:
    def __init__(self, max_workers=None, **kw):
        self.st = CURRENT
        self.max_workers = max_workers

    def __enter__(self):
        return self

    def __exit__(self, *a):
        return False

    def schedule(self, fn, args=(), kwargs=None, timeout=None):
        self.st.scheduled += 1
        if self.st.scheduled > self.st.max_scheduled:
            raise Budget()
        return FakeFuture(self.st, fn, timeout)

    def stop(self):
        pass

    def join(self, timeout=None):
        pass

    def close(self):
        pass


def fake_wait(futures, timeout=None, return_when=None):
    st = CURRENT
    fs = list(futures)
    if not fs:
        return
    if any(f.state != 'pending' for f in fs):
        return
    st.waits += 1
    fs[st.sched.next() % len(fs)]._complete()


@contextlib.contextmanager
def installed(sched_nums, fast_test=None, pickle_envs=True, quiet=True, quiet_logging=True):
    """Patch the testing module for the duration of the block; yields the ShimState."""
    global CURRENT
    from cvise.utils import testing
    from cvise.passes import abstract
    import pebble

    st = ShimState(Sched(sched_nums), fast_test, pickle_envs, quiet)
    saved = (pebble.ProcessPool, testing.wait, testing.Manager, abstract.ProcessEventNotifier.run_process, CURRENT)
    pebble.ProcessPool = FakePool
    testing.wait = fake_wait
    testing.Manager = FakeManager
    orig_run_process = saved[3]

    def run_process(self, cmd, stdout=None, stderr=None, shell=False, **kw):
        if shell and CURRENT is not None and CURRENT.fast_test is not None and CURRENT.test_script == cmd:
            cwd = os.getcwd()
            CURRENT.run_cwds.append(cwd)
            if CURRENT.on_test:
                CURRENT.on_test(cwd)
            return ('', '', CURRENT.fast_test(cwd))
        if stdout is None and stderr is None:
            return orig_run_process(self, cmd, shell=shell)
        return orig_run_process(self, cmd, stdout, stderr, shell)

    abstract.ProcessEventNotifier.run_process = run_process
    CURRENT = st
    st.test_script = None
    lvl = logging.root.manager.disable
    root_level = logging.getLogger().level
    if not logging.getLogger().handlers:
        logging.getLogger().addHandler(logging.NullHandler())   # keeps logging.info() from calling basicConfig
    if quiet and quiet_logging:
        logging.disable(logging.CRITICAL)
    elif not quiet_logging:
        logging.disable(logging.NOTSET)
        # handlers attached by the harness see INFO records; nothing is printed
        logging.getLogger().setLevel(logging.INFO)
        if not logging.getLogger().handlers:
            logging.getLogger().addHandler(logging.NullHandler())
    try:
        yield st
    finally:
        logging.disable(lvl)
        logging.getLogger().setLevel(root_level)
        pebble.ProcessPool, testing.wait, testing.Manager, abstract.ProcessEventNotifier.run_process, CURRENT = saved
        _QUEUES.clear()
