"""Python twin of coq/Driver/Script.v: scripted passes and tests run by the REAL TestManager."""
import os

from cvise.passes.abstract import AbstractPass, PassResult


class ScriptPass(AbstractPass):
    """ops: list of tuples ('del',i) ('dup',i) ('swap',i) ('delch',ch) ('set',str) ('same',)
    ('inval',) ('stop',) ('err',) ('raise',)"""

    def __init__(self, key, ops, aos=0, maxt=None, newfix=None, via_temp=False):
        super().__init__(None, {})
        self.key = key
        self.ops = list(ops)
        self.aos = aos
        self.max_transforms = maxt
        self.newfix = newfix
        self.via_temp = via_temp      # write through a temp file next to the target and move it (as the real passes do)

    def __repr__(self):
        name = f'ScriptPass::{self.key}'
        if self.max_transforms is not None:
            name += f' ({self.max_transforms} T)'
        return name

    def check_prerequisites(self):
        return True

    def new(self, test_case, check_sanity=None):
        if self.newfix is not None:
            with open(test_case, 'rb') as f:
                backup = f.read()
            if self.via_temp:
                # as LinesPass.__format does: write a 0600 temp file and shutil.copy it over the test case
                import shutil
                import tempfile
                with tempfile.NamedTemporaryFile(mode='wb', delete=False, dir=os.path.dirname(test_case)) as tf:
                    tf.write(self.newfix.encode('latin-1'))
                shutil.copy(tf.name, test_case)
                os.unlink(tf.name)
            else:
                with open(test_case, 'wb') as f:
                    f.write(self.newfix.encode('latin-1'))
            ok = True
            if check_sanity:
                from cvise.utils.error import InsaneTestCaseError
                try:
                    check_sanity()
                except InsaneTestCaseError:
                    ok = False
                except BaseException:
                    # as LinesPass.__format (after fix: commit): a check that did not complete leaves the file as it was
                    with open(test_case, 'wb') as f:
                        f.write(backup)
                    raise
            if not ok:
                with open(test_case, 'wb') as f:
                    f.write(backup)
        return 0 if self.ops else None

    def advance(self, test_case, state):
        return state + 1 if state + 1 < len(self.ops) else None

    def advance_on_success(self, test_case, state):
        if self.aos == 0:
            return state
        if self.aos == 1:
            return state + 1 if state + 1 < len(self.ops) else None
        return 0

    def transform(self, test_case, state, process_event_notifier):
        op = self.ops[state] if state < len(self.ops) else ('inval',)
        with open(test_case, 'rb') as f:
            c = f.read()
        r = apply_op(op, c)
        if isinstance(r, PassResult):
            return (r, state)
        if self.via_temp:
            import shutil
            import tempfile
            with tempfile.NamedTemporaryFile(mode='wb', delete=False, dir=os.path.dirname(test_case)) as tf:
                tf.write(r)
            shutil.move(tf.name, test_case)
        else:
            with open(test_case, 'wb') as f:
                f.write(r)
        return (PassResult.OK, state)


class ScriptRaise(Exception):
    pass


def apply_op(op, c):
    k = op[0]
    if k == 'del':
        i = op[1]
        return c[:i] + c[i + 1:] if i < len(c) else PassResult.INVALID
    if k == 'dup':
        i = op[1]
        return c[:i] + c[i:i + 1] + c[i:] if i < len(c) else PassResult.INVALID
    if k == 'swap':
        i = op[1]
        return c[:i] + c[i + 1:i + 2] + c[i:i + 1] + c[i + 2:] if i + 1 < len(c) else PassResult.INVALID
    if k == 'delch':
        j = c.find(op[1].encode('latin-1'))
        return c[:j] + c[j + 1:] if j >= 0 else PassResult.INVALID
    if k == 'set':
        return op[1].encode('latin-1')
    if k == 'wait':
        # a transformation that takes a while (real pool only: the scripted model has no time): then delete byte i
        import time
        time.sleep(op[1])
        i = op[2]
        return c[:i] + c[i + 1:] if i < len(c) else PassResult.INVALID
    if k == 'same':
        return c
    if k == 'inval':
        return PassResult.INVALID
    if k == 'stop':
        return PassResult.STOP
    if k == 'err':
        return PassResult.ERROR
    if k == 'raise':
        raise ScriptRaise('scripted transform failure')
    raise ValueError(op)


# ---- test DSL ----------------------------------------------------------------------------
def holds(contents, atom):
    """contents: list of bytes per file index."""
    k, f = atom[0], atom[1]
    c = contents[f] if f < len(contents) else b''
    if k == 'has':
        return atom[2].encode('latin-1') in c
    if k == 'nothas':
        return atom[2].encode('latin-1') not in c
    if k == 'lenge':
        return len(c) >= atom[2]
    if k == 'lenlt':
        return len(c) < atom[2]
    raise ValueError(atom)


def run_rules(rules, contents):
    """-> int exit code, or 'timeout'"""
    for atoms, out in rules:
        if all(holds(contents, a) for a in atoms):
            return out
    return 1


# ---- Coq printers ---------------------------------------------------------------------------
def coq_content(s):
    if isinstance(s, bytes):
        s = s.decode('latin-1')
    return ('[' + ';'.join(str(ord(ch)) for ch in s) + ']%N') if s else '(@nil N)'


def coq_op(op):
    k = op[0]
    return {
        'del': lambda: f'Del {op[1]}', 'dup': lambda: f'Dup {op[1]}', 'swap': lambda: f'Swap {op[1]}',
        'delch': lambda: f'DelCh {ord(op[1])}%N', 'set': lambda: f'SetTo {coq_content(op[1])}',
        'same': lambda: 'Same', 'inval': lambda: 'Inval', 'stop': lambda: 'Stop_', 'err': lambda: 'Err',
        'raise': lambda: 'Raise_',
    }[k]()


def coq_pass(p):
    ops = '[' + '; '.join(coq_op(o) for o in p.ops) + ']' if p.ops else '(@nil op)'
    nf = 'None' if p.newfix is None else f'(Some {coq_content(p.newfix)})'
    # repr(pass) = class::key plus ' (N T)' when max_transforms is set: both are part of the cache key
    key = p.key * 1000 + (0 if p.max_transforms is None else p.max_transforms + 1)
    return f'(mksp {key}%N {p.max_transforms or 0} {ops} {p.aos} {nf})'


def coq_atom(a):
    k = a[0]
    if k == 'has':
        return f'Has {a[1]} {ord(a[2])}%N'
    if k == 'nothas':
        return f'NotHas {a[1]} {ord(a[2])}%N'
    if k == 'lenge':
        return f'LenGe {a[1]} {a[2]}'
    return f'LenLt {a[1]} {a[2]}'


def coq_rules(rules):
    def out(o):
        return 'Timeout' if o == 'timeout' else 'NoRun' if o == 'norun' else f'(Exit ({o})%Z)'
    items = []
    for atoms, o in rules:
        al = '[' + '; '.join(coq_atom(a) for a in atoms) + ']' if atoms else '(@nil atom)'
        items.append(f'({al}, {out(o)})')
    return '[' + '; '.join(items) + ']' if items else '(@nil (list atom * tout))'
