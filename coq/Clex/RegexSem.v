(* Relational semantics of the regular expressions and correctness of the derivative matcher of
   Clex/Regex.v (with its simplifying constructors): matchb r w = true <-> matches r w. *)
From Coq Require Import List NArith Bool Arith Lia.
Import ListNotations.
From CV Require Import Clex.Regex.

Inductive matches : regex -> list N -> Prop :=
| MEps : matches Eps []
| MChr rs c : in_ranges c rs = true -> matches (Chr rs) [c]
| MSeq a b u v : matches a u -> matches b v -> matches (Seq a b) (u ++ v)
| MAltL a b w : matches a w -> matches (Alt a b) w
| MAltR a b w : matches b w -> matches (Alt a b) w
| MStar0 a : matches (Star a) []
| MStarS a u v : u <> [] -> matches a u -> matches (Star a) v -> matches (Star a) (u ++ v).

Lemma ranges_eqb_eq : forall (x y:list (N*N)),
  (fix eq (x y:list (N*N)) := match x, y with
     | [], [] => true
     | (a1,b1)::x', (a2,b2)::y' => N.eqb a1 a2 && N.eqb b1 b2 && eq x' y'
     | _, _ => false end) x y = true -> x = y.
Proof.
  induction x as [|[a1 b1] x IH]; destruct y as [|[a2 b2] y]; intros H; try discriminate; auto.
  apply andb_true_iff in H. destruct H as (H & H3). apply andb_true_iff in H. destruct H as (H1 & H2).
  apply N.eqb_eq in H1. apply N.eqb_eq in H2. subst. f_equal. apply IH. exact H3.
Qed.
Lemma regex_eqb_eq : forall a b, regex_eqb a b = true -> a = b.
Proof.
  induction a; destruct b; simpl; intros H; try discriminate; auto.
  - f_equal. apply ranges_eqb_eq. exact H.
  - apply andb_true_iff in H. destruct H. f_equal; auto.
  - apply andb_true_iff in H. destruct H. f_equal; auto.
  - f_equal; auto.
Qed.

Lemma matches_empty_inv w : ~ matches Empty w.
Proof. intros H. inversion H. Qed.
Lemma matches_eps_inv w : matches Eps w -> w = [].
Proof. intros H. inversion H. reflexivity. Qed.

Lemma seq_inv a b w : matches (Seq a b) w -> exists u v, w = u ++ v /\ matches a u /\ matches b v.
Proof. intros H. inversion H; subst. eauto. Qed.
Lemma alt_inv a b w : matches (Alt a b) w -> matches a w \/ matches b w.
Proof. intros H. inversion H; subst; auto. Qed.

Lemma nullable_spec r : nullable r = true <-> matches r [].
Proof.
  induction r; simpl.
  - split; [discriminate|intros H; inversion H].
  - split; [constructor|auto].
  - split; [discriminate|intros H; inversion H].
  - rewrite andb_true_iff, IHr1, IHr2. split.
    + intros (A & B). apply (MSeq _ _ [] [] A B).
    + intros H. apply seq_inv in H. destruct H as (u & v & E & Hu & Hv). symmetry in E. apply app_eq_nil in E. destruct E. subst. auto.
  - rewrite orb_true_iff, IHr1, IHr2. split.
    + intros [A|B]; [apply MAltL|apply MAltR]; auto.
    + intros H. inversion H; auto.
  - split; [constructor|auto].
Qed.

Lemma seq_empty_l b w : ~ matches (Seq Empty b) w.
Proof. intros H. apply seq_inv in H. destruct H as (u & v & _ & Hu & _). inversion Hu. Qed.
Lemma seq_empty_r a w : ~ matches (Seq a Empty) w.
Proof. intros H. apply seq_inv in H. destruct H as (u & v & _ & _ & Hv). inversion Hv. Qed.
Lemma seq_eps_l b w : matches (Seq Eps b) w <-> matches b w.
Proof.
  split; intros H.
  - apply seq_inv in H. destruct H as (u & v & E & Hu & Hv). apply matches_eps_inv in Hu. subst. exact Hv.
  - apply (MSeq _ _ [] w MEps H).
Qed.
Lemma seq_eps_r a w : matches (Seq a Eps) w <-> matches a w.
Proof.
  split; intros H.
  - apply seq_inv in H. destruct H as (u & v & E & Hu & Hv). apply matches_eps_inv in Hv. subst. rewrite app_nil_r. exact Hu.
  - rewrite <- (app_nil_r w). apply (MSeq _ _ w [] H MEps).
Qed.

Lemma mkseq_spec a b w : matches (mkseq a b) w <-> matches (Seq a b) w.
Proof.
  destruct a; destruct b; simpl;
    first [ reflexivity
          | symmetry; apply seq_eps_l
          | symmetry; apply seq_eps_r
          | split; intros H; exfalso;
            first [ exact (matches_empty_inv _ H) | exact (seq_empty_l _ _ H) | exact (seq_empty_r _ _ H) ] ].
Qed.

Lemma alt_empty_l b w : matches (Alt Empty b) w <-> matches b w.
Proof. split; intros H; [apply alt_inv in H; destruct H as [H|H]; [inversion H|exact H]|apply MAltR; exact H]. Qed.
Lemma alt_empty_r a w : matches (Alt a Empty) w <-> matches a w.
Proof. split; intros H; [apply alt_inv in H; destruct H as [H|H]; [exact H|inversion H]|apply MAltL; exact H]. Qed.
Lemma alt_same a b w : regex_eqb a b = true -> (matches a w <-> matches (Alt a b) w).
Proof.
  intros E. apply regex_eqb_eq in E. subst b. split; intros H.
  - apply MAltL. exact H.
  - apply alt_inv in H. destruct H; assumption.
Qed.

Lemma mkalt_spec a b w : matches (mkalt a b) w <-> matches (Alt a b) w.
Proof.
  destruct a; destruct b; simpl;
    first [ symmetry; apply alt_empty_l
          | symmetry; apply alt_empty_r
          | match goal with
            | |- matches (if ?c then _ else _) _ <-> _ =>
                let E := fresh "E" in destruct c eqn:E; [apply alt_same; simpl; exact E|reflexivity]
            end
          | apply alt_same; reflexivity
          | reflexivity ].
Qed.

Lemma star_cons_inv a c w : matches (Star a) (c :: w) ->
  exists u v, w = u ++ v /\ matches a (c :: u) /\ matches (Star a) v.
Proof.
  intros H. remember (Star a) as r eqn:Er. remember (c :: w) as s eqn:Es.
  induction H; try discriminate.
  inversion Er. subst a0.
  destruct u as [|x u']; [congruence|]. simpl in Es. inversion Es. subst.
  exists u', v. auto.
Qed.

Lemma chr_inv rs w : matches (Chr rs) w -> exists c, w = [c] /\ in_ranges c rs = true.
Proof. intros H. inversion H; subst. eauto. Qed.

Lemma deriv_spec : forall r c w, matches (deriv c r) w <-> matches r (c :: w).
Proof.
  induction r; intros c w; simpl.
  - split; intros H; inversion H.
  - split; intros H; inversion H.
  - destruct (in_ranges c rs) eqn:E; split; intros H.
    + apply matches_eps_inv in H. subst. constructor. exact E.
    + apply chr_inv in H. destruct H as (c' & E' & _). inversion E'. subst. constructor.
    + inversion H.
    + apply chr_inv in H. destruct H as (c' & E' & R). inversion E'. subst. congruence.
  - destruct (nullable r1) eqn:NU.
    + rewrite mkalt_spec. split.
      * intros H. apply alt_inv in H. destruct H as [Ha|Hb].
        -- apply mkseq_spec in Ha. apply seq_inv in Ha. destruct Ha as (u & v & E & Hu & Hv). subst.
           apply IHr1 in Hu. apply (MSeq _ _ (c :: u) v Hu Hv).
        -- apply IHr2 in Hb. apply nullable_spec in NU. apply (MSeq _ _ [] (c :: w) NU Hb).
      * intros H. apply seq_inv in H. destruct H as (u & v & E & Hu & Hv).
        destruct u as [|x u'].
        -- simpl in E. subst v. apply MAltR. apply IHr2. exact Hv.
        -- simpl in E. inversion E. subst. apply MAltL. apply mkseq_spec. apply MSeq; [apply IHr1; exact Hu|exact Hv].
    + rewrite mkseq_spec. split.
      * intros H. apply seq_inv in H. destruct H as (u & v & E & Hu & Hv). subst.
        apply IHr1 in Hu. apply (MSeq _ _ (c :: u) v Hu Hv).
      * intros H. apply seq_inv in H. destruct H as (u & v & E & Hu & Hv).
        destruct u as [|x u'].
        -- apply nullable_spec in Hu. congruence.
        -- simpl in E. inversion E. subst. apply MSeq; [apply IHr1; exact Hu|exact Hv].
  - rewrite mkalt_spec. split; intros H.
    + apply alt_inv in H. destruct H as [H|H]; [apply MAltL; apply IHr1|apply MAltR; apply IHr2]; exact H.
    + apply alt_inv in H. destruct H as [H|H]; [apply MAltL; apply IHr1|apply MAltR; apply IHr2]; exact H.
  - rewrite mkseq_spec. split; intros H.
    + apply seq_inv in H. destruct H as (u & v & E & Hu & Hv). subst.
      apply IHr in Hu. apply (MStarS r (c :: u) v); [discriminate|exact Hu|exact Hv].
    + destruct (star_cons_inv _ _ _ H) as (u & v & E & Hu & Hv). subst.
      apply MSeq; [apply IHr; exact Hu|exact Hv].
Qed.

(* the derivative matcher decides the relational semantics *)
Theorem matchb_spec : forall w r, matchb r w = true <-> matches r w.
Proof.
  induction w as [|c w IH]; intros r.
  - unfold matchb. simpl. apply nullable_spec.
  - change (matchb r (c :: w)) with (matchb (deriv c r) w). rewrite IH. apply deriv_spec.
Qed.

From CV Require Import Clex.Driver Clex.LexProofs.

(* a rule with some non-empty matching prefix has a longest one, at least as long *)
Lemma longest_of_match r s k : 1 <= k <= length s -> matches r (firstn k s) ->
  exists m, longest r s = Some m /\ k <= m.
Proof.
  intros L M. apply matchb_spec in M. destruct (longest r s) as [m|] eqn:E.
  - exists m. split; [reflexivity|]. eapply longest_maximal; eauto. lia.
  - rewrite (longest_none _ _ E k L) in M. discriminate.
Qed.

(* flex's rule selection, stated against the relational semantics: the chosen prefix is matched by the
   chosen rule, no rule of the table matches any longer prefix, and no earlier rule matches this one *)
Theorem best_rule_semantic : forall rules s n a, best_rule rules s = Some (n, a) ->
  exists pre r post, rules = pre ++ (r, a) :: post /\ 1 <= n <= length s /\ matches r (firstn n s) /\
    (forall r' a' k, In (r', a') rules -> 1 <= k <= length s -> matches r' (firstn k s) -> k <= n) /\
    (forall r' a', In (r', a') pre -> ~ matches r' (firstn n s)).
Proof.
  intros rules s n a H. pose proof (best_rule_bound _ _ _ _ H) as B.
  destruct (best_rule_spec _ _ _ _ H) as (pre & r & post & E & L & P1 & P2).
  exists pre, r, post. split; [exact E|]. split; [exact B|].
  split; [apply matchb_spec; apply longest_sound; exact L|]. split.
  - intros r' a' k I K M. destruct (longest_of_match _ _ _ K M) as (m & Lm & Km).
    rewrite E in I. apply in_app_or in I. destruct I as [I|[I|I]].
    + specialize (P1 _ _ _ I Lm). lia.
    + injection I as I1 I2. subst r' a'. rewrite L in Lm. injection Lm as Lm. lia.
    + specialize (P2 _ _ _ I Lm). lia.
  - intros r' a' I M. destruct (longest_of_match _ _ _ B M) as (m & Lm & Km).
    specialize (P1 _ _ _ I Lm). lia.
Qed.
