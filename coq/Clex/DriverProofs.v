From Coq Require Import List NArith ZArith Bool Arith Lia.
Import ListNotations.
From CV Require Import Clex.Regex Clex.LexProofs Clex.Driver.

Definition nbs (ts:list tok) : list tok := filter (fun t => negb (blank t)) ts.

(* ---------------- rm-toks-N ---------------- *)
Lemma go_blank n idx t rest which started : blank t = true ->
  rm_toks_go n idx (t :: rest) which started =
  (fst (rm_toks_go n idx rest which started),
   if negb started || (idx + n <? which) then t :: snd (rm_toks_go n idx rest which started) else snd (rm_toks_go n idx rest which started)).
Proof. intros B. simpl. rewrite B. simpl. rewrite orb_false_r. reflexivity. Qed.
Lemma go_nonblank n idx t rest which started : blank t = false ->
  rm_toks_go n idx (t :: rest) which started =
  (Nat.eqb which idx || fst (rm_toks_go n idx rest (S which) (started || Nat.eqb which idx)),
   if negb (started || Nat.eqb which idx) || (idx + n <? S which) then t :: snd (rm_toks_go n idx rest (S which) (started || Nat.eqb which idx))
   else snd (rm_toks_go n idx rest (S which) (started || Nat.eqb which idx))).
Proof. intros B. simpl. rewrite B. simpl. reflexivity. Qed.
Lemma nbs_cons_blank t l : blank t = true -> nbs (t :: l) = nbs l.
Proof. intros B. unfold nbs. simpl. rewrite B. reflexivity. Qed.
Lemma nbs_cons_nb t l : blank t = false -> nbs (t :: l) = t :: nbs l.
Proof. intros B. unfold nbs. simpl. rewrite B. reflexivity. Qed.


Lemma rm_toks_ok : forall n idx ts which started,
  fst (rm_toks_go n idx ts which started) = true <-> (which <= idx /\ idx < which + length (nbs ts)).
Proof.
  induction ts as [|t rest IH]; intros which started.
  - simpl. split; [discriminate|lia].
  - destruct (blank t) eqn:B.
    + rewrite (go_blank _ _ _ _ _ _ B), (nbs_cons_blank _ _ B). simpl fst. apply IH.
    + rewrite (go_nonblank _ _ _ _ _ _ B), (nbs_cons_nb _ _ B). simpl fst. simpl length.
      rewrite orb_true_iff, IH. destruct (Nat.eqb_spec which idx); split; intros H; try lia;
        try (destruct H as [H|H]; [discriminate|lia]); try (right; lia); try (left; reflexivity).
Qed.

Inductive subseq {A} : list A -> list A -> Prop :=
| sub_nil : subseq [] []
| sub_keep x a b : subseq a b -> subseq (x :: a) (x :: b)
| sub_drop x a b : subseq a b -> subseq a (x :: b).
Lemma rm_toks_subseq : forall n idx ts which started, subseq (snd (rm_toks_go n idx ts which started)) ts.
Proof.
  induction ts as [|t rest IH]; intros which started; [simpl; constructor|].
  destruct (blank t) eqn:B.
  - rewrite (go_blank _ _ _ _ _ _ B). simpl snd. destruct (negb started || (idx + n <? which)); constructor; apply IH.
  - rewrite (go_nonblank _ _ _ _ _ _ B). simpl snd.
    destruct (negb (started || Nat.eqb which idx) || (idx + n <? S which)); constructor; apply IH.
Qed.

(* the non-blank tokens that survive: all but those of rank idx .. idx+n-1 *)
Lemma rm_toks_nbs : forall n idx ts which started,
  (started = false -> which <= idx) -> (started = true -> idx < which) ->
  nbs (snd (rm_toks_go n idx ts which started)) =
  if started then skipn (idx + n - which) (nbs ts)
  else firstn (idx - which) (nbs ts) ++ skipn (idx + n - which) (nbs ts).
Proof.
  induction ts as [|t rest IH]; intros which started H1 H2.
  - simpl. destruct started; simpl; rewrite ?firstn_nil, ?skipn_nil; reflexivity.
  - destruct (blank t) eqn:B.
    + rewrite (go_blank _ _ _ _ _ _ B), (nbs_cons_blank _ _ B). simpl snd.
      destruct (negb started || (idx + n <? which)); rewrite ?(nbs_cons_blank _ _ B); apply IH; auto.
    + rewrite (go_nonblank _ _ _ _ _ _ B), (nbs_cons_nb _ _ B). simpl snd.
      destruct started.
      * specialize (H2 eq_refl). cbn [orb negb].
        destruct (idx + n <? S which) eqn:C.
        -- apply Nat.ltb_lt in C. rewrite (nbs_cons_nb _ _ B). rewrite (IH (S which) true) by (intros; try discriminate; lia).
           replace (idx + n - which) with 0 by lia. replace (idx + n - S which) with 0 by lia. reflexivity.
        -- apply Nat.ltb_ge in C. rewrite (IH (S which) true) by (intros; try discriminate; lia).
           replace (idx + n - which) with (S (idx + n - S which)) by lia. reflexivity.
      * specialize (H1 eq_refl). cbn [orb]. destruct (Nat.eqb_spec which idx) as [->|NE].
        -- cbn [orb negb]. rewrite Nat.sub_diag. simpl firstn. simpl app.
           destruct (idx + n <? S idx) eqn:C.
           ++ apply Nat.ltb_lt in C. rewrite (nbs_cons_nb _ _ B). rewrite (IH (S idx) true) by (intros; try discriminate; lia).
              replace (idx + n - idx) with 0 by lia. replace (idx + n - S idx) with 0 by lia. reflexivity.
           ++ apply Nat.ltb_ge in C. rewrite (IH (S idx) true) by (intros; try discriminate; lia).
              replace (idx + n - idx) with (S (idx + n - S idx)) by lia. reflexivity.
        -- cbn [orb negb]. rewrite (nbs_cons_nb _ _ B). rewrite (IH (S which) false) by (intros; try discriminate; lia).
           replace (idx - which) with (S (idx - S which)) by lia.
           replace (idx + n - which) with (S (idx + n - S which)) by lia. reflexivity.
Qed.

(* no instance: nothing is removed *)
Lemma rm_toks_all_kept : forall n idx ts which,
  which + length (nbs ts) <= idx -> snd (rm_toks_go n idx ts which false) = ts.
Proof.
  induction ts as [|t rest IH]; intros which L; [reflexivity|].
  destruct (blank t) eqn:B.
  - rewrite (go_blank _ _ _ _ _ _ B). rewrite (nbs_cons_blank _ _ B) in L. simpl. f_equal. apply IH. exact L.
  - rewrite (go_nonblank _ _ _ _ _ _ B). rewrite (nbs_cons_nb _ _ B) in L. simpl length in L. simpl snd.
    destruct (Nat.eqb_spec which idx); [lia|]. cbn [orb negb]. f_equal. apply IH. lia.
Qed.

(* ---------------- rm-tok-pattern-N ---------------- *)
Lemma rm_pat_blanks : forall n idx ts which started pat,
  filter blank (snd (rm_pat_go n idx ts which started pat)) = filter blank ts.
Proof.
  induction ts as [|t rest IH]; intros which started pat; simpl; auto.
  destruct (blank t) eqn:B; simpl; rewrite ?B.
  - f_equal. apply IH.
  - destruct (if Nat.eqb which (idx + n) then false else started || Nat.eqb which idx).
    + destruct (match pat with b :: _ => b | [] => false end); simpl; rewrite ?B; apply IH.
    + simpl. rewrite B. apply IH.
Qed.
Lemma rm_pat_subseq : forall n idx ts which started pat, subseq (snd (rm_pat_go n idx ts which started pat)) ts.
Proof.
  induction ts as [|t rest IH]; intros which started pat; simpl; [constructor|].
  destruct (blank t); simpl; [constructor; apply IH|].
  destruct (if Nat.eqb which (idx + n) then false else started || Nat.eqb which idx).
  - destruct (match pat with b :: _ => b | [] => false end); simpl; constructor; apply IH.
  - simpl. constructor. apply IH.
Qed.
Lemma rm_pat_matched : forall n idx ts which started pat,
  fst (fst (rm_pat_go n idx ts which started pat)) = true <-> (which <= idx /\ idx < which + length (nbs ts)).
Proof.
  induction ts as [|t rest IH]; intros which started pat; simpl.
  - split; [discriminate|lia].
  - destruct (blank t) eqn:B; simpl.
    + rewrite IH. lia.
    + destruct (if Nat.eqb which (idx + n) then false else started || Nat.eqb which idx); simpl;
        rewrite orb_true_iff, IH; destruct (Nat.eqb_spec which idx); simpl; split; intros H; try lia;
        try (destruct H as [H|H]; [discriminate|lia]); try (right; lia).
Qed.
(* the first token of the window is always deleted (bit 0 of every pattern is set) *)
Lemma rm_pat_deleted : forall n idx ts which pat, 1 <= n -> which <= idx ->
  fst (fst (rm_pat_go n idx ts which false (true :: pat))) = true ->
  snd (fst (rm_pat_go n idx ts which false (true :: pat))) = true.
Proof.
  induction ts as [|t rest IH]; intros which pat N L; simpl; [discriminate|].
  destruct (blank t) eqn:B; simpl; [apply IH; auto|].
  destruct (Nat.eqb_spec which idx) as [->|NE]; simpl.
  - destruct (Nat.eqb_spec idx (idx + n)); [lia|]. simpl. reflexivity.
  - destruct (Nat.eqb which (idx + n)); simpl; intros H; apply IH; auto; lia.
Qed.
Lemma bits_head k x : bits (S k) (1 + 2 * x) = true :: bits k x.
Proof.
  simpl bits. f_equal.
  - replace (1 + 2 * x) with (S (2 * x)) by lia. rewrite Nat.odd_succ. apply Nat.even_spec. exists x. lia.
  - f_equal. replace (1 + 2 * x) with (S (2 * x)) by lia. apply Nat.div2_succ_double.
Qed.
Theorem rm_pattern_ok n idx ts : 1 <= n ->
  (exists out, rm_pattern n idx ts = Exit true out) <-> idx / 2 ^ (n - 1) < length (nbs ts).
Proof.
  intros N. unfold rm_pattern. change 8 with (S 7). rewrite bits_head.
  set (start := idx / 2 ^ (n - 1)). set (pat := bits 7 (idx mod 2 ^ (n - 1))).
  pose proof (rm_pat_matched n start ts 0 false (true :: pat)) as M.
  pose proof (rm_pat_deleted n start ts 0 pat N (Nat.le_0_l _)) as D.
  destruct (fst (fst (rm_pat_go n start ts 0 false (true :: pat)))) eqn:F.
  - rewrite (D eq_refl). simpl. split; [intros _; apply M; auto|eauto].
  - simpl. split; [intros (out & H); discriminate|]. intros L. assert (false = true); [apply M; lia|discriminate].
Qed.

(* which non-blank tokens rm-tok-pattern keeps: rank w is removed iff it lies in the window and its pattern bit is set *)
Definition keep_rank (start n:nat) (pat:list bool) (w:nat) : bool :=
  negb ((start <=? w) && (w <? start + n) && nth (w - start) pat false).
Fixpoint pat_spec (start n:nat) (pat:list bool) (nb:list tok) (w:nat) : list tok :=
  match nb with
  | [] => []
  | t :: r => if keep_rank start n pat w then t :: pat_spec start n pat r (S w) else pat_spec start n pat r (S w)
  end.

Lemma pat_go_blank n idx t rest which started pat : blank t = true ->
  rm_pat_go n idx (t :: rest) which started pat =
  (fst (fst (rm_pat_go n idx rest which started pat)), snd (fst (rm_pat_go n idx rest which started pat)),
   t :: snd (rm_pat_go n idx rest which started pat)).
Proof. intros B. simpl. rewrite B. reflexivity. Qed.
Lemma pat_go_nb n idx t rest which started pat : blank t = false ->
  rm_pat_go n idx (t :: rest) which started pat =
  let hit := Nat.eqb which idx in
  let started2 := if Nat.eqb which (idx + n) then false else started || hit in
  if started2 then
    let b := match pat with b :: _ => b | [] => false end in
    let r := rm_pat_go n idx rest (S which) started2 (tl pat) in
    (hit || fst (fst r), b || snd (fst r), if b then snd r else t :: snd r)
  else
    let r := rm_pat_go n idx rest (S which) started2 pat in
    (hit || fst (fst r), snd (fst r), t :: snd r).
Proof. intros B. simpl. rewrite B. reflexivity. Qed.

Definition pinv (start n:nat) (pat0:list bool) (which:nat) (started:bool) (pat:list bool) : Prop :=
  (started = false /\ which <= start /\ pat = pat0) \/
  (started = true /\ start < which /\ which <= start + n /\ pat = skipn (which - start) pat0) \/
  (started = false /\ start + n < which) \/
  (started = false /\ start < which /\ n = 0).

Lemma hd_skipn (l:list bool) k : match skipn k l with b :: _ => b | [] => false end = nth k l false.
Proof. revert l. induction k as [|k IH]; intros [|x l]; simpl; auto. Qed.
Lemma tl_skipn (l:list bool) k : tl (skipn k l) = skipn (S k) l.
Proof.
  revert l. induction k as [|k IH]; intros l.
  - destruct l as [|x [|y l']]; reflexivity.
  - destruct l as [|x l']; [reflexivity|]. change (skipn (S k) (x :: l')) with (skipn k l').
    change (skipn (S (S k)) (x :: l')) with (skipn (S k) l'). apply IH.
Qed.

Lemma rm_pat_nbs n start pat0 : forall ts which started pat,
  pinv start n pat0 which started pat ->
  nbs (snd (rm_pat_go n start ts which started pat)) = pat_spec start n pat0 (nbs ts) which.
Proof.
  induction ts as [|t rest IH]; intros which started pat I; [reflexivity|].
  destruct (blank t) eqn:B.
  - rewrite (pat_go_blank _ _ _ _ _ _ _ B), (nbs_cons_blank _ _ B). simpl snd. rewrite (nbs_cons_blank _ _ B). apply IH. exact I.
  - rewrite (pat_go_nb _ _ _ _ _ _ _ B), (nbs_cons_nb _ _ B). cbv zeta. simpl pat_spec. unfold keep_rank.
    destruct I as [(-> & L & ->)|[(-> & L1 & L2 & ->)|[(-> & L)|(-> & L & ->)]]].
    + (* before the window *)
      destruct (Nat.eqb_spec which start) as [->|NE].
      * destruct (Nat.eqb_spec start (start + n)) as [E|NE2].
        -- (* n = 0 *) assert (n = 0) by lia. subst n. cbn [orb]. simpl snd. rewrite (nbs_cons_nb _ _ B).
           rewrite IH by (right; right; right; repeat split; lia).
           replace (start <? start + 0) with false by (symmetry; apply Nat.ltb_ge; lia). rewrite andb_false_r. reflexivity.
        -- cbn [orb]. rewrite Nat.sub_diag.
           replace (start <=? start) with true by (symmetry; apply Nat.leb_le; lia).
           replace (start <? start + n) with true by (symmetry; apply Nat.ltb_lt; lia). cbn [andb].
           destruct pat0 as [|b0 p0]; simpl nth; simpl tl; cbn [negb].
           ++ simpl snd. rewrite (nbs_cons_nb _ _ B). rewrite IH; [reflexivity|]. right. left. repeat split; try lia. replace (S start - start) with 1 by lia. reflexivity.
           ++ destruct b0; simpl snd; cbn [negb]; rewrite ?(nbs_cons_nb _ _ B); rewrite IH; try reflexivity;
                right; left; repeat split; try lia; replace (S start - start) with 1 by lia; reflexivity.
      * assert (which < start) by lia.
        destruct (Nat.eqb_spec which (start + n)); [lia|]. cbn [orb]. simpl snd. rewrite (nbs_cons_nb _ _ B).
        rewrite IH by (left; repeat split; lia).
        replace (start <=? which) with false by (symmetry; apply Nat.leb_gt; lia). reflexivity.
    + (* inside *)
      destruct (Nat.eqb_spec which start); [lia|].
      destruct (Nat.eqb_spec which (start + n)) as [E|NE2].
      * simpl snd. rewrite (nbs_cons_nb _ _ B). rewrite IH by (right; right; left; split; [reflexivity|lia]).
        replace (which <? start + n) with false by (symmetry; apply Nat.ltb_ge; lia). rewrite andb_false_r. reflexivity.
      * cbn [orb]. rewrite hd_skipn, tl_skipn.
        replace (start <=? which) with true by (symmetry; apply Nat.leb_le; lia).
        replace (which <? start + n) with true by (symmetry; apply Nat.ltb_lt; lia). cbn [andb].
        destruct (nth (which - start) pat0 false); simpl snd; cbn [negb]; rewrite ?(nbs_cons_nb _ _ B); rewrite IH; try reflexivity;
          right; left; repeat split; try lia; replace (S which - start) with (S (which - start)) by lia; reflexivity.
    + (* after *)
      destruct (Nat.eqb_spec which start); [lia|]. destruct (Nat.eqb_spec which (start + n)); [lia|].
      cbn [orb]. simpl snd. rewrite (nbs_cons_nb _ _ B). rewrite IH by (right; right; left; split; [reflexivity|lia]).
      replace (which <? start + n) with false by (symmetry; apply Nat.ltb_ge; lia). rewrite andb_false_r. reflexivity.
    + destruct (Nat.eqb_spec which start); [lia|]. destruct (Nat.eqb which (start + 0)); cbn [orb]; simpl snd; rewrite (nbs_cons_nb _ _ B);
        rewrite IH by (right; right; right; repeat split; lia);
        replace (which <? start + 0) with false by (symmetry; apply Nat.ltb_ge; lia); rewrite andb_false_r; reflexivity.
Qed.

(* ---------------- delete-string ---------------- *)
Lemma del_str_ok : forall idx ts which,
  fst (del_str_go idx ts which) = true <-> (which <= idx /\ idx < which + length (filter is_string ts)).
Proof.
  induction ts as [|t rest IH]; intros which; simpl.
  - split; [discriminate|lia].
  - destruct (is_string t) eqn:S; simpl.
    + destruct (Nat.eqb_spec which idx); simpl; [split; [lia|auto]|]. rewrite IH. lia.
    + rewrite IH. lia.
Qed.

(* ---------------- define ---------------- *)
Lemma rd_some ts i : i < length ts -> exists t, rd ts i = Some t.
Proof. unfold rd. intros L. destruct (nth_error ts i) eqn:E; eauto. apply nth_error_None in E. lia. Qed.
Lemma replace_macro_ok ts i : i < length ts -> exists out, replace_macro ts i = Exit true out.
Proof. intros L. unfold replace_macro. destruct (rd_some ts i L) as (t & ->). eauto. Qed.
(* the repaired define never indexes outside the token array *)
Theorem define_go_no_oob : forall ts fuel i found idx, define_go ts fuel i found idx <> OOB.
Proof.
  induction fuel as [|f IH]; intros i found idx; simpl; [discriminate|].
  destruct (Nat.leb_spec (length ts) i); [discriminate|].
  destruct (rd_some ts i ltac:(lia)) as (t & ->).
  destruct (negb (str_eqb (t_str t) HASH)); [apply IH|].
  destruct (Nat.leb_spec (length ts) (skip_ws ts (length ts) (S i))); [discriminate|].
  destruct (rd_some ts _ ltac:(eassumption)) as (d & ->).
  destruct (negb (str_eqb (t_str d) DEFINE)); [apply IH|].
  destruct (Nat.leb_spec (length ts) (skip_ws ts (length ts) (S (skip_ws ts (length ts) (S i))))); [discriminate|].
  destruct (rd_some ts _ ltac:(eassumption)) as (nm & ->).
  destruct (negb (used_elsewhere ts _ (t_str nm))); [apply IH|].
  destruct (Nat.eqb found idx); [|apply IH].
  destruct (replace_macro_ok ts _ ltac:(eassumption)) as (out & ->). discriminate.
Qed.
(* instances are numbered consecutively: if idx is an instance so is every smaller index *)
Lemma define_go_prefix : forall ts fuel i found idx idx' out,
  found <= idx' -> idx' <= idx -> define_go ts fuel i found idx = Exit true out ->
  exists out', define_go ts fuel i found idx' = Exit true out'.
Proof.
  induction fuel as [|f IH]; intros i found idx idx' out L1 L2; simpl; [discriminate|].
  destruct (Nat.leb_spec (length ts) i); [discriminate|].
  destruct (rd ts i) as [t|]; [|discriminate].
  destruct (negb (str_eqb (t_str t) HASH)); [apply IH; auto|].
  destruct (Nat.leb_spec (length ts) (skip_ws ts (length ts) (S i))); [discriminate|].
  destruct (rd ts (skip_ws ts (length ts) (S i))) as [d|]; [|discriminate].
  destruct (negb (str_eqb (t_str d) DEFINE)); [apply IH; auto|].
  destruct (Nat.leb_spec (length ts) (skip_ws ts (length ts) (S (skip_ws ts (length ts) (S i))))); [discriminate|].
  destruct (rd ts (skip_ws ts (length ts) (S (skip_ws ts (length ts) (S i))))) as [nm|] eqn:R; [|discriminate].
  destruct (negb (used_elsewhere ts _ (t_str nm))); [apply IH; auto|].
  destruct (Nat.eqb_spec found idx'), (Nat.eqb_spec found idx); subst.
  - eauto.
  - intros _. apply replace_macro_ok. assumption.
  - lia.
  - apply IH; lia.
Qed.

(* ---------------- all modes ---------------- *)
Definition ok (r:res) : Prop := exists out, r = Exit true out.
Theorem run_mode_no_oob m idx ts : run_mode m idx ts <> OOB.
Proof.
  destruct m; simpl; try discriminate.
  - unfold rename_toks. destruct (nth_error _ idx); discriminate.
  - apply define_go_no_oob.
Qed.
(* the indices that produce output form a prefix of the naturals, for every mode *)
Theorem run_mode_prefix m idx ts : (match m with MRmPattern n => 1 <= n | _ => True end) ->
  ok (run_mode m idx ts) -> forall j, j <= idx -> ok (run_mode m j ts).
Proof.
  intros HN H j L. destruct m; simpl in *.
  - exact H.
  - destruct H as (out & H). unfold rm_toks in *. inversion H as [[H1 H2]].
    apply rm_toks_ok in H1. eexists. f_equal. apply rm_toks_ok. lia.
  - apply rm_pattern_ok; auto. apply rm_pattern_ok in H; auto.
    eapply Nat.le_lt_trans; [|exact H]. apply Nat.div_le_mono; auto. apply Nat.pow_nonzero. discriminate.
  - destruct H as (out & H). unfold delete_string in *. inversion H as [[H1 H2]].
    apply del_str_ok in H1. eexists. f_equal. apply del_str_ok. lia.
  - destruct H as (out & H). unfold rename_toks in *.
    destruct (nth_error (index_toks ts (find_unused (S (length ts)) ts [LA]) []) idx) eqn:E; [|discriminate].
    assert (LT : idx < length (index_toks ts (find_unused (S (length ts)) ts [LA]) [])) by (apply nth_error_Some; congruence).
    destruct (nth_error (index_toks ts (find_unused (S (length ts)) ts [LA]) []) j) eqn:E2; [eexists; reflexivity|].
    apply nth_error_None in E2. lia.
  - destruct H as (out & H). unfold define in *. eapply define_go_prefix; eauto. lia.
Qed.
