(* Facts about the rule list regenerated from clex/clex.l, and the whole-program theorems. *)
From Coq Require Import List NArith ZArith Bool Arith Lia.
Import ListNotations.
From CV Require Import Base.Corr Clex.Regex Clex.LexProofs Clex.Driver Clex.DriverProofs Gen.ClexRules.

Lemma clex_covers : covers clex_rules = true.
Proof. vm_compute. reflexivity. Qed.
(* the only rules that do not produce a token: backslash [ \t]* newline (dropped), and slash-star (comment action) *)
Lemma clex_non_token_rules :
  filter (fun ra => match snd ra with ATok _ => false | _ => true end) clex_rules =
  [(Seq (Seq (Chr [(92, 92)]%N) (Star (Chr [(9, 9); (32, 32)]%N))) (Chr [(10, 10)]%N), ASkip);
   (Seq (Chr [(47, 47)]%N) (Chr [(42, 42)]%N), AComment)].
Proof. vm_compute. reflexivity. Qed.

Definition bytes (s:list N) : Prop := Forall (fun c => (c < 256)%N) s.

(* exit status of the process *)
Definition exit_code (r:res) : option Z :=
  match r with Exit true _ => Some EXIT_OK | Exit false _ => Some EXIT_STOP | OOB => None end.

Theorem clex_total m idx s : clex clex_rules m idx s <> OOB.
Proof.
  unfold clex. pose proof (lex_fuel clex_rules s) as F.
  destruct (lex clex_rules s); [apply run_mode_no_oob|discriminate|congruence].
Qed.
Theorem clex_exit_codes m idx s : exit_code (clex clex_rules m idx s) = Some 51%Z \/ exit_code (clex clex_rules m idx s) = Some 71%Z.
Proof.
  pose proof (clex_total m idx s) as T. destruct (clex clex_rules m idx s) as [[|] out|]; simpl; auto. congruence.
Qed.

Definition is_tok (x:lexeme) : bool := match l_class x with LTok _ => true | _ => false end.
Lemma texts_toks_of l : texts (toks_of l) = lex_text (filter is_tok l).
Proof.
  induction l as [|x t IH]; [reflexivity|]. unfold toks_of, is_tok in *. simpl.
  destruct (l_class x) eqn:C; simpl; auto.
  unfold texts in *. simpl. unfold lex_text in *. simpl. rewrite IH. reflexivity.
Qed.

(* print mode: the lexemes partition the input; the output is the input with the dropped lexemes
   removed; a dropped lexeme is a line continuation or a block comment (up to the first closer) *)
Theorem clex_print s : bytes s ->
  (exists out, clex clex_rules MPrint 0 s = Exit false out /\ out = [] /\ lex clex_rules s = LexStop) \/
  (exists l, lex clex_rules s = LexOk l /\ lex_text l = s /\
             clex clex_rules MPrint 0 s = Exit true (lex_text (filter is_tok l)) /\
             forall x, In x l -> is_tok x = false -> dropped_by clex_rules x).
Proof.
  intros B. unfold clex. pose proof (lex_fuel clex_rules s) as F.
  destruct (lex clex_rules s) as [l| |] eqn:L; [right|left; eauto|congruence].
  exists l. split; auto. split; [eapply tokenize_partition; exact L|]. split.
  - simpl. f_equal. apply texts_toks_of.
  - intros x I NT. destruct (tokenize_classes _ _ _ _ L x I) as (_ & D). apply D.
    pose proof (tokenize_no_echo _ clex_covers _ _ _ B L x I) as NE.
    unfold is_tok in NT. destruct (l_class x); try discriminate; congruence.
Qed.

(* correspondence case: (mode, index, input) -> exit status, length and bytes of stdout *)
Definition enc_mode (k n:nat) : mode :=
  match k with 0 => MPrint | 1 => MRmToks n | 2 => MRmPattern n | 3 => MDeleteString | 4 => MRename | _ => MDefine end.
Definition clex_case (t:nat * nat * nat * list N) : list Z :=
  let '(k, n, idx, s) := t in
  match clex clex_rules (enc_mode k n) idx s with
  | Exit b out => (if b then EXIT_OK else EXIT_STOP) :: Z.of_nat (length out) :: map Z.of_N out
  | OOB => [(-7)%Z]
  end.
(* the scanner alone: kinds and lengths of the lexemes *)
Definition kind_code (c:lclass) : Z :=
  match c with
  | LTok TOK_KEYWORD => 0 | LTok TOK_OP => 1 | LTok TOK_IDENT => 2 | LTok TOK_OTHER => 3 | LTok TOK_NUMBER => 4
  | LTok TOK_WS => 5 | LTok TOK_NEWLINE => 6 | LTok TOK_STRING => 7 | LTok TOK_UNKNOWN => 8 | LDrop => 20 | LEcho => 21
  end%Z.
Definition lex_case (s:list N) : list Z :=
  match lex clex_rules s with
  | LexOk l => flat_map (fun x => [kind_code (l_class x); Z.of_nat (length (l_text x))]) l
  | LexStop => [(-1)%Z]
  | LexFuel => [(-99)%Z]
  end.
(* only the lexemes that reach process_token *)
Fixpoint drop_non_tokens (l:list Z) : list Z :=
  match l with
  | k :: n :: t => if (Z.eqb k 20 || Z.eqb k 21)%bool then drop_non_tokens t else k :: n :: drop_non_tokens t
  | x => x
  end.
Definition lex_tokens (s:list N) : list Z := drop_non_tokens (lex_case s).
