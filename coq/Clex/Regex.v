(* Model M9a: the scanner flex generates from clex/clex.l — longest match, first rule wins — as a
   derivative-based matcher over the rule list that tools/gen/lexgen.py regenerates from clex.l.
   Bytes are N; no proofs in this file. *)
From Coq Require Import List NArith Bool Arith.
Import ListNotations.

Inductive regex :=
| Empty | Eps
| Chr (rs:list (N * N))          (* union of closed byte ranges *)
| Seq (a b:regex) | Alt (a b:regex) | Star (a:regex).

Inductive kind := TOK_KEYWORD | TOK_OP | TOK_IDENT | TOK_OTHER | TOK_NUMBER | TOK_WS | TOK_NEWLINE | TOK_STRING | TOK_UNKNOWN.
Inductive action := ATok (k:kind) | ASkip | AComment.

Fixpoint regex_eqb (a b:regex) : bool :=
  match a, b with
  | Empty, Empty | Eps, Eps => true
  | Chr r1, Chr r2 =>
      (fix eq (x y:list (N*N)) := match x, y with
         | [], [] => true
         | (a1,b1)::x', (a2,b2)::y' => N.eqb a1 a2 && N.eqb b1 b2 && eq x' y'
         | _, _ => false end) r1 r2
  | Seq a1 b1, Seq a2 b2 | Alt a1 b1, Alt a2 b2 => regex_eqb a1 a2 && regex_eqb b1 b2
  | Star a1, Star a2 => regex_eqb a1 a2
  | _, _ => false
  end.

Fixpoint nullable (r:regex) : bool :=
  match r with
  | Empty => false | Eps => true | Chr _ => false
  | Seq a b => nullable a && nullable b
  | Alt a b => nullable a || nullable b
  | Star _ => true
  end.

Definition in_ranges (c:N) (rs:list (N*N)) : bool :=
  existsb (fun p => N.leb (fst p) c && N.leb c (snd p)) rs.

(* smart constructors keep derivatives small *)
Definition mkseq (a b:regex) : regex :=
  match a, b with
  | Empty, _ => Empty | _, Empty => Empty
  | Eps, _ => b | _, Eps => a
  | _, _ => Seq a b
  end.
Definition mkalt (a b:regex) : regex :=
  match a, b with
  | Empty, _ => b | _, Empty => a
  | _, _ => if regex_eqb a b then a else Alt a b
  end.

Fixpoint deriv (c:N) (r:regex) : regex :=
  match r with
  | Empty | Eps => Empty
  | Chr rs => if in_ranges c rs then Eps else Empty
  | Seq a b => if nullable a then mkalt (mkseq (deriv c a) b) (deriv c b) else mkseq (deriv c a) b
  | Alt a b => mkalt (deriv c a) (deriv c b)
  | Star a => mkseq (deriv c a) (Star a)
  end.

Definition is_empty (r:regex) : bool := match r with Empty => true | _ => false end.
Definition matchb (r:regex) (w:list N) : bool := nullable (fold_left (fun r c => deriv c r) w r).

(* length of the longest prefix of s matched by r; n = characters consumed so far *)
Fixpoint lm (r:regex) (s:list N) (n:nat) (best:option nat) : option nat :=
  let best' := if nullable r then Some n else best in
  match s with
  | [] => best'
  | c :: t => let r' := deriv c r in if is_empty r' then best' else lm r' t (S n) best'
  end.
Definition longest (r:regex) (s:list N) : option nat :=
  match lm r s 0 None with Some (S n) => Some (S n) | _ => None end.     (* flex never matches the empty string *)

(* best rule: longest match, earliest rule on ties *)
Fixpoint best_rule (rules:list (regex * action)) (s:list N) : option (nat * action) :=
  match rules with
  | [] => None
  | (r, a) :: rest =>
      match longest r s, best_rule rest s with
      | Some n, Some (m, b) => if m <=? n then Some (n, a) else Some (m, b)
      | Some n, None => Some (n, a)
      | None, x => x
      end
  end.

(* the comment action: after "/*", read to the first "*/" (mirrors the two nested loops of clex.l) *)
Definition STAR := 42%N.
Definition SLASH := 47%N.
Fixpoint eat (s:list N) : option (list N) :=
  match s with
  | [] => None
  | c :: t => if N.eqb c STAR then stars t else eat t
  end
with stars (s:list N) : option (list N) :=
  match s with
  | [] => None
  | c :: t => if N.eqb c STAR then stars t else if N.eqb c SLASH then Some t else eat t
  end.

Inductive lclass := LTok (k:kind) | LDrop | LEcho.
Record lexeme := mkl { l_class : lclass; l_text : list N }.
Inductive lexres := LexOk (l:list lexeme) | LexStop | LexFuel.

Fixpoint tokenize (rules:list (regex * action)) (fuel:nat) (s:list N) : lexres :=
  match fuel with
  | 0 => LexFuel
  | S f =>
    match s with
    | [] => LexOk []
    | c :: t =>
      match best_rule rules s with
      | None => match tokenize rules f t with LexOk l => LexOk (mkl LEcho [c] :: l) | x => x end
      | Some (n, a) =>
        let lx := firstn n s in let rest := skipn n s in
        match a with
        | ATok k => match tokenize rules f rest with LexOk l => LexOk (mkl (LTok k) lx :: l) | x => x end
        | ASkip => match tokenize rules f rest with LexOk l => LexOk (mkl LDrop lx :: l) | x => x end
        | AComment =>
          match eat rest with
          | None => LexStop
          | Some rest' =>
            let body := firstn (length rest - length rest') rest in
            match tokenize rules f rest' with LexOk l => LexOk (mkl LDrop (lx ++ body) :: l) | x => x end
          end
        end
      end
    end
  end.
Definition lex (rules:list (regex * action)) (s:list N) : lexres := tokenize rules (S (length s)) s.
