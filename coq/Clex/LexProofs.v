From Coq Require Import List NArith Bool Arith Lia.
Import ListNotations.
From CV Require Import Clex.Regex.

(* ---------- the comment action ---------- *)
Fixpoint find_close (s:list N) : option (list N) :=
  match s with
  | [] => None
  | c :: t => match t with
              | d :: t' => if N.eqb c STAR && N.eqb d SLASH then Some t' else find_close t
              | [] => None
              end
  end.
Lemma eat_stars_spec : forall s,
  eat s = find_close s /\ stars s = match s with d :: t' => if N.eqb d SLASH then Some t' else find_close s | [] => None end.
Proof.
  induction s as [|c t IH]; [split; reflexivity|]. destruct IH as (IH1 & IH2). split.
  - simpl. destruct (N.eqb c STAR) eqn:E; simpl.
    + rewrite IH2. reflexivity.
    + rewrite IH1. destruct t as [|d t']; reflexivity.
  - simpl. destruct (N.eqb c STAR) eqn:E.
    + assert (N.eqb c SLASH = false) as ->.
      { apply N.eqb_eq in E. subst. reflexivity. }
      rewrite IH2. simpl. reflexivity.
    + destruct (N.eqb c SLASH) eqn:E2; auto. rewrite IH1. simpl. destruct t as [|d t']; reflexivity.
Qed.
(* the two nested loops find exactly the first "*/" *)
Theorem eat_first_close s : eat s = find_close s.
Proof. apply eat_stars_spec. Qed.

Lemma find_close_suffix : forall s r, find_close s = Some r -> exists pre, s = pre ++ r /\ 2 <= length pre.
Proof.
  induction s as [|c t IH]; intros r H; simpl in H; [discriminate|].
  destruct t as [|d t']; [discriminate|].
  destruct (N.eqb c STAR && N.eqb d SLASH).
  - inversion H. subst. exists [c; d]. split; auto.
  - destruct (IH r H) as (pre & E & L). exists (c :: pre). split; [rewrite E; reflexivity|simpl; lia].
Qed.
Lemma eat_suffix s r : eat s = Some r -> exists pre, s = pre ++ r /\ 2 <= length pre.
Proof. rewrite eat_first_close. apply find_close_suffix. Qed.

(* ---------- longest match ---------- *)
Lemma lm_bound : forall s r n best m, lm r s n best = Some m -> (best = Some m) \/ (n <= m <= n + length s).
Proof.
  induction s as [|c t IH]; intros r n best m H; simpl in H.
  - destruct (nullable r); [inversion H; subst; right; simpl; lia|left; auto].
  - destruct (is_empty (deriv c r)).
    + destruct (nullable r); [inversion H; subst; right; simpl; lia|left; auto].
    + apply IH in H. destruct H as [H|H].
      * destruct (nullable r); [inversion H; subst; right; simpl; lia|left; auto].
      * right. simpl. lia.
Qed.
Lemma longest_bound r s n : longest r s = Some n -> 1 <= n <= length s.
Proof.
  unfold longest. destruct (lm r s 0 None) as [[|k]|] eqn:E; try discriminate. intros H. inversion H. subst.
  apply lm_bound in E. destruct E as [E|E]; [discriminate|]. lia.
Qed.
Lemma best_rule_bound : forall rules s n a, best_rule rules s = Some (n, a) -> 1 <= n <= length s.
Proof.
  induction rules as [|[r a0] rest IH]; intros s n a H; simpl in H; [discriminate|].
  destruct (longest r s) as [k|] eqn:L.
  - destruct (best_rule rest s) as [[m b]|] eqn:B.
    + destruct (m <=? k); inversion H; subst; [eapply longest_bound; eauto|eapply IH; eauto].
    + inversion H. subst. eapply longest_bound; eauto.
  - eapply IH; eauto.
Qed.

(* ---------- the scanner partitions its input ---------- *)
Definition lex_text (l:list lexeme) : list N := concat (map l_text l).
Theorem tokenize_partition rules : forall fuel s l, tokenize rules fuel s = LexOk l -> lex_text l = s.
Proof.
  induction fuel as [|f IH]; intros s l H; simpl in H; [discriminate|].
  destruct s as [|c t]; [inversion H; reflexivity|].
  destruct (best_rule rules (c :: t)) as [[n a]|] eqn:B.
  - destruct a.
    + destruct (tokenize rules f (skipn n (c :: t))) eqn:T; try discriminate. inversion H. subst.
      unfold lex_text. simpl. fold (lex_text l0). rewrite (IH _ _ T). apply firstn_skipn.
    + destruct (tokenize rules f (skipn n (c :: t))) eqn:T; try discriminate. inversion H. subst.
      unfold lex_text. simpl. fold (lex_text l0). rewrite (IH _ _ T). apply firstn_skipn.
    + destruct (eat (skipn n (c :: t))) as [rest'|] eqn:EA; [|discriminate].
      destruct (tokenize rules f rest') eqn:T; try discriminate. inversion H. subst.
      unfold lex_text. simpl. fold (lex_text l0). rewrite (IH _ _ T).
      destruct (eat_suffix _ _ EA) as (pre & E & _).
      assert (FB : firstn (length (skipn n (c :: t)) - length rest') (skipn n (c :: t)) = pre).
      { rewrite E. rewrite app_length. replace (length pre + length rest' - length rest') with (length pre) by lia.
        rewrite firstn_app, firstn_all, Nat.sub_diag. simpl. apply app_nil_r. }
      rewrite FB. rewrite <- app_assoc. rewrite <- E. apply firstn_skipn.
  - destruct (tokenize rules f t) eqn:T; try discriminate. inversion H. subst.
    unfold lex_text. simpl. fold (lex_text l0). rewrite (IH _ _ T). reflexivity.
Qed.

(* every lexeme is non-empty, so |s| + 1 steps always suffice *)
Theorem tokenize_fuel rules : forall fuel s, length s < fuel -> tokenize rules fuel s <> LexFuel.
Proof.
  induction fuel as [|f IH]; intros s L; [lia|]. simpl.
  destruct s as [|c t]; [discriminate|].
  destruct (best_rule rules (c :: t)) as [[n a]|] eqn:B.
  - pose proof (best_rule_bound _ _ _ _ B) as (N1 & N2).
    assert (LS : length (skipn n (c :: t)) < f) by (rewrite skipn_length; lia).
    destruct a.
    + specialize (IH _ LS). destruct (tokenize rules f (skipn n (c :: t))); try discriminate. congruence.
    + specialize (IH _ LS). destruct (tokenize rules f (skipn n (c :: t))); try discriminate. congruence.
    + destruct (eat (skipn n (c :: t))) as [rest'|] eqn:EA; [|discriminate].
      destruct (eat_suffix _ _ EA) as (pre & E & LP).
      assert (LR : length rest' < f).
      { apply (f_equal (@length N)) in E. rewrite app_length in E. lia. }
      specialize (IH _ LR). destruct (tokenize rules f rest'); try discriminate. congruence.
  - assert (LT : length t < f) by (simpl in L; lia).
    specialize (IH _ LT). destruct (tokenize rules f t); try discriminate. congruence.
Qed.
Corollary lex_fuel rules s : lex rules s <> LexFuel.
Proof. apply tokenize_fuel. lia. Qed.

(* a rule list in which every single byte is matched by some rule never echoes *)
Definition covers (rules:list (regex * action)) : bool :=
  forallb (fun c => existsb (fun ra => nullable (deriv c (fst ra))) rules) (map N.of_nat (seq 0 256)).


Lemma lm_best_some : forall s r n b, exists m, lm r s n (Some b) = Some m.
Proof.
  induction s as [|c t IH]; intros r n b; simpl.
  - destruct (nullable r); eauto.
  - destruct (is_empty (deriv c r)); [destruct (nullable r); eauto|].
    destruct (nullable r); apply IH.
Qed.
Lemma lm_mono : forall s r n b m, b <= n -> lm r s n (Some b) = Some m -> b <= m.
Proof.
  induction s as [|c t IH]; intros r n b m L H; simpl in H.
  - destruct (nullable r); inversion H; subst; lia.
  - destruct (is_empty (deriv c r)); [destruct (nullable r); inversion H; subst; lia|].
    destruct (nullable r).
    + apply IH in H; lia.
    + apply IH in H; lia.
Qed.
Lemma longest_of_first r c t : nullable (deriv c r) = true -> exists k, longest r (c :: t) = Some (S k).
Proof.
  intros NU. unfold longest. simpl.
  assert (NE : is_empty (deriv c r) = false) by (destruct (deriv c r); simpl in *; auto; discriminate).
  rewrite NE.
  set (best := if nullable r then Some 0 else None).
  assert (exists m, lm (deriv c r) t 1 best = Some m /\ 1 <= m) as (m & E & L).
  { destruct t as [|d t']; simpl; rewrite NU.
    - exists 1. auto.
    - destruct (is_empty (deriv d (deriv c r))); [exists 1; auto|].
      destruct (lm_best_some t' (deriv d (deriv c r)) 2 1) as (m & E). exists m. split; auto.
      eapply lm_mono; [|exact E]. lia. }
  rewrite E. destruct m; [lia|]. eauto.
Qed.
Lemma best_rule_some : forall rules c t,
  existsb (fun ra => nullable (deriv c (fst ra))) rules = true -> best_rule rules (c :: t) <> None.
Proof.
  induction rules as [|[r a] rest IH]; intros c t H; simpl in H; [discriminate|].
  simpl. apply orb_true_iff in H. destruct H as [H|H].
  - destruct (longest_of_first r c t H) as (k & ->). destruct (best_rule rest (c :: t)) as [[m b]|]; [destruct (m <=? S k)|]; discriminate.
  - specialize (IH c t H). destruct (longest r (c :: t)); destruct (best_rule rest (c :: t)) as [[m b]|]; try congruence; try discriminate.
    destruct (m <=? n); discriminate.
Qed.
Lemma covers_spec rules c : covers rules = true -> (c < 256)%N -> existsb (fun ra => nullable (deriv c (fst ra))) rules = true.
Proof.
  unfold covers. rewrite forallb_forall. intros H L. apply H. apply in_map_iff. exists (N.to_nat c). split; [apply N2Nat.id|].
  apply in_seq. lia.
Qed.
Definition no_echo (l:list lexeme) : Prop := forall x, In x l -> l_class x <> LEcho.
Theorem tokenize_no_echo rules : covers rules = true ->
  forall fuel s l, Forall (fun c => (c < 256)%N) s -> tokenize rules fuel s = LexOk l -> no_echo l.
Proof.
  intros CV. induction fuel as [|f IH]; intros s l FA H; simpl in H; [discriminate|].
  destruct s as [|c t]; [inversion H; intros x []|].
  assert (FS : forall n, Forall (fun c => (c < 256)%N) (skipn n (c :: t))).
  { intros n. apply Forall_forall. intros x I. rewrite Forall_forall in FA. apply FA.
    rewrite <- (firstn_skipn n (c :: t)). apply in_or_app. auto. }
  destruct (best_rule rules (c :: t)) as [[n a]|] eqn:B.
  - destruct a.
    + destruct (tokenize rules f (skipn n (c :: t))) eqn:T; try discriminate. inversion H. subst.
      intros x [<-|I]; [discriminate|]. eapply IH; [apply (FS n)|exact T|exact I].
    + destruct (tokenize rules f (skipn n (c :: t))) eqn:T; try discriminate. inversion H. subst.
      intros x [<-|I]; [discriminate|]. eapply IH; [apply (FS n)|exact T|exact I].
    + destruct (eat (skipn n (c :: t))) as [rest'|] eqn:EA; [|discriminate].
      destruct (tokenize rules f rest') eqn:T; try discriminate. inversion H. subst.
      intros x [<-|I]; [discriminate|]. eapply IH; [|exact T|exact I].
      destruct (eat_suffix _ _ EA) as (pre & E & _). specialize (FS n). rewrite E in FS.
      apply Forall_app in FS. apply FS.
  - exfalso. eapply best_rule_some; [|exact B]. apply covers_spec; auto. inversion FA. auto.
Qed.

(* ---------- what a lexeme is: a match of its rule ---------- *)
Lemma matchb_cons r c w : matchb r (c :: w) = matchb (deriv c r) w.
Proof. reflexivity. Qed.
Lemma lm_sound : forall s r n best m, lm r s n best = Some m ->
  best = Some m \/ (n <= m /\ matchb r (firstn (m - n) s) = true).
Proof.
  induction s as [|c t IH]; intros r n best m H; simpl in H.
  - destruct (nullable r) eqn:NU; [|left; exact H]. inversion H. subst. right. split; auto.
    rewrite Nat.sub_diag. exact NU.
  - assert (BASE : (if nullable r then Some n else best) = Some m -> best = Some m \/ (n <= m /\ matchb r (firstn (m - n) (c :: t)) = true)).
    { destruct (nullable r) eqn:NU; [|auto]. intros E. inversion E. subst. right. split; auto. rewrite Nat.sub_diag. exact NU. }
    destruct (is_empty (deriv c r)); [apply BASE; exact H|].
    apply IH in H. destruct H as [H|(L & M)]; [apply BASE; exact H|].
    right. split; [lia|]. replace (m - n) with (S (m - S n)) by lia. simpl firstn. rewrite matchb_cons. exact M.
Qed.
Lemma longest_sound r s n : longest r s = Some n -> matchb r (firstn n s) = true.
Proof.
  unfold longest. destruct (lm r s 0 None) as [[|k]|] eqn:E; try discriminate. intros H. inversion H. subst.
  apply lm_sound in E. destruct E as [E|(_ & M)]; [discriminate|]. rewrite Nat.sub_0_r in M. exact M.
Qed.
Lemma best_rule_sound : forall rules s n a, best_rule rules s = Some (n, a) ->
  exists r, In (r, a) rules /\ matchb r (firstn n s) = true.
Proof.
  induction rules as [|[r a0] rest IH]; intros s n a H; simpl in H; [discriminate|].
  destruct (longest r s) as [k|] eqn:L.
  - destruct (best_rule rest s) as [[m b]|] eqn:B.
    + destruct (m <=? k); inversion H; subst.
      * exists r. split; [left; reflexivity|apply longest_sound; exact L].
      * destruct (IH _ _ _ B) as (r' & I & M). exists r'. split; [right; exact I|exact M].
    + inversion H. subst. exists r. split; [left; reflexivity|apply longest_sound; exact L].
  - destruct (IH _ _ _ H) as (r' & I & M). exists r'. split; [right; exact I|exact M].
Qed.

Lemma find_close_pre : forall s r, find_close s = Some r -> exists pre, s = pre ++ r /\ find_close pre = Some [].
Proof.
  induction s as [|c t IH]; intros r H; simpl in H; [discriminate|].
  destruct t as [|d t']; [discriminate|].
  destruct (N.eqb c STAR && N.eqb d SLASH) eqn:E.
  - inversion H. subst. exists [c; d]. split; auto. simpl. rewrite E. reflexivity.
  - destruct (IH r H) as (pre & E2 & F). exists (c :: pre). split; [rewrite E2; reflexivity|].
    destruct pre as [|p pre']; [discriminate|]. simpl in E2. inversion E2. subst p.
    simpl. rewrite E. exact F.
Qed.

(* a dropped lexeme is either a whole match of a rule whose action is empty, or a match of a rule with
   the comment action followed by the text up to and including the FIRST following "*/" *)
Definition dropped_by (rules:list (regex * action)) (x:lexeme) : Prop :=
  exists r a n, In (r, a) rules /\ matchb r (firstn n (l_text x)) = true /\ n <= length (l_text x) /\
    ((a = ASkip /\ n = length (l_text x)) \/ (a = AComment /\ find_close (skipn n (l_text x)) = Some [])).
Definition token_by (rules:list (regex * action)) (x:lexeme) : Prop :=
  forall k, l_class x = LTok k -> exists r, In (r, ATok k) rules /\ matchb r (l_text x) = true.

Theorem tokenize_classes rules : forall fuel s l, tokenize rules fuel s = LexOk l ->
  forall x, In x l -> token_by rules x /\ (l_class x = LDrop -> dropped_by rules x).
Proof.
  induction fuel as [|f IH]; intros s l H; simpl in H; [discriminate|].
  destruct s as [|c t]; [inversion H; intros x []|].
  destruct (best_rule rules (c :: t)) as [[n a]|] eqn:B.
  - destruct (best_rule_sound _ _ _ _ B) as (r & I & M).
    pose proof (best_rule_bound _ _ _ _ B) as (N1 & N2).
    assert (FL : length (firstn n (c :: t)) = n) by (apply firstn_length_le; exact N2).
    destruct a.
    + destruct (tokenize rules f (skipn n (c :: t))) eqn:T; try discriminate. inversion H. subst.
      intros x [<-|IN]; [|eapply IH; eauto]. split; [|discriminate].
      intros k0 E. simpl in E. inversion E. subst. exists r. auto.
    + destruct (tokenize rules f (skipn n (c :: t))) eqn:T; try discriminate. inversion H. subst.
      intros x [<-|IN]; [|eapply IH; eauto]. split; [intros k0 E; discriminate|]. intros _.
      exists r, ASkip, n. simpl. rewrite FL. repeat split; auto. rewrite <- FL at 1. rewrite firstn_all. exact M.
    + destruct (eat (skipn n (c :: t))) as [rest'|] eqn:EA; [|discriminate].
      destruct (tokenize rules f rest') eqn:T; try discriminate. inversion H. subst.
      intros x [<-|IN]; [|eapply IH; eauto]. split; [intros k0 E; discriminate|]. intros _.
      rewrite eat_first_close in EA. destruct (find_close_pre _ _ EA) as (pre & E & FC).
      assert (FB : firstn (length (skipn n (c :: t)) - length rest') (skipn n (c :: t)) = pre).
      { rewrite E. rewrite app_length. replace (length pre + length rest' - length rest') with (length pre) by lia.
        rewrite firstn_app, firstn_all, Nat.sub_diag. simpl. apply app_nil_r. }
      exists r, AComment, n. simpl. rewrite FB.
      assert (F1 : firstn n (firstn n (c :: t) ++ pre) = firstn n (c :: t)).
      { rewrite firstn_app, FL, Nat.sub_diag. simpl. rewrite app_nil_r. rewrite <- FL at 1. apply firstn_all. }
      assert (S1 : skipn n (firstn n (c :: t) ++ pre) = pre).
      { rewrite skipn_app, FL, Nat.sub_diag. simpl. rewrite <- FL at 1. rewrite skipn_all. reflexivity. }
      rewrite F1, S1. repeat split; auto. rewrite app_length, FL. lia.
  - destruct (tokenize rules f t) eqn:T; try discriminate. inversion H. subst.
    intros x [<-|IN]; [|eapply IH; eauto]. split; [intros k0 E; discriminate|intros E; discriminate].
Qed.

(* ---------- longest match, first rule ---------- *)
Lemma matchb_empty w : matchb Empty w = false.
Proof. unfold matchb. induction w as [|c t IH]; simpl; auto. Qed.
Lemma is_empty_eq r : is_empty r = true -> r = Empty.
Proof. destruct r; simpl; auto; discriminate. Qed.
Lemma lm_complete : forall s r n best k, k <= length s -> matchb r (firstn k s) = true ->
  exists m, lm r s n best = Some m /\ n + k <= m.
Proof.
  induction s as [|c t IH]; intros r n best k L M.
  - simpl in L. assert (k = 0) by lia. subst. simpl in *. unfold matchb in M. simpl in M. rewrite M. exists n. split; auto. lia.
  - destruct k as [|k'].
    + simpl in M. unfold matchb in M. simpl in M. simpl. rewrite M.
      destruct (is_empty (deriv c r)); [exists n; split; auto; lia|].
      destruct (lm_best_some t (deriv c r) (S n) n) as (m & E). exists m. split; auto.
      apply lm_mono in E; lia.
    + simpl firstn in M. rewrite matchb_cons in M. simpl.
      destruct (is_empty (deriv c r)) eqn:EM.
      * apply is_empty_eq in EM. rewrite EM, matchb_empty in M. discriminate.
      * destruct (IH (deriv c r) (S n) (if nullable r then Some n else best) k' ltac:(simpl in L; lia) M) as (m & E & G).
        exists m. split; auto. lia.
Qed.
(* no longer prefix is matched by the same rule *)
Theorem longest_maximal r s n : longest r s = Some n ->
  forall k, k <= length s -> matchb r (firstn k s) = true -> k <= n.
Proof.
  unfold longest. intros H k L M. destruct (lm_complete s r 0 None k L M) as (m & E & G). rewrite E in H.
  destruct m; [discriminate|]. inversion H. lia.
Qed.
Lemma longest_none r s : longest r s = None -> forall k, 1 <= k <= length s -> matchb r (firstn k s) = false.
Proof.
  unfold longest. intros H k L. destruct (matchb r (firstn k s)) eqn:M; auto.
  destruct (lm_complete s r 0 None k ltac:(lia) M) as (m & E & G). rewrite E in H. destruct m; [lia|discriminate].
Qed.
Lemma best_rule_none : forall rules s, best_rule rules s = None -> forall r a, In (r, a) rules -> longest r s = None.
Proof.
  induction rules as [|[r0 a0] t IH]; intros s B r a I; [destruct I|]. simpl in B.
  destruct (longest r0 s) eqn:L0.
  - destruct (best_rule t s) as [[? ?]|]; [destruct (_ <=? _)|]; discriminate.
  - destruct I as [I|I]; [inversion I; subst; exact L0|eapply IH; eauto].
Qed.
(* the chosen rule has the longest match; among rules with a match of that length it is the first *)
Theorem best_rule_spec : forall rules s n a, best_rule rules s = Some (n, a) ->
  exists pre r post, rules = pre ++ (r, a) :: post /\ longest r s = Some n /\
    (forall r' a' m, In (r', a') pre -> longest r' s = Some m -> m < n) /\
    (forall r' a' m, In (r', a') post -> longest r' s = Some m -> m <= n).
Proof.
  induction rules as [|[r a0] rest IH]; intros s n a H; simpl in H; [discriminate|].
  destruct (longest r s) as [k|] eqn:L.
  - destruct (best_rule rest s) as [[m b]|] eqn:B.
    + destruct (IH _ _ _ B) as (pre & r1 & post & E & L1 & P1 & P2).
      destruct (Nat.leb_spec m k); injection H as Hn Ha; subst n a.
      * exists [], r, rest. split; [reflexivity|]. split; [exact L|]. split; [intros ? ? ? []|].
        intros r' a' m' I LM. rewrite E in I. apply in_app_or in I. destruct I as [I|[I|I]].
        -- specialize (P1 _ _ _ I LM). lia.
        -- injection I as I1 I2. subst r' a'. rewrite L1 in LM. injection LM as LM. lia.
        -- specialize (P2 _ _ _ I LM). lia.
      * exists ((r, a0) :: pre), r1, post. split; [rewrite E; reflexivity|]. split; [exact L1|]. split; [|exact P2].
        intros r' a' m' [I|I] LM; [inversion I; subst; rewrite L in LM; inversion LM; lia|eapply P1; eauto].
    + injection H as Hn Ha. subst n a. exists [], r, rest. split; [reflexivity|]. split; [exact L|]. split; [intros ? ? ? []|].
      intros r' a' m' I LM. rewrite (best_rule_none _ _ B _ _ I) in LM. discriminate.
  - destruct (IH _ _ _ H) as (pre & r1 & post & E & L1 & P1 & P2).
    exists ((r, a0) :: pre), r1, post. split; [rewrite E; reflexivity|]. split; [exact L1|]. split; [|exact P2].
    intros r' a' m' [I|I] LM; [inversion I; subst; rewrite L in LM; discriminate|eapply P1; eauto].
Qed.
