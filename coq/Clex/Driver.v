(* Model M9b: clex/driver.c — the modes over the token array.  Index-level where the C code
   indexes tok_list with a computed subscript (define / replace_macro): reads go through [rd],
   and a read outside 0..toks-1 yields the explicit result OOB.  No proofs in this file. *)
From Coq Require Import List NArith ZArith Bool Arith.
Import ListNotations.
From CV Require Import Clex.Regex.

Record tok := mkt { t_kind : kind; t_str : list N }.
Definition kind_eqb (a b:kind) : bool :=
  match a, b with
  | TOK_KEYWORD, TOK_KEYWORD | TOK_OP, TOK_OP | TOK_IDENT, TOK_IDENT | TOK_OTHER, TOK_OTHER
  | TOK_NUMBER, TOK_NUMBER | TOK_WS, TOK_WS | TOK_NEWLINE, TOK_NEWLINE | TOK_STRING, TOK_STRING
  | TOK_UNKNOWN, TOK_UNKNOWN => true
  | _, _ => false
  end.
Definition blank (t:tok) : bool := kind_eqb (t_kind t) TOK_WS || kind_eqb (t_kind t) TOK_NEWLINE.
Fixpoint str_eqb (a b:list N) : bool :=
  match a, b with [], [] => true | x :: a', y :: b' => N.eqb x y && str_eqb a' b' | _, _ => false end.
Definition texts (ts:list tok) : list N := concat (map t_str ts).

Inductive mode := MPrint | MRmToks (n:nat) | MRmPattern (n:nat) | MDeleteString | MRename | MDefine.
(* exit status (true = OK 51, false = STOP 71) and stdout; OOB = a read outside the token array *)
Inductive res := Exit (ok:bool) (out:list N) | OOB.

(* ---------------- rm-toks-N ---------------- *)
(* which = non-blank tokens seen so far; the kept tokens and whether idx was reached *)
Fixpoint rm_toks_go (n idx:nat) (ts:list tok) (which:nat) (started:bool) : bool * list tok :=
  match ts with
  | [] => (false, [])
  | t :: rest =>
    let nb := negb (blank t) in
    let hit := nb && Nat.eqb which idx in
    let started' := started || hit in
    let which' := if nb then S which else which in
    let keep := negb started' || (idx + n <? which') in
    let r := rm_toks_go n idx rest which' started' in
    (hit || fst r, if keep then t :: snd r else snd r)
  end.
Definition rm_toks (n idx:nat) (ts:list tok) : res :=
  let r := rm_toks_go n idx ts 0 false in Exit (fst r) (texts (snd r)).

(* ---------------- rm-tok-pattern-N ---------------- *)
(* pat as a list of bits, least significant first: bit 0 is always set *)
Fixpoint bits (k:nat) (x:nat) : list bool :=
  match k with 0 => [] | S k' => Nat.odd x :: bits k' (Nat.div2 x) end.
Fixpoint rm_pat_go (n idx:nat) (ts:list tok) (which:nat) (started:bool) (pat:list bool) : bool * bool * list tok :=
  match ts with
  | [] => (false, false, [])
  | t :: rest =>
    if blank t then
      let r := rm_pat_go n idx rest which started pat in (fst (fst r), snd (fst r), t :: snd r)
    else
      let hit := Nat.eqb which idx in
      let started1 := started || hit in
      let started2 := if Nat.eqb which (idx + n) then false else started1 in
      let which' := S which in
      if started2 then
        let b := match pat with b :: _ => b | [] => false end in
        let r := rm_pat_go n idx rest which' started2 (tl pat) in
        (hit || fst (fst r), b || snd (fst r), if b then snd r else t :: snd r)
      else
        let r := rm_pat_go n idx rest which' started2 pat in
        (hit || fst (fst r), snd (fst r), t :: snd r)
  end.
Definition rm_pattern (n idx:nat) (ts:list tok) : res :=
  let np := 2 ^ (n - 1) in
  let pat := bits 8 (1 + 2 * (idx mod np)) in
  let r := rm_pat_go n (idx / np) ts 0 false pat in
  Exit (fst (fst r) && snd (fst r)) (texts (snd r)).

(* ---------------- delete-string ---------------- *)
Definition QUOTE := 34%N.
Definition is_string (t:tok) : bool := kind_eqb (t_kind t) TOK_STRING && negb (str_eqb (t_str t) [QUOTE; QUOTE]).
Fixpoint del_str_go (idx:nat) (ts:list tok) (which:nat) : bool * list N :=
  match ts with
  | [] => (false, [])
  | t :: rest =>
    if is_string t then
      let r := del_str_go idx rest (S which) in
      if Nat.eqb which idx then (true, [QUOTE; QUOTE] ++ snd r) else (fst r, t_str t ++ snd r)
    else let r := del_str_go idx rest which in (fst r, t_str t ++ snd r)
  end.
Definition delete_string (idx:nat) (ts:list tok) : res := let r := del_str_go idx ts 0 in Exit (fst r) (snd r).

(* ---------------- rename-toks ---------------- *)
Definition LA := 97%N.
Definition LZ := 122%N.
(* next_name: odometer over 'a'..'z', most significant first; rev_next works on the reversed name *)
Fixpoint rev_next (r:list N) : list N :=
  match r with
  | [] => [LA]                                   (* wrapped at position 0: prepend 'a' *)
  | c :: t => if N.eqb c LZ then LA :: rev_next t else (c + 1)%N :: t
  end.
Definition next_name (name:list N) : list N := rev (rev_next (rev name)).
Fixpoint find_unused (fuel:nat) (ts:list tok) (name:list N) : list N :=
  match fuel with
  | 0 => name
  | S f => if existsb (fun t => str_eqb (t_str t) name) ts then find_unused f ts (next_name name) else name
  end.
(* strcmp(a, b) < 0 over unsigned bytes *)
Fixpoint str_ltb (a b:list N) : bool :=
  match a, b with
  | [], [] => false | [], _ :: _ => true | _ :: _, [] => false
  | x :: a', y :: b' => if N.ltb x y then true else if N.ltb y x then false else str_ltb a' b'
  end.
Definition should_rename (name newname:list N) : bool :=
  if existsb (fun c => N.ltb c LA || N.ltb LZ c) name then true
  else if length name <? length newname then false
  else str_ltb newname name.
Fixpoint index_toks (ts:list tok) (newname:list N) (index:list (list N)) : list (list N) :=
  match ts with
  | [] => index
  | t :: rest =>
    if kind_eqb (t_kind t) TOK_IDENT && should_rename (t_str t) newname && negb (existsb (str_eqb (t_str t)) index)
    then index_toks rest newname (index ++ [t_str t]) else index_toks rest newname index
  end.
Definition rename_toks (idx:nat) (ts:list tok) : res :=
  let newname := find_unused (S (length ts)) ts [LA] in
  let index := index_toks ts newname [] in
  match nth_error index idx with
  | None => Exit false []
  | Some target =>
    Exit true (concat (map (fun t => if kind_eqb (t_kind t) TOK_IDENT && should_rename (t_str t) newname && str_eqb (t_str t) target
                                      then newname else t_str t) ts))
  end.

(* ---------------- define (index level, as repaired by 47ede41) ---------------- *)
Definition rd (ts:list tok) (i:nat) : option tok := nth_error ts i.
Definition HASH := [35%N].
Definition DEFINE := [100; 101; 102; 105; 110; 101]%N.
(* while (i < toks && tok_list[i].kind == TOK_WS) i++ *)
Fixpoint skip_ws (ts:list tok) (fuel i:nat) : nat :=
  match fuel with
  | 0 => i
  | S f => match rd ts i with
           | Some t => if kind_eqb (t_kind t) TOK_WS then skip_ws ts f (S i) else i
           | None => i
           end
  end.
Fixpoint find_eol (ts:list tok) (fuel e:nat) : nat :=
  match fuel with
  | 0 => e
  | S f => match rd ts e with
           | Some t => if kind_eqb (t_kind t) TOK_NEWLINE then e else find_eol ts f (S e)
           | None => e
           end
  end.
Definition slice (ts:list tok) (a b:nat) : list tok := firstn (b - a) (skipn a ts).
Definition replace_macro (ts:list tok) (i:nat) : res :=
  match rd ts i with
  | None => OOB
  | Some m =>
    let b := skip_ws ts (length ts) (S i) in
    let e := find_eol ts (length ts) b in
    let body := texts (slice ts b e) in
    Exit true (concat (map (fun xt => if negb (Nat.eqb (fst xt) i) && str_eqb (t_str (snd xt)) (t_str m) then body else t_str (snd xt))
                           (combine (seq 0 (length ts)) ts)))
  end.
Definition used_elsewhere (ts:list tok) (i:nat) (name:list N) : bool :=
  existsb (fun xt => negb (Nat.eqb (fst xt) i) && str_eqb (t_str (snd xt)) name) (combine (seq 0 (length ts)) ts).
(* for (i = 0; i < toks; ++i) { ... } with the body advancing i *)
Fixpoint define_go (ts:list tok) (fuel i found idx:nat) : res :=
  match fuel with
  | 0 => Exit false []
  | S f =>
    if length ts <=? i then Exit false [] else
    match rd ts i with
    | None => OOB
    | Some t =>
      if negb (str_eqb (t_str t) HASH) then define_go ts f (S i) found idx else
      let i1 := skip_ws ts (length ts) (S i) in
      if length ts <=? i1 then Exit false [] else
      match rd ts i1 with
      | None => OOB
      | Some d =>
        if negb (str_eqb (t_str d) DEFINE) then define_go ts f (S i1) found idx else
        let i2 := skip_ws ts (length ts) (S i1) in
        if length ts <=? i2 then Exit false [] else
        match rd ts i2 with
        | None => OOB
        | Some nm =>
          if negb (used_elsewhere ts i2 (t_str nm)) then define_go ts f (S i2) found idx
          else if Nat.eqb found idx then replace_macro ts i2
          else define_go ts f (S i2) (S found) idx
        end
      end
    end
  end.
Definition define (idx:nat) (ts:list tok) : res := define_go ts (S (length ts)) 0 0 idx.

(* ---------------- main ---------------- *)
Definition toks_of (l:list lexeme) : list tok :=
  flat_map (fun x => match l_class x with LTok k => [mkt k (l_text x)] | _ => [] end) l.
Definition run_mode (m:mode) (idx:nat) (ts:list tok) : res :=
  match m with
  | MPrint => Exit true (texts ts)
  | MRmToks n => rm_toks n idx ts
  | MRmPattern n => rm_pattern n idx ts
  | MDeleteString => delete_string idx ts
  | MRename => rename_toks idx ts
  | MDefine => define idx ts
  end.
Definition clex (rules:list (regex * action)) (m:mode) (idx:nat) (input:list N) : res :=
  match lex rules input with
  | LexOk l => run_mode m idx (toks_of l)
  | LexStop => Exit false []           (* exit(STOP) inside the comment action: nothing printed yet *)
  | LexFuel => OOB                     (* excluded by theorem lex_fuel *)
  end.
