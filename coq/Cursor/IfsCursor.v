(* The cursor of IfPass: a binary-search state plus the value (0 / 1) the chosen conditionals are resolved to.
   advance: value 0 -> the same range with value 1; value 1 -> the next range (BinaryState.advance) with value 0.
   When every candidate is rejected the pass therefore offers every range of the binary-search enumeration twice, first
   resolved to 0 and then to 1 - in particular every single conditional with both values. *)
From Coq Require Import List Arith Bool Lia.
Import ListNotations.
From CV Require Import Cursor.BinaryState.

Definition ifs_cur := (bst * bool)%type.
Definition ifs_advance (c:ifs_cur) : option ifs_cur :=
  let '(s, v) := c in
  if v then match advance s with Some s' => Some (s', false) | None => None end
  else Some (s, true).

(* the ranges of an all-reject run of the binary-search cursor, and the cursors of an all-reject run of IfPass *)
Fixpoint enum (fuel:nat) (s:bst) : list bst :=
  match fuel with 0 => [] | S f => s :: match advance s with Some s' => enum f s' | None => [] end end.
Fixpoint ifs_enum (fuel:nat) (c:ifs_cur) : list ifs_cur :=
  match fuel with 0 => [] | S f => c :: match ifs_advance c with Some c' => ifs_enum f c' | None => [] end end.

Theorem ifs_enum_spec : forall fuel s,
  ifs_enum (2 * fuel) (s, false) = flat_map (fun r => [(r, false); (r, true)]) (enum fuel s).
Proof.
  induction fuel as [|f IH]; intros s; [reflexivity|].
  replace (2 * S f) with (S (S (2 * f))) by lia.
  cbn [ifs_enum ifs_advance enum flat_map app].
  destruct (advance s) as [s'|]; [rewrite IH; reflexivity|].
  destruct f; reflexivity.
Qed.

(* every range of the binary-search enumeration is offered with both values, 0 first *)
Corollary ifs_both_values fuel s r : In r (enum fuel s) ->
  In (r, false) (ifs_enum (2 * fuel) (s, false)) /\ In (r, true) (ifs_enum (2 * fuel) (s, false)).
Proof.
  intros H. rewrite ifs_enum_spec. split; apply in_flat_map; exists r; (split; [exact H|simpl; auto]).
Qed.
