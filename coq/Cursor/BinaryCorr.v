(* Encoders used by the correspondence check for the binary cursor. *)
From Coq Require Import List ZArith Bool Arith.
Import ListNotations.
From CV Require Import Base.Corr Cursor.BinaryState Cursor.IfsCursor.

Definition enc_bst (s:bst) : list Z := [zn (index s); zn (chunk s); zn (instances s)].
(* one state probe: end, real_chunk, advance, advance_on_success for n' = 0..instances+1 *)
Definition probe (t:nat*nat*nat) : list Z :=
  let '(i,c,n) := t in let s := mkb i c n in
  [zn (end_ s); zn (real_chunk s)] ++ zopt enc_bst (advance s) ++
  flat_map (fun n' => zopt enc_bst (advance_on_success s n')) (seq 0 (n + 2)).
Definition probe_create (n:nat) : list Z := zopt enc_bst (create n).

Definition enc_entry (e:entry) : list Z :=
  let '(i,e',n,a) := e in [zn i; zn e'; zn n; zb a].
(* full monotone reduction of the list 0..n-1 with required set given as a list *)
Definition mono_run (t:nat * list nat) : list Z :=
  let '(n, req) := t in
  match reduce (ok_mono (fun x => existsb (Nat.eqb x) req)) (seq 0 n) with
  | Done l log => (zn (length l) :: map zn l) ++ flat_map enc_entry log
  | Fuel => [(-99)%Z]
  end.
(* reduction under an explicit verdict sequence (bit k = verdict of candidate k) *)
Definition seq_run (t:nat * list bool) : list Z :=
  let '(n, bits) := t in
  match reduce (fun k _ _ => nth k bits false) (seq 0 n) with
  | Done l log => (zn (length l) :: map zn l) ++ flat_map enc_entry log
  | Fuel => [(-99)%Z]
  end.

(* the cursors of an all-reject run of IfPass on n conditionals: (index, chunk, instances, value) in order *)
Definition ifs_enum_case (n:nat) : list Z :=
  match create n with
  | None => []
  | Some s => flat_map (fun c => enc_bst (fst c) ++ [zb (snd c)]) (ifs_enum (2 * (S n * S (S n))) (s, false))
  end.
