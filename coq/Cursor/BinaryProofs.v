(* Proofs about the binary-search cursor (M4): termination for every verdict sequence,
   ranges in bounds, exactness for monotone tests, completeness of the single-instance
   sweep, tiling of every sweep. *)
From Coq Require Import List Arith Bool Lia.
Import ListNotations.
From CV Require Import Cursor.BinaryState.

Local Arguments Nat.div : simpl never.
Local Arguments Nat.min : simpl never.
Local Arguments Nat.leb : simpl never.
Local Arguments Nat.ltb : simpl never.

Lemma half_lt c : 1 <= c -> c / 2 < c.
Proof. intros. apply Nat.div_lt; lia. Qed.
Lemma half_small c : 1 <= c -> c / 2 < 1 -> c = 1.
Proof.
  intros H1 H2. destruct c as [|[|c]]; try lia.
  exfalso. assert (1 <= S (S c) / 2); [|lia].
  apply Nat.div_le_lower_bound; lia.
Qed.

Section P.
Context {X:Type}.

Lemma skipn_skipn' : forall b a (l:list X), skipn a (skipn b l) = skipn (b + a) l.
Proof.
  induction b as [|b IH]; intros a l; simpl; auto.
  destruct l as [|x l]; [rewrite !skipn_nil; auto|]. apply IH.
Qed.

Lemma split3 (l:list X) a b : a <= b -> b <= length l ->
  l = firstn a l ++ slice l a b ++ skipn b l /\ length (firstn a l) = a /\ length (slice l a b) = b - a.
Proof.
  intros H1 H2. unfold slice. split; [|split].
  - rewrite <- (firstn_skipn a l) at 1. f_equal.
    rewrite <- (firstn_skipn (b - a) (skipn a l)) at 1. f_equal.
    rewrite skipn_skipn'. f_equal. lia.
  - rewrite firstn_length. lia.
  - rewrite firstn_length, skipn_length. lia.
Qed.

Lemma cut_length (l:list X) a b : a <= b -> b <= length l -> length (cut l a b) = length l - (b - a).
Proof.
  intros H1 H2. unfold cut. rewrite app_length, firstn_length, skipn_length. lia.
Qed.

(* ------------------------------------------------------------------------------------ *)
(* Well-formed cursor for a list; n bounds the original size *)
Definition WFb (l:list X) (s:bst) (n:nat) : Prop :=
  instances s = length l /\ index s < instances s /\ 1 <= chunk s /\ length l <= n /\ chunk s <= n.

Definition mu (n:nat) (s:bst) := chunk s * S n + (instances s - index s).

Definition entry_ok (e:entry) : Prop :=
  let '(i, e', inst, _) := e in i < e' /\ e' <= inst.

Lemma advance_WF l s n s' : WFb l s n -> advance s = Some s' -> WFb l s' n /\ mu n s' < mu n s.
Proof.
  intros (Wi & Wx & Wc & Wn & Wcn) A. unfold advance in A.
  destruct (instances s <=? index s + chunk s) eqn:LE.
  - destruct (chunk s / 2 <? 1) eqn:H2; [discriminate|]. inversion A; subst s'; clear A.
    apply Nat.ltb_ge in H2. pose proof (half_lt (chunk s) Wc).
    unfold WFb, mu; simpl. split; [repeat split; lia|]. apply Nat.leb_le in LE. nia.
  - inversion A; subst s'; clear A. apply Nat.leb_gt in LE.
    unfold WFb, mu; simpl. split; [repeat split; lia|]. nia.
Qed.

Lemma aos_WF l s n s' :
  WFb l s n -> advance_on_success s (length (cut l (index s) (end_ s))) = Some s' ->
  WFb (cut l (index s) (end_ s)) s' n /\ mu n s' < mu n s.
Proof.
  intros W A. pose proof W as (Wi & Wx & Wc & Wn & Wcn).
  assert (He : index s < end_ s /\ end_ s <= length l) by (unfold end_; lia).
  pose proof (cut_length l (index s) (end_ s)) as CL.
  unfold advance_on_success in A.
  destruct (Nat.eqb (length (cut l (index s) (end_ s))) 0) eqn:Z; [discriminate|].
  apply Nat.eqb_neq in Z.
  destruct (length (cut l (index s) (end_ s)) <=? index s) eqn:LE.
  - apply Nat.leb_le in LE. unfold advance in A; simpl in A.
    assert (E : length (cut l (index s) (end_ s)) <=? index s + chunk s = true) by (apply Nat.leb_le; lia).
    rewrite E in A. destruct (chunk s / 2 <? 1) eqn:H2; [discriminate|]. inversion A; subst s'; clear A.
    apply Nat.ltb_ge in H2. pose proof (half_lt (chunk s) Wc).
    unfold WFb, mu; simpl. split; [repeat split; lia|]. nia.
  - apply Nat.leb_gt in LE. inversion A; subst s'; clear A.
    unfold WFb, mu; simpl. split; [repeat split; lia|]. lia.
Qed.

(* ---------- termination for every verdict function, bounds on every proposed range ------ *)
Theorem run_total (test : nat -> list X -> bst -> bool) n : forall fuel k l s log,
  WFb l s n -> mu n s < fuel -> Forall entry_ok log ->
  exists l' log', run test fuel k l s log = Done l' log' /\ Forall entry_ok log' /\
                  length log' <= length log + mu n s /\ length l' <= length l.
Proof.
  induction fuel as [|fuel IH]; intros k l s log W Hf HL; [lia|].
  pose proof W as (Wi & Wx & Wc & Wn & Wcn).
  assert (He : index s < end_ s /\ end_ s <= instances s) by (unfold end_; lia).
  simpl. destruct (test k l s).
  - assert (HL' : Forall entry_ok (log ++ [(index s, end_ s, instances s, true)])).
    { apply Forall_app; split; [exact HL|]. constructor; [|constructor]. simpl. lia. }
    pose proof (cut_length l (index s) (end_ s)) as CL.
    destruct (advance_on_success s (length (cut l (index s) (end_ s)))) as [s'|] eqn:A.
    + destruct (aos_WF l s n s' W A) as (W' & M').
      destruct (IH (S k) _ s' _ W' ltac:(lia) HL') as (l' & log' & R & F & LL & L2).
      exists l', log'. rewrite app_length in LL; simpl in LL. repeat split; auto; lia.
    + eexists _, _. split; [reflexivity|]. rewrite app_length; simpl.
      assert (1 * S n <= chunk s * S n) by (apply Nat.mul_le_mono_r; lia).
      unfold mu. repeat split; auto; lia.
  - assert (HL' : Forall entry_ok (log ++ [(index s, end_ s, instances s, false)])).
    { apply Forall_app; split; [exact HL|]. constructor; [|constructor]. simpl. lia. }
    destruct (advance s) as [s'|] eqn:A.
    + destruct (advance_WF l s n s' W A) as (W' & M').
      destruct (IH (S k) l s' _ W' ltac:(lia) HL') as (l' & log' & R & F & LL & L2).
      exists l', log'. rewrite app_length in LL; simpl in LL. repeat split; auto; lia.
    + eexists _, _. split; [reflexivity|]. rewrite app_length; simpl.
      assert (1 * S n <= chunk s * S n) by (apply Nat.mul_le_mono_r; lia).
      unfold mu. repeat split; auto; lia.
Qed.

Theorem reduce_total (test : nat -> list X -> bst -> bool) (l:list X) :
  exists l' log, reduce test l = Done l' log /\ Forall entry_ok log /\
                 length log <= fuel_for (length l) /\ length l' <= length l.
Proof.
  unfold reduce, create. destruct (Nat.eqb (length l) 0) eqn:Z.
  - exists l, []. repeat split; auto; simpl; lia.
  - apply Nat.eqb_neq in Z.
    destruct (run_total test (length l) (fuel_for (length l)) 0 l (mkb 0 (length l) (length l)) [])
      as (l' & log' & R & F & LL & L2).
    + unfold WFb; simpl. repeat split; lia.
    + unfold mu, fuel_for; simpl. nia.
    + constructor.
    + exists l', log'. repeat split; auto. simpl in LL. unfold mu, fuel_for in *; simpl in *. nia.
Qed.

(* ---------- exactness for monotone tests ------------------------------------------------ *)
Variable req : X -> bool.

Lemma filter_all_false (l:list X) : forallb (fun x => negb (req x)) l = true -> filter req l = [].
Proof.
  induction l as [|x l IH]; simpl; auto. rewrite andb_true_iff. intros [H1 H2].
  destruct (req x); simpl in *; [discriminate|auto].
Qed.
Lemma filter_id (l:list X) : forallb req l = true -> filter req l = l.
Proof.
  induction l as [|x l IH]; simpl; auto. rewrite andb_true_iff. intros [H1 H2].
  rewrite H1. f_equal; auto.
Qed.
Lemma forallb_nth (l:list X) : (forall p x, nth_error l p = Some x -> req x = true) -> forallb req l = true.
Proof.
  induction l as [|a l IH]; simpl; intros H; auto. rewrite (H 0 a eq_refl). simpl.
  apply IH. intros p x Hp. apply (H (S p)); auto.
Qed.

Definition WF (l:list X) (s:bst) (n:nat) : Prop :=
  WFb l s n /\
  (chunk s = 1 -> forall p x, p < index s -> nth_error l p = Some x -> req x = true).

Lemma reject_single (l:list X) i : i < length l ->
  forallb (fun x => negb (req x)) (slice l i (S i)) = false ->
  forall x, nth_error l i = Some x -> req x = true.
Proof.
  intros Hi H x Hx. unfold slice in H. replace (S i - i) with 1 in H by lia.
  assert (E : skipn i l = x :: skipn (S i) l).
  { clear H Hi. revert i Hx. induction l as [|a l IH]; intros i Hx.
    - destruct i; simpl in Hx; discriminate.
    - destruct i; simpl in Hx.
      + inversion Hx; subst. reflexivity.
      + simpl. apply IH; auto. }
  rewrite E in H. simpl in H. destruct (req x); [reflexivity|]. simpl in H. discriminate.
Qed.

Lemma nth_error_firstn_lt (l:list X) a p : p < a -> nth_error (firstn a l) p = nth_error l p.
Proof.
  revert l p. induction a as [|a IH]; intros l p H; [lia|].
  destruct l as [|x l]; simpl; [destruct p; auto|]. destruct p; simpl; auto. apply IH; lia.
Qed.

Theorem run_exact n : forall fuel k (l:list X) s log,
  WF l s n -> mu n s < fuel ->
  exists l' log', run (ok_mono req) fuel k l s log = Done l' log' /\
                  filter req l' = filter req l /\ forallb req l' = true.
Proof.
  induction fuel as [|fuel IH]; intros k l s log W Hf; [lia|].
  destruct W as ((Wi & Wx & Wc & Wn & Wcn) & Ws).
  destruct s as [i c inst]; simpl in *. subst inst.
  set (e := Nat.min (i + c) (length l)).
  assert (He : i < e /\ e <= length l) by (unfold e; lia).
  destruct (split3 l i e) as (E3 & LA & LB); [lia|lia|].
  set (Apre := firstn i l) in *. set (B := slice l i e) in *. set (C := skipn e l) in *.
  unfold ok_mono, end_, cut; simpl. fold e. fold B. fold Apre. fold C.
  destruct (forallb (fun x => negb (req x)) B) eqn:OK.
  - (* accept *)
    assert (FL : filter req (Apre ++ C) = filter req l).
    { rewrite E3 at 1. rewrite !filter_app, (filter_all_false B OK). reflexivity. }
    assert (LL : length (Apre ++ C) = length l - (e - i)).
    { rewrite app_length, LA. unfold C. rewrite skipn_length. lia. }
    unfold advance_on_success. simpl.
    destruct (Nat.eqb (length (Apre ++ C)) 0) eqn:Z.
    + apply Nat.eqb_eq in Z. destruct (Apre ++ C) eqn:EE; simpl in Z; [|lia].
      eexists _, _; split; [reflexivity|]. split; auto.
    + apply Nat.eqb_neq in Z.
      destruct (length (Apre ++ C) <=? i) eqn:LE.
      * apply Nat.leb_le in LE. unfold advance; simpl.
        assert (HH : length (Apre ++ C) <=? i + c = true) by (apply Nat.leb_le; lia). rewrite HH.
        destruct (c / 2 <? 1) eqn:H2.
        -- apply Nat.ltb_lt in H2. pose proof (half_small c Wc H2) as ->.
           eexists _, _; split; [reflexivity|]. split; auto.
           assert (C0 : C = []) by (destruct C; auto; rewrite app_length in LE; simpl in LE; lia).
           rewrite C0, app_nil_r. apply forallb_nth. intros p x Hp.
           assert (Hpi : p < i).
           { assert (NN : nth_error Apre p <> None) by congruence. apply nth_error_Some in NN. lia. }
           unfold Apre in Hp. rewrite nth_error_firstn_lt in Hp by auto. eapply Ws; eauto.
        -- apply Nat.ltb_ge in H2.
           edestruct (IH (S k) (Apre ++ C) (mkb 0 (c / 2) (length (Apre ++ C)))) as (l' & log' & R & F & AA).
           ++ unfold WF, WFb; simpl. pose proof (half_lt c Wc). repeat split; try lia.
           ++ unfold mu in *; simpl in *. pose proof (half_lt c Wc). nia.
           ++ exists l', log'. split; [exact R|]. split; [rewrite F; exact FL|exact AA].
      * apply Nat.leb_gt in LE.
        edestruct (IH (S k) (Apre ++ C) (mkb i c (length (Apre ++ C)))) as (l' & log' & R & F & AA).
        -- unfold WF, WFb; simpl. repeat split; try lia.
           intros C1 p x Hp Hx. rewrite nth_error_app1 in Hx by lia.
           unfold Apre in Hx. rewrite nth_error_firstn_lt in Hx by auto. eapply Ws; eauto.
        -- unfold mu in *; simpl in *. lia.
        -- exists l', log'. split; [exact R|]. split; [rewrite F; exact FL|exact AA].
  - (* reject *)
    unfold advance; simpl.
    destruct (length l <=? i + c) eqn:LE.
    + apply Nat.leb_le in LE. destruct (c / 2 <? 1) eqn:H2.
      * apply Nat.ltb_lt in H2. pose proof (half_small c Wc H2) as ->.
        eexists _, _; split; [reflexivity|]. split; auto.
        apply forallb_nth. intros p x Hp.
        assert (p < length l) by (apply nth_error_Some; congruence).
        destruct (Nat.eq_dec p i) as [->|NE].
        -- apply (reject_single l i Wx); [|exact Hp]. unfold B, e in OK.
           replace (Nat.min (i+1) (length l)) with (S i) in OK by lia. exact OK.
        -- eapply (Ws eq_refl p); eauto. lia.
      * apply Nat.ltb_ge in H2. apply IH.
        -- unfold WF, WFb; simpl. pose proof (half_lt c Wc). repeat split; try lia.
        -- unfold mu in *; simpl in *. pose proof (half_lt c Wc). nia.
    + apply Nat.leb_gt in LE. apply IH.
      * unfold WF, WFb; simpl. repeat split; try lia.
        intros -> p x Hp Hx. destruct (Nat.eq_dec p i) as [->|NE].
        -- apply (reject_single l i Wx); [|exact Hx]. unfold B, e in OK.
           replace (Nat.min (i+1) (length l)) with (S i) in OK by lia. exact OK.
        -- eapply (Ws eq_refl p); eauto. lia.
      * unfold mu in *; simpl in *. nia.
Qed.

Theorem reduce_exact (l:list X) : exists log, reduce (ok_mono req) l = Done (filter req l) log.
Proof.
  unfold reduce, create. destruct (Nat.eqb (length l) 0) eqn:Z.
  - apply Nat.eqb_eq in Z. destruct l; simpl in *; [eexists; reflexivity|lia].
  - apply Nat.eqb_neq in Z.
    destruct (run_exact (length l) (fuel_for (length l)) 0 l (mkb 0 (length l) (length l)) [])
      as (l' & log' & R & F & A).
    + unfold WF, WFb; simpl. repeat split; try lia.
    + unfold mu, fuel_for; simpl. nia.
    + exists log'. rewrite R. f_equal. rewrite <- F. symmetry. apply filter_id; auto.
Qed.

End P.

(* ---------- all-reject runs: every sweep tiles 0..n, singles are all tried -------------- *)
Section Reject.
Context {X:Type}.
Definition rej : nat -> list X -> bst -> bool := fun _ _ _ => false.

Definition start_of (e:entry) := let '(i,_,_,_) := e in i.
Definition stop_of (e:entry) := let '(_,e',_,_) := e in e'.

(* adjacent entries: contiguous inside a sweep, or a sweep ends at n and the next starts at 0 *)
Fixpoint chain (n:nat) (cur:nat) (log:list entry) : Prop :=
  match log with
  | [] => True
  | e :: t => (start_of e = cur \/ (cur = n /\ start_of e = 0)) /\ start_of e < stop_of e /\
              stop_of e <= n /\ chain n (stop_of e) t
  end.

Fixpoint last_stop (cur:nat) (log:list entry) : nat :=
  match log with [] => cur | e :: t => last_stop (stop_of e) t end.

Lemma chain_app n : forall log1 cur log2,
  chain n cur log1 -> chain n (last_stop cur log1) log2 -> chain n cur (log1 ++ log2).
Proof.
  induction log1 as [|e t IH]; intros cur log2 H1 H2; simpl in *; auto.
  destruct H1 as (A & B & C & D). repeat split; auto.
Qed.
Lemma last_stop_app : forall log1 cur log2,
  last_stop cur (log1 ++ log2) = last_stop (last_stop cur log1) log2.
Proof. induction log1 as [|e t IH]; intros; simpl; auto. Qed.

(* position the cursor is "at", as the chain sees it *)
Definition at_pos (n:nat) (s:bst) (cur:nat) : Prop := index s = cur \/ (cur = n /\ index s = 0).

Theorem run_rej_chain n : forall fuel k (l:list X) s log cur0,
  WFb l s n -> length l = n -> mu n s < fuel ->
  chain n cur0 log -> at_pos n s (last_stop cur0 log) ->
  exists log', run rej fuel k l s log = Done l log' /\ chain n cur0 log' /\ last_stop cur0 log' = n /\
    (forall p, (if Nat.eqb (chunk s) 1 then index s else 0) <= p -> p < n -> In (p, S p, n, false) log') /\
    (forall e, In e log -> In e log').
Proof.
  induction fuel as [|fuel IH]; intros k l s log cur0 W Hn Hf HC HP; [lia|].
  pose proof W as (Wi & Wx & Wc & Wn & Wcn).
  assert (He : index s < end_ s /\ end_ s <= n) by (unfold end_; lia).
  simpl. set (log1 := log ++ [(index s, end_ s, instances s, false)]).
  assert (HC1 : chain n cur0 log1).
  { apply chain_app; auto. simpl. repeat split; try lia. destruct HP as [HP|[HP1 HP2]]; [left; lia|right; lia]. }
  assert (LS1 : last_stop cur0 log1 = end_ s).
  { unfold log1. rewrite last_stop_app. reflexivity. }
  destruct (advance s) as [s'|] eqn:A.
  - destruct (advance_WF l s n s' W A) as (W' & M').
    assert (HP' : at_pos n s' (last_stop cur0 log1)).
    { rewrite LS1. unfold advance in A. destruct (instances s <=? index s + chunk s) eqn:LE.
      - destruct (chunk s / 2 <? 1); [discriminate|]. inversion A; subst s'; unfold at_pos; simpl.
        apply Nat.leb_le in LE. right. unfold end_. split; lia.
      - inversion A; subst s'; unfold at_pos; simpl. apply Nat.leb_gt in LE. left. unfold end_. lia. }
    destruct (IH (S k) l s' log1 cur0 W' Hn ltac:(lia) HC1 HP') as (log' & R & C' & LS & ALL & SUB).
    exists log'. split; [exact R|]. split; [exact C'|]. split; [exact LS|]. split.
    + intros p Hp1 Hp2.
      unfold advance in A. destruct (instances s <=? index s + chunk s) eqn:LE.
      * destruct (chunk s / 2 <? 1) eqn:H2; [discriminate|]. inversion A; subst s'; simpl in *.
        apply ALL; auto. destruct (Nat.eqb (chunk s / 2) 1); lia.
      * inversion A; subst s'; simpl in *. apply Nat.leb_gt in LE.
        destruct (Nat.eqb (chunk s) 1) eqn:C1.
        -- apply Nat.eqb_eq in C1. destruct (Nat.eq_dec p (index s)) as [->|NE].
           ++ apply SUB. unfold log1. apply in_or_app. right. left.
              unfold end_. rewrite C1. assert (E1 : Nat.min (index s + 1) (instances s) = S (index s)) by lia.
              assert (E2 : instances s = n) by lia. rewrite E1, E2. reflexivity.
           ++ apply ALL; lia.
        -- apply ALL; lia.
    + intros e He'. apply SUB. unfold log1. apply in_or_app. left; auto.
  - exists log1. split; [reflexivity|]. split; [exact HC1|].
    unfold advance in A. destruct (instances s <=? index s + chunk s) eqn:LE; [|discriminate].
    apply Nat.leb_le in LE. destruct (chunk s / 2 <? 1) eqn:H2; [|discriminate].
    apply Nat.ltb_lt in H2. pose proof (half_small (chunk s) Wc H2) as C1.
    split; [rewrite LS1; unfold end_; lia|]. split.
    + intros p Hp1 Hp2. rewrite C1 in Hp1. simpl in Hp1.
      assert (p = index s) by lia. subst p.
      unfold log1. apply in_or_app. right. left. unfold end_. rewrite C1.
      assert (E1 : Nat.min (index s + 1) (instances s) = S (index s)) by lia.
              assert (E2 : instances s = n) by lia. rewrite E1, E2. reflexivity.
    + intros e He'. unfold log1. apply in_or_app. left; auto.
Qed.

Theorem reduce_rej_spec (l:list X) : l <> [] ->
  exists log, reduce rej l = Done l log /\ chain (length l) 0 log /\ last_stop 0 log = length l /\
    (forall p, p < length l -> In (p, S p, length l, false) log).
Proof.
  intros NE. unfold reduce, create.
  assert (Z : Nat.eqb (length l) 0 = false) by (apply Nat.eqb_neq; destruct l; simpl; [congruence|lia]).
  rewrite Z. apply Nat.eqb_neq in Z.
  destruct (run_rej_chain (length l) (fuel_for (length l)) 0 l (mkb 0 (length l) (length l)) [] 0)
    as (log' & R & C & LS & ALL & _).
  - unfold WFb; simpl. repeat split; lia.
  - reflexivity.
  - unfold mu, fuel_for; simpl. nia.
  - simpl. exact I.
  - simpl. left. reflexivity.
  - exists log'. split; [exact R|]. split; [exact C|]. split; [exact LS|].
    intros p Hp. apply ALL; auto. simpl. destruct (Nat.eqb (length l) 1); lia.
Qed.
End Reject.

(* ---------- a run that accepted nothing is the all-reject run ------------------------- *)
Section NoAccept.
Context {X:Type}.
Definition accepted (e:entry) : bool := let '(_,_,_,a) := e in a.

Lemma run_log_extends (test : nat -> list X -> bst -> bool) : forall fuel k l s log l' log',
  run test fuel k l s log = Done l' log' -> exists ext, log' = log ++ ext.
Proof.
  induction fuel as [|fuel IH]; intros k l s log l' log' R; simpl in R; [discriminate|].
  destruct (test k l s).
  - destruct (advance_on_success s _) as [s'|].
    + apply IH in R. destruct R as (ext & ->). rewrite <- app_assoc. eexists; reflexivity.
    + inversion R; subst. eexists; reflexivity.
  - destruct (advance s) as [s'|].
    + apply IH in R. destruct R as (ext & ->). rewrite <- app_assoc. eexists; reflexivity.
    + inversion R; subst. eexists; reflexivity.
Qed.

Lemma run_noaccept_rej (test : nat -> list X -> bst -> bool) : forall fuel k l s log l' log',
  run test fuel k l s log = Done l' log' -> forallb (fun e => negb (accepted e)) log' = true ->
  run (@rej X) fuel k l s log = Done l' log'.
Proof.
  induction fuel as [|fuel IH]; intros k l s log l' log' R NA; simpl in *; [discriminate|].
  destruct (test k l s).
  - exfalso.
    assert (E : exists ext, log' = (log ++ [(index s, end_ s, instances s, true)]) ++ ext).
    { destruct (advance_on_success s _) as [s'|].
      - eapply run_log_extends; eauto.
      - inversion R; subst. exists []. rewrite app_nil_r. reflexivity. }
    destruct E as (ext & ->). rewrite !forallb_app in NA. simpl in NA.
    rewrite !andb_true_iff in NA. destruct NA as ((_ & NA) & _). discriminate.
  - destruct (advance s) as [s'|]; auto.
Qed.

Theorem noaccept_singles (test : nat -> list X -> bst -> bool) (l l':list X) log :
  l <> [] -> reduce test l = Done l' log -> forallb (fun e => negb (accepted e)) log = true ->
  l' = l /\ chain (length l) 0 log /\ last_stop 0 log = length l /\
  forall p, p < length l -> In (p, S p, length l, false) log.
Proof.
  intros NE R NA. destruct (reduce_rej_spec l NE) as (log2 & R2 & C & LS & ALL).
  unfold reduce in *. destruct (create (length l)) as [s|].
  - apply run_noaccept_rej in R; auto. rewrite R in R2. inversion R2; subst. auto.
  - inversion R2; subst. inversion R; subst. auto.
Qed.
End NoAccept.

(* ---------- accepted removals: the cursor stays on the next instance ------------------- *)
Lemma aos_keeps_index s n' : n' <> 0 -> index s < n' ->
  advance_on_success s n' = Some (mkb (index s) (chunk s) n').
Proof.
  intros H1 H2. unfold advance_on_success.
  destruct (Nat.eqb n' 0) eqn:Z; [apply Nat.eqb_eq in Z; lia|].
  destruct (n' <=? index s) eqn:LE; [apply Nat.leb_le in LE; lia|reflexivity].
Qed.
Lemma aos_past_end s n' : n' <> 0 -> n' <= index s ->
  advance_on_success s n' = advance (mkb (index s) (chunk s) n').
Proof.
  intros H1 H2. unfold advance_on_success.
  destruct (Nat.eqb n' 0) eqn:Z; [apply Nat.eqb_eq in Z; lia|].
  destruct (n' <=? index s) eqn:LE; [reflexivity|apply Nat.leb_gt in LE; lia].
Qed.
