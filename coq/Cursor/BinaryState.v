(* Model M4: cvise/passes/abstract.py BinaryState, and the reference delta-debugging loop
   that drives it (what TestManager does sequentially: reject -> advance, accept ->
   advance_on_success with the new instance count).  No proofs in this file. *)
From Coq Require Import List Arith Bool Lia.
Import ListNotations.

Record bst := mkb { index : nat; chunk : nat; instances : nat }.

(* BinaryState.create: None for 0 instances *)
Definition create (n:nat) : option bst := if Nat.eqb n 0 then None else Some (mkb 0 n n).
(* end(): min(index+chunk, instances) *)
Definition end_ (s:bst) := Nat.min (index s + chunk s) (instances s).
Definition real_chunk (s:bst) := end_ s - index s.
(* advance(): index += chunk; on overflow chunk = int(chunk/2), None when < 1, index = 0 *)
Definition advance (s:bst) : option bst :=
  let i := index s + chunk s in
  if instances s <=? i then
    let c := chunk s / 2 in
    if c <? 1 then None else Some (mkb 0 c (instances s))
  else Some (mkb i (chunk s) (instances s)).
(* advance_on_success(instances) *)
Definition advance_on_success (s:bst) (n:nat) : option bst :=
  if Nat.eqb n 0 then None
  else let s' := mkb (index s) (chunk s) n in
       if n <=? index s then advance s' else Some s'.

Section Run.
Context {X:Type}.
Definition slice (l:list X) (a b:nat) := firstn (b - a) (skipn a l).
Definition cut (l:list X) (a b:nat) := firstn a l ++ skipn b l.

(* One log entry per proposed candidate: (index, end, instances, accepted) *)
Definition entry := (nat * nat * nat * bool)%type.

Inductive res := Done (l:list X) (log:list entry) | Fuel.

(* test k l s : verdict on the k-th candidate (the removal of l[index,end)) — any function
   of the step number, the current list and the cursor: covers every verdict sequence. *)
Variable test : nat -> list X -> bst -> bool.

Fixpoint run (fuel:nat) (k:nat) (l:list X) (s:bst) (log:list entry) : res :=
  match fuel with
  | 0 => Fuel
  | S f =>
    if test k l s then
      let l' := cut l (index s) (end_ s) in
      let log' := log ++ [(index s, end_ s, instances s, true)] in
      match advance_on_success s (length l') with
      | None => Done l' log'
      | Some s' => run f (S k) l' s' log'
      end
    else
      let log' := log ++ [(index s, end_ s, instances s, false)] in
      match advance s with
         | None => Done l log'
         | Some s' => run f (S k) l s' log'
         end
  end.

Definition fuel_for (n:nat) := S n * S (S n).

Definition reduce (l:list X) : res :=
  match create (length l) with
  | None => Done l []
  | Some s => run (fuel_for (length l)) 0 l s []
  end.
End Run.

(* monotone test: interesting iff the removed slice holds no required element *)
Definition ok_mono {X} (req:X -> bool) (_:nat) (l:list X) (s:bst) :=
  forallb (fun x => negb (req x)) (slice l (index s) (end_ s)).

(* clang_delta driving (clangbinarysearch.py): argv of a state, and the count kept after an
   accepted removal: reported - real_chunk *)
Definition counter_arg (s:bst) := index s + 1.
Definition to_counter_arg (s:bst) := end_ s.
Definition clang_advance_on_success (s:bst) (reported:nat) : option bst :=
  advance_on_success s (reported - real_chunk s).
