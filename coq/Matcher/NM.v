(* Model M3: cvise/utils/nestedmatcher.py — balanced scan with a depth counter, Or = leftmost
   of the alternatives, `search` with its retry loop and its search=False mode, `find`.
   Regular-expression parts are abstract: [rxm id s i] is the end of Python's
   re.compile(expr, DOTALL).match(s, i) (anchored at i), and re.search is the least start at or
   after pos at which the anchored match succeeds.  No proofs in this file. *)
From Coq Require Import List Arith Bool ZArith NArith Lia.
Import ListNotations.

Definition str := list N.
Inductive pat := PRegex (id:nat) | PBal (o c:N) | POr (a b:pat).
Definition span := (nat * nat)%type.

Section NM.
Variable rxm : nat -> str -> nat -> option nat.       (* anchored match at i: Some end *)

Definition chr (s:str) (i:nat) : N := nth i s 0%N.

(* regex.search(s, pos): least start in [pos, len] with an anchored match *)
Fixpoint rxs_from (fuel:nat) (id:nat) (s:str) (a:nat) : option span :=
  match fuel with
  | 0 => None
  | S f => match rxm id s a with
           | Some b => Some (a, b)
           | None => rxs_from f id s (S a)
           end
  end.
Definition rxs (id:nat) (s:str) (pos:nat) : option span :=
  if length s <? pos then None else rxs_from (S (length s - pos)) id s pos.

(* __match_helper: depth counter; returns the position after the closing delimiter *)
Fixpoint bal_scan (fuel:nat) (o c:N) (s:str) (pos depth:nat) : option nat :=
  match fuel with
  | 0 => None
  | S f =>
    if (pos <? length s) && negb (Nat.eqb depth 0) then
      if N.eqb (chr s pos) o then bal_scan f o c s (S pos) (S depth)
      else if N.eqb (chr s pos) c then bal_scan f o c s (S pos) (depth - 1)
      else bal_scan f o c s (S pos) depth
    else if Nat.eqb depth 0 then Some pos else None
  end.
Definition bal_helper (o c:N) (s:str) (pos:nat) : option span :=
  match bal_scan (S (length s)) o c s (S pos) 1 with Some e => Some (pos, e) | None => None end.

(* anchored: s[pos] must be the opening delimiter *)
Definition bal_at (o c:N) (s:str) (pos:nat) : option span :=
  if length s <=? pos then None
  else if N.eqb (chr s pos) o then bal_helper o c s pos else None.

(* search=True: first position at or after pos where a balanced group starts *)
Fixpoint bal_search_from (fuel:nat) (o c:N) (s:str) (pos:nat) : option span :=
  match fuel with
  | 0 => None
  | S f =>
    if length s <=? pos then None
    else match bal_at o c s pos with
         | Some m => Some m
         | None => bal_search_from f o c s (S pos)
         end
  end.
Definition bal_search (o c:N) (s:str) (pos:nat) : option span := bal_search_from (S (length s)) o c s pos.

(* __get_leftmost_match of two results *)
Definition leftmost (l r:option span) : option span :=
  match l, r with
  | None, x => x
  | Some a, None => Some a
  | Some a, Some b => if fst b <? fst a then Some b else Some a
  end.

Fixpoint match_pat (p:pat) (s:str) (pos:nat) (srch:bool) : option span :=
  match p with
  | PRegex id => if srch then rxs id s pos
                 else match rxm id s pos with Some e => Some (pos, e) | None => None end
  | PBal o c => if srch then bal_search o c s pos else bal_at o c s pos
  | POr a b => leftmost (match_pat a s pos srch) (match_pat b s pos srch)
  end.

(* the for-loop over the parts, anchored, advancing by the length of each match;
   returns the end position and the named sub-spans *)
Fixpoint match_parts (parts:list (pat * option nat)) (s:str) (pos:nat) (acc:list (nat * span))
  : option (nat * list (nat * span)) :=
  match parts with
  | [] => Some (pos, acc)
  | (p, name) :: t =>
    match match_pat p s pos false with
    | None => None
    | Some m => match_parts t s (pos + (snd m - fst m))
                  (match name with Some n => acc ++ [(n, m)] | None => acc end)
    end
  end.

Record result := mkres { r_all : span; r_named : list (nat * span) }.

(* search(parts, string, pos, search): the while loop with fuel *)
Fixpoint search_loop (fuel:nat) (parts:list (pat * option nat)) (s:str) (start:nat) (srch:bool) : option result :=
  match fuel with
  | 0 => None
  | S f =>
    if length s <=? start then None
    else match parts with
         | [] => None
         | (p0, _) :: _ =>
           match match_pat p0 s start srch with
           | None => None
           | Some m0 =>
             let st := fst m0 in
             match match_parts parts s st [] with
             | Some (e, named) => Some (mkres (st, e) named)
             | None => search_loop f parts s (S st) srch
             end
           end
         end
  end.

(* pos is a Python int: negative or beyond the end gives None *)
Definition search (parts:list (pat * option nat)) (s:str) (pos:Z) (srch:bool) : option result :=
  match parts with
  | [] => None
  | _ => if (pos <? 0)%Z || (Z.of_nat (length s) <=? pos)%Z then None
         else search_loop (S (length s)) parts s (Z.to_nat pos) srch
  end.

(* find(expr, string, pos, prefix) *)
Definition find (o c:N) (prefix:option nat) (s:str) (pos:Z) : option span :=
  let parts := match prefix with Some id => [(PRegex id, None); (PBal o c, None)] | None => [(PBal o c, None)] end in
  match search parts s pos true with Some r => Some (r_all r) | None => None end.
End NM.
