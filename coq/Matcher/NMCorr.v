(* Correspondence encoders for the nested matcher: regular-expression parts enter as tables
   computed by CPython's `re` on the very string of the case (anchored match end per position). *)
From Coq Require Import List Arith Bool ZArith NArith.
Import ListNotations.
From CV Require Import Base.Corr Matcher.NM.

(* table: for regex id k, the k-th list gives, per position i = 0..len, the end of the anchored
   match + 1, or 0 for no match *)
Definition table_rxm (tbl:list (list nat)) (id:nat) (_:str) (i:nat) : option nat :=
  match nth i (nth id tbl []) 0 with 0 => None | S e => Some e end.

Definition enc_span (m:span) : list Z := [zn (fst m); zn (snd m)].
Definition enc_result (r:option result) : list Z :=
  match r with
  | None => [(-1)%Z]
  | Some r => 1%Z :: enc_span (r_all r) ++ flat_map (fun nm => zn (fst nm) :: enc_span (snd nm)) (r_named r)
  end.
Definition run_search (t:list (list nat) * list (pat * option nat) * str * Z * bool) : list Z :=
  let '(tbl, parts, s, pos, srch) := t in enc_result (search (table_rxm tbl) parts s pos srch).
Definition run_find (t:list (list nat) * (N * N) * option nat * str * Z) : list Z :=
  let '(tbl, oc, prefix, s, pos) := t in
  match find (table_rxm tbl) (fst oc) (snd oc) prefix s pos with
  | None => [(-1)%Z] | Some m => 1%Z :: enc_span m end.
