(* Specification of the nested matcher and proofs: sound, leftmost, complete, total. *)
From Coq Require Import List Arith Bool ZArith NArith Lia.
Import ListNotations.
From CV Require Import Matcher.NM.

Local Open Scope Z_scope.
Local Arguments Z.add : simpl never.
Local Arguments Z.of_nat : simpl never.
Local Arguments Nat.sub : simpl never.

(* ---------- nesting depth ---------- *)
Definition delta (o c x:N) : Z := if N.eqb x o then 1 else if N.eqb x c then (-1) else 0.
Fixpoint net (o c:N) (l:list N) : Z := match l with [] => 0 | x :: t => delta o c x + net o c t end.
Definition seg (s:str) (a b:nat) : list N := firstn (b - a) (skipn a s).

Lemma net_app o c l1 l2 : net o c (l1 ++ l2) = net o c l1 + net o c l2.
Proof. induction l1; simpl; lia. Qed.

Lemma firstn_S_nth : forall n (l:list N), (n < length l)%nat -> firstn (S n) l = firstn n l ++ [nth n l 0%N].
Proof.
  induction n as [|n IH]; intros l H; destruct l as [|x l]; simpl in *; try lia; auto.
  f_equal. apply IH. lia.
Qed.
Lemma nth_skipn : forall a k (s:list N), nth k (skipn a s) 0%N = nth (a + k) s 0%N.
Proof.
  induction a as [|a IH]; intros k s; simpl; auto. destruct s as [|x s]; simpl; [destruct k; auto|apply IH].
Qed.
Lemma seg_S s a b : (a <= b)%nat -> (b < length s)%nat -> seg s a (S b) = seg s a b ++ [chr s b].
Proof.
  unfold seg, chr. intros H1 H2. replace (S b - a)%nat with (S (b - a)) by lia.
  rewrite firstn_S_nth by (rewrite skipn_length; lia).
  rewrite nth_skipn. replace (a + (b - a))%nat with b by lia. reflexivity.
Qed.
Lemma seg_nil s a : seg s a a = [].
Proof. unfold seg. rewrite Nat.sub_diag. reflexivity. Qed.

(* A balanced group opens at i and closes at j-1: the depth, 1 after the opening delimiter,
   returns to 0 for the first time at j. *)
Definition Balanced (o c:N) (s:str) (i j:nat) : Prop :=
  (i < j)%nat /\ (j <= length s)%nat /\ chr s i = o /\
  1 + net o c (seg s (S i) j) = 0 /\
  forall k, (S i <= k)%nat -> (k < j)%nat -> 1 + net o c (seg s (S i) k) > 0.

Section P.
Variable o c : N.
Hypothesis oc : o <> c.

(* the scan maintains depth = d0 + net of what has been read *)
Lemma bal_scan_spec : forall fuel s base pos depth,
  (base <= pos)%nat -> (S (length s) - pos < fuel)%nat ->
  Z.of_nat depth = 1 + net o c (seg s base pos) ->
  (forall k, (base <= k)%nat -> (k < pos)%nat -> 1 + net o c (seg s base k) > 0) ->
  match bal_scan fuel o c s pos depth with
  | Some e => (pos <= e)%nat /\ (e <= Nat.max pos (length s))%nat /\ 1 + net o c (seg s base e) = 0 /\
              (forall k, (base <= k)%nat -> (k < e)%nat -> 1 + net o c (seg s base k) > 0)
  | None => forall e, (base <= e)%nat -> (e <= length s)%nat -> 1 + net o c (seg s base e) > 0
  end.
Proof.
  induction fuel as [|fuel IH]; intros s base pos depth B F D INV; [lia|].
  simpl. destruct (pos <? length s)%nat eqn:L; simpl.
  - apply Nat.ltb_lt in L. destruct (Nat.eqb depth 0) eqn:Z0; simpl.
    + apply Nat.eqb_eq in Z0. subst depth. split; [lia|]. split; [lia|]. split; [lia|exact INV].
    + apply Nat.eqb_neq in Z0.
      assert (STEP : forall depth', Z.of_nat depth' = Z.of_nat depth + delta o c (chr s pos) ->
                match bal_scan fuel o c s (S pos) depth' with
                | Some e => (pos <= e)%nat /\ (e <= Nat.max pos (length s))%nat /\ 1 + net o c (seg s base e) = 0 /\
                            (forall k, (base <= k)%nat -> (k < e)%nat -> 1 + net o c (seg s base k) > 0)
                | None => forall e, (base <= e)%nat -> (e <= length s)%nat -> 1 + net o c (seg s base e) > 0
                end).
      { intros depth' D'. specialize (IH s base (S pos) depth' ltac:(lia) ltac:(lia)).
        assert (DD : Z.of_nat depth' = 1 + net o c (seg s base (S pos))).
        { rewrite seg_S by lia. rewrite net_app. simpl. lia. }
        assert (INV' : forall k, (base <= k)%nat -> (k < S pos)%nat -> 1 + net o c (seg s base k) > 0).
        { intros k K1 K2. destruct (Nat.eq_dec k pos) as [->|NE]; [lia|apply INV; lia]. }
        specialize (IH DD INV'). destruct (bal_scan fuel o c s (S pos) depth') as [e|]; auto.
        destruct IH as (A1 & A2 & A3 & A4). repeat split; auto; lia. }
      unfold delta in STEP. destruct (N.eqb (chr s pos) o) eqn:EO.
      * apply STEP. lia.
      * destruct (N.eqb (chr s pos) c) eqn:EC.
        -- apply STEP. lia.
        -- apply STEP. lia.
  - apply Nat.ltb_ge in L. destruct (Nat.eqb depth 0) eqn:Z0.
    + apply Nat.eqb_eq in Z0. subst depth. split; [lia|]. split; [lia|]. split; [lia|exact INV].
    + apply Nat.eqb_neq in Z0. intros e E1 E2.
      destruct (Nat.lt_ge_cases e pos) as [LT|GE]; [apply INV; lia|].
      assert (e = pos \/ (pos > length s)%nat) by lia.
      destruct H as [->|H]; [lia|].
      (* pos beyond the end: seg is cut at the end of the string *)
      assert (SE : seg s base e = seg s base pos).
      { unfold seg. rewrite !firstn_all2; auto; rewrite skipn_length; lia. }
      rewrite SE. lia.
Qed.

Lemma bal_helper_spec s i : (i < length s)%nat -> chr s i = o ->
  match bal_helper o c s i with
  | Some (a, j) => a = i /\ Balanced o c s i j
  | None => forall j, ~ Balanced o c s i j
  end.
Proof.
  intros L CH. unfold bal_helper.
  assert (P1 : Z.of_nat 1 = 1 + net o c (seg s (S i) (S i))) by (rewrite seg_nil; reflexivity).
  assert (P2 : forall k, (S i <= k)%nat -> (k < S i)%nat -> 1 + net o c (seg s (S i) k) > 0) by (intros; lia).
  pose proof (bal_scan_spec (S (length s)) s (S i) (S i) 1 ltac:(lia) ltac:(lia) P1 P2) as H.
  destruct (bal_scan (S (length s)) o c s (S i) 1) as [e|].
  - destruct H as (A1 & A2 & A3 & A4). split; auto. unfold Balanced. repeat split; auto; try lia.
  - intros j (B1 & B2 & B3 & B4 & B5). specialize (H j ltac:(lia) B2). lia.
Qed.

Lemma Balanced_fun s i j1 j2 : Balanced o c s i j1 -> Balanced o c s i j2 -> j1 = j2.
Proof.
  intros (A1 & A2 & A3 & A4 & A5) (B1 & B2 & B3 & B4 & B5).
  destruct (lt_eq_lt_dec j1 j2) as [[h|h]|h]; auto.
  - specialize (B5 j1 ltac:(lia) h). lia.
  - specialize (A5 j2 ltac:(lia) h). lia.
Qed.

Lemma bal_at_spec s i :
  match bal_at o c s i with
  | Some (a, j) => a = i /\ Balanced o c s i j
  | None => forall j, ~ Balanced o c s i j
  end.
Proof.
  unfold bal_at. destruct (length s <=? i)%nat eqn:L.
  - apply Nat.leb_le in L. intros j (B1 & B2 & _). lia.
  - apply Nat.leb_gt in L. destruct (N.eqb (chr s i) o) eqn:E.
    + apply N.eqb_eq in E. apply bal_helper_spec; auto.
    + apply N.eqb_neq in E. intros j (_ & _ & B3 & _). contradiction.
Qed.
End P.

(* ================= specification of parts, chains and search ================= *)
Local Close Scope Z_scope.

Fixpoint wf_pat (p:pat) : Prop :=
  match p with PRegex _ => True | PBal o c => o <> c | POr a b => wf_pat a /\ wf_pat b end.

Section Spec.
Variable rxm : nat -> str -> nat -> option nat.
Hypothesis rxm_bounds : forall id s i j, rxm id s i = Some j -> i <= j /\ j <= length s.

Fixpoint PartAt (p:pat) (s:str) (i j:nat) : Prop :=
  match p with
  | PRegex id => rxm id s i = Some j
  | PBal o c => Balanced o c s i j
  | POr a b => PartAt a s i j \/ ((forall j', ~ PartAt a s i j') /\ PartAt b s i j)
  end.

Definition NoPart (p:pat) (s:str) (i:nat) : Prop := forall j, ~ PartAt p s i j.

Lemma PartAt_bounds p s i j : PartAt p s i j -> i <= j /\ j <= length s.
Proof.
  revert j. induction p as [id|o c|a IHa b IHb]; simpl; intros j H.
  - eapply rxm_bounds; eauto.
  - destruct H as (A & B & _). lia.
  - destruct H as [H|(_ & H)]; auto.
Qed.

Lemma PartAt_fun p : wf_pat p -> forall s i j1 j2, PartAt p s i j1 -> PartAt p s i j2 -> j1 = j2.
Proof.
  induction p as [id|o c|a IHa b IHb]; simpl; intros W s i j1 j2 H1 H2.
  - congruence.
  - eapply Balanced_fun; eauto.
  - destruct W as (Wa & Wb). destruct H1 as [H1|(N1 & H1)], H2 as [H2|(N2 & H2)].
    + eapply IHa; eauto.
    + exfalso. eapply N2; eauto.
    + exfalso. eapply N1; eauto.
    + eapply IHb; eauto.
Qed.

Notation match_pat := (match_pat rxm).

(* anchored matching computes PartAt *)
Lemma mp_anchored p : wf_pat p -> forall s i,
  match match_pat p s i false with
  | Some (a, j) => a = i /\ PartAt p s i j
  | None => NoPart p s i
  end.
Proof.
  induction p as [id|o c|a IHa b IHb]; simpl; intros W s i.
  - destruct (rxm id s i) as [e|] eqn:E.
    + split; auto.
    + intros j H. simpl in H. congruence.
  - pose proof (bal_at_spec o c W s i) as B. destruct (bal_at o c s i) as [[a j]|].
    + destruct B; split; auto.
    + intros j H. eapply B; eauto.
  - destruct W as (Wa & Wb). specialize (IHa Wa s i). specialize (IHb Wb s i).
    destruct (NM.match_pat rxm a s i false) as [[a1 j1]|]; destruct (NM.match_pat rxm b s i false) as [[a2 j2]|]; simpl.
    + destruct IHa as (-> & Pa), IHb as (-> & Pb). rewrite Nat.ltb_irrefl. split; auto.
    + destruct IHa as (-> & Pa). split; auto.
    + destruct IHb as (-> & Pb). split; auto.
    + intros j [H|(_ & H)]; [eapply IHa|eapply IHb]; eauto.
Qed.

(* search mode: the least start at or after pos *)
Definition FirstAt (p:pat) (s:str) (pos a j:nat) : Prop :=
  pos <= a /\ PartAt p s a j /\ forall a', pos <= a' -> a' < a -> NoPart p s a'.

Lemma rxs_from_spec id s : forall fuel a,
  match rxs_from rxm fuel id s a with
  | Some (a1, j) => a <= a1 /\ a1 < a + fuel /\ rxm id s a1 = Some j /\ forall a', a <= a' -> a' < a1 -> rxm id s a' = None
  | None => forall a', a <= a' -> a' < a + fuel -> rxm id s a' = None
  end.
Proof.
  induction fuel as [|fuel IH]; intros a; simpl; [intros; lia|].
  destruct (rxm id s a) as [j|] eqn:E.
  - repeat split; auto; try lia; intros; lia.
  - specialize (IH (S a)). destruct (rxs_from rxm fuel id s (S a)) as [[a1 j]|].
    + destruct IH as (A & B & C & D). repeat split; auto; try lia.
      intros a' H1 H2. destruct (Nat.eq_dec a' a) as [->|]; auto. apply D; lia.
    + intros a' H1 H2. destruct (Nat.eq_dec a' a) as [->|]; auto. apply IH; lia.
Qed.

Lemma bal_search_spec o c (W:o <> c) s : forall fuel pos, length s - pos < fuel ->
  match bal_search_from fuel o c s pos with
  | Some (a, j) => pos <= a /\ Balanced o c s a j /\ forall a', pos <= a' -> a' < a -> forall j', ~ Balanced o c s a' j'
  | None => forall a', pos <= a' -> forall j', ~ Balanced o c s a' j'
  end.
Proof.
  induction fuel as [|fuel IH]; intros pos F; [lia|]. simpl.
  destruct (length s <=? pos) eqn:L.
  - apply Nat.leb_le in L. intros a' H j' (B1 & B2 & _). lia.
  - apply Nat.leb_gt in L. pose proof (bal_at_spec o c W s pos) as B.
    destruct (bal_at o c s pos) as [[a j]|].
    + destruct B as (-> & B). split; [lia|]. split; [exact B|]. intros; lia.
    + specialize (IH (S pos) ltac:(lia)). destruct (bal_search_from fuel o c s (S pos)) as [[a j]|].
      * destruct IH as (A1 & A2 & A3). split; [lia|]. split; [exact A2|].
        intros a' H1 H2. destruct (Nat.eq_dec a' pos) as [->|]; [apply B|apply A3; lia].
      * intros a' H1. destruct (Nat.eq_dec a' pos) as [->|]; [apply B|apply IH; lia].
Qed.

Lemma mp_search p : wf_pat p -> forall s pos,
  match match_pat p s pos true with
  | Some (a, j) => FirstAt p s pos a j
  | None => forall a, pos <= a -> NoPart p s a
  end.
Proof.
  induction p as [id|o c|a IHa b IHb]; simpl; intros W s pos.
  - unfold rxs. destruct (length s <? pos) eqn:L.
    + apply Nat.ltb_lt in L. intros a H j P. simpl in P. apply rxm_bounds in P. lia.
    + apply Nat.ltb_ge in L. pose proof (rxs_from_spec id s (S (length s - pos)) pos) as R.
      destruct (rxs_from rxm (S (length s - pos)) id s pos) as [[a1 j]|].
      * destruct R as (A & B & C & D). unfold FirstAt. split; [exact A|]. split; [exact C|].
        intros a' H1 H2 j' P. simpl in P. rewrite D in P; auto. discriminate.
      * intros a H j P. simpl in P. pose proof (rxm_bounds _ _ _ _ P).
        rewrite R in P; [discriminate|lia|lia].
  - unfold bal_search. pose proof (bal_search_spec o c W s (S (length s)) pos ltac:(lia)) as B.
    destruct (bal_search_from (S (length s)) o c s pos) as [[a j]|].
    + destruct B as (A1 & A2 & A3). unfold FirstAt. split; [exact A1|]. split; [exact A2|].
      intros a' H1 H2 j' P. simpl in P. eapply A3; eauto.
    + intros a H j P. simpl in P. eapply B; eauto.
  - destruct W as (Wa & Wb). specialize (IHa Wa s pos). specialize (IHb Wb s pos).
    destruct (NM.match_pat rxm a s pos true) as [[a1 j1]|]; destruct (NM.match_pat rxm b s pos true) as [[a2 j2]|]; simpl.
    + destruct IHa as (A1 & A2 & A3), IHb as (B1 & B2 & B3).
      destruct (a2 <? a1) eqn:LT.
      * apply Nat.ltb_lt in LT. split; auto. split; [right; split; auto; apply A3; lia|].
        intros a' H1 H2 j' [P|(_ & P)]; [eapply A3|eapply B3]; eauto; lia.
      * apply Nat.ltb_ge in LT. split; auto. split; [left; auto|].
        intros a' H1 H2 j' [P|(_ & P)]; [eapply A3|eapply B3]; eauto; lia.
    + destruct IHa as (A1 & A2 & A3). split; auto. split; [left; auto|].
      intros a' H1 H2 j' [P|(_ & P)]; [eapply A3|eapply IHb]; eauto; lia.
    + destruct IHb as (B1 & B2 & B3). split; auto. split; [right; split; auto; apply IHa; lia|].
      intros a' H1 H2 j' [P|(_ & P)]; [eapply IHa|eapply B3]; eauto; lia.
    + intros a0 H j [P|(_ & P)]; [eapply IHa|eapply IHb]; eauto.
Qed.

(* ---------- chains ---------- *)
Inductive Chain : list (pat * option nat) -> str -> nat -> nat -> Prop :=
| Ch_nil s i : Chain [] s i i
| Ch_cons p n t s i j k : PartAt p s i j -> Chain t s j k -> Chain ((p, n) :: t) s i k.

Definition wf_parts (parts:list (pat * option nat)) : Prop := Forall (fun pn => wf_pat (fst pn)) parts.

Lemma match_parts_spec : forall parts, wf_parts parts -> forall s i acc,
  match match_parts rxm parts s i acc with
  | Some (e, _) => Chain parts s i e
  | None => forall e, ~ Chain parts s i e
  end.
Proof.
  induction parts as [|[p n] t IH]; intros W s i acc; simpl.
  - constructor.
  - inversion W; subst. simpl in H1. pose proof (mp_anchored p H1 s i) as M.
    destruct (NM.match_pat rxm p s i false) as [[a j]|].
    + destruct M as (-> & P). destruct (PartAt_bounds _ _ _ _ P) as (B1 & B2).
      simpl. replace (i + (j - i)) with j by lia.
      specialize (IH H2 s j (match n with Some n0 => acc ++ [(n0, (i, j))] | None => acc end)).
      destruct (match_parts rxm t s j _) as [[e named]|].
      * econstructor; eauto.
      * intros e C. inversion C; subst. assert (j0 = j) by (eapply PartAt_fun; eauto). subst. eapply IH; eauto.
    + intros e C. inversion C; subst. eapply M; eauto.
Qed.

Lemma Chain_bounds parts s i e : Chain parts s i e -> i <= e /\ e <= Nat.max i (length s).
Proof.
  induction 1; [lia|]. apply PartAt_bounds in H. lia.
Qed.

(* ---------- the search loop ---------- *)
Definition HasChain parts s a := exists e, Chain parts s a e.

Theorem search_loop_true parts : wf_parts parts -> parts <> [] -> forall s fuel start,
  length s - start < fuel ->
  match search_loop rxm fuel parts s start true with
  | Some r => start <= fst (r_all r) /\ Chain parts s (fst (r_all r)) (snd (r_all r)) /\
              forall a', start <= a' -> a' < fst (r_all r) -> ~ HasChain parts s a'
  | None => forall a', start <= a' -> a' < length s -> ~ HasChain parts s a'
  end.
Proof.
  intros W NE s. induction fuel as [|fuel IH]; intros start F; [lia|]. simpl.
  destruct (length s <=? start) eqn:L.
  - apply Nat.leb_le in L. intros; lia.
  - apply Nat.leb_gt in L. destruct parts as [|[p0 n0] t]; [congruence|].
    inversion W; subst. simpl in H1.
    pose proof (mp_search p0 H1 s start) as M.
    destruct (NM.match_pat rxm p0 s start true) as [[a0 j0]|].
    + destruct M as (M1 & M2 & M3). cbn [fst snd].
      assert (NOEARLY : forall a', start <= a' -> a' < a0 -> ~ HasChain ((p0, n0) :: t) s a').
      { intros a' H3 H4 (e & C). inversion C; subst. eapply M3; eauto. }
      pose proof (match_parts_spec ((p0, n0) :: t) W s a0 []) as MP.
      destruct (match_parts rxm ((p0, n0) :: t) s a0 []) as [[e named]|].
      * cbn [r_all fst snd]. split; [exact M1|]. split; [exact MP|exact NOEARLY].
      * destruct (PartAt_bounds _ _ _ _ M2) as (B1 & B2).
        destruct (Nat.lt_ge_cases a0 (length s)) as [LT|GE].
        -- specialize (IH (S a0) ltac:(lia)).
           destruct (search_loop rxm fuel ((p0, n0) :: t) s (S a0) true) as [r|].
           ++ destruct IH as (I1 & I2 & I3). split; [lia|]. split; auto.
              intros a' H3 H4. destruct (Nat.lt_ge_cases a' a0); [apply NOEARLY; auto|].
              destruct (Nat.eq_dec a' a0) as [->|]; [intros (e & C); eapply MP; eauto|apply I3; lia].
           ++ intros a' H3 H4. destruct (Nat.lt_ge_cases a' a0); [apply NOEARLY; auto|].
              destruct (Nat.eq_dec a' a0) as [->|]; [intros (e & C); eapply MP; eauto|apply IH; lia].
        -- (* the first part matched only at the very end and the chain failed there *)
           assert (R : search_loop rxm fuel ((p0, n0) :: t) s (S a0) true = None).
           { destruct fuel; simpl; auto. assert (E : (length s <=? S a0) = true) by (apply Nat.leb_le; lia). rewrite E. reflexivity. }
           rewrite R. intros a' H3 H4. apply NOEARLY; auto. lia.
    + intros a' H3 H4 (e & C). inversion C; subst. eapply M; eauto.
Qed.

(* search=False (used by peep): the first part is matched at the current position only; the loop
   moves on by one position as long as the first part keeps matching there *)
Theorem search_loop_false parts : wf_parts parts -> parts <> [] -> forall s fuel start,
  length s - start < fuel ->
  match search_loop rxm fuel parts s start false with
  | Some r => start <= fst (r_all r) /\ Chain parts s (fst (r_all r)) (snd (r_all r)) /\
              forall a', start <= a' -> a' < fst (r_all r) ->
                (exists j, PartAt (fst (hd (PRegex 0, None) parts)) s a' j) /\ ~ HasChain parts s a'
  | None => exists stop, start <= stop /\
              (forall a', start <= a' -> a' < stop -> a' < length s ->
                 (exists j, PartAt (fst (hd (PRegex 0, None) parts)) s a' j) /\ ~ HasChain parts s a') /\
              (length s <= stop \/ NoPart (fst (hd (PRegex 0, None) parts)) s stop)
  end.
Proof.
  intros W NE s. induction fuel as [|fuel IH]; intros start F; [lia|]. simpl.
  destruct (length s <=? start) eqn:L.
  - apply Nat.leb_le in L. exists start. split; [lia|]. split; [intros; lia|left; lia].
  - apply Nat.leb_gt in L. destruct parts as [|[p0 n0] t]; [congruence|].
    inversion W; subst. simpl in H1. simpl hd. simpl fst.
    pose proof (mp_anchored p0 H1 s start) as M.
    destruct (NM.match_pat rxm p0 s start false) as [[a0 j0]|].
    + destruct M as (-> & M2). cbn [fst snd].
      pose proof (match_parts_spec ((p0, n0) :: t) W s start []) as MP.
      destruct (match_parts rxm ((p0, n0) :: t) s start []) as [[e named]|].
      * cbn [r_all fst snd]. split; [lia|]. split; [exact MP|]. intros; lia.
      * specialize (IH (S start) ltac:(lia)).
        destruct (search_loop rxm fuel ((p0, n0) :: t) s (S start) false) as [r|].
        -- destruct IH as (I1 & I2 & I3). split; [lia|]. split; auto.
           intros a' H3 H4. destruct (Nat.eq_dec a' start) as [->|].
           ++ split; [eauto|]. intros (e & C). eapply MP; eauto.
           ++ apply I3; lia.
        -- destruct IH as (stop & S1 & S2 & S3). exists stop. split; [lia|]. split; auto.
           intros a' H3 H4 H5. destruct (Nat.eq_dec a' start) as [->|].
           ++ split; [eauto|]. intros (e & C). eapply MP; eauto.
           ++ apply S2; lia.
    + exists start. split; [lia|]. split; [intros; lia|right; exact M].
Qed.
End Spec.

(* ---------- the public entry points ---------- *)
Section Top.
Variable rxm : nat -> str -> nat -> option nat.
Hypothesis rxm_bounds : forall id s i j, rxm id s i = Some j -> i <= j /\ j <= length s.

Theorem search_true_spec parts s (pos:Z) : wf_parts parts -> parts <> [] ->
  match search rxm parts s pos true with
  | Some r => (0 <= pos)%Z /\ (pos < Z.of_nat (length s))%Z /\
              Z.to_nat pos <= fst (r_all r) /\ snd (r_all r) <= length s /\
              Chain rxm parts s (fst (r_all r)) (snd (r_all r)) /\
              forall a', Z.to_nat pos <= a' -> a' < fst (r_all r) -> ~ HasChain rxm parts s a'
  | None => (pos < 0)%Z \/ (Z.of_nat (length s) <= pos)%Z \/
            forall a', Z.to_nat pos <= a' -> a' < length s -> ~ HasChain rxm parts s a'
  end.
Proof.
  intros W NE. unfold search. destruct parts as [|p0 t] eqn:EP; [congruence|]. rewrite <- EP in *.
  destruct ((pos <? 0)%Z || (Z.of_nat (length s) <=? pos)%Z) eqn:G.
  - apply orb_true_iff in G. destruct G as [G|G]; [left; apply Z.ltb_lt; auto|right; left; apply Z.leb_le; auto].
  - apply orb_false_iff in G. destruct G as (G1 & G2). apply Z.ltb_ge in G1. apply Z.leb_gt in G2.
    pose proof (search_loop_true rxm rxm_bounds parts W NE s (S (length s)) (Z.to_nat pos) ltac:(lia)) as L.
    destruct (search_loop rxm (S (length s)) parts s (Z.to_nat pos) true) as [r|].
    + destruct L as (L1 & L2 & L3). repeat split; auto.
      destruct (Chain_bounds rxm rxm_bounds _ _ _ _ L2) as (C1 & C2).
      destruct (Nat.le_gt_cases (fst (r_all r)) (length s)); [lia|].
      (* a chain starting beyond the end cannot exist: its first part would start there *)
      exfalso. destruct parts as [|[q n] t']; [congruence|]. inversion L2; subst.
      match goal with HP : PartAt _ _ _ _ _, HC : Chain _ _ _ _ _ |- _ =>
        apply (PartAt_bounds rxm rxm_bounds) in HP; apply (Chain_bounds rxm rxm_bounds) in HC; lia end.
    + right; right. exact L.
Qed.

Theorem find_spec o c s (pos:Z) : o <> c ->
  match find rxm o c None s pos with
  | Some (a, j) => (0 <= pos)%Z /\ Z.to_nat pos <= a /\ Balanced o c s a j /\
                   forall a' j', Z.to_nat pos <= a' -> a' < a -> ~ Balanced o c s a' j'
  | None => (pos < 0)%Z \/ (Z.of_nat (length s) <= pos)%Z \/
            forall a' j', Z.to_nat pos <= a' -> a' < length s -> ~ Balanced o c s a' j'
  end.
Proof.
  intros W. unfold find.
  assert (WP : wf_parts [(PBal o c, None)]) by (constructor; [exact W|constructor]).
  pose proof (search_true_spec [(PBal o c, None)] s pos WP ltac:(discriminate)) as S.
  destruct (search rxm [(PBal o c, None)] s pos true) as [r|].
  - destruct S as (S1 & S2 & S3 & S4 & S5 & S6). destruct (r_all r) as [a j]. simpl in *.
    inversion S5; subst.
    match goal with HC : Chain _ [] _ _ _ |- _ => inversion HC; subst end.
    match goal with HP : PartAt _ (PBal o c) _ _ _ |- _ =>
      change (Balanced o c s a j) in HP; split; [exact S1|]; split; [exact S3|]; split; [exact HP|] end.
    intros a' j' H1 H2 B. apply (S6 a' H1 H2). exists j'. econstructor; [exact B|constructor].
  - destruct S as [S|[S|S]]; auto. right; right. intros a' j' H1 H2 B. apply (S a' H1 H2).
    exists j'. econstructor; [exact B|constructor].
Qed.
End Top.
