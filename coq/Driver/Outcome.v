(* Model M6b: check_pass_result, report_pass_bug, get_extra_dir, save_extra_dir, timeout branch
   (cvise/utils/testing.py:273-318, 388-393, 404-414, 448-478).  No proofs in this file. *)
From Coq Require Import List Arith Bool ZArith Lia.
Import ListNotations.
From CV Require Import Driver.Round.

Inductive pres := OK | INVALID | STOP | ERROR | EXC.     (* EXC: transform raised, result stays None *)
Inductive tout := Exit (z:Z) | Timeout | NoRun.   (* NoRun: the test process could not be started *)

Definition pres_eqb (a b:pres) : bool :=
  match a, b with OK,OK | INVALID,INVALID | STOP,STOP | ERROR,ERROR | EXC,EXC => true | _,_ => false end.

(* what the driver can see of one finished candidate *)
Record cand := mkc {
  c_res : pres;
  c_exit : Z;            (* exit status of the interestingness test (meaningful when c_res = OK) *)
  c_timeout : bool;      (* the future raised TimeoutError *)
  c_changed : bool;      (* candidate file differs from the current test case (filecmp) *)
  c_improve : Z;         (* base_size - size of the candidate *)
  c_norun : bool         (* the test could not be run at all: exitcode stays None (OSError in the worker) *)
}.

Record cfg := mkcfg {
  g_N : nat;
  g_silent : bool;            (* silent_pass_bug *)
  g_die : bool;               (* die_on_pass_bug *)
  g_maximp : option Z;        (* max_improvement *)
  g_nogiveup : bool;
  g_also : option Z;          (* also_interesting *)
  g_giveup : nat;             (* GIVEUP_CONSTANT *)
  g_maxto : nat;              (* MAX_TIMEOUTS *)
  g_maxcrash : nat;           (* MAX_CRASH_DIRS *)
  g_maxextra : nat            (* MAX_EXTRA_DIRS *)
}.

(* side state of result checking *)
Record xst := mkx {
  x_failed : nat;             (* pass_statistic.add_failure calls *)
  x_bugdirs : nat;            (* existing cvise_bug_<i> directories, i = 0.. (contiguous) *)
  x_extradirs : nat;          (* existing cvise_extra_<i> directories *)
  x_tcount : nat;             (* timeout_count *)
  x_greported : bool          (* giveup_reported *)
}.

Definition success (c:cand) : bool := pres_eqb (c_res c) OK && Z.eqb (c_exit c) 0 && negb (c_norun c).

(* get_extra_dir(prefix, max): first free index in 0..max, None when 0..max all exist *)
Definition free_slot (existing max:nat) : bool := existing <=? max.

(* report_pass_bug: (created?, raised?, state) *)
Definition report_bug (g:cfg) (x:xst) : bool * bool * xst :=
  if free_slot (x_bugdirs x) (g_maxcrash g) then
    (true, g_die g, mkx (x_failed x) (S (x_bugdirs x)) (x_extradirs x) (x_tcount x) (x_greported x))
  else (false, false, x).

Definition save_extra (g:cfg) (x:xst) : xst :=
  if free_slot (x_extradirs x) (g_maxextra g) then
    mkx (x_failed x) (x_bugdirs x) (S (x_extradirs x)) (x_tcount x) (x_greported x)
  else x.

Definition add_failure (x:xst) : xst :=
  mkx (S (x_failed x)) (x_bugdirs x) (x_extradirs x) (x_tcount x) (x_greported x).
Definition set_reported (x:xst) : xst :=
  mkx (x_failed x) (x_bugdirs x) (x_extradirs x) (x_tcount x) true.

Definition too_large (g:cfg) (c:cand) : bool :=
  match g_maximp g with Some mx => Z.ltb mx (c_improve c) | None => false end.

(* the give-up tail shared by all failure branches; order is 1-based: candidate i has order i+1 *)
Definition giveup_tail (g:cfg) (x:xst) (i:nat) : outcome * xst :=
  if negb (g_nogiveup g) && (g_giveup g <? S i) then
    if x_greported x then (QUIT, x)
    else let '(_, raised, x') := report_bug g x in
         if raised then (RAISE, x') else (QUIT, set_reported x')
  else (IGNORE, x).

Definition check_pass_result (g:cfg) (c:cand) (x:xst) (i:nat) : outcome * xst :=
  if success c then
    if too_large g c then (IGNORE, x)
    else if negb (c_changed c) then
      if negb (g_silent g) then
        let '(created, raised, x') := report_bug g x in
        if raised then (RAISE, x') else if created then (IGNORE, x') else (QUIT, x')
      else (IGNORE, x)
    else (ACCEPT, x)
  else
    let x1 := add_failure x in
    match c_res c with
    | OK =>
      let x2 := match g_also g with
                | Some a => if negb (c_norun c) && Z.eqb (c_exit c) a then save_extra g x1 else x1
                | None => x1 end in
      giveup_tail g x2 i
    | STOP => (QUIT, x1)
    | ERROR =>
      if negb (g_silent g) then
        let '(_, raised, x') := report_bug g x1 in
        if raised then (RAISE, x') else (QUIT, x')
      else giveup_tail g x1 i
    | _ => giveup_tail g x1 i
    end.

(* TimeoutError branch of process_done_futures *)
Definition on_timeout (g:cfg) (x:xst) (_:nat) : xst * bool :=
  let x1 := save_extra g x in
  let x2 := mkx (x_failed x1) (x_bugdirs x1) (x_extradirs x1) (S (x_tcount x1)) (x_greported x1) in
  (x2, g_maxto g <=? x_tcount x2).

Section Inst.
Variable g : cfg.
Variable cands : list cand.
Definition cand_at (i:nat) : cand := nth i cands (mkc EXC 0 false false 0 false).
Definition chk (x:xst) (i:nat) := check_pass_result g (cand_at i) x i.
Definition tmo (i:nat) := c_timeout (cand_at i).

(* static classes *)
Definition isA (i:nat) : bool :=
  let c := cand_at i in negb (c_timeout c) && success c && negb (too_large g c) && c_changed c.
(* may end a round without being accepted *)
Definition mayQ (i:nat) : bool :=
  let c := cand_at i in
  c_timeout c || pres_eqb (c_res c) STOP || pres_eqb (c_res c) ERROR ||
  (success c && negb (c_changed c)) || (negb (g_nogiveup g) && (g_giveup g <? S i)).

Definition xinit (bug extra:nat) : xst := mkx 0 bug extra 0 false.
Definition cround (sch:sched) (x:xst) : rres xst :=
  round xst chk tmo (on_timeout g) (g_N g) (length cands) sch x.
Definition cseq (x:xst) := seq_round xst chk tmo (length cands) x.
End Inst.
