(* kill_pid_queue (cvise/utils/testing.py:362-382): drain STARTED/FINISHED events into a set of
   active pids. *)
From Coq Require Import List Arith Bool Lia.
Import ListNotations.

Inductive pev := Started (p:nat) | Finished (p:nat).
Fixpoint remove_pid (p:nat) (l:list nat) : list nat :=
  match l with [] => [] | q :: t => if Nat.eqb p q then remove_pid p t else q :: remove_pid p t end.
Definition add_pid (p:nat) (l:list nat) : list nat := if existsb (Nat.eqb p) l then l else p :: l.
(* active_pids.add / discard, in queue order *)
Definition step (act:list nat) (e:pev) : list nat :=
  match e with Started p => add_pid p act | Finished p => remove_pid p act end.
Definition active_pids (evs:list pev) : list nat := fold_left step evs [].

Lemma in_remove_pid p q l : In q (remove_pid p l) <-> In q l /\ q <> p.
Proof.
  induction l as [|a l IH]; simpl; [tauto|].
  destruct (Nat.eqb p a) eqn:E.
  - apply Nat.eqb_eq in E. subst. rewrite IH. split; [tauto|]. intros [[->|H] H2]; tauto.
  - apply Nat.eqb_neq in E. simpl. rewrite IH. split.
    + intros [->|[H1 H2]]; split; auto. 
    + intros [[->|H] H2]; auto.
Qed.
Lemma in_add_pid p q l : In q (add_pid p l) <-> q = p \/ In q l.
Proof.
  unfold add_pid. destruct (existsb (Nat.eqb p) l) eqn:E.
  - apply existsb_exists in E. destruct E as (x & Hx & Ex). apply Nat.eqb_eq in Ex. subst x.
    split; [tauto|]. intros [->|H]; auto.
  - simpl. split; intros [H|H]; auto.
Qed.

Lemma fold_spec : forall evs act p,
  In p (fold_left step evs act) <->
  (In p act /\ ~ In (Finished p) evs) \/
  (exists pre post, evs = pre ++ Started p :: post /\ ~ In (Finished p) post).
Proof.
  induction evs as [|e evs IH]; intros act p; simpl.
  - split; [intros H; left; tauto|]. intros [[H _]|(pre & post & E & _)]; auto. destruct pre; discriminate.
  - rewrite IH. destruct e as [q|q]; simpl.
    + rewrite in_add_pid. split.
      * intros [[[->|H] H2]|(pre & post & E & H2)].
        -- right. exists [], evs. split; auto.
        -- left. split; auto. intros [H3|H3]; [discriminate|auto].
        -- right. exists (Started q :: pre), post. subst. split; auto.
      * intros [[H H2]|(pre & post & E & H2)].
        -- left. split; auto.
        -- destruct pre as [|a pre]; simpl in E; inversion E; subst.
           ++ left. split; auto.
           ++ right. exists pre, post. split; auto.
    + rewrite in_remove_pid. split.
      * intros [[[H H1] H2]|(pre & post & E & H2)].
        -- left. split; auto. intros [H3|H3]; [inversion H3; congruence|auto].
        -- right. exists (Finished q :: pre), post. subst. split; auto.
      * intros [[H H2]|(pre & post & E & H2)].
        -- left. split; [split; auto|].
           intro H3. apply H2. right; auto.
        -- destruct pre as [|a pre]; simpl in E; inversion E; subst.
           right. exists pre, post. split; auto.
Qed.

Theorem active_pids_spec (evs:list pev) (p:nat) :
  In p (active_pids evs) <-> (exists pre post, evs = pre ++ Started p :: post /\ ~ In (Finished p) post).
Proof.
  unfold active_pids. rewrite fold_spec. simpl. split; [intros [[[] _]|H]; auto|auto].
Qed.
