(* More facts about the generic round: invariants of the side state, bounded failure and
   timeout counters, and the folder bookkeeping (every scheduled future is either still held
   at return or was released exactly once). *)
From Coq Require Import List Arith Bool Lia Permutation.
Import ListNotations.
From CV Require Import Driver.Round Driver.RoundProofs.

Section P.
Variable X : Type.
Variable chk : X -> nat -> outcome * X.
Variable tmo : nat -> bool.
Variable on_tmo : X -> nat -> X * bool.
Variable N m : nat.
Notation scan := (scan X chk tmo on_tmo).
Notation wfs := (wfs X chk tmo).
Notation loop := (loop X chk tmo on_tmo N m).
Notation round := (round X chk tmo on_tmo N m).

(* ---------- any predicate preserved by result checking holds at the end ---------- *)
Section Pres.
Variable P : X -> Prop.
Hypothesis P_chk : forall x i, P x -> P (snd (chk x i)).
Hypothesis P_tmo : forall x i, P x -> P (fst (on_tmo x i)).

Lemma scan_pres : forall fs q sch x, P x -> P (s_x X (scan q fs sch x)).
Proof.
  induction fs as [|f t IH]; intros q sch x Px; simpl; auto.
  destruct q; simpl; auto.
  destruct (if fdone f then true else Nat.odd (shd sch)); simpl; auto.
  destruct (tmo (fid f)).
  - pose proof (P_tmo x (fid f) Px) as P1. destruct (on_tmo x (fid f)) as [x' q']. simpl in *. auto.
  - pose proof (P_chk x (fid f) Px) as P1. destruct (chk x (fid f)) as [o x']. simpl in *.
    destruct o; simpl; auto.
Qed.
Lemma wfs_pres : forall fs x, P x -> P (snd (wfs fs x)).
Proof.
  induction fs as [|f t IH]; intros x Px; simpl; auto.
  destruct (tmo (fid f)); auto.
  pose proof (P_chk x (fid f) Px) as P1. destruct (chk x (fid f)) as [o x']. simpl in *.
  destruct o; simpl; auto.
Qed.
Lemma loop_pres : forall fuel j fs rel sch x, P x -> P (r_x X (loop fuel j fs rel sch x)).
Proof.
  induction fuel as [|fuel IH]; intros j fs rel sch x Px; simpl; auto.
  set (blocked := (N <=? length fs) && negb (existsb fdone fs) && negb (Nat.eqb (length fs) 0)).
  set (fs1 := if blocked then force (Nat.modulo (shd sch) (length fs)) fs else fs).
  set (sch1 := if blocked then tl sch else sch).
  pose proof (scan_pres fs1 false sch1 x Px) as P1.
  set (r := scan false fs1 sch1 x) in *.
  destruct (s_raise X r); simpl; auto.
  destruct (s_quit X r).
  - pose proof (wfs_pres (s_kept X r) (s_x X r) P1) as P2.
    destruct (wfs (s_kept X r) (s_x X r)) as [[w|] x']; simpl in *; auto.
  - destruct (S j <? m); auto.
    pose proof (wfs_pres (s_kept X r ++ [mkf j false]) (s_x X r) P1) as P2.
    destruct (wfs (s_kept X r ++ [mkf j false]) (s_x X r)) as [[w|] x']; simpl in *; auto.
Qed.
Theorem round_pres sch x : P x -> P (r_x X (round sch x)).
Proof. apply loop_pres. Qed.
End Pres.

(* ---------- a strict invariant that holds as long as no quit was signalled ---------- *)
Section Pres2.
Variable R P : X -> Prop.
Hypothesis R_P : forall x, R x -> P x.
Hypothesis R_chk : forall x i, R x -> R (snd (chk x i)).
Hypothesis P_chk : forall x i, P x -> P (snd (chk x i)).
Definition PR (q:bool) (x:X) : Prop := if q then P x else R x.
Hypothesis R_tmo : forall x i, R x -> PR (snd (on_tmo x i)) (fst (on_tmo x i)).

Lemma scan_pres2 : forall fs q sch x, PR q x ->
  let r := scan q fs sch x in
  s_raise X r = false -> PR (s_quit X r) (s_x X r).
Proof.
  induction fs as [|f t IH]; intros q sch x Hx r NR; subst r; simpl in *; auto.
  destruct q; simpl in *.
  - apply (IH true sch x Hx NR).
  - destruct (if fdone f then true else Nat.odd (shd sch)); simpl in *.
    + destruct (tmo (fid f)).
      * pose proof (R_tmo x (fid f) Hx) as T1. destruct (on_tmo x (fid f)) as [x' q']. simpl in *.
        apply (IH q' _ x' T1 NR).
      * pose proof (R_chk x (fid f) Hx) as T1.
        destruct (chk x (fid f)) as [o x']. simpl in *. destruct o; simpl in *.
        -- apply (IH true _ x' (R_P _ T1) NR).
        -- apply (IH false _ x' T1 NR).
        -- apply (IH true _ x' (R_P _ T1) NR).
        -- discriminate.
    + apply (IH false _ x Hx NR).
Qed.

Lemma loop_pres2 : forall fuel j fs rel sch x, R x ->
  r_raised X (loop fuel j fs rel sch x) = false -> P (r_x X (loop fuel j fs rel sch x)).
Proof.
  induction fuel as [|fuel IH]; intros j fs rel sch x Rx NR; simpl in *; auto.
  set (blocked := (N <=? length fs) && negb (existsb fdone fs) && negb (Nat.eqb (length fs) 0)) in *.
  set (fs1 := if blocked then force (Nat.modulo (shd sch) (length fs)) fs else fs) in *.
  set (sch1 := if blocked then tl sch else sch) in *.
  pose proof (scan_pres2 fs1 false sch1 x Rx) as P1.
  set (r := scan false fs1 sch1 x) in *.
  destruct (s_raise X r) eqn:SR; cbn [r_raised r_x] in *; [discriminate|]. specialize (P1 SR).
  destruct (s_quit X r).
  - pose proof (wfs_pres P P_chk (s_kept X r) (s_x X r) P1) as P2.
    destruct (wfs (s_kept X r) (s_x X r)) as [[w|] x']; cbn [r_raised r_x snd] in *; auto.
  - destruct (S j <? m); auto.
    pose proof (wfs_pres P P_chk (s_kept X r ++ [mkf j false]) (s_x X r) (R_P _ P1)) as P2.
    destruct (wfs (s_kept X r ++ [mkf j false]) (s_x X r)) as [[w|] x']; cbn [r_raised r_x snd] in *; auto.
Qed.
Theorem round_pres2 sch x : R x -> r_raised X (round sch x) = false -> P (r_x X (round sch x)).
Proof. apply loop_pres2. Qed.
End Pres2.

(* ---------- failure counter: at most one per scheduled candidate ---------- *)
Section Count.
Variable t : X -> nat.
Hypothesis t_chk : forall x i, t (snd (chk x i)) <= S (t x).
Hypothesis t_acc : forall x i, fst (chk x i) = ACCEPT -> t (snd (chk x i)) = t x.
Hypothesis t_tmo : forall x i, t (fst (on_tmo x i)) = t x.

Lemma scan_count : forall fs q sch x,
  let r := scan q fs sch x in
  s_raise X r = false -> t (s_x X r) + length (s_kept X r) <= t x + length fs.
Proof.
  induction fs as [|f tl0 IH]; intros q sch x r NR; subst r; simpl in *; [lia|].
  destruct q; simpl in *.
  - specialize (IH true sch x NR). lia.
  - destruct (if fdone f then true else Nat.odd (shd sch)); simpl in *.
    + destruct (tmo (fid f)).
      * pose proof (t_tmo x (fid f)) as T1. destruct (on_tmo x (fid f)) as [x' q']. simpl in *.
        specialize (IH q' _ x' NR). lia.
      * pose proof (t_chk x (fid f)) as T1. pose proof (t_acc x (fid f)) as T2.
        destruct (chk x (fid f)) as [o x']. simpl in *. destruct o; simpl in *.
        -- specialize (IH true _ x' NR). specialize (T2 eq_refl). lia.
        -- specialize (IH false _ x' NR). lia.
        -- specialize (IH true _ x' NR). lia.
        -- discriminate.
    + specialize (IH false _ x NR). lia.
Qed.
Lemma wfs_count : forall fs x, t (snd (wfs fs x)) <= t x + length fs.
Proof.
  induction fs as [|f tl0 IH]; intros x; simpl; [lia|].
  destruct (tmo (fid f)); [specialize (IH x); lia|].
  pose proof (t_chk x (fid f)) as T1. destruct (chk x (fid f)) as [o x']. simpl in *.
  destruct o; simpl; try lia; specialize (IH x'); lia.
Qed.

Lemma loop_count : forall fuel j fs rel sch x,
  let r := loop fuel j fs rel sch x in
  r_raised X r = false -> t (r_x X r) <= t x + length fs + (r_sched X r - j) /\ j <= r_sched X r.
Proof.
  induction fuel as [|fuel IH]; intros j fs rel sch x r NR; subst r; simpl in *; [lia|].
  set (blocked := (N <=? length fs) && negb (existsb fdone fs) && negb (Nat.eqb (length fs) 0)) in *.
  set (fs1 := if blocked then force (Nat.modulo (shd sch) (length fs)) fs else fs) in *.
  set (sch1 := if blocked then tl sch else sch) in *.
  assert (L1 : length fs1 = length fs).
  { unfold fs1. destruct blocked; auto. rewrite <- (map_length fid), <- (map_length fid fs). f_equal. apply ids_force. }
  pose proof (scan_count fs1 false sch1 x) as SC.
  set (r := scan false fs1 sch1 x) in *.
  destruct (s_raise X r) eqn:SR; simpl in *; [discriminate|]. specialize (SC SR).
  destruct (s_quit X r).
  - pose proof (wfs_count (s_kept X r) (s_x X r)) as W.
    destruct (wfs (s_kept X r) (s_x X r)) as [[w|] x']; cbn [r_raised r_x r_sched snd fst] in *; [|discriminate]. lia.
  - destruct (S j <? m).
    + specialize (IH (S j) (s_kept X r ++ [mkf j false]) (rel ++ s_drop X r) (s_sch X r) (s_x X r) NR).
      rewrite app_length in IH. simpl in IH. lia.
    + pose proof (wfs_count (s_kept X r ++ [mkf j false]) (s_x X r)) as W.
      rewrite app_length in W. simpl in W.
      destruct (wfs (s_kept X r ++ [mkf j false]) (s_x X r)) as [[w|] x']; cbn [r_raised r_x r_sched snd fst] in *; [|discriminate]. lia.
Qed.

Theorem round_count sch x :
  r_raised X (round sch x) = false -> t (r_x X (round sch x)) <= t x + r_sched X (round sch x).
Proof. intros NR. destruct (loop_count m 0 [] [] sch x NR) as (H & _). unfold round. cbn [length] in H. lia. Qed.
End Count.

(* ---------- folder bookkeeping ---------- *)
Lemma scan_partition : forall fs q sch x,
  let r := scan q fs sch x in
  s_raise X r = false -> Permutation (ids fs) (ids (s_kept X r) ++ s_drop X r).
Proof.
  induction fs as [|f t IH]; intros q sch x r NR; subst r; unfold ids in *; simpl in *; auto.
  destruct q; simpl in *.
  - specialize (IH true sch x NR). apply Permutation_cons_app. exact IH.
  - destruct (if fdone f then true else Nat.odd (shd sch)); simpl in *.
    + destruct (tmo (fid f)).
      * destruct (on_tmo x (fid f)) as [x' q']. simpl in *.
        specialize (IH q' _ x' NR). apply Permutation_cons_app. exact IH.
      * destruct (chk x (fid f)) as [o x']. destruct o; simpl in *.
        -- constructor. apply (IH true _ x' NR).
        -- apply Permutation_cons_app. apply (IH false _ x' NR).
        -- apply Permutation_cons_app. apply (IH true _ x' NR).
        -- discriminate.
    + constructor. apply (IH false _ x NR).
Qed.

Lemma loop_folders : forall fuel j fs rel sch x,
  Permutation (seq 0 j) (ids fs ++ rel) ->
  let r := loop fuel j fs rel sch x in
  Permutation (seq 0 (r_sched X r)) (r_futs X r ++ r_released X r).
Proof.
  induction fuel as [|fuel IH]; intros j fs rel sch x HP r; subst r; simpl in *; auto.
  set (blocked := (N <=? length fs) && negb (existsb fdone fs) && negb (Nat.eqb (length fs) 0)) in *.
  set (fs1 := if blocked then force (Nat.modulo (shd sch) (length fs)) fs else fs) in *.
  set (sch1 := if blocked then tl sch else sch) in *.
  assert (I1 : ids fs1 = ids fs) by (unfold fs1; destruct blocked; auto; apply ids_force).
  pose proof (scan_partition fs1 false sch1 x) as SP.
  set (r := scan false fs1 sch1 x) in *.
  destruct (s_raise X r) eqn:SR; simpl in *.
  - fold (ids fs1). rewrite I1. exact HP.
  - specialize (SP SR). rewrite I1 in SP.
    assert (HP' : Permutation (seq 0 j) (ids (s_kept X r) ++ rel ++ s_drop X r)).
    { eapply Permutation_trans; [exact HP|].
      eapply Permutation_trans; [apply Permutation_app_tail; exact SP|].
      rewrite <- app_assoc. apply Permutation_app_head. apply Permutation_app_comm. }
    assert (HS : Permutation (seq 0 (S j)) (ids (s_kept X r ++ [mkf j false]) ++ rel ++ s_drop X r)).
    { rewrite seq_S. simpl. unfold ids. rewrite map_app. simpl. rewrite <- app_assoc. simpl.
      eapply Permutation_trans; [apply Permutation_app_tail; exact HP'|].
      unfold ids. rewrite <- !app_assoc. apply Permutation_app_head.
      rewrite app_assoc. apply Permutation_sym. apply Permutation_cons_append. }
    destruct (s_quit X r).
    + destruct (wfs (s_kept X r) (s_x X r)) as [[w|] x']; simpl; exact HP'.
    + destruct (S j <? m).
      * apply IH. exact HS.
      * destruct (wfs (s_kept X r ++ [mkf j false]) (s_x X r)) as [[w|] x']; simpl; exact HS.
Qed.

(* every scheduled candidate's folder is accounted for exactly once: still held by
   self.futures at return (release_folders then removes it) or already released *)
Theorem round_folders sch x :
  Permutation (seq 0 (r_sched X (round sch x))) (r_futs X (round sch x) ++ r_released X (round sch x)).
Proof. apply loop_folders. simpl. constructor. Qed.

End P.

(* when result checking never raises, a round never raises and never runs out of fuel *)
Section NoRaise.
Variable X : Type.
Variable chk : X -> nat -> outcome * X.
Variable tmo : nat -> bool.
Variable on_tmo : X -> nat -> X * bool.
Variable N m : nat.
Hypothesis noRaise : forall x i, fst (chk x i) <> RAISE.

Lemma scan_noraise' : forall fs q sch x, s_raise X (scan X chk tmo on_tmo q fs sch x) = false.
Proof.
  induction fs as [|f t IH]; intros q sch x; simpl; auto.
  destruct q; simpl; auto.
  destruct (if fdone f then true else Nat.odd (shd sch)); simpl; auto.
  destruct (tmo (fid f)).
  - destruct (on_tmo x (fid f)) as [x' q']. simpl. auto.
  - pose proof (noRaise x (fid f)) as NRz. destruct (chk x (fid f)) as [o x']. simpl in NRz.
    destruct o; simpl; auto. congruence.
Qed.
Lemma wfs_noraise' : forall fs x, exists w x', wfs X chk tmo fs x = (Some w, x').
Proof.
  induction fs as [|f t IH]; intros x; simpl; eauto.
  destruct (tmo (fid f)); auto.
  pose proof (noRaise x (fid f)) as NRz. destruct (chk x (fid f)) as [o x']. simpl in NRz.
  destruct o; eauto. congruence.
Qed.
Lemma loop_noraise : forall fuel j fs rel sch x,
  r_raised X (loop X chk tmo on_tmo N m fuel j fs rel sch x) = false.
Proof.
  induction fuel as [|fuel IH]; intros j fs rel sch x; simpl; auto.
  rewrite scan_noraise'.
  match goal with |- context [s_quit X ?r] => destruct (s_quit X r) end.
  - match goal with |- context [wfs X chk tmo ?a ?b] => destruct (wfs_noraise' a b) as (w & x' & W); rewrite W end. reflexivity.
  - destruct (S j <? m); auto.
    match goal with |- context [wfs X chk tmo ?a ?b] => destruct (wfs_noraise' a b) as (w & x' & W); rewrite W end. reflexivity.
Qed.
Theorem round_noraise sch x : r_raised X (round X chk tmo on_tmo N m sch x) = false.
Proof. apply loop_noraise. Qed.
End NoRaise.

(* ---------- give-up: once candidates beyond index G always quit, few more are scheduled ---------- *)
Section Giveup.
Variable X : Type.
Variable chk : X -> nat -> outcome * X.
Variable tmo : nat -> bool.
Variable on_tmo : X -> nat -> X * bool.
Variable N m G : nat.
Hypothesis Npos : 1 <= N.
Hypothesis late : forall x i, G <= i -> tmo i = false /\ (fst (chk x i) = QUIT \/ fst (chk x i) = RAISE).
Notation scan := (scan X chk tmo on_tmo).
Notation loop := (loop X chk tmo on_tmo N m).
Definition isLate (i:nat) := G <=? i.
Definition nlate (fs:list fut) := length (filter isLate (ids fs)).

Lemma scan_late : forall fs q sch x,
  let r := scan q fs sch x in
  s_raise X r = false -> s_quit X r = false ->
  q = false /\ nlate (s_kept X r) = nlate fs /\ length (s_kept X r) <= length fs /\
  (existsb fdone fs = true -> length (s_kept X r) < length fs).
Proof.
  induction fs as [|f t IH]; intros q sch x r NR NQ; subst r; unfold nlate, ids in *; simpl in *.
  - subst. repeat split; auto. discriminate.
  - destruct q; simpl in *.
    + destruct (scan_true X chk tmo on_tmo t sch x) as (Q & _). congruence.
    + destruct (if fdone f then true else Nat.odd (shd sch)) eqn:D; simpl in *.
      * destruct (tmo (fid f)) eqn:T.
        -- destruct (on_tmo x (fid f)) as [x' q']. simpl in *.
           destruct (IH q' _ x' NR NQ) as (E1 & E2 & E3 & E4). subst q'.
           assert (NL : isLate (fid f) = false).
           { unfold isLate. destruct (G <=? fid f) eqn:GL; auto. apply Nat.leb_le in GL.
             destruct (late x (fid f) GL) as (T' & _). congruence. }
           rewrite NL. repeat split; auto; lia.
        -- destruct (chk x (fid f)) as [o x'] eqn:CK. destruct o; simpl in *.
           ++ destruct (scan_true X chk tmo on_tmo t (if fdone f then sch else tl sch) x') as (Q & _). congruence.
           ++ destruct (IH false _ x' NR NQ) as (E1 & E2 & E3 & E4).
              assert (NL : isLate (fid f) = false).
              { unfold isLate. destruct (G <=? fid f) eqn:GL; auto. apply Nat.leb_le in GL.
                destruct (late x (fid f) GL) as (_ & [Q|Q]); rewrite CK in Q; discriminate. }
              rewrite NL. repeat split; auto; lia.
           ++ destruct (scan_true X chk tmo on_tmo t (if fdone f then sch else tl sch) x') as (Q & _). congruence.
           ++ discriminate.
      * destruct (IH false _ x NR NQ) as (E1 & E2 & E3 & E4).
        assert (FD : fdone f = false) by (destruct (fdone f); [discriminate|auto]).
        rewrite FD in *. simpl. destruct (isLate (fid f)); simpl; repeat split; auto; try lia;
          intros H; specialize (E4 H); lia.
Qed.

Lemma filter_len_le {A} (f:A -> bool) (l:list A) : length (filter f l) <= length l.
Proof. induction l as [|a l IH]; simpl; [lia|]. destruct (f a); simpl; lia. Qed.
Lemma force_done : forall fs k, k < length fs -> existsb fdone (force k fs) = true.
Proof.
  induction fs as [|f t IH]; intros k H; simpl in *; [lia|].
  destruct k; simpl; auto. rewrite IH by lia. apply orb_true_r.
Qed.
Lemma length_force : forall fs k, length (force k fs) = length fs.
Proof. induction fs as [|f t IH]; destruct k; simpl; auto. Qed.
Lemma nlate_force fs k : nlate (force k fs) = nlate fs.
Proof. unfold nlate. rewrite ids_force. reflexivity. Qed.

Lemma loop_giveup : forall fuel j fs rel sch x,
  length fs <= N -> nlate fs = j - G -> j <= G + N ->
  r_sched X (loop fuel j fs rel sch x) <= G + N + 1.
Proof.
  induction fuel as [|fuel IH]; intros j fs rel sch x LN NL JB; simpl; [lia|].
  set (blocked := (N <=? length fs) && negb (existsb fdone fs) && negb (Nat.eqb (length fs) 0)).
  set (fs1 := if blocked then force (Nat.modulo (shd sch) (length fs)) fs else fs).
  set (sch1 := if blocked then tl sch else sch).
  assert (L1 : length fs1 = length fs) by (unfold fs1; destruct blocked; auto; apply length_force).
  assert (N1 : nlate fs1 = nlate fs) by (unfold fs1; destruct blocked; auto; apply nlate_force).
  assert (SM : length fs < N \/ existsb fdone fs1 = true).
  { unfold fs1, blocked. destruct (N <=? length fs) eqn:E1; simpl.
    - destruct (existsb fdone fs) eqn:E2; simpl; [right; auto|].
      destruct (Nat.eqb (length fs) 0) eqn:E3; simpl.
      + apply Nat.eqb_eq in E3. left. lia.
      + right. apply force_done. apply Nat.mod_upper_bound. apply Nat.eqb_neq in E3. exact E3.
    - apply Nat.leb_gt in E1. left. exact E1. }
  pose proof (scan_late fs1 false sch1 x) as SL.
  set (r := scan false fs1 sch1 x) in *.
  destruct (s_raise X r) eqn:SR; cbn [r_sched]; [lia|].
  destruct (s_quit X r) eqn:SQ.
  - destruct (wfs X chk tmo (s_kept X r) (s_x X r)) as [[w|] x']; cbn [r_sched]; lia.
  - destruct (SL SR SQ) as (_ & K1 & K2 & K3).
    assert (KL : length (s_kept X r) < N).
    { destruct SM as [SM|SM]; [lia|]. specialize (K3 SM). lia. }
    assert (NL2 : nlate (s_kept X r ++ [mkf j false]) = S j - G /\ (G <= j -> S j - G <= N)).
    { unfold nlate, ids in *. rewrite map_app, filter_app, app_length.
      change (map fid [mkf j false]) with [j].
      assert (FJ : length (filter isLate [j]) = if G <=? j then 1 else 0).
      { unfold isLate. cbn [filter]. destruct (G <=? j); reflexivity. }
      rewrite FJ. destruct (G <=? j) eqn:GJ.
      - apply Nat.leb_le in GJ. split; [lia|]. intros _.
        assert (length (filter isLate (map fid (s_kept X r))) <= length (s_kept X r)).
        { rewrite <- (map_length fid (s_kept X r)). apply filter_len_le. }
        lia.
      - apply Nat.leb_gt in GJ. split; lia. }
    destruct NL2 as (NL2 & NL3).
    destruct (S j <? m).
    + apply IH.
      * rewrite app_length. simpl. lia.
      * exact NL2.
      * destruct (Nat.le_gt_cases G j) as [GJ|GJ]; [specialize (NL3 GJ); lia|lia].
    + destruct (wfs X chk tmo (s_kept X r ++ [mkf j false]) (s_x X r)) as [[w|] x']; cbn [r_sched]; lia.
Qed.

(* a round schedules at most G + N + 1 candidates *)
Theorem round_giveup sch x : r_sched X (round X chk tmo on_tmo N m sch x) <= G + N + 1.
Proof. apply loop_giveup; simpl; try lia. unfold nlate. simpl. lia. Qed.
End Giveup.
