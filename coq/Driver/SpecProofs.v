(* Refinement of the whole driver model to a schedule-free, cache-free, side-state-free
   specification: under the C02 contract the final files and the exit of run_pass / reduce
   depend neither on N, nor on the schedule, nor on the report-directory state, nor on whether
   the pass cache is on (C10); with the cache off the accepted sequence is the spec's too. *)
From Coq Require Import List Arith Bool ZArith NArith Lia.
Import ListNotations.
From CV Require Import Driver.Round Driver.RoundProofs Driver.Outcome Driver.OutcomeProofs
  Driver.RunPass Driver.RunPassProofs Driver.InvProofs.

Local Arguments Z.mul : simpl never.
Local Arguments Z.leb : simpl never.
Local Arguments Z.eqb : simpl never.
Local Arguments MAXINC : simpl never.

Section S.
Variable St : Type.
Variable test : disk -> tout.
Notation pass := (pass St).
Variable rc : rcfg.

(* what C02 asks of a pass (per file): enumerations end within the model's fuel and no
   candidate that may quit a round precedes the first acceptable one *)
Definition well_behaved (p:pass) : Prop :=
  (forall c s, snd (chain St p (RunPass.r_fuel rc) c s) = true) /\
  (forall d f s, contract (length (cands_of St test rc p d f s)) (isA (r_g rc) (cands_of St test rc p d f s))
                          (mayQ (r_g rc) (cands_of St test rc p d f s))).

(* ---------- specification ---------- *)
Definition file_spec (p:pass) (f:nat) (d:disk) (worked:nat) (acc:list disk) : disk * nat * list disk * fexit :=
  let c := getf d f in
  let '(c1, st0) := p_new St p (fun c' => interesting test (upd d f c')) c in
  let d1 := upd d f c1 in
  match st0 with
  | None => (d1, worked, acc, FNormal)
  | Some s => rounds_spec St test (RunPass.r_fuel rc) rc p f d1 s (size c) 0 worked acc
  end.

Fixpoint files_spec (p:pass) (order:list nat) (d:disk) (worked:nat) (acc:list disk) : disk * nat * list disk * fexit :=
  match order with
  | [] => (d, worked, acc, FNormal)
  | f :: rest =>
    if Z.eqb (size (getf d f)) 0 then files_spec p rest d worked acc
    else
      let '(d2, w2, a2, e2) := file_spec p f d worked acc in
      match e2 with
      | FNormal => files_spec p rest d2 w2 a2
      | _ => (d2, w2, a2, e2)
      end
  end.

Definition st2 := (disk * option N)%type.     (* files + the start_with gate *)

Definition run_pass_spec (p:pass) (s:st2) : st2 * nat * list disk * fexit :=
  let '(d, start) := s in
  let open (_:unit) :=
    if Z.eqb (total_size d) 0 then ((d, None), 0, [], FZero)
    else let '(d', w, a, e) := files_spec p (sorted_files d) d 0 [] in ((d', None), w, a, e) in
  match start with
  | Some k => if N.eqb k (p_key St p) then open tt else ((d, start), 0, [], FNormal)
  | None => open tt
  end.

Fixpoint run_list_spec (ps:list pass) (s:st2) (acc:list disk) : st2 * fexit * list disk :=
  match ps with
  | [] => (s, FNormal, acc)
  | p :: t => let '(s', _, a, e) := run_pass_spec p s in
              match e with
              | FNormal => run_list_spec t s' (acc ++ a)
              | _ => (s', e, acc ++ a)
              end
  end.

Fixpoint main_loop_spec (fuel:nat) (orig:Z) (ps:list pass) (s:st2) (acc:list disk) : st2 * fexit * list disk :=
  match fuel with
  | 0 => (s, FFuel, acc)
  | S fu =>
    let total := total_size (fst s) in
    if threshold_met rc orig total && negb (match ps with [] => true | _ => false end) then (s, FNormal, acc)
    else
    let '(s', e, acc') := run_list_spec ps s acc in
    match e with
    | FNormal => if Z.leb total (total_size (fst s')) then (s', FNormal, acc')
                 else main_loop_spec fu orig ps s' acc'
    | _ => (s', e, acc')
    end
  end.

Definition reduce_spec (first main last:list pass) (s:st2) : st2 * fexit * list disk :=
  if negb (interesting test (fst s)) then (s, FInsane, [])
  else
    let '(s1, e1, a1) := run_list_spec first s [] in
    match e1 with
    | FNormal =>
      let '(s2, e2, a2) := main_loop_spec (S (Z.to_nat (total_size (fst s1)))) (total_size (fst s)) main s1 a1 in
      match e2 with
      | FNormal => run_list_spec last s2 a2
      | _ => (s2, e2, a2)
      end
    | _ => (s1, e1, a1)
    end.

(* ---------- the accumulators do not influence files and exit ---------- *)
Lemma rounds_spec_acc (p:pass) (f:nat) : forall fuel d s start succ w1 a1 w2 a2,
  let '(d1, _, _, e1) := rounds_spec St test fuel rc p f d s start succ w1 a1 in
  let '(d2, _, _, e2) := rounds_spec St test fuel rc p f d s start succ w2 a2 in
  d1 = d2 /\ e1 = e2.
Proof.
  induction fuel as [|fuel IH]; intros d s start succ w1 a1 w2 a2; simpl; auto.
  destruct (find _ _) as [w|]; auto.
  destruct (nth_error _ w) as [[[cd c'] s']|]; auto.
  destruct (Z.leb (MAXINC * start) (size c')); auto.
  destruct (_ || _); auto.
  destruct (p_aos St p c' s'); auto.
  apply IH.
Qed.

Definition file_de (p:pass) (f:nat) (d:disk) : disk * fexit :=
  let '(d', _, _, e) := file_spec p f d 0 [] in (d', e).
Lemma file_spec_de (p:pass) (f:nat) (d:disk) w a :
  let '(d', _, _, e) := file_spec p f d w a in (d', e) = file_de p f d.
Proof.
  unfold file_de, file_spec.
  destruct (p_new St p (fun c' => interesting test (upd d f c')) (getf d f)) as [c1 [s|]]; auto.
  pose proof (rounds_spec_acc p f (RunPass.r_fuel rc) (upd d f c1) s (size (getf d f)) 0 w a 0 []) as H.
  destruct (rounds_spec St test (RunPass.r_fuel rc) rc p f (upd d f c1) s (size (getf d f)) 0 w a) as [[[d1 w1] a1] e1].
  destruct (rounds_spec St test (RunPass.r_fuel rc) rc p f (upd d f c1) s (size (getf d f)) 0 0 []) as [[[d2 w2] a2] e2].
  destruct H; subst; auto.
Qed.

(* ---------- cache entries agree with the specification ---------- *)
Variable allp : list pass.
Hypothesis key_inj : forall p q, In p allp -> In q allp -> p_key St p = p_key St q -> p = q.
Definition CacheSpec (c:list centry) : Prop :=
  forall k f db a, In (k, f, db, a) c -> forall p, In p allp -> p_key St p = k ->
  file_de p f db = (upd db f a, FNormal).

Hypothesis D : g_die (r_g rc) = false.

Lemma files_refines (p:pass) : In p allp -> well_behaved p ->
  forall order d cache x worked exec sch acc,
  CacheSpec cache ->
  let '(d', cache', r) := files St test rc p order d cache x worked exec sch acc in
  let '(ds, ws, as_, es) := files_spec p order d worked acc in
  d' = ds /\ f_exit r = es /\ f_disk r = d' /\ CacheSpec cache' /\
  (r_no_cache rc = true -> f_worked r = ws /\ f_acc r = as_).
Proof.
  intros INP (WB1 & WB2). induction order as [|f rest IH]; intros d cache x worked exec sch acc HC; simpl.
  - repeat split; auto.
  - destruct (Z.eqb (size (getf d f)) 0); [apply IH; auto|].
    pose proof (file_spec_de p f d worked acc) as FDE.
    destruct (if r_no_cache rc then None else cache_find (p_key St p) f d cache) as [a|] eqn:CF.
    + (* cache hit: the spec computes the very same file *)
      assert (NC : r_no_cache rc = false) by (destruct (r_no_cache rc); [discriminate|auto]).
      rewrite NC in CF.
      assert (HIT : file_de p f d = (upd d f a, FNormal)).
      { clear IH FDE. revert CF. induction cache as [|[[[k' f'] d'] a'] t IHc]; simpl; intros CF; [discriminate|].
        destruct (N.eqb (p_key St p) k' && Nat.eqb f f' && disk_eqb d d') eqn:E.
        - inversion CF; subst a'. rewrite !andb_true_iff in E. destruct E as ((E1 & E2) & E3).
          apply N.eqb_eq in E1. apply Nat.eqb_eq in E2. apply disk_eqb_eq in E3. subst.
          eapply HC; [left; reflexivity|exact INP|reflexivity].
        - apply IHc; auto. intros k1 f1 db a1 Hin. apply (HC k1 f1 db a1). right; auto. }
      destruct (file_spec p f d worked acc) as [[[d2 w2] a2] e2]. rewrite HIT in FDE. inversion FDE; subst.
      specialize (IH (upd d f a) cache x worked exec sch acc HC).
      destruct (files St test rc p rest (upd d f a) cache x worked exec sch acc) as [[d' cache'] r].
      destruct (files_spec p rest (upd d f a) w2 a2) as [[[ds ws] as_] es] eqn:FS.
      (* the spec continues with other accumulators: files and exit do not depend on them *)
      assert (ACCI : forall order0 d0 wa aa wb ab,
                let '(da, _, _, ea) := files_spec p order0 d0 wa aa in
                let '(db, _, _, eb) := files_spec p order0 d0 wb ab in da = db /\ ea = eb).
      { clear. induction order0 as [|f0 rest0 IH0]; intros; simpl; auto.
        destruct (Z.eqb (size (getf d0 f0)) 0); [apply IH0|].
        pose proof (file_spec_de p f0 d0 wa aa) as A. pose proof (file_spec_de p f0 d0 wb ab) as B.
        destruct (file_spec p f0 d0 wa aa) as [[[da wa'] aa'] ea].
        destruct (file_spec p f0 d0 wb ab) as [[[db wb'] ab'] eb].
        rewrite <- B in A. inversion A; subst. destruct eb; auto. apply IH0. }
      specialize (ACCI rest (upd d f a) worked acc w2 a2). rewrite FS in ACCI.
      destruct (files_spec p rest (upd d f a) worked acc) as [[[ds0 ws0] as0] es0].
      destruct ACCI as (-> & ->). destruct IH as (A1 & A2 & A3 & A4 & A5).
      repeat split; auto; try (intros HH; rewrite NC in HH; discriminate); try (rewrite NC in *; discriminate).
    + (* run the file *)
      unfold file_spec in *.
      destruct (p_new St p (fun c' => interesting test (upd d f c')) (getf d f)) as [c1 st0].
      destruct st0 as [s|].
      * pose proof (rounds_sched_indep St test rc p f D WB1 (fun d0 s0 => WB2 d0 f s0) (RunPass.r_fuel rc) (upd d f c1) s (size (getf d f)) 0 x worked exec sch acc) as RS.
        simpl in RS.
        set (r := rounds St test (RunPass.r_fuel rc) rc p f (upd d f c1) s (size (getf d f)) 0 x worked exec sch acc) in *.
        destruct (rounds_spec St test (RunPass.r_fuel rc) rc p f (upd d f c1) s (size (getf d f)) 0 worked acc) as [[[d2 w2] a2] e2].
        inversion RS; subst; clear RS.
        destruct (f_exit r) eqn:FE; try (repeat split; auto; fail).
        assert (HC' : CacheSpec (if r_no_cache rc then cache else (p_key St p, f, d, getf (f_disk r) f) :: cache)).
        { destruct (r_no_cache rc); auto.
          intros k1 f1 db a1 [Hin|Hin] q INQ KQ; [|eapply HC; eauto].
          inversion Hin; subst; clear Hin.
          assert (q = p) by (apply key_inj; auto). subst q.
          rewrite <- FDE. f_equal.
          pose proof (rounds_frame St test rc p f1 (RunPass.r_fuel rc) (upd db f1 c1) s (size (getf db f1)) 0 x worked exec sch acc) as FR.
          fold r in FR. destruct FR as [E|(c & E)]; rewrite E.
          - rewrite upd_getf_upd. reflexivity.
          - rewrite upd_upd, upd_getf_upd. reflexivity. }
        specialize (IH (f_disk r) _ (f_x r) (f_worked r) (f_exec r) (f_sch r) (f_acc r) HC').
        exact IH.
      * simpl. inversion FDE; subst; clear FDE.
        assert (HC' : CacheSpec (if r_no_cache rc then cache else (p_key St p, f, d, getf (upd d f c1) f) :: cache)).
        { destruct (r_no_cache rc); auto.
          intros k1 f1 db a1 [Hin|Hin] q INQ KQ; [|eapply HC; eauto].
          inversion Hin; subst; clear Hin.
          assert (q = p) by (apply key_inj; auto). subst q.
          rewrite <- H0. f_equal. rewrite upd_getf_upd. reflexivity. }
        specialize (IH (upd d f c1) _ x worked exec sch acc HC'). exact IH.
Qed.

Definition rel (m:mst) (s:st2) : Prop := m_disk m = fst s /\ m_start m = snd s /\ CacheSpec (m_cache m).

Lemma run_pass_open_refines (p:pass) (m0:mst) (d:disk) : In p allp -> well_behaved p ->
  m_disk m0 = d -> m_start m0 = None -> CacheSpec (m_cache m0) ->
  let r := run_pass_open St test rc p m0 in
  let '(s', ws, as_, es) :=
    (if Z.eqb (total_size d) 0 then ((d, None), 0, [], FZero)
     else let '(d', w, a, e) := files_spec p (sorted_files d) d 0 [] in ((d', None), w, a, e)) in
  rel (pr_m r) s' /\ pr_exit r = es /\ (r_no_cache rc = true -> pr_worked r = ws /\ pr_acc r = as_).
Proof.
  intros INP WB E0 S0 C0. unfold run_pass_open. rewrite E0.
  destruct (Z.eqb (total_size d) 0); simpl.
  - unfold rel. simpl. repeat split; auto.
  - pose proof (files_refines p INP WB (sorted_files d) d (m_cache m0) (m_x m0) 0 0 (m_sch m0) [] C0) as F.
    destruct (files St test rc p (sorted_files d) d (m_cache m0) (m_x m0) 0 0 (m_sch m0) []) as [[d' cache'] r].
    destruct (files_spec p (sorted_files d) d 0 []) as [[[ds ws] as_] es].
    destruct F as (A1 & A2 & A3 & A4 & A5). unfold rel. simpl. repeat split; auto; apply A5; assumption.
Qed.

Lemma run_pass_refines (p:pass) (m:mst) (s:st2) : In p allp -> well_behaved p -> rel m s ->
  let r := run_pass St test rc p m in
  let '(s', ws, as_, es) := run_pass_spec p s in
  rel (pr_m r) s' /\ pr_exit r = es /\ (r_no_cache rc = true -> pr_worked r = ws /\ pr_acc r = as_).
Proof.
  intros INP WB (RD & RS & RC). destruct s as [d start]. simpl in RD, RS.
  unfold run_pass, run_pass_spec. rewrite RS.
  destruct start as [k|].
  - destruct (N.eqb k (p_key St p)).
    + apply (run_pass_open_refines p (mkm (m_disk m) (m_cache m) (m_x m) (m_sch m) None) d INP WB RD eq_refl RC).
    + simpl. unfold rel. simpl. auto.
  - apply (run_pass_open_refines p m d INP WB RD RS RC).
Qed.

Lemma run_list_refines : forall ps m s acc, incl ps allp -> Forall well_behaved ps -> rel m s ->
  let '(m', e, a) := run_list St test rc ps m acc in
  let '(s', es, as_) := run_list_spec ps s acc in
  rel m' s' /\ e = es /\ (r_no_cache rc = true -> a = as_).
Proof.
  induction ps as [|p t IH]; intros m s acc INC WB R; simpl; auto.
  inversion WB; subst.
  assert (INP : In p allp) by (apply INC; left; auto).
  assert (INC' : incl t allp) by (intros q Hq; apply INC; right; auto).
  pose proof (run_pass_refines p m s INP H1 R) as RP. simpl in RP.
  destruct (run_pass_spec p s) as [[[s' ws] as_] es].
  destruct RP as (R1 & E1 & A1). rewrite E1.
  destruct es; try (split; [exact R1|split; [reflexivity|intros NC; destruct (A1 NC) as (_ & EA); rewrite EA; reflexivity]]).
  specialize (IH (pr_m (run_pass St test rc p m)) s' (acc ++ pr_acc (run_pass St test rc p m)) INC' H2 R1).
  destruct (run_list St test rc t (pr_m (run_pass St test rc p m)) (acc ++ pr_acc (run_pass St test rc p m))) as [[m' e] a].
  (* with the cache on the ghost accumulators may differ; files and exit do not depend on them *)
  assert (ACCI : forall qs s0 a1 a2,
            let '(sa, ea, _) := run_list_spec qs s0 a1 in
            let '(sb, eb, _) := run_list_spec qs s0 a2 in sa = sb /\ ea = eb).
  { clear. induction qs as [|q qs IHq]; intros; simpl; auto.
    destruct (run_pass_spec q s0) as [[[s1 w1] a0] e1]. destruct e1; auto. apply IHq. }
  destruct (r_no_cache rc) eqn:NC.
  - destruct (A1 eq_refl) as (_ & EA). rewrite EA in IH. exact IH.
  - specialize (ACCI t s' (acc ++ pr_acc (run_pass St test rc p m)) (acc ++ as_)).
    destruct (run_list_spec t s' (acc ++ pr_acc (run_pass St test rc p m))) as [[sa ea] aa].
    destruct (run_list_spec t s' (acc ++ as_)) as [[sb eb] ab].
    destruct ACCI as (-> & ->). destruct IH as (I1 & I2 & I3). split; [exact I1|]. split; [exact I2|]. intros; congruence.
Qed.

Lemma run_list_spec_acc : forall qs s0 a1 a2,
  let '(sa, ea, _) := run_list_spec qs s0 a1 in
  let '(sb, eb, _) := run_list_spec qs s0 a2 in sa = sb /\ ea = eb.
Proof.
  induction qs as [|q qs IHq]; intros; simpl; auto.
  destruct (run_pass_spec q s0) as [[[s1 w1] a0] e1]. destruct e1; auto. apply IHq.
Qed.

Lemma main_loop_spec_acc (orig:Z) (ps:list pass) : forall fuel s0 a1 a2,
  let '(sa, ea, _) := main_loop_spec fuel orig ps s0 a1 in
  let '(sb, eb, _) := main_loop_spec fuel orig ps s0 a2 in sa = sb /\ ea = eb.
Proof.
  induction fuel as [|fuel IH]; intros; simpl; auto.
  destruct (threshold_met rc orig (total_size (fst s0)) && negb match ps with [] => true | _ => false end); auto.
  pose proof (run_list_spec_acc ps s0 a1 a2) as R.
  destruct (run_list_spec ps s0 a1) as [[sa ea] aa]. destruct (run_list_spec ps s0 a2) as [[sb eb] ab].
  destruct R as (-> & ->). destruct eb; auto.
  destruct (Z.leb (total_size (fst s0)) (total_size (fst sb))); auto.
  apply IH.
Qed.

Lemma main_loop_refines (orig:Z) (ps:list pass) : incl ps allp -> Forall well_behaved ps ->
  forall fuel m s acc, rel m s ->
  let '(m', e, a) := main_loop St test fuel rc orig ps m acc in
  let '(s', es, as_) := main_loop_spec fuel orig ps s acc in
  rel m' s' /\ e = es /\ (r_no_cache rc = true -> a = as_).
Proof.
  intros INC WB. induction fuel as [|fuel IH]; intros m s acc R; simpl; auto.
  pose proof R as (RD & _ & _). rewrite RD.
  destruct (threshold_met rc orig (total_size (fst s)) && negb match ps with [] => true | _ => false end); auto.
  pose proof (run_list_refines ps m s acc INC WB R) as RL.
  destruct (run_list St test rc ps m acc) as [[m' e] a].
  destruct (run_list_spec ps s acc) as [[s' es] as_] eqn:RLS.
  destruct RL as (R1 & -> & A1). pose proof R1 as (RD1 & _ & _). rewrite RD1.
  destruct es; auto.
  destruct (Z.leb (total_size (fst s)) (total_size (fst s'))); auto.
  specialize (IH m' s' a R1).
  destruct (main_loop St test fuel rc orig ps m' a) as [[m2 e2] a2].
  destruct (r_no_cache rc) eqn:NC.
  - rewrite (A1 eq_refl) in IH. exact IH.
  - pose proof (main_loop_spec_acc orig ps fuel s' a as_) as ACC.
    destruct (main_loop_spec fuel orig ps s' a) as [[sa ea] aa].
    destruct (main_loop_spec fuel orig ps s' as_) as [[sb eb] ab].
    destruct ACC as (-> & ->). destruct IH as (I1 & I2 & I3). split; [exact I1|]. split; [exact I2|]. intros; congruence.
Qed.

(* The whole reduction refines the specification: final files, gate and exit are those of the
   schedule-free, cache-free, side-state-free spec; with the cache off so is the accepted sequence. *)
Theorem reduce_refines (first main last:list pass) (m:mst) :
  incl first allp -> incl main allp -> incl last allp ->
  Forall well_behaved first -> Forall well_behaved main -> Forall well_behaved last ->
  m_cache m = [] ->
  let '(m', e, a) := reduce St test rc first main last m in
  let '(s', es, as_) := reduce_spec first main last (m_disk m, m_start m) in
  m_disk m' = fst s' /\ e = es /\ (r_no_cache rc = true -> a = as_).
Proof.
  intros I1 I2 I3 W1 W2 W3 EC. unfold reduce, reduce_spec. cbn [fst snd].
  destruct (negb (interesting test (m_disk m))); [cbn [fst snd]; auto|].
  assert (R : rel m (m_disk m, m_start m)).
  { unfold rel. simpl. repeat split; auto. rewrite EC. intros k f db a []. }
  pose proof (run_list_refines first m _ [] I1 W1 R) as RL.
  destruct (run_list St test rc first m []) as [[m1 e1] a1].
  destruct (run_list_spec first (m_disk m, m_start m) []) as [[s1 es1] as1].
  destruct RL as (R1 & -> & A1). pose proof R1 as (RD1 & _ & _).
  destruct es1; try (split; [exact RD1|split; [reflexivity|exact A1]]).
  rewrite RD1.
  remember (S (Z.to_nat (total_size (fst s1)))) as fuel.
  pose proof (main_loop_refines (total_size (m_disk m)) main I2 W2 fuel m1 s1 a1 R1) as ML.
  destruct (main_loop St test fuel rc (total_size (m_disk m)) main m1 a1) as [[m2 e2] a2].
  destruct (r_no_cache rc) eqn:NC.
  - rewrite (A1 eq_refl) in ML.
    destruct (main_loop_spec fuel (total_size (m_disk m)) main s1 as1) as [[s2 es2] as2].
    destruct ML as (R2 & -> & A2). pose proof R2 as (RD2 & _ & _).
    destruct es2; try (split; [exact RD2|split; [reflexivity|exact A2]]).
    pose proof (run_list_refines last m2 s2 a2 I3 W3 R2) as RL3.
    destruct (run_list St test rc last m2 a2) as [[m3 e3] a3].
    rewrite (A2 eq_refl) in RL3.
    destruct (run_list_spec last s2 as2) as [[s3 es3] as3].
    destruct RL3 as ((RD3 & _) & E3 & A3). rewrite NC in A3. auto.
  - pose proof (main_loop_spec_acc (total_size (m_disk m)) main fuel s1 a1 as1) as ACC.
    destruct (main_loop_spec fuel (total_size (m_disk m)) main s1 a1) as [[s2 es2] as2].
    destruct (main_loop_spec fuel (total_size (m_disk m)) main s1 as1) as [[s2' es2'] as2'].
    destruct ACC as (-> & ->). destruct ML as (R2 & -> & A2). pose proof R2 as (RD2 & _ & _).
    destruct es2'; try (split; [exact RD2|split; [reflexivity|intros; congruence]]).
    pose proof (run_list_refines last m2 s2' a2 I3 W3 R2) as RL3.
    destruct (run_list St test rc last m2 a2) as [[m3 e3] a3].
    pose proof (run_list_spec_acc last s2' a2 as2') as ACC3.
    destruct (run_list_spec last s2' a2) as [[s3 es3] as3].
    destruct (run_list_spec last s2' as2') as [[s3' es3'] as3'].
    destruct ACC3 as (-> & ->). destruct RL3 as ((RD3 & _) & E3 & A3).
    split; [exact RD3|]. split; [exact E3|]. intros; congruence.
Qed.
End S.

(* ---------- the specification ignores the cache switch and the parallelism level ---------- *)
Definition with_run (nocache:bool) (n:nat) (rc:rcfg) : rcfg :=
  let g := r_g rc in
  mkrcfg (mkcfg n (g_silent g) (g_die g) (g_maximp g) (g_nogiveup g) (g_also g) (g_giveup g) (g_maxto g)
                (g_maxcrash g) (g_maxextra g))
         nocache (r_skipn rc) (r_save_temps rc) (r_thr_num rc) (r_thr_den rc) (RunPass.r_fuel rc).

Section Ext.
Variable St : Type.
Variable test : disk -> tout.
Variable b : bool.
Variable n : nat.

Lemma rounds_spec_ext rc (p:pass St) f : forall fuel d s start succ w a,
  rounds_spec St test fuel (with_run b n rc) p f d s start succ w a = rounds_spec St test fuel rc p f d s start succ w a.
Proof.
  destruct rc as [g nc sk st tn td fu]. destruct g. unfold with_run. simpl.
  induction fuel as [|fuel IH]; intros; simpl; auto.
  unfold isA, too_large. simpl.
  destruct (find _ _) as [w0|]; auto.
  destruct (nth_error _ w0) as [[[cd c'] s']|]; auto.
  destruct (Z.leb (MAXINC * start) (size c')); auto.
  destruct (_ || _); auto.
  destruct (p_aos St p c' s'); auto.
Qed.

Lemma files_spec_ext rc (p:pass St) : forall order d w a,
  files_spec St test (with_run b n rc) p order d w a = files_spec St test rc p order d w a.
Proof.
  induction order as [|f rest IH]; intros; simpl; auto.
  destruct (Z.eqb (size (getf d f)) 0); auto.
  unfold file_spec.
  destruct (p_new St p (fun c' => interesting test (upd d f c')) (getf d f)) as [c1 [s|]].
  - rewrite rounds_spec_ext.
    replace (RunPass.r_fuel (with_run b n rc)) with (RunPass.r_fuel rc) by (destruct rc; reflexivity).
    destruct (rounds_spec St test (RunPass.r_fuel rc) rc p f (upd d f c1) s (size (getf d f)) 0 w a) as [[[d2 w2] a2] e2].
    destruct e2; auto.
  - apply IH.
Qed.

Lemma run_pass_spec_ext rc (p:pass St) s : run_pass_spec St test (with_run b n rc) p s = run_pass_spec St test rc p s.
Proof. unfold run_pass_spec. destruct s as [d start]. rewrite files_spec_ext. reflexivity. Qed.

Lemma run_list_spec_ext rc : forall ps s a, run_list_spec St test (with_run b n rc) ps s a = run_list_spec St test rc ps s a.
Proof.
  induction ps as [|p t IH]; intros; simpl; auto. rewrite run_pass_spec_ext.
  destruct (run_pass_spec St test rc p s) as [[[s' w] a0] e]. destruct e; auto.
Qed.

Lemma main_loop_spec_ext rc orig ps : forall fuel s a,
  main_loop_spec St test (with_run b n rc) fuel orig ps s a = main_loop_spec St test rc fuel orig ps s a.
Proof.
  induction fuel as [|fuel IH]; intros; simpl; auto.
  replace (threshold_met (with_run b n rc) orig (total_size (fst s))) with (threshold_met rc orig (total_size (fst s)))
    by (destruct rc; reflexivity).
  destruct (threshold_met rc orig (total_size (fst s)) && negb match ps with [] => true | _ => false end); auto.
  rewrite run_list_spec_ext. destruct (run_list_spec St test rc ps s a) as [[s' e] a']. destruct e; auto.
  destruct (Z.leb (total_size (fst s)) (total_size (fst s'))); auto.
Qed.

Lemma reduce_spec_ext rc first main last s :
  reduce_spec St test (with_run b n rc) first main last s = reduce_spec St test rc first main last s.
Proof.
  unfold reduce_spec. destruct (negb (interesting test (fst s))); auto.
  rewrite run_list_spec_ext. destruct (run_list_spec St test rc first s []) as [[s1 e1] a1]. destruct e1; auto.
  rewrite main_loop_spec_ext.
  destruct (main_loop_spec St test rc (S (Z.to_nat (total_size (fst s1)))) (total_size (fst s)) main s1 a1) as [[s2 e2] a2].
  destruct e2; auto. apply run_list_spec_ext.
Qed.

Lemma well_behaved_ext rc (p:pass St) : well_behaved St test rc p -> well_behaved St test (with_run b n rc) p.
Proof.
  unfold well_behaved, cands_of. destruct rc as [g nc sk st tn td fu]. destruct g. unfold with_run. simpl.
  intros (A & B). split; [exact A|].
  intros d f s. specialize (B d f s). unfold contract, isA, mayQ, too_large in *. simpl in *. exact B.
Qed.
End Ext.

(* C10: with the cache on or off — and for any two parallelism levels, schedules and initial
   report-directory states — a reduction with well-behaved passes ends on the same files with the
   same exit. *)
Theorem cache_transparent (St:Type) (test:disk -> tout) (rc:rcfg) (first main last:list (pass St)) (m1 m2:mst) (n1 n2:nat) :
  let allp := first ++ main ++ last in
  (forall p q, In p allp -> In q allp -> p_key St p = p_key St q -> p = q) ->
  g_die (r_g rc) = false -> Forall (well_behaved St test rc) allp ->
  m_disk m1 = m_disk m2 -> m_start m1 = m_start m2 -> m_cache m1 = [] -> m_cache m2 = [] ->
  let cache_on := reduce St test (with_run false n1 rc) first main last m1 in
  let cache_off := reduce St test (with_run true n2 rc) first main last m2 in
  m_disk (fst (fst cache_on)) = m_disk (fst (fst cache_off)) /\ snd (fst cache_on) = snd (fst cache_off).
Proof.
  intros allp KI D W ED ES C1 C2 cache_on cache_off. subst cache_on cache_off.
  assert (IA : incl first allp) by (intros x Hx; unfold allp; apply in_or_app; auto).
  assert (IB : incl main allp) by (intros x Hx; unfold allp; apply in_or_app; right; apply in_or_app; auto).
  assert (IC : incl last allp) by (intros x Hx; unfold allp; apply in_or_app; right; apply in_or_app; auto).
  assert (SUB : forall (P:pass St -> Prop) l, Forall P allp -> incl l allp -> Forall P l).
  { intros P l F I. rewrite Forall_forall in *. intros x Hx. apply F. apply I. exact Hx. }
  assert (WX : forall bb nn, Forall (well_behaved St test (with_run bb nn rc)) allp).
  { intros bb nn. rewrite Forall_forall in *. intros x Hx. apply well_behaved_ext. apply W. exact Hx. }
  assert (DX : forall bb nn, g_die (r_g (with_run bb nn rc)) = false) by (intros; destruct rc as [g ? ? ? ? ? ?]; destruct g; exact D).
  pose proof (reduce_refines St test (with_run false n1 rc) allp KI (DX _ _) first main last m1 IA IB IC
                (SUB _ _ (WX _ _) IA) (SUB _ _ (WX _ _) IB) (SUB _ _ (WX _ _) IC) C1) as R1.
  pose proof (reduce_refines St test (with_run true n2 rc) allp KI (DX _ _) first main last m2 IA IB IC
                (SUB _ _ (WX _ _) IA) (SUB _ _ (WX _ _) IB) (SUB _ _ (WX _ _) IC) C2) as R2.
  rewrite ED, ES in R1. rewrite reduce_spec_ext in R1, R2.
  destruct (reduce St test (with_run false n1 rc) first main last m1) as [[m1' e1] a1].
  destruct (reduce St test (with_run true n2 rc) first main last m2) as [[m2' e2] a2].
  destruct (reduce_spec St test rc first main last (m_disk m2, m_start m2)) as [[s' es] as_].
  destruct R1 as (A1 & B1 & _), R2 as (A2 & B2 & _). simpl. split; congruence.
Qed.

(* C02 at the level of the whole reduction: with the cache off, the accepted sequence, the final
   files and the exit do not depend on N, on the schedule or on the report-directory state. *)
Theorem reduce_sched_indep (St:Type) (test:disk -> tout) (rc:rcfg) (first main last:list (pass St)) (m1 m2:mst) (n1 n2:nat) :
  let allp := first ++ main ++ last in
  (forall p q, In p allp -> In q allp -> p_key St p = p_key St q -> p = q) ->
  g_die (r_g rc) = false -> Forall (well_behaved St test rc) allp ->
  m_disk m1 = m_disk m2 -> m_start m1 = m_start m2 -> m_cache m1 = [] -> m_cache m2 = [] ->
  let r1 := reduce St test (with_run true n1 rc) first main last m1 in
  let r2 := reduce St test (with_run true n2 rc) first main last m2 in
  m_disk (fst (fst r1)) = m_disk (fst (fst r2)) /\ snd (fst r1) = snd (fst r2) /\ snd r1 = snd r2.
Proof.
  intros allp KI D W ED ES C1 C2 r1 r2. subst r1 r2.
  assert (IA : incl first allp) by (intros x Hx; unfold allp; apply in_or_app; auto).
  assert (IB : incl main allp) by (intros x Hx; unfold allp; apply in_or_app; right; apply in_or_app; auto).
  assert (IC : incl last allp) by (intros x Hx; unfold allp; apply in_or_app; right; apply in_or_app; auto).
  assert (SUB : forall (P:pass St -> Prop) l, Forall P allp -> incl l allp -> Forall P l).
  { intros P l F I. rewrite Forall_forall in *. intros x Hx. apply F. apply I. exact Hx. }
  assert (WX : forall bb nn, Forall (well_behaved St test (with_run bb nn rc)) allp).
  { intros bb nn. rewrite Forall_forall in *. intros x Hx. apply well_behaved_ext. apply W. exact Hx. }
  assert (DX : forall bb nn, g_die (r_g (with_run bb nn rc)) = false) by (intros; destruct rc as [g ? ? ? ? ? ?]; destruct g; exact D).
  pose proof (reduce_refines St test (with_run true n1 rc) allp KI (DX _ _) first main last m1 IA IB IC
                (SUB _ _ (WX _ _) IA) (SUB _ _ (WX _ _) IB) (SUB _ _ (WX _ _) IC) C1) as R1.
  pose proof (reduce_refines St test (with_run true n2 rc) allp KI (DX _ _) first main last m2 IA IB IC
                (SUB _ _ (WX _ _) IA) (SUB _ _ (WX _ _) IB) (SUB _ _ (WX _ _) IC) C2) as R2.
  rewrite ED, ES in R1. rewrite reduce_spec_ext in R1, R2.
  destruct (reduce St test (with_run true n1 rc) first main last m1) as [[m1' e1] a1].
  destruct (reduce St test (with_run true n2 rc) first main last m2) as [[m2' e2] a2].
  destruct (reduce_spec St test rc first main last (m_disk m2, m_start m2)) as [[s' es] as_].
  destruct R1 as (A1 & B1 & X1), R2 as (A2 & B2 & X2). simpl.
  assert (NC : forall nn, r_no_cache (with_run true nn rc) = true) by (intros; reflexivity).
  rewrite (X1 (NC _)), (X2 (NC _)). repeat split; congruence.
Qed.
