(* Model M6a: TestManager.run_parallel_tests / process_done_futures / wait_for_first_success
   (cvise/utils/testing.py:395-526), generic in the result-checking function.
   Candidates of one round are numbered 0..m-1 in the pass's enumeration order.
   The schedule is a stream of naturals consumed exactly where the real code asks the
   outside world something: one number per `future.done()` on a still-pending future
   (odd = it has completed by now) and one per blocking `wait(FIRST_COMPLETED)` (which
   pending future completes first).  No proofs in this file. *)
From Coq Require Import List Arith Bool Lia.
Import ListNotations.

Inductive outcome := ACCEPT | IGNORE | QUIT | RAISE.
Record fut := mkf { fid : nat; fdone : bool }.

Section Round.
Variable X : Type.                            (* side state threaded through result checking *)
Variable chk : X -> nat -> outcome * X.       (* check_pass_result on candidate i *)
Variable tmo : nat -> bool.                   (* the future of candidate i raises TimeoutError *)
Variable on_tmo : X -> nat -> X * bool.       (* timeout branch: count, save dir; true = quit *)
Variable N : nat.                             (* parallel_tests *)
Variable m : nat.                             (* length of the enumeration (state None after m) *)

Definition sched := list nat.
Definition shd (s:sched) := hd 0 s.

Record scanres := mks { s_quit : bool; s_kept : list fut; s_drop : list nat; s_sch : sched; s_x : X; s_raise : bool }.

(* process_done_futures: in order; after quit everything later is cancelled and dropped *)
Fixpoint scan (q:bool) (fs:list fut) (sch:sched) (x:X) : scanres :=
  match fs with
  | [] => mks q [] [] sch x false
  | f :: t =>
    if q then let r := scan q t sch x in mks (s_quit r) (s_kept r) (fid f :: s_drop r) (s_sch r) (s_x r) (s_raise r)
    else
      let d := if fdone f then true else Nat.odd (shd sch) in
      let sch' := if fdone f then sch else tl sch in
      if d then
        if tmo (fid f) then
          let '(x', q') := on_tmo x (fid f) in
          let r := scan q' t sch' x' in mks (s_quit r) (s_kept r) (fid f :: s_drop r) (s_sch r) (s_x r) (s_raise r)
        else
          match chk x (fid f) with
          | (ACCEPT, x') => let r := scan true t sch' x' in
                            mks (s_quit r) (mkf (fid f) true :: s_kept r) (s_drop r) (s_sch r) (s_x r) (s_raise r)
          | (IGNORE, x') => let r := scan false t sch' x' in
                            mks (s_quit r) (s_kept r) (fid f :: s_drop r) (s_sch r) (s_x r) (s_raise r)
          | (QUIT, x') => let r := scan true t sch' x' in
                            mks (s_quit r) (s_kept r) (fid f :: s_drop r) (s_sch r) (s_x r) (s_raise r)
          | (RAISE, x') => mks q (f :: t) [] sch' x' true
          end
      else let r := scan false t sch' x in
           mks (s_quit r) (f :: s_kept r) (s_drop r) (s_sch r) (s_x r) (s_raise r)
  end.

(* wait_for_first_success: block on each remaining future in order; QUIT is NOT honoured here *)
Fixpoint wfs (fs:list fut) (x:X) : option (option nat) * X :=   (* None = raised *)
  match fs with
  | [] => (Some None, x)
  | f :: t =>
    if tmo (fid f) then wfs t x
    else match chk x (fid f) with
         | (ACCEPT, x') => (Some (Some (fid f)), x')
         | (RAISE, x') => (None, x')
         | (_, x') => wfs t x'
         end
  end.

Fixpoint force (k:nat) (fs:list fut) : list fut :=
  match fs with
  | [] => []
  | f :: t => match k with 0 => mkf (fid f) true :: t | S k' => f :: force k' t end
  end.

(* outcome of a round *)
Record rres := mkr {
  r_win : option nat;        (* the env returned to run_pass *)
  r_raised : bool;           (* an exception escaped (PassBugError with die_on_pass_bug) *)
  r_x : X;
  r_futs : list nat;         (* self.futures at return (their folders are still held) *)
  r_released : list nat;     (* futures whose folder was released by release_future *)
  r_sched : nat;             (* candidates scheduled = add_executed calls *)
  r_sch : sched;
  r_fuel : bool              (* false = fuel exhausted: never for fuel >= m *)
}.

Fixpoint loop (fuel:nat) (j:nat) (fs:list fut) (rel:list nat) (sch:sched) (x:X) : rres :=
  match fuel with
  | 0 => mkr None false x (map fid fs) rel j sch false
  | S fuel' =>
    (* do not create too many states: wait(FIRST_COMPLETED) *)
    let blocked := (N <=? length fs) && negb (existsb fdone fs) && negb (Nat.eqb (length fs) 0) in
    let fs1 := if blocked then force (Nat.modulo (shd sch) (length fs)) fs else fs in
    let sch1 := if blocked then tl sch else sch in
    let r := scan false fs1 sch1 x in
    (* an exception leaves process_done_futures before any release_future call *)
    if s_raise r then mkr None true (s_x r) (map fid fs1) rel j (s_sch r) true
    else
    let rel' := rel ++ s_drop r in
    if s_quit r then
      match wfs (s_kept r) (s_x r) with
      | (Some w, x') => mkr w false x' (map fid (s_kept r)) rel' j (s_sch r) true
      | (None, x') => mkr None true x' (map fid (s_kept r)) rel' j (s_sch r) true
      end
    else
      let fs2 := s_kept r ++ [mkf j false] in
      if S j <? m then loop fuel' (S j) fs2 rel' (s_sch r) (s_x r)
      else match wfs fs2 (s_x r) with
           | (Some w, x') => mkr w false x' (map fid fs2) rel' (S j) (s_sch r) true
           | (None, x') => mkr None true x' (map fid fs2) rel' (S j) (s_sch r) true
           end
  end.

Definition round (sch:sched) (x:X) : rres := loop m 0 [] [] sch x.

(* the textbook loop: one candidate at a time, first non-IGNORE decides *)
Fixpoint seq_from (fuel j:nat) (x:X) : option nat * X :=
  match fuel with
  | 0 => (None, x)
  | S fuel' =>
    if tmo j then (if S j <? m then seq_from fuel' (S j) x else (None, x))
    else match chk x j with
         | (ACCEPT, x') => (Some j, x')
         | (IGNORE, x') => if S j <? m then seq_from fuel' (S j) x' else (None, x')
         | (_, x') => (None, x')
         end
  end.
Definition seq_round (x:X) := seq_from m 0 x.
End Round.
