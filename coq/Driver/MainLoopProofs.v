(* C03: the main loop of CVise.reduce ends for ANY list of passes (growing, size-neutral, failing):
   another iteration starts only if the total size got strictly smaller, so size0 + 1
   iterations always suffice; more fuel never changes the result. *)
From Coq Require Import List Arith Bool ZArith NArith Lia.
Import ListNotations.
From CV Require Import Driver.Round Driver.Outcome Driver.RunPass.

Lemma total_size_nonneg (d:disk) : (0 <= total_size d)%Z.
Proof.
  unfold total_size. induction d as [|c t IH]; simpl; [lia|].
  assert (0 <= size c)%Z by (unfold size; lia). lia.
Qed.

Section M.
Variable St : Type.
Variable test : disk -> tout.

Theorem main_loop_fuel_enough (rc:rcfg) (orig:Z) (ps:list (pass St)) : forall f1 f2 m acc,
  Z.to_nat (total_size (m_disk m)) < f1 -> Z.to_nat (total_size (m_disk m)) < f2 ->
  main_loop St test f1 rc orig ps m acc = main_loop St test f2 rc orig ps m acc.
Proof.
  induction f1 as [|f1 IH]; intros f2 m acc H1 H2; [lia|]. destruct f2 as [|f2]; [lia|]. simpl.
  destruct (threshold_met rc orig (total_size (m_disk m)) && negb match ps with [] => true | _ => false end); auto.
  destruct (run_list St test rc ps m acc) as [[m' e] acc'].
  destruct e; auto.
  destruct (Z.leb (total_size (m_disk m)) (total_size (m_disk m'))) eqn:L; auto.
  apply Z.leb_gt in L. pose proof (total_size_nonneg (m_disk m')). apply IH; lia.
Qed.

(* with the fuel CVise.reduce is modelled with, the loop never stops for lack of fuel: any
   FFuel exit comes from a pass run inside it *)
Theorem main_loop_terminates (rc:rcfg) (orig:Z) (ps:list (pass St)) : forall fuel m acc,
  Z.to_nat (total_size (m_disk m)) < fuel ->
  forall m' acc', main_loop St test fuel rc orig ps m acc = (m', FFuel, acc') ->
  exists m0 acc0, fst (run_list St test rc ps m0 acc0) = (fst (fst (run_list St test rc ps m0 acc0)), FFuel).
Proof.
  induction fuel as [|fuel IH]; intros m acc H m' acc' R; [lia|]. simpl in R.
  destruct (threshold_met rc orig (total_size (m_disk m)) && negb match ps with [] => true | _ => false end); [inversion R|].
  destruct (run_list St test rc ps m acc) as [[m1 e] acc1] eqn:RL.
  destruct e; try (inversion R; fail).
  - destruct (Z.leb (total_size (m_disk m)) (total_size (m_disk m1))) eqn:L; [inversion R|].
    apply Z.leb_gt in L. pose proof (total_size_nonneg (m_disk m1)). eapply IH; [|exact R]. lia.
  - exists m, acc. rewrite RL. reflexivity.
Qed.
End M.
