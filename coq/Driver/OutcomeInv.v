(* Side-state facts for the model of check_pass_result: report-directory caps, failure
   counter, timeout counter; lifted to the round through Driver/RoundInv.v. *)
From Coq Require Import List Arith Bool ZArith Lia Permutation.
Import ListNotations.
From CV Require Import Driver.Round Driver.RoundProofs Driver.RoundInv Driver.Outcome Driver.OutcomeProofs.

Section C.
Variable g : cfg.
Variable cands : list cand.
Notation chk := (chk g cands).

Lemma report_bug_fields x :
  let '(c, r, x') := report_bug g x in
  x_failed x' = x_failed x /\ x_extradirs x' = x_extradirs x /\ x_tcount x' = x_tcount x /\
  x_greported x' = x_greported x /\
  (x_bugdirs x' = x_bugdirs x \/ (x_bugdirs x <= g_maxcrash g /\ x_bugdirs x' = S (x_bugdirs x))).
Proof.
  unfold report_bug, free_slot. destruct (x_bugdirs x <=? g_maxcrash g) eqn:E; simpl.
  - apply Nat.leb_le in E. repeat split; auto.
  - repeat split; auto.
Qed.
Lemma save_extra_fields x :
  let x' := save_extra g x in
  x_failed x' = x_failed x /\ x_bugdirs x' = x_bugdirs x /\ x_tcount x' = x_tcount x /\
  x_greported x' = x_greported x /\
  (x_extradirs x' = x_extradirs x \/ (x_extradirs x <= g_maxextra g /\ x_extradirs x' = S (x_extradirs x))).
Proof.
  unfold save_extra, free_slot. destruct (x_extradirs x <=? g_maxextra g) eqn:E; simpl.
  - apply Nat.leb_le in E. repeat split; auto.
  - repeat split; auto.
Qed.

(* lia-friendly summaries *)
Definition eff (x x':xst) (df:nat) : Prop :=
  x_tcount x' = x_tcount x /\ x_failed x' = x_failed x + df /\
  x_bugdirs x <= x_bugdirs x' /\ x_bugdirs x' <= Nat.max (x_bugdirs x) (S (g_maxcrash g)) /\
  x_extradirs x <= x_extradirs x' /\ x_extradirs x' <= Nat.max (x_extradirs x) (S (g_maxextra g)).

Lemma eff_refl x : eff x x 0.
Proof. unfold eff. repeat split; lia. Qed.
Lemma eff_trans x y z a b : eff x y a -> eff y z b -> eff x z (a + b).
Proof. unfold eff. intros (A1 & A2 & A3 & A4 & A5 & A6) (B1 & B2 & B3 & B4 & B5 & B6). repeat split; lia. Qed.
Lemma eff_report x : eff x (snd (report_bug g x)) 0.
Proof.
  pose proof (report_bug_fields x) as RB. destruct (report_bug g x) as [[c r] x']. simpl.
  destruct RB as (A & B & C & D & E). unfold eff. repeat split; lia.
Qed.
Lemma eff_extra x : eff x (save_extra g x) 0.
Proof. pose proof (save_extra_fields x) as (A & B & C & D & E). unfold eff. repeat split; lia. Qed.
Lemma eff_addf x : eff x (add_failure x) 1.
Proof. unfold eff, add_failure; simpl. repeat split; lia. Qed.
Lemma eff_setrep x : eff x (set_reported x) 0.
Proof. unfold eff, set_reported; simpl. repeat split; lia. Qed.
Lemma eff_giveup x i : eff x (snd (giveup_tail g x i)) 0.
Proof.
  unfold giveup_tail. destruct (negb (g_nogiveup g) && (g_giveup g <? S i)); simpl; [|apply eff_refl].
  destruct (x_greported x); simpl; [apply eff_refl|].
  pose proof (eff_report x) as E. destruct (report_bug g x) as [[c r] x']. simpl in E.
  destruct r; simpl; auto; apply (eff_trans _ _ _ 0 0 E (eff_setrep x')).
Qed.

Lemma chk_eff x i : exists df, df <= 1 /\ eff x (snd (chk x i)) df.
Proof.
  unfold Outcome.chk, check_pass_result.
  destruct (success (cand_at cands i)); simpl.
  - exists 0. split; [lia|].
    destruct (too_large g (cand_at cands i)); simpl; [apply eff_refl|].
    destruct (negb (c_changed (cand_at cands i))); simpl; [|apply eff_refl].
    destruct (negb (g_silent g)); simpl; [|apply eff_refl].
    pose proof (eff_report x) as E. destruct (report_bug g x) as [[c r] x']. simpl in E.
    destruct r; [|destruct c]; simpl; auto.
  - exists 1. split; [lia|].
    pose proof (eff_addf x) as AF.
    assert (GT : forall y, eff x y 1 -> eff x (snd (giveup_tail g y i)) 1).
    { intros y Ey. apply (eff_trans _ _ _ 1 0 Ey (eff_giveup y i)). }
    destruct (c_res (cand_at cands i)); simpl; auto.
    + apply GT. destruct (g_also g) as [a|]; auto.
      destruct (negb (c_norun (cand_at cands i)) && (c_exit (cand_at cands i) =? a)%Z); auto.
      apply (eff_trans _ _ _ 1 0 AF (eff_extra _)).
    + destruct (negb (g_silent g)); simpl; auto.
      pose proof (eff_report (add_failure x)) as E. destruct (report_bug g (add_failure x)) as [[c r] x'].
      simpl in E. pose proof (eff_trans _ _ _ 1 0 AF E) as E2. destruct r; simpl; auto.
Qed.

Definition step_ok (x x':xst) : Prop :=
  x_tcount x' = x_tcount x /\ x_failed x <= x_failed x' /\ x_failed x' <= S (x_failed x) /\
  x_bugdirs x' <= Nat.max (x_bugdirs x) (S (g_maxcrash g)) /\
  x_extradirs x' <= Nat.max (x_extradirs x) (S (g_maxextra g)).
Lemma chk_step x i : step_ok x (snd (chk x i)).
Proof.
  destruct (chk_eff x i) as (df & L & (A1 & A2 & A3 & A4 & A5 & A6)). unfold step_ok. repeat split; lia.
Qed.

Lemma chk_accept_failed x i : fst (chk x i) = ACCEPT -> x_failed (snd (chk x i)) = x_failed x.
Proof.
  unfold Outcome.chk, check_pass_result.
  destruct (success (cand_at cands i)) eqn:Hs; simpl.
  - destruct (too_large g (cand_at cands i)); simpl; auto.
    destruct (negb (c_changed (cand_at cands i))); simpl; auto.
    destruct (negb (g_silent g)); simpl; auto.
    pose proof (report_bug_fields x) as RB. destruct (report_bug g x) as [[c r] x'].
    destruct RB as (A & _). destruct r; [|destruct c]; simpl; auto.
  - intros H. exfalso.
    pose proof (chk_A g cands x i) as CA. unfold Outcome.chk, check_pass_result, Outcome.isA, Outcome.tmo in CA.
    rewrite Hs in CA. simpl in CA.
    destruct (c_timeout (cand_at cands i)) eqn:T.
    + (* candidates that time out are never checked; the equation is still contradictory *)
      clear CA. destruct (c_res (cand_at cands i)); simpl in H; try discriminate;
      try (match type of H with fst (giveup_tail g ?y i) = _ =>
             destruct (giveup_tail_cases g y i) as [[E _]|[[E|E] _]]; rewrite E in H; discriminate end).
      destruct (negb (g_silent g)); simpl in H.
      * destruct (report_bug g (add_failure x)) as [[c r] x']. destruct r; simpl in H; discriminate.
      * destruct (giveup_tail_cases g (add_failure x) i) as [[E _]|[[E|E] _]]; rewrite E in H; discriminate.
    + specialize (CA eq_refl). rewrite andb_false_r in CA. simpl in CA.
      destruct CA as [CA _]. specialize (CA H). discriminate.
Qed.

Lemma on_timeout_fields x i :
  let x' := fst (on_timeout g x i) in
  x_failed x' = x_failed x /\ x_bugdirs x' = x_bugdirs x /\ x_tcount x' = S (x_tcount x) /\
  (x_extradirs x' = x_extradirs x \/ (x_extradirs x <= g_maxextra g /\ x_extradirs x' = S (x_extradirs x))) /\
  snd (on_timeout g x i) = (g_maxto g <=? S (x_tcount x)).
Proof.
  unfold on_timeout. pose proof (save_extra_fields x) as (A & B & C & D & E). simpl.
  rewrite A, B, C. auto 10.
Qed.

(* ---- round level ---- *)
Theorem cround_bugdirs_cap sch x b :
  x_bugdirs x <= Nat.max b (S (g_maxcrash g)) ->
  x_bugdirs (r_x _ (cround g cands sch x)) <= Nat.max b (S (g_maxcrash g)).
Proof.
  apply (round_pres xst chk (tmo cands) (on_timeout g) (g_N g) (length cands)
           (fun y => x_bugdirs y <= Nat.max b (S (g_maxcrash g)))).
  - intros y i H. destruct (chk_step y i) as (_ & _ & _ & B & _). lia.
  - intros y i H. destruct (on_timeout_fields y i) as (_ & B & _). rewrite B. exact H.
Qed.
Theorem cround_extradirs_cap sch x b :
  x_extradirs x <= Nat.max b (S (g_maxextra g)) ->
  x_extradirs (r_x _ (cround g cands sch x)) <= Nat.max b (S (g_maxextra g)).
Proof.
  apply (round_pres xst chk (tmo cands) (on_timeout g) (g_N g) (length cands)
           (fun y => x_extradirs y <= Nat.max b (S (g_maxextra g)))).
  - intros y i H. destruct (chk_step y i) as (_ & _ & _ & _ & B). lia.
  - intros y i H. destruct (on_timeout_fields y i) as (_ & _ & _ & B & _). lia.
Qed.

(* failed <= executed, per round: at most one failure per scheduled candidate *)
Theorem cround_failed_le_scheduled sch x :
  r_raised _ (cround g cands sch x) = false ->
  x_failed (r_x _ (cround g cands sch x)) <= x_failed x + r_sched _ (cround g cands sch x).
Proof.
  apply (round_count xst chk (tmo cands) (on_timeout g) (g_N g) (length cands) x_failed).
  - intros y i. destruct (chk_step y i) as (_ & _ & F & _). lia.
  - apply chk_accept_failed.
  - intros y i. destruct (on_timeout_fields y i) as (F & _). exact F.
Qed.

(* observed timeouts per round never exceed MAX_TIMEOUTS (1 when the limit is 0) *)
Theorem cround_timeouts_bounded sch x :
  x_tcount x = 0 -> r_raised _ (cround g cands sch x) = false ->
  x_tcount (r_x _ (cround g cands sch x)) <= Nat.max (g_maxto g) 1.
Proof.
  intros Z. apply (round_pres2 xst chk (tmo cands) (on_timeout g) (g_N g) (length cands)
           (fun y => x_tcount y < Nat.max (g_maxto g) 1) (fun y => x_tcount y <= Nat.max (g_maxto g) 1)).
  - intros y H. lia.
  - intros y i H. destruct (chk_step y i) as (T & _). lia.
  - intros y i H. destruct (chk_step y i) as (T & _). lia.
  - intros y i H. destruct (on_timeout_fields y i) as (_ & _ & T & _ & Q).
    unfold PR. rewrite Q. destruct (g_maxto g <=? S (x_tcount y)) eqn:E.
    + rewrite T. lia.
    + apply Nat.leb_gt in E. rewrite T. lia.
  - lia.
Qed.

(* give-up: if from index GIVEUP_CONSTANT on no candidate succeeds or times out, the round
   schedules at most GIVEUP_CONSTANT + N + 1 candidates (unless --no-give-up) *)
Theorem cround_giveup sch x :
  g_nogiveup g = false -> 1 <= g_N g ->
  (forall i, g_giveup g <= i -> success (cand_at cands i) = false /\ c_timeout (cand_at cands i) = false) ->
  r_sched _ (cround g cands sch x) <= g_giveup g + g_N g + 1.
Proof.
  intros NG NP HF. apply round_giveup; auto.
  intros y i Gi. destruct (HF i Gi) as (S0 & T0). split; [exact T0|].
  unfold Outcome.chk, check_pass_result. rewrite S0. simpl.
  assert (GT : forall z, fst (giveup_tail g z i) = QUIT \/ fst (giveup_tail g z i) = RAISE).
  { intros z. destruct (giveup_tail_cases g z i) as [[_ E]|[E _]]; auto.
    rewrite NG in E. simpl in E. apply Nat.ltb_ge in E. lia. }
  destruct (c_res (cand_at cands i)); simpl; auto.
  destruct (negb (g_silent g)); simpl; auto.
  destruct (report_bug g (add_failure y)) as [[c r] x']. destruct r; simpl; auto.
Qed.

Theorem cround_folders sch x :
  Permutation (seq 0 (r_sched _ (cround g cands sch x)))
              (r_futs _ (cround g cands sch x) ++ r_released _ (cround g cands sch x)).
Proof. apply round_folders. Qed.
End C.
