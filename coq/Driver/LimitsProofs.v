(* Run limits and statistics lifted to the per-file loop, run_pass and reduce (C16, C20, C09). *)
From Coq Require Import List Arith Bool ZArith NArith Lia.
Import ListNotations.
From CV Require Import Driver.Round Driver.RoundProofs Driver.RoundInv Driver.Outcome Driver.OutcomeProofs
  Driver.OutcomeInv Driver.RunPass.

Local Arguments Z.mul : simpl never.
Local Arguments Z.leb : simpl never.
Local Arguments Z.eqb : simpl never.
Local Arguments MAXINC : simpl never.

Section L.
Variable St : Type.
Variable test : disk -> tout.
Notation pass := (pass St).
Notation rounds := (rounds St test).

(* ---------- accepted steps per file are bounded by the limits; worked = accepted ---------- *)
Definition lim (l succ:nat) : nat := if Nat.eqb l 0 then 0 else l - succ.   (* remaining budget *)

Theorem rounds_limits (rc:rcfg) (p:pass) (f:nat) :
  forall fuel d s start succ x worked exec sch acc,
  let r := rounds fuel rc p f d s start succ x worked exec sch acc in
  f_worked r - worked = length (f_acc r) - length acc /\ length acc <= length (f_acc r) /\ worked <= f_worked r /\
  (r_skipn rc <> 0 -> succ < r_skipn rc -> f_worked r - worked <= r_skipn rc - succ) /\
  (p_maxt St p <> 0 -> succ < p_maxt St p -> f_worked r - worked <= p_maxt St p - succ).
Proof.
  induction fuel as [|fuel IH]; intros d s start succ x worked exec sch acc; simpl.
  - repeat split; lia.
  - destruct (chain St p (RunPass.r_fuel rc) (getf d f) s) as [sts complete].
    set (evs := map (eval St test p d f) sts).
    set (cands := map (fun e => fst (fst e)) evs).
    set (r := cround (r_g rc) cands sch (reset_round x)).
    destruct (negb complete && Nat.eqb (r_sched _ r) (length sts)); cbn [f_worked f_acc]; [repeat split; lia|].
    destruct (r_raised _ r); cbn [f_worked f_acc]; [repeat split; lia|].
    destruct (r_win _ r) as [w|]; cbn [f_worked f_acc]; [|repeat split; lia].
    destruct (nth_error evs w) as [[[cd c'] s']|]; cbn [f_worked f_acc]; [|repeat split; lia].
    assert (LA : length (acc ++ [upd d f c']) = S (length acc)) by (rewrite app_length; simpl; lia).
    destruct (Z.leb (MAXINC * start) (size c')); cbn [f_worked f_acc]; [rewrite LA; repeat split; lia|].
    destruct (negb (Nat.eqb (r_skipn rc) 0) && (r_skipn rc <=? S succ)) eqn:L1; cbn [f_worked f_acc orb];
      [rewrite LA; repeat split; lia|].
    destruct (negb (Nat.eqb (p_maxt St p) 0) && (p_maxt St p <=? S succ)) eqn:L2; cbn [f_worked f_acc orb];
      [rewrite LA; repeat split; lia|].
    destruct (p_aos St p c' s') as [s''|]; cbn [f_worked f_acc]; [|rewrite LA; repeat split; lia].
    destruct (IH (upd d f c') s'' start (S succ) (r_x _ r) (S worked) (exec + r_sched _ r) (r_sch _ r) (acc ++ [upd d f c']))
      as (H1 & H2 & H3 & H4 & H5).
    rewrite LA in *.
    rewrite andb_false_iff, negb_false_iff, Nat.eqb_eq, Nat.leb_gt in L1, L2.
    repeat split; lia.
Qed.

(* ---------- invariants of the side state through the per-file loop ---------- *)
Section XP.
Variable P : xst -> Prop.
Variable rc : rcfg.
Hypothesis P_reset : forall x, P x -> P (reset_round x).
Hypothesis P_round : forall cands sch x, P x -> P (r_x _ (cround (r_g rc) cands sch x)).

Lemma rounds_xpres (p:pass) (f:nat) :
  forall fuel d s start succ x worked exec sch acc,
  P x -> P (f_x (rounds fuel rc p f d s start succ x worked exec sch acc)).
Proof.
  induction fuel as [|fuel IH]; intros d s start succ x worked exec sch acc Px; simpl; auto.
  destruct (chain St p (RunPass.r_fuel rc) (getf d f) s) as [sts complete].
  set (evs := map (eval St test p d f) sts).
  set (cands := map (fun e => fst (fst e)) evs).
  pose proof (P_round cands sch (reset_round x) (P_reset x Px)) as P1.
  set (r := cround (r_g rc) cands sch (reset_round x)) in *.
  destruct (negb complete && Nat.eqb (r_sched _ r) (length sts)); simpl; auto.
  destruct (r_raised _ r); simpl; auto.
  destruct (r_win _ r) as [w|]; simpl; auto.
  destruct (nth_error evs w) as [[[cd c'] s']|]; simpl; auto.
  destruct (Z.leb (MAXINC * start) (size c')); simpl; auto.
  destruct ((negb (Nat.eqb (r_skipn rc) 0) && (r_skipn rc <=? S succ))
            || (negb (Nat.eqb (p_maxt St p) 0) && (p_maxt St p <=? S succ))); simpl; auto.
  destruct (p_aos St p c' s') as [s''|]; simpl; auto.
Qed.

Lemma files_xpres (p:pass) : forall order d cache x worked exec sch acc,
  P x -> P (f_x (snd (files St test rc p order d cache x worked exec sch acc))).
Proof.
  induction order as [|f rest IH]; intros d cache x worked exec sch acc Px; simpl; auto.
  destruct (Z.eqb (size (getf d f)) 0); [apply IH; auto|].
  destruct (if r_no_cache rc then None else cache_find (p_key St p) f d cache) as [a|]; [apply IH; auto|].
  destruct (p_new St p (fun c' => interesting test (upd d f c')) (getf d f)) as [c1 st0].
  set (r := match st0 with
            | None => mkfres (upd d f c1) x worked exec sch FNormal acc
            | Some s => rounds (RunPass.r_fuel rc) rc p f (upd d f c1) s (size (getf d f)) 0 x worked exec sch acc
            end).
  assert (PR : P (f_x r)) by (unfold r; destruct st0; simpl; auto; apply rounds_xpres; auto).
  destruct (f_exit r); simpl; auto.
Qed.

Lemma run_pass_open_xpres (p:pass) (m:mst) : P (m_x m) -> P (m_x (pr_m (run_pass_open St test rc p m))).
Proof.
  intros Px. unfold run_pass_open. destruct (Z.eqb (total_size (m_disk m)) 0); simpl; auto.
  pose proof (files_xpres p (sorted_files (m_disk m)) (m_disk m) (m_cache m) (m_x m) 0 0 (m_sch m) [] Px) as F.
  destruct (files St test rc p (sorted_files (m_disk m)) (m_disk m) (m_cache m) (m_x m) 0 0 (m_sch m) []) as [[d' c'] r].
  simpl in *. exact F.
Qed.
Lemma run_pass_xpres (p:pass) (m:mst) : P (m_x m) -> P (m_x (pr_m (run_pass St test rc p m))).
Proof.
  intros Px. unfold run_pass. destruct (m_start m) as [k|]; [destruct (N.eqb k (p_key St p))|]; simpl; auto.
  - apply run_pass_open_xpres. exact Px.
  - apply run_pass_open_xpres. exact Px.
Qed.

Lemma run_list_xpres : forall ps m acc, P (m_x m) -> P (m_x (fst (fst (run_list St test rc ps m acc)))).
Proof.
  induction ps as [|p t IH]; intros m acc Px; simpl; auto.
  pose proof (run_pass_xpres p m Px) as P1.
  destruct (pr_exit (run_pass St test rc p m)); simpl; auto.
Qed.

Lemma main_loop_xpres (orig:Z) (ps:list pass) : forall fuel m acc,
  P (m_x m) -> P (m_x (fst (fst (main_loop St test fuel rc orig ps m acc)))).
Proof.
  induction fuel as [|fuel IH]; intros m acc Px; simpl; auto.
  destruct (threshold_met rc orig (total_size (m_disk m)) && negb match ps with [] => true | _ => false end); simpl; auto.
  pose proof (run_list_xpres ps m acc Px) as P1.
  destruct (run_list St test rc ps m acc) as [[m' e] acc']. simpl in P1.
  destruct e; simpl; auto.
  destruct (Z.leb (total_size (m_disk m)) (total_size (m_disk m'))); simpl; auto.
Qed.

Theorem reduce_xpres (first main last:list pass) (m:mst) :
  P (m_x m) -> P (m_x (fst (fst (reduce St test rc first main last m)))).
Proof.
  intros Px. unfold reduce. destruct (negb (interesting test (m_disk m))); [simpl; auto|].
  pose proof (run_list_xpres first m [] Px) as P1.
  destruct (run_list St test rc first m []) as [[m1 e1] a1]. simpl in P1.
  remember (S (Z.to_nat (total_size (m_disk m1)))) as fuel.
  destruct e1; simpl; auto.
  pose proof (main_loop_xpres (total_size (m_disk m)) main fuel m1 a1 P1) as P2.
  destruct (main_loop St test fuel rc (total_size (m_disk m)) main m1 a1) as [[m2 e2] a2].
  simpl in P2. destruct e2; simpl; auto.
  apply run_list_xpres. exact P2.
Qed.
End XP.

(* report directories: from any initial count, C-Vise creates directories only while the
   count is <= MAX (indices 0..MAX), through a whole reduction *)
Theorem reduce_bugdirs_cap (rc:rcfg) (first main last:list pass) (m:mst) :
  x_bugdirs (m_x (fst (fst (reduce St test rc first main last m))))
    <= Nat.max (x_bugdirs (m_x m)) (S (g_maxcrash (r_g rc))).
Proof.
  apply (reduce_xpres (fun y => x_bugdirs y <= Nat.max (x_bugdirs (m_x m)) (S (g_maxcrash (r_g rc)))) rc).
  - intros x H. exact H.
  - intros cands sch x H. apply cround_bugdirs_cap. exact H.
  - lia.
Qed.
Theorem reduce_extradirs_cap (rc:rcfg) (first main last:list pass) (m:mst) :
  x_extradirs (m_x (fst (fst (reduce St test rc first main last m))))
    <= Nat.max (x_extradirs (m_x m)) (S (g_maxextra (r_g rc))).
Proof.
  apply (reduce_xpres (fun y => x_extradirs y <= Nat.max (x_extradirs (m_x m)) (S (g_maxextra (r_g rc)))) rc).
  - intros x H. exact H.
  - intros cands sch x H. apply cround_extradirs_cap. exact H.
  - lia.
Qed.

(* ---------- failed <= executed for one run_pass (no die_on_pass_bug) ---------- *)
Lemma rounds_failed (rc:rcfg) (p:pass) (f:nat) : g_die (r_g rc) = false ->
  forall fuel d s start succ x worked exec sch acc,
  let r := rounds fuel rc p f d s start succ x worked exec sch acc in
  x_failed (f_x r) + exec <= x_failed x + f_exec r /\ exec <= f_exec r.
Proof.
  intros D. induction fuel as [|fuel IH]; intros d s start succ x worked exec sch acc; simpl; [lia|].
  destruct (chain St p (RunPass.r_fuel rc) (getf d f) s) as [sts complete].
  set (evs := map (eval St test p d f) sts).
  set (cands := map (fun e => fst (fst e)) evs).
  assert (NR : r_raised _ (cround (r_g rc) cands sch (reset_round x)) = false).
  { apply round_noraise. intros y i. apply chk_noraise. exact D. }
  pose proof (cround_failed_le_scheduled (r_g rc) cands sch (reset_round x) NR) as FL.
  set (r := cround (r_g rc) cands sch (reset_round x)) in *. simpl in FL.
  destruct (negb complete && Nat.eqb (r_sched _ r) (length sts)); simpl; [lia|].
  rewrite NR. simpl.
  destruct (r_win _ r) as [w|]; simpl; [|lia].
  destruct (nth_error evs w) as [[[cd c'] s']|]; simpl; [|lia].
  destruct (Z.leb (MAXINC * start) (size c')); simpl; [lia|].
  destruct ((negb (Nat.eqb (r_skipn rc) 0) && (r_skipn rc <=? S succ))
            || (negb (Nat.eqb (p_maxt St p) 0) && (p_maxt St p <=? S succ))); simpl; [lia|].
  destruct (p_aos St p c' s') as [s''|]; simpl; [|lia].
  specialize (IH (upd d f c') s'' start (S succ) (r_x _ r) (S worked) (exec + r_sched _ r) (r_sch _ r) (acc ++ [upd d f c'])).
  simpl in IH. lia.
Qed.

Lemma files_failed (rc:rcfg) (p:pass) : g_die (r_g rc) = false ->
  forall order d cache x worked exec sch acc,
  let r := snd (files St test rc p order d cache x worked exec sch acc) in
  x_failed (f_x r) + exec <= x_failed x + f_exec r /\ exec <= f_exec r.
Proof.
  intros D. induction order as [|f rest IH]; intros d cache x worked exec sch acc; simpl; [lia|].
  destruct (Z.eqb (size (getf d f)) 0); [apply IH|].
  destruct (if r_no_cache rc then None else cache_find (p_key St p) f d cache) as [a|]; [apply IH|].
  destruct (p_new St p (fun c' => interesting test (upd d f c')) (getf d f)) as [c1 st0].
  set (r := match st0 with
            | None => mkfres (upd d f c1) x worked exec sch FNormal acc
            | Some s => rounds (RunPass.r_fuel rc) rc p f (upd d f c1) s (size (getf d f)) 0 x worked exec sch acc
            end).
  assert (PR : x_failed (f_x r) + exec <= x_failed x + f_exec r /\ exec <= f_exec r).
  { unfold r. destruct st0; simpl; [apply rounds_failed; auto|lia]. }
  destruct (f_exit r); simpl; try exact PR.
  match goal with |- context [files St test rc p rest ?d' ?c' ?x' ?w' ?e' ?s' ?a'] =>
    specialize (IH d' c' x' w' e' s' a') end.
  simpl in IH. lia.
Qed.

Lemma run_pass_open_failed (rc:rcfg) (p:pass) (m:mst) : g_die (r_g rc) = false ->
  pr_failed (run_pass_open St test rc p m) <= pr_exec (run_pass_open St test rc p m).
Proof.
  intros D. unfold run_pass_open. destruct (Z.eqb (total_size (m_disk m)) 0); simpl; [lia|].
  pose proof (files_failed rc p D (sorted_files (m_disk m)) (m_disk m) (m_cache m) (m_x m) 0 0 (m_sch m) []) as F.
  destruct (files St test rc p (sorted_files (m_disk m)) (m_disk m) (m_cache m) (m_x m) 0 0 (m_sch m) []) as [[d' c'] r].
  simpl in *. lia.
Qed.
Theorem run_pass_failed_le_executed (rc:rcfg) (p:pass) (m:mst) : g_die (r_g rc) = false ->
  pr_failed (run_pass St test rc p m) <= pr_exec (run_pass St test rc p m).
Proof.
  intros D. unfold run_pass. destruct (m_start m) as [k|]; [destruct (N.eqb k (p_key St p))|]; simpl; auto;
  apply run_pass_open_failed; auto.
Qed.

Lemma files_worked (rc:rcfg) (p:pass) :
  forall order d cache x worked exec sch acc,
  let r := snd (files St test rc p order d cache x worked exec sch acc) in
  f_worked r - worked = length (f_acc r) - length acc /\ length acc <= length (f_acc r) /\ worked <= f_worked r.
Proof.
  induction order as [|f rest IH]; intros d cache x worked exec sch acc; simpl; [lia|].
  destruct (Z.eqb (size (getf d f)) 0); [apply IH|].
  destruct (if r_no_cache rc then None else cache_find (p_key St p) f d cache) as [a|]; [apply IH|].
  destruct (p_new St p (fun c' => interesting test (upd d f c')) (getf d f)) as [c1 st0].
  set (r := match st0 with
            | None => mkfres (upd d f c1) x worked exec sch FNormal acc
            | Some s => rounds (RunPass.r_fuel rc) rc p f (upd d f c1) s (size (getf d f)) 0 x worked exec sch acc
            end).
  assert (PR : f_worked r - worked = length (f_acc r) - length acc /\ length acc <= length (f_acc r) /\ worked <= f_worked r).
  { unfold r. destruct st0; simpl; [|lia].
    destruct (rounds_limits rc p f (RunPass.r_fuel rc) (upd d f c1) s (size (getf d f)) 0 x worked exec sch acc) as (A & B & C & _). auto. }
  destruct (f_exit r); simpl; try exact PR.
  match goal with |- context [files St test rc p rest ?d' ?c' ?x' ?w' ?e' ?s' ?a'] =>
    specialize (IH d' c' x' w' e' s' a') end.
  simpl in IH. lia.
Qed.

(* "worked" equals the number of accepted transformations *)
Lemma run_pass_open_worked (rc:rcfg) (p:pass) (m:mst) :
  pr_worked (run_pass_open St test rc p m) = length (pr_acc (run_pass_open St test rc p m)).
Proof.
  unfold run_pass_open. destruct (Z.eqb (total_size (m_disk m)) 0); simpl; auto.
  pose proof (files_worked rc p (sorted_files (m_disk m)) (m_disk m) (m_cache m) (m_x m) 0 0 (m_sch m) []) as F.
  destruct (files St test rc p (sorted_files (m_disk m)) (m_disk m) (m_cache m) (m_x m) 0 0 (m_sch m) []) as [[d' c'] r].
  simpl in *. lia.
Qed.
Theorem run_pass_worked_eq_accepted (rc:rcfg) (p:pass) (m:mst) :
  pr_worked (run_pass St test rc p m) = length (pr_acc (run_pass St test rc p m)).
Proof.
  unfold run_pass. destruct (m_start m) as [k|]; [destruct (N.eqb k (p_key St p))|]; simpl; auto;
  apply run_pass_open_worked.
Qed.

(* --start-with-pass: while the gate is closed a pass run schedules nothing and changes nothing;
   the named pass opens it once and for all *)
Theorem start_with_gate (rc:rcfg) (p:pass) (m:mst) k : m_start m = Some k ->
  (N.eqb k (p_key St p) = false ->
     pr_m (run_pass St test rc p m) = m /\ pr_exec (run_pass St test rc p m) = 0 /\ pr_acc (run_pass St test rc p m) = []) /\
  (N.eqb k (p_key St p) = true -> pr_exit (run_pass St test rc p m) <> FZero ->
     m_start (pr_m (run_pass St test rc p m)) = None).
Proof.
  intros E. unfold run_pass. rewrite E. split; intros H.
  - rewrite H. simpl. auto.
  - rewrite H. unfold run_pass_open. simpl.
    destruct (Z.eqb (total_size (m_disk m)) 0); simpl; [congruence|].
    destruct (files St test rc p (sorted_files (m_disk m)) (m_disk m) (m_cache m) (m_x m) 0 0 (m_sch m) []) as [[d' c'] r].
    simpl. auto.
Qed.
End L.
