(* check_pass_result satisfies the hypotheses of the generic round theorems; concrete C02/C09
   statements about cround. *)
From Coq Require Import List Arith Bool ZArith Lia.
Import ListNotations.
From CV Require Import Driver.Round Driver.RoundProofs Driver.Outcome.

Ltac brk :=
  repeat match goal with
  | |- context [match ?e with _ => _ end] =>
      match type of e with
      | bool => destruct e eqn:?
      | option _ => destruct e eqn:?
      | pres => destruct e eqn:?
      | (_ * _)%type => destruct e eqn:?
      end; simpl in *
  end.

Section C.
Variable g : cfg.
Variable cands : list cand.
Notation chk := (chk g cands).
Notation tmo := (tmo cands).
Notation isA := (isA g cands).
Notation mayQ := (mayQ g cands).

Lemma report_bug_raise x : g_die g = false -> snd (fst (report_bug g x)) = false.
Proof. intros D. unfold report_bug. destruct (free_slot _ _); simpl; auto. Qed.

Lemma giveup_tail_cases x i :
  (fst (giveup_tail g x i) = IGNORE /\ (negb (g_nogiveup g) && (g_giveup g <? S i)) = false) \/
  ((fst (giveup_tail g x i) = QUIT \/ fst (giveup_tail g x i) = RAISE) /\
   (negb (g_nogiveup g) && (g_giveup g <? S i)) = true).
Proof.
  unfold giveup_tail. destruct (negb (g_nogiveup g) && (g_giveup g <? S i)); [right|left; auto].
  split; auto. destruct (x_greported x); simpl; auto.
  destruct (report_bug g x) as [[c r] x']. destruct r; simpl; auto.
Qed.
Lemma giveup_tail_noraise x i : g_die g = false -> fst (giveup_tail g x i) <> RAISE.
Proof.
  intros D. unfold giveup_tail. destruct (negb (g_nogiveup g) && (g_giveup g <? S i)); simpl; [|congruence].
  destruct (x_greported x); simpl; [congruence|].
  pose proof (report_bug_raise x D) as R. destruct (report_bug g x) as [[c r] x']. simpl in R. subst r.
  simpl. congruence.
Qed.

Lemma chk_A x i : tmo i = false -> (fst (chk x i) = ACCEPT <-> isA i = true).
Proof.
  intros T. unfold Outcome.chk, Outcome.isA, Outcome.tmo, check_pass_result in *. rewrite T. simpl.
  destruct (success (cand_at cands i)) eqn:Hsucc; simpl.
  - destruct (too_large g (cand_at cands i)); simpl; [split; discriminate|].
    destruct (c_changed (cand_at cands i)); simpl; [tauto|].
    destruct (g_silent g); simpl; [split; discriminate|].
    destruct (report_bug g x) as [[c r] x']. destruct r, c; simpl; split; discriminate.
  - split; [|discriminate]. intros H. exfalso.
    destruct (c_res (cand_at cands i)); simpl in H; try discriminate.
    + match type of H with context [giveup_tail g ?y i] =>
        destruct (giveup_tail_cases y i) as [[E _]|[[E|E] _]]; rewrite E in H; discriminate end.
    + destruct (giveup_tail_cases (add_failure x) i) as [[E _]|[[E|E] _]]; rewrite E in H; discriminate.
    + destruct (g_silent g); simpl in H.
      * destruct (giveup_tail_cases (add_failure x) i) as [[E _]|[[E|E] _]]; rewrite E in H; discriminate.
      * destruct (report_bug g (add_failure x)) as [[c r] x']. destruct r; simpl in H; discriminate.
    + destruct (giveup_tail_cases (add_failure x) i) as [[E _]|[[E|E] _]]; rewrite E in H; discriminate.
Qed.

Lemma isA_notmo i : isA i = true -> tmo i = false.
Proof.
  unfold Outcome.isA, Outcome.tmo. intros H. destruct (c_timeout (cand_at cands i)); simpl in H; [discriminate|auto].
Qed.
Lemma tmo_Q i : tmo i = true -> mayQ i = true.
Proof. unfold Outcome.mayQ, Outcome.tmo. intros ->. reflexivity. Qed.

Lemma chk_Q x i : fst (chk x i) = QUIT -> mayQ i = true.
Proof.
  unfold Outcome.chk, Outcome.mayQ, check_pass_result.
  destruct (success (cand_at cands i)) eqn:Hsucc; simpl.
  - destruct (too_large g (cand_at cands i)); simpl; [discriminate|].
    destruct (c_changed (cand_at cands i)); simpl; [discriminate|]. intros _.
    rewrite !orb_true_r. simpl. rewrite ?orb_true_r. reflexivity.
  - intros H.
    assert (GT : forall y, fst (giveup_tail g y i) = QUIT -> (negb (g_nogiveup g) && (g_giveup g <? S i)) = true).
    { intros y E. destruct (giveup_tail_cases y i) as [[E' _]|[_ E']]; [congruence|auto]. }
    destruct (c_res (cand_at cands i)); simpl in *.
    + rewrite (GT _ H). rewrite !orb_true_r. reflexivity.
    + rewrite (GT _ H). rewrite !orb_true_r. reflexivity.
    + rewrite !orb_true_r. reflexivity.
    + rewrite !orb_true_r. reflexivity.
    + rewrite (GT _ H). rewrite !orb_true_r. reflexivity.
Qed.

Lemma chk_noraise x i : g_die g = false -> fst (chk x i) <> RAISE.
Proof.
  intros D. unfold Outcome.chk, check_pass_result.
  destruct (success (cand_at cands i)); simpl.
  - destruct (too_large g (cand_at cands i)); simpl; [congruence|].
    destruct (c_changed (cand_at cands i)); simpl; [congruence|].
    destruct (g_silent g); simpl; [congruence|].
    pose proof (report_bug_raise x D) as R. destruct (report_bug g x) as [[c r] x']. simpl in R. subst r.
    destruct c; simpl; congruence.
  - destruct (c_res (cand_at cands i)); simpl; try (apply giveup_tail_noraise; auto); try congruence.
    destruct (g_silent g); simpl; [apply giveup_tail_noraise; auto|].
    pose proof (report_bug_raise (add_failure x) D) as R.
    destruct (report_bug g (add_failure x)) as [[c r] x']. simpl in R. subst r. simpl. congruence.
Qed.

(* C09/C01: whatever the schedule, N and the faults, the env handed back by a round is an
   OK result whose test exited 0, within max_improvement and actually changed. *)
Theorem cround_win_success sch x w :
  r_win _ (cround g cands sch x) = Some w ->
  c_res (cand_at cands w) = OK /\ c_exit (cand_at cands w) = 0%Z /\ c_timeout (cand_at cands w) = false /\
  c_changed (cand_at cands w) = true /\ too_large g (cand_at cands w) = false /\ c_norun (cand_at cands w) = false.
Proof.
  intros H. apply (round_win_isA xst chk tmo (on_timeout g) (g_N g) (length cands) isA mayQ chk_A isA_notmo) in H.
  unfold Outcome.isA, success in H. rewrite !andb_true_iff, !negb_true_iff in H.
  destruct H as (((T & ((R & E) & NRn)) & L) & C).
  destruct (c_res (cand_at cands w)); simpl in R; try discriminate.
  apply Z.eqb_eq in E. auto 10.
Qed.

(* C02 at the level of check_pass_result *)
Theorem cround_eq_seq sch x :
  cands <> [] -> g_die g = false ->
  contract (length cands) isA mayQ ->
  r_win _ (cround g cands sch x) = fst (cseq g cands x) /\
  FirstA (length cands) isA (r_win _ (cround g cands sch x)) /\
  r_raised _ (cround g cands sch x) = false /\ r_fuel _ (cround g cands sch x) = true.
Proof.
  intros NE D HC. apply round_eq_seq with (mayQ := mayQ); auto.
  - apply chk_A. - apply isA_notmo. - apply chk_Q. - apply tmo_Q.
  - intros; apply chk_noraise; auto.
  - destruct cands; simpl; [congruence|lia].
Qed.
End C.
