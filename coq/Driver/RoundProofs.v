(* Proofs about the parallel round (Driver/Round.v), generic in the checking function.
   Main results: the winner is always an ACCEPT-class candidate (any schedule, any faults);
   under the contract the parallel round returns exactly what the sequential loop returns,
   for every N and every schedule. *)
From Coq Require Import List Arith Bool Lia Sorting.Sorted.
Import ListNotations.
From CV Require Import Driver.Round.

(* ---------- list facts ---------- *)
Definition ids (fs:list fut) := map fid fs.

Lemma ids_force : forall fs k, ids (force k fs) = ids fs.
Proof. induction fs as [|f t IH]; destruct k; simpl; auto. f_equal. apply IH. Qed.

Lemma SS_app_inv : forall (l1 l2:list nat) x, StronglySorted lt (l1 ++ x :: l2) ->
  (forall y, In y l1 -> y < x) /\ (forall y, In y l2 -> x < y) /\ StronglySorted lt l1.
Proof.
  induction l1 as [|a l1 IH]; simpl; intros l2 x S.
  - inversion S; subst. rewrite Forall_forall in H2. split; [tauto|]. split; auto. constructor.
  - inversion S; subst. destruct (IH _ _ H1) as (P1 & P2 & P3).
    rewrite Forall_forall in H2. split; [|split]; auto.
    + intros y [->|Hy]; auto. apply H2. apply in_or_app; right; left; auto.
    + constructor; auto. rewrite Forall_forall. intros y Hy. apply H2. apply in_or_app; auto.
Qed.
Lemma SS_snoc : forall (l:list nat) x, StronglySorted lt l -> (forall y, In y l -> y < x) ->
  StronglySorted lt (l ++ [x]).
Proof.
  induction l as [|a l IH]; simpl; intros x S H.
  - constructor; constructor.
  - inversion S; subst. constructor; auto. rewrite Forall_forall in *.
    intros y Hy. apply in_app_or in Hy. destruct Hy as [Hy|[<-|[]]]; auto.
Qed.

Inductive sub {X} : list X -> list X -> Prop :=
| sub_nil : sub [] []
| sub_keep x l1 l2 : sub l1 l2 -> sub (x::l1) (x::l2)
| sub_drop x l1 l2 : sub l1 l2 -> sub l1 (x::l2).
Lemma sub_nil_l {X} (l:list X) : sub [] l.
Proof. induction l; constructor; auto. Qed.
Lemma sub_refl {X} (l:list X) : sub l l.
Proof. induction l; constructor; auto. Qed.
Lemma sub_In {X} (l1 l2:list X) x : sub l1 l2 -> In x l1 -> In x l2.
Proof. induction 1; simpl; intuition. Qed.
Lemma sub_sorted l1 l2 : sub l1 l2 -> StronglySorted lt l2 -> StronglySorted lt l1.
Proof.
  induction 1; intros S; auto.
  - inversion S; subst. constructor; auto.
    rewrite Forall_forall in *. intros y Hy. apply H3. eapply sub_In; eauto.
  - inversion S; subst. auto.
Qed.
Lemma sub_length {X} (l1 l2:list X) : sub l1 l2 -> length l1 <= length l2.
Proof. induction 1; simpl; lia. Qed.

Lemma find_sorted (p:nat->bool) : forall l a, StronglySorted lt l -> find p l = Some a ->
  In a l /\ p a = true /\ forall g, In g l -> g < a -> p g = false.
Proof.
  induction l as [|b l IH]; simpl; intros a S H; [discriminate|].
  inversion S; subst. destruct (p b) eqn:Pb.
  - inversion H; subst. split; auto. split; auto. intros g [->|Hg] Hlt; [lia|].
    rewrite Forall_forall in H3. specialize (H3 g Hg). lia.
  - destruct (IH _ H2 H) as (P1 & P2 & P3). split; auto. split; auto.
    intros g [->|Hg] Hlt; auto.
Qed.
Lemma find_none_all (p:nat->bool) l : find p l = None -> forall g, In g l -> p g = false.
Proof. intros H g Hg. eapply find_none in H; eauto. Qed.

Section P.
Variable X : Type.
Variable chk : X -> nat -> outcome * X.
Variable tmo : nat -> bool.
Variable on_tmo : X -> nat -> X * bool.
Variable N m : nat.

Variable isA : nat -> bool.       (* static ACCEPT class *)
Variable mayQ : nat -> bool.      (* candidates that may end a round without being accepted *)

Hypothesis chkA : forall x i, tmo i = false -> (fst (chk x i) = ACCEPT <-> isA i = true).
Hypothesis isA_notmo : forall i, isA i = true -> tmo i = false.

Notation scan := (scan X chk tmo on_tmo).
Notation wfs := (wfs X chk tmo).
Notation loop := (loop X chk tmo on_tmo N m).
Notation round := (round X chk tmo on_tmo N m).

(* ---------- wait_for_first_success returns the first ACCEPT-class future ---------- *)
Lemma wfs_spec : forall fs x w x',
  wfs fs x = (Some w, x') -> w = find isA (ids fs).
Proof.
  induction fs as [|f t IH]; simpl; intros x w x' H.
  - inversion H; subst; auto.
  - destruct (tmo (fid f)) eqn:T.
    + destruct (isA (fid f)) eqn:A; [rewrite (isA_notmo _ A) in T; discriminate|]. eapply IH; eauto.
    + pose proof (chkA x (fid f) T) as CA. destruct (chk x (fid f)) as [o x1]. simpl in CA.
      destruct o.
      * inversion H; subst. rewrite (proj1 CA eq_refl). reflexivity.
      * destruct (isA (fid f)); [destruct CA as [_ CA]; specialize (CA eq_refl); discriminate|]. eapply IH; eauto.
      * destruct (isA (fid f)); [destruct CA as [_ CA]; specialize (CA eq_refl); discriminate|]. eapply IH; eauto.
      * discriminate.
Qed.

(* the winner of a round, whatever the schedule, the faults and N, is ACCEPT-class *)
Lemma find_isA l a : find isA l = Some a -> isA a = true /\ In a l.
Proof. intros H. apply find_some in H. tauto. Qed.

Lemma loop_win_isA : forall fuel j fs rel sch x w,
  r_win X (loop fuel j fs rel sch x) = Some w -> isA w = true.
Proof.
  induction fuel as [|fuel IH]; intros j fs rel sch x w H; simpl in H; [discriminate|].
  set (blocked := (N <=? length fs) && negb (existsb fdone fs) && negb (Nat.eqb (length fs) 0)) in *.
  set (fs1 := if blocked then force (Nat.modulo (shd sch) (length fs)) fs else fs) in *.
  set (sch1 := if blocked then tl sch else sch) in *.
  set (r := scan false fs1 sch1 x) in *.
  destruct (s_raise X r); [simpl in H; discriminate|].
  destruct (s_quit X r).
  - destruct (wfs (s_kept X r) (s_x X r)) as [[w'|] x'] eqn:W; simpl in H; [|discriminate].
    subst w'. apply wfs_spec in W. symmetry in W. apply find_isA in W. tauto.
  - destruct (S j <? m).
    + eapply IH; eauto.
    + destruct (wfs (s_kept X r ++ [mkf j false]) (s_x X r)) as [[w'|] x'] eqn:W; simpl in H; [|discriminate].
      subst w'. apply wfs_spec in W. symmetry in W. apply find_isA in W. tauto.
Qed.

Theorem round_win_isA sch x w : r_win X (round sch x) = Some w -> isA w = true.
Proof. apply loop_win_isA. Qed.

(* ---------- scan ---------- *)
Hypothesis chkQ : forall x i, fst (chk x i) = QUIT -> mayQ i = true.
Hypothesis tmoQ : forall i, tmo i = true -> mayQ i = true.

Lemma scan_true : forall fs sch x,
  s_quit X (scan true fs sch x) = true /\ s_kept X (scan true fs sch x) = [] /\
  s_raise X (scan true fs sch x) = false /\ s_sch X (scan true fs sch x) = sch /\
  s_x X (scan true fs sch x) = x.
Proof. induction fs as [|f t IH]; intros; simpl; auto. Qed.

(* Specification of a scan that starts with quit = false and does not raise. *)
Lemma scan_false_spec : forall fs sch x,
  let r := scan false fs sch x in
  s_raise X r = false ->
  sub (ids (s_kept X r)) (ids fs) /\
  (s_quit X r = false -> forall i, In i (ids fs) -> ~ In i (ids (s_kept X r)) -> isA i = false) /\
  (s_quit X r = true -> exists pre t post rpre,
      ids fs = pre ++ t :: post /\ (isA t = true \/ mayQ t = true) /\
      ids (s_kept X r) = rpre ++ (if isA t then [t] else []) /\
      sub rpre pre /\ (forall i, In i pre -> ~ In i rpre -> isA i = false)).
Proof.
  induction fs as [|f t IH]; intros sch x r NR; subst r; unfold ids in *; simpl in *.
  - split; [constructor|]. split; [intros _ i []|discriminate].
  - set (d := if fdone f then true else Nat.odd (shd sch)) in *.
    set (sch' := if fdone f then sch else tl sch) in *.
    destruct d.
    + destruct (tmo (fid f)) eqn:T.
      * (* timeout: dropped; may quit *)
        assert (NA : isA (fid f) = false).
        { destruct (isA (fid f)) eqn:A; auto. rewrite (isA_notmo _ A) in T. discriminate. }
        destruct (on_tmo x (fid f)) as [x' q'] eqn:OT. simpl in *. destruct q'.
        -- destruct (scan_true t sch' x') as (Q & K & R & _ & _).
           rewrite Q, K. simpl. split; [apply sub_nil_l|]. split; [discriminate|]. intros _.
           exists [], (fid f), (ids t), []. simpl. rewrite NA.
           split; [reflexivity|]. split; [right; apply tmoQ; auto|]. split; [reflexivity|].
           split; [constructor|]. intros i [].
        -- destruct (IH sch' x' NR) as (S1 & S2 & S3). split; [constructor; auto|]. split.
           ++ intros Q i [<-|Hi] Hn; auto.
           ++ intros Q. destruct (S3 Q) as (pre & t0 & post & rpre & E & Kt & Er & Sp & Dp).
              exists (fid f :: pre), t0, post, rpre. rewrite E. simpl.
              split; [reflexivity|]. split; [exact Kt|]. split; [exact Er|].
              split; [constructor; auto|]. intros i [<-|Hi] Hn; auto.
      * pose proof (chkA x (fid f) T) as CA. pose proof (chkQ x (fid f)) as CQ.
        destruct (chk x (fid f)) as [o x']. simpl in CA, CQ. destruct o; simpl in *.
        -- (* ACCEPT: kept, quit *)
           assert (A : isA (fid f) = true) by (apply CA; auto).
           destruct (scan_true t sch' x') as (Q & K & R & _ & _).
           rewrite Q, K. simpl. split; [constructor; apply sub_nil_l|]. split; [discriminate|]. intros _.
           exists [], (fid f), (ids t), []. simpl. rewrite A.
           split; [reflexivity|]. split; [left; auto|]. split; [reflexivity|].
           split; [constructor|]. intros i [].
        -- (* IGNORE: dropped *)
           assert (NA : isA (fid f) = false).
           { destruct (isA (fid f)); auto. destruct CA as [_ CA]. specialize (CA eq_refl). discriminate. }
           destruct (IH sch' x' NR) as (S1 & S2 & S3). split; [constructor; auto|]. split.
           ++ intros Q i [<-|Hi] Hn; auto.
           ++ intros Q. destruct (S3 Q) as (pre & t0 & post & rpre & E & Kt & Er & Sp & Dp).
              exists (fid f :: pre), t0, post, rpre. rewrite E. simpl.
              split; [reflexivity|]. split; [exact Kt|]. split; [exact Er|].
              split; [constructor; auto|]. intros i [<-|Hi] Hn; auto.
        -- (* QUIT: dropped, quit *)
           assert (NA : isA (fid f) = false).
           { destruct (isA (fid f)); auto. destruct CA as [_ CA]. specialize (CA eq_refl). discriminate. }
           destruct (scan_true t sch' x') as (Q & K & R & _ & _).
           rewrite Q, K. simpl. split; [apply sub_nil_l|]. split; [discriminate|]. intros _.
           exists [], (fid f), (ids t), []. simpl. rewrite NA.
           split; [reflexivity|]. split; [right; auto|]. split; [reflexivity|].
           split; [constructor|]. intros i [].
        -- discriminate.
    + (* still pending: kept *)
      cbn [s_quit s_kept s_raise s_sch s_x s_drop map] in *.
      destruct (IH sch' x NR) as (S1 & S2 & S3). split; [constructor; auto|]. split.
      * intros Q i [<-|Hi] Hn; [exfalso; apply Hn; left; auto|].
        apply (S2 Q i Hi). intros Hr; apply Hn; right; exact Hr.
      * intros Q. destruct (S3 Q) as (pre & t0 & post & rpre & E1 & Kt & Er & Sp & Dp).
        exists (fid f :: pre), t0, post, (fid f :: rpre). rewrite E1, Er. simpl.
        split; [reflexivity|]. split; [exact Kt|]. split; [reflexivity|].
        split; [constructor; auto|].
        intros i [<-|Hi] Hn; [exfalso; apply Hn; left; auto|].
        apply Dp; [exact Hi|]. intros Hr; apply Hn; right; exact Hr.
Qed.

(* ---------- the contract and the first ACCEPT-class candidate ---------- *)
(* no candidate that may quit the round precedes the first ACCEPT-class candidate *)
Definition contract := forall i j, i < j -> j < m -> mayQ i = true -> isA j = true ->
  exists a, a < i /\ isA a = true.

Definition FirstA (o:option nat) : Prop :=
  match o with
  | Some a => a < m /\ isA a = true /\ forall i, i < a -> isA i = false
  | None => forall i, i < m -> isA i = false
  end.

Lemma FirstA_unique o1 o2 : FirstA o1 -> FirstA o2 -> o1 = o2.
Proof.
  destruct o1 as [a|], o2 as [b|]; simpl; intros H1 H2; auto.
  - destruct H1 as (La & Ka & Ma), H2 as (Lb & Kb & Mb).
    destruct (lt_eq_lt_dec a b) as [[h|h]|h]; subst; auto.
    + rewrite (Mb _ h) in Ka. discriminate.
    + rewrite (Ma _ h) in Kb. discriminate.
  - destruct H1 as (La & Ka & _). rewrite (H2 _ La) in Ka. discriminate.
  - destruct H2 as (Lb & Kb & _). rewrite (H1 _ Lb) in Kb. discriminate.
Qed.

Definition Inv (fs:list nat) (j:nat) : Prop :=
  StronglySorted lt fs /\ (forall i, In i fs -> i < j) /\
  (forall i, i < j -> ~ In i fs -> isA i = false).

Lemma find_FirstA_full fs : Inv fs m -> FirstA (find isA fs).
Proof.
  intros (S & B & D). destruct (find isA fs) as [a|] eqn:F; simpl.
  - destruct (find_sorted _ _ _ S F) as (P1 & P2 & P3).
    split; [apply B; auto|]. split; auto.
    intros i Hi. assert (i < m) by (specialize (B _ P1); lia).
    destruct (in_dec Nat.eq_dec i fs) as [Hin|Hn]; auto.
  - intros i Hi. destruct (in_dec Nat.eq_dec i fs) as [Hin|Hn]; auto.
    eapply find_none_all; eauto.
Qed.

Lemma quit_FirstA fs j r :
  contract -> Inv fs j -> j <= m ->
  (exists pre t post rpre,
      fs = pre ++ t :: post /\ (isA t = true \/ mayQ t = true) /\
      r = rpre ++ (if isA t then [t] else []) /\
      sub rpre pre /\ (forall i, In i pre -> ~ In i rpre -> isA i = false)) ->
  sub r fs -> FirstA (find isA r).
Proof.
  intros HC (S & B & D) Hj (pre & t & post & rpre & E & Kt & Er & Sp & Dp) S1.
  assert (Sr : StronglySorted lt r) by (eapply sub_sorted; eauto).
  rewrite E in S. destruct (SS_app_inv _ _ _ S) as (Lpre & Lpost & _).
  assert (Tin : In t fs) by (subst fs; apply in_or_app; right; left; auto).
  assert (Tj : t < j) by (apply B; auto).
  assert (InPre : forall g, In g fs -> g < t -> In g pre).
  { intros g Hg Hlt. subst fs. apply in_app_or in Hg. destruct Hg as [Hg|[<-|Hg]]; auto; [lia|].
    specialize (Lpost _ Hg). lia. }
  assert (Rin : forall g, In g r -> In g pre \/ (g = t /\ isA t = true)).
  { intros g Hg. subst r. apply in_app_or in Hg. destruct Hg as [Hg|Hg].
    - left. eapply sub_In; eauto.
    - destruct (isA t) eqn:K; simpl in Hg; try tauto. destruct Hg as [<-|[]]. right; auto. }
  destruct (find isA r) as [f|] eqn:F; simpl.
  - destruct (find_sorted _ _ _ Sr F) as (P1 & P2 & P3).
    assert (Ff : In f fs) by (eapply sub_In; eauto).
    assert (Fle : f <= t).
    { destruct (Rin _ P1) as [Hp|[-> _]]; [|lia]. specialize (Lpre _ Hp). lia. }
    split; [specialize (B _ Ff); lia|]. split; auto.
    intros i Hi. destruct (in_dec Nat.eq_dec i fs) as [Hin|Hn].
    + assert (Gp : In i pre) by (apply InPre; auto; lia).
      destruct (in_dec Nat.eq_dec i rpre) as [Gr|Gn].
      * apply P3; auto. subst r; apply in_or_app; auto.
      * apply Dp; auto.
    + apply D; auto. specialize (B _ Ff). lia.
  - pose proof (find_none_all _ _ F) as NA.
    assert (KQ : isA t = false).
    { destruct (isA t) eqn:K; auto. exfalso.
      assert (In t r) by (rewrite Er; apply in_or_app; right; simpl; auto).
      specialize (NA _ H). congruence. }
    assert (MQ : mayQ t = true) by (destruct Kt as [Kt|Kt]; [congruence|auto]).
    assert (Below : forall i, i < t -> isA i = false).
    { intros i h. destruct (in_dec Nat.eq_dec i fs) as [Hin|Hn].
      - assert (Gp : In i pre) by (apply InPre; auto).
        destruct (in_dec Nat.eq_dec i rpre) as [Gr|Gn].
        + apply NA. subst r; apply in_or_app; auto.
        + apply Dp; auto.
      - apply D; auto. lia. }
    intros i Hi.
    destruct (lt_eq_lt_dec i t) as [[h|h]|h]; [apply Below; auto|subst i; auto|].
    destruct (isA i) eqn:Ai; auto. exfalso.
    destruct (HC t i h Hi MQ Ai) as (a & La & Aa). rewrite (Below a La) in Aa. discriminate.
Qed.

Hypothesis noRaise : forall x i, fst (chk x i) <> RAISE.

Lemma scan_noraise : forall fs q sch x, s_raise X (scan q fs sch x) = false.
Proof.
  induction fs as [|f t IH]; intros q sch x; simpl; auto.
  destruct q; simpl; auto.
  destruct (if fdone f then true else Nat.odd (shd sch)); simpl; auto.
  destruct (tmo (fid f)).
  - destruct (on_tmo x (fid f)) as [x' q']. simpl. auto.
  - pose proof (noRaise x (fid f)) as NRz. destruct (chk x (fid f)) as [o x']. simpl in NRz.
    destruct o; simpl; auto. congruence.
Qed.

Lemma wfs_noraise : forall fs x, exists w x', wfs fs x = (Some w, x').
Proof.
  induction fs as [|f t IH]; intros x; simpl; eauto.
  destruct (tmo (fid f)); auto.
  pose proof (noRaise x (fid f)) as NRz. destruct (chk x (fid f)) as [o x']. simpl in NRz.
  destruct o; eauto. congruence.
Qed.

Lemma loop_FirstA : contract -> forall fuel j fs rel sch x,
  Inv (ids fs) j -> j < m -> m - j <= fuel ->
  let r := loop fuel j fs rel sch x in
  FirstA (r_win X r) /\ r_raised X r = false /\ r_fuel X r = true.
Proof.
  intros HC. induction fuel as [|fuel IH]; intros j fs rel sch x HI Hj Hf; [lia|].
  simpl.
  set (blocked := (N <=? length fs) && negb (existsb fdone fs) && negb (Nat.eqb (length fs) 0)).
  set (fs1 := if blocked then force (Nat.modulo (shd sch) (length fs)) fs else fs).
  set (sch1 := if blocked then tl sch else sch).
  assert (I1 : Inv (ids fs1) j).
  { unfold fs1. destruct blocked; rewrite ?ids_force; auto. }
  pose proof (scan_false_spec fs1 sch1 x (scan_noraise _ _ _ _)) as (S1 & S2 & S3).
  rewrite (scan_noraise fs1 false sch1 x).
  set (r := scan false fs1 sch1 x) in *.
  destruct (s_quit X r) eqn:Q.
  - destruct (wfs_noraise (s_kept X r) (s_x X r)) as (w & x' & W). rewrite W. simpl.
    split; [|auto]. rewrite (wfs_spec _ _ _ _ W).
    eapply quit_FirstA; eauto. lia.
  - specialize (S2 eq_refl). destruct I1 as (Ss & B & D).
    assert (I4 : Inv (ids (s_kept X r ++ [mkf j false])) (S j)).
    { unfold Inv, ids. rewrite map_app. simpl. split; [|split].
      - apply SS_snoc. eapply sub_sorted; eauto.
        intros y Hy. apply B. eapply sub_In; eauto.
      - intros i Hi. apply in_app_or in Hi. destruct Hi as [Hi|[<-|[]]]; [|lia].
        assert (i < j); [|lia]. apply B. eapply sub_In; eauto.
      - intros i Hi Hn. assert (i <> j) by (intro; subst; apply Hn; apply in_or_app; right; left; auto).
        assert (Hn3 : ~ In i (map fid (s_kept X r))) by (intro; apply Hn; apply in_or_app; auto).
        destruct (in_dec Nat.eq_dec i (ids fs1)) as [Hin|Hn2]; [|apply D; auto; lia].
        apply S2; auto. }
    destruct (S j <? m) eqn:L.
    + apply Nat.ltb_lt in L. apply IH; auto. lia.
    + apply Nat.ltb_ge in L.
      destruct (wfs_noraise (s_kept X r ++ [mkf j false]) (s_x X r)) as (w & x' & W). rewrite W. simpl.
      split; [|auto]. rewrite (wfs_spec _ _ _ _ W).
      apply find_FirstA_full. replace m with (S j) by lia. exact I4.
Qed.

(* sequential reference *)
Lemma seq_FirstA : contract -> forall fuel j x,
  (forall i, i < j -> isA i = false) -> j < m -> m - j <= fuel ->
  FirstA (fst (seq_from X chk tmo m fuel j x)).
Proof.
  intros HC. induction fuel as [|fuel IH]; intros j x Hlo Hj Hf; [lia|].
  simpl. destruct (tmo j) eqn:T.
  - assert (NA : isA j = false).
    { destruct (isA j) eqn:A; auto. rewrite (isA_notmo _ A) in T. discriminate. }
    assert (Hlo' : forall i, i < S j -> isA i = false).
    { intros i Hi. destruct (Nat.eq_dec i j) as [->|]; auto. apply Hlo; lia. }
    destruct (S j <? m) eqn:L.
    + apply Nat.ltb_lt in L. apply IH; auto. lia.
    + apply Nat.ltb_ge in L. simpl. intros i Hi. apply Hlo'. lia.
  - pose proof (chkA x j T) as CA. pose proof (chkQ x j) as CQ. pose proof (noRaise x j) as NRz.
    destruct (chk x j) as [o x']. simpl in *. destruct o; simpl.
    + split; [auto|]. split; [apply CA; auto|auto].
    + assert (NA : isA j = false).
      { destruct (isA j); auto. destruct CA as [_ CA]. specialize (CA eq_refl). discriminate. }
      assert (Hlo' : forall i, i < S j -> isA i = false).
      { intros i Hi. destruct (Nat.eq_dec i j) as [->|]; auto. apply Hlo; lia. }
      destruct (S j <? m) eqn:L.
      * apply Nat.ltb_lt in L. apply IH; auto. lia.
      * apply Nat.ltb_ge in L. simpl. intros i Hi. apply Hlo'. lia.
    + assert (NA : isA j = false).
      { destruct (isA j); auto. destruct CA as [_ CA]. specialize (CA eq_refl). discriminate. }
      intros i Hi. destruct (lt_eq_lt_dec i j) as [[h|h]|h]; [apply Hlo; auto|subst; auto|].
      destruct (isA i) eqn:Ai; auto. exfalso.
      destruct (HC j i h Hi (CQ eq_refl) Ai) as (a & La & Aa). rewrite (Hlo a La) in Aa. discriminate.
    + congruence.
Qed.

(* C02: for every N and every schedule the parallel round returns what the sequential
   loop returns; the winner is the first ACCEPT-class candidate of the enumeration. *)
Theorem round_eq_seq sch x : 0 < m -> contract ->
  r_win X (round sch x) = fst (seq_round X chk tmo m x) /\
  FirstA (r_win X (round sch x)) /\ r_raised X (round sch x) = false /\ r_fuel X (round sch x) = true.
Proof.
  intros L HC. unfold round, seq_round.
  destruct (loop_FirstA HC m 0 [] [] sch x) as (F & R & U); auto; [|lia|].
  - unfold Inv; simpl. split; [constructor|]. split; [tauto|]. intros; lia.
  - split; [|auto]. eapply FirstA_unique; eauto. apply seq_FirstA; auto; [intros; lia|lia].
Qed.
End P.
