(* C01: the on-disk set is always the original or a set on which the test exited 0 —
   through rounds, files, cache replay, the sanity-checked rewrite of new(), run_pass,
   the main loop and reduce, on every exit (normal, pass bug raised, fuel). *)
From Coq Require Import List Arith Bool ZArith NArith Lia.
Import ListNotations.
From CV Require Import Driver.Round Driver.RoundProofs Driver.Outcome Driver.OutcomeProofs
  Driver.RunPass Driver.RunPassProofs.

Local Arguments Z.mul : simpl never.
Local Arguments Z.leb : simpl never.
Local Arguments Z.eqb : simpl never.
Local Arguments MAXINC : simpl never.

Lemma content_eqb_eq a b : content_eqb a b = true -> a = b.
Proof.
  revert b. induction a as [|x a IH]; destruct b as [|y b]; simpl; try discriminate; auto.
  rewrite andb_true_iff. intros [H1 H2]. apply N.eqb_eq in H1. subst. f_equal. auto.
Qed.
Lemma disk_eqb_eq a b : disk_eqb a b = true -> a = b.
Proof.
  revert b. induction a as [|x a IH]; destruct b as [|y b]; simpl; try discriminate; auto.
  rewrite andb_true_iff. intros [H1 H2]. apply content_eqb_eq in H1. subst. f_equal. auto.
Qed.
Lemma upd_upd {A} (d:list A) f a b : upd (upd d f a) f b = upd d f b.
Proof. revert f. induction d as [|h t IH]; destruct f; simpl; auto. f_equal. apply IH. Qed.
Lemma upd_getf_upd (d:disk) f c : upd d f (getf (upd d f c) f) = upd d f c.
Proof.
  unfold getf. revert f. induction d as [|h t IH]; destruct f; simpl; auto. f_equal. apply IH.
Qed.

Section I.
Variable St : Type.
Variable test : disk -> tout.
Notation pass := (pass St).
Notation Good := (fun d => interesting test d = true).

Variable d0 : disk.                       (* the original input *)
Definition Inv (d:disk) : Prop := d = d0 \/ interesting test d = true.
Definition CacheOK (c:list centry) : Prop :=
  forall k f db a, In (k, f, db, a) c -> Inv (upd db f a).

(* what the pass interface promises about new(): an in-place rewrite is kept only if the
   sanity check passed on it (LinesPass.__format; cvise/passes/lines.py:41-60) *)
Definition new_sane (p:pass) : Prop :=
  forall sane c c1 st, p_new St p sane c = (c1, st) -> c1 = c \/ sane c1 = true.

Lemma rounds_frame (rc:rcfg) (p:pass) (f:nat) :
  forall fuel d s start succ x worked exec sch acc,
  let r := rounds St test fuel rc p f d s start succ x worked exec sch acc in
  f_disk r = d \/ exists c, f_disk r = upd d f c.
Proof.
  induction fuel as [|fuel IH]; intros d s start succ x worked exec sch acc; simpl; auto.
  destruct (chain St p (RunPass.r_fuel rc) (getf d f) s) as [sts complete].
  set (evs := map (eval St test p d f) sts).
  set (cands := map (fun e => fst (fst e)) evs).
  set (r := cround (r_g rc) cands sch (reset_round x)).
  destruct (negb complete && Nat.eqb (r_sched _ r) (length sts)); simpl; auto.
  destruct (r_raised _ r); simpl; auto.
  destruct (r_win _ r) as [w|]; simpl; auto.
  destruct (nth_error evs w) as [[[cd c'] s']|]; simpl; auto.
  destruct (Z.leb (MAXINC * start) (size c')); simpl; eauto.
  destruct ((negb (Nat.eqb (r_skipn rc) 0) && (r_skipn rc <=? S succ))
            || (negb (Nat.eqb (p_maxt St p) 0) && (p_maxt St p <=? S succ))); simpl; eauto.
  destruct (p_aos St p c' s') as [s''|]; simpl; eauto.
  destruct (IH (upd d f c') s'' start (S succ) (r_x _ r) (S worked) (exec + r_sched _ r) (r_sch _ r) (acc ++ [upd d f c'])) as [E|(c & E)];
    rewrite E; eauto. rewrite upd_upd. eauto.
Qed.

Lemma files_inv (rc:rcfg) (p:pass) : new_sane p ->
  forall order d cache x worked exec sch acc,
  Inv d -> CacheOK cache ->
  let '(d', cache', r) := files St test rc p order d cache x worked exec sch acc in
  Inv d' /\ CacheOK cache' /\ f_disk r = d'.
Proof.
  intros NS. induction order as [|f rest IH]; intros d cache x worked exec sch acc HI HC; simpl; auto.
  destruct (Z.eqb (size (getf d f)) 0); [apply IH; auto|].
  destruct (if r_no_cache rc then None else cache_find (p_key St p) f d cache) as [a|] eqn:CF.
  - (* cache hit: replay *)
    apply IH; auto.
    destruct (r_no_cache rc); [discriminate|].
    clear IH. revert CF HC. induction cache as [|[[[k' f'] d'] a'] t IHc]; simpl; intros CF HC; [discriminate|].
    destruct (N.eqb (p_key St p) k' && Nat.eqb f f' && disk_eqb d d') eqn:E.
    + inversion CF; subst a'. rewrite !andb_true_iff in E. destruct E as ((E1 & E2) & E3).
      apply Nat.eqb_eq in E2. apply disk_eqb_eq in E3. subst.
      apply (HC k' f' d' a). left; auto.
    + apply IHc; auto. intros k1 f1 db a1 Hin. apply (HC k1 f1 db a1). right; auto.
  - destruct (p_new St p (fun c' => interesting test (upd d f c')) (getf d f)) as [c1 st0] eqn:PN.
    assert (I1 : Inv (upd d f c1) /\ (upd d f c1 = d \/ exists c, upd d f c1 = upd d f c)).
    { destruct (NS _ _ _ _ PN) as [->|S1].
      - split; [|eauto].
        (* rewriting a file with its own content *)
        destruct (Nat.lt_ge_cases f (length d)) as [L|L].
        + assert (E : upd d f (getf d f) = d).
          { clear -L. unfold getf. revert f L. induction d as [|h t IH]; intros f L; simpl in *; [lia|].
            destruct f; auto. simpl. f_equal. apply IH. lia. }
          rewrite E. auto.
        + assert (E : forall c, upd d f c = d).
          { clear -L. revert f L. induction d as [|h t IH]; intros f L c; simpl in *; auto.
            destruct f; [lia|]. f_equal. apply IH. lia. }
          rewrite E. auto.
      - split; [right; auto|eauto]. }
    destruct I1 as (I1 & F1).
    set (r := match st0 with
              | None => mkfres (upd d f c1) x worked exec sch FNormal acc
              | Some s => rounds St test (RunPass.r_fuel rc) rc p f (upd d f c1) s (size (getf d f)) 0 x worked exec sch acc
              end).
    assert (RI : Inv (f_disk r) /\ (f_disk r = d \/ exists c, f_disk r = upd d f c)).
    { unfold r. destruct st0 as [s|]; simpl; [|auto].
      destruct (rounds_all_interesting St test rc p f (RunPass.r_fuel rc) (upd d f c1) s (size (getf d f)) 0 x worked exec sch [] (Forall_nil _)) as (_ & P2).
      pose proof (rounds_frame rc p f (RunPass.r_fuel rc) (upd d f c1) s (size (getf d f)) 0 x worked exec sch acc) as FR.
      (* the disk does not depend on the ghost accumulator *)
      assert (ACC : forall fuel dd ss st su xx w e sc a1 a2,
                 f_disk (rounds St test fuel rc p f dd ss st su xx w e sc a1) =
                 f_disk (rounds St test fuel rc p f dd ss st su xx w e sc a2)).
      { clear. induction fuel as [|fuel IH]; intros; simpl; auto.
        destruct (chain St p (RunPass.r_fuel rc) (getf dd f) ss) as [sts complete].
        set (rr := cround (r_g rc) _ sc (reset_round xx)).
        destruct (negb complete && Nat.eqb (r_sched _ rr) (length sts)); simpl; auto.
        destruct (r_raised _ rr); simpl; auto.
        destruct (r_win _ rr) as [w0|]; simpl; auto.
        destruct (nth_error _ w0) as [[[cd c'] s']|]; simpl; auto.
        destruct (Z.leb (MAXINC * st) (size c')); simpl; auto.
        destruct (_ || _); simpl; auto.
        destruct (p_aos St p c' s'); simpl; auto. }
      rewrite (ACC _ _ _ _ _ _ _ _ _ acc []).
      split.
      - destruct P2 as [E|G]; [rewrite E; exact I1|right; exact G].
      - rewrite <- (ACC _ _ _ _ _ _ _ _ _ acc []).
        destruct FR as [E|(c & E)]; rewrite E.
        + exact F1.
        + destruct F1 as [E1|(c2 & E1)]; rewrite E1; eauto. rewrite upd_upd. eauto. }
    destruct RI as (RI & RF).
    destruct (f_exit r) eqn:FE; auto.
    apply IH; auto.
    destruct (r_no_cache rc); auto.
    intros k1 f1 db a1 [Hin|Hin]; [|eapply HC; eauto].
    inversion Hin; subst; clear Hin.
    destruct RF as [E|(c & E)]; rewrite E.
    + destruct (Nat.lt_ge_cases f1 (length db)) as [L|L].
      * assert (E2 : upd db f1 (getf db f1) = db).
        { clear -L. unfold getf. revert f1 L. induction db as [|h t IHd]; intros f L; simpl in *; [lia|].
          destruct f; auto. simpl. f_equal. apply IHd. lia. }
        rewrite E2. rewrite <- E. exact RI.
      * assert (E2 : forall c, upd db f1 c = db).
        { clear -L. revert f1 L. induction db as [|h t IHd]; intros f L c; simpl in *; auto.
          destruct f; [lia|]. f_equal. apply IHd. lia. }
        rewrite E2. rewrite <- E. exact RI.
    + rewrite upd_getf_upd. rewrite <- E. exact RI.
Qed.

Lemma run_pass_open_inv (rc:rcfg) (p:pass) (m:mst) : new_sane p ->
  Inv (m_disk m) -> CacheOK (m_cache m) ->
  Inv (m_disk (pr_m (run_pass_open St test rc p m))) /\ CacheOK (m_cache (pr_m (run_pass_open St test rc p m))).
Proof.
  intros NS HI HC. unfold run_pass_open. destruct (Z.eqb (total_size (m_disk m)) 0); simpl; auto.
  pose proof (files_inv rc p NS (sorted_files (m_disk m)) (m_disk m) (m_cache m) (m_x m) 0 0 (m_sch m) [] HI HC) as F.
  destruct (files St test rc p (sorted_files (m_disk m)) (m_disk m) (m_cache m) (m_x m) 0 0 (m_sch m) []) as [[d' c'] r].
  simpl. tauto.
Qed.

Theorem run_pass_inv (rc:rcfg) (p:pass) (m:mst) : new_sane p ->
  Inv (m_disk m) -> CacheOK (m_cache m) ->
  Inv (m_disk (pr_m (run_pass St test rc p m))) /\ CacheOK (m_cache (pr_m (run_pass St test rc p m))).
Proof.
  intros NS HI HC. unfold run_pass. destruct (m_start m) as [k|]; [destruct (N.eqb k (p_key St p))|].
  - apply run_pass_open_inv; auto.
  - simpl. auto.
  - apply run_pass_open_inv; auto.
Qed.

Lemma run_list_inv (rc:rcfg) : forall ps m acc, Forall new_sane ps ->
  Inv (m_disk m) -> CacheOK (m_cache m) ->
  let '(m', e, _) := run_list St test rc ps m acc in Inv (m_disk m') /\ CacheOK (m_cache m').
Proof.
  induction ps as [|p t IH]; intros m acc NS HI HC; simpl; auto.
  inversion NS; subst.
  destruct (run_pass_inv rc p m H1 HI HC) as (I1 & C1).
  destruct (pr_exit (run_pass St test rc p m)); try (split; assumption).
  apply IH; auto.
Qed.

Lemma main_loop_inv (rc:rcfg) (orig:Z) (ps:list pass) : Forall new_sane ps -> forall fuel m acc,
  Inv (m_disk m) -> CacheOK (m_cache m) ->
  let '(m', e, _) := main_loop St test fuel rc orig ps m acc in Inv (m_disk m') /\ CacheOK (m_cache m').
Proof.
  intros NS. induction fuel as [|fuel IH]; intros m acc HI HC; simpl; auto.
  destruct (threshold_met rc orig (total_size (m_disk m)) && negb match ps with [] => true | _ => false end); auto.
  pose proof (run_list_inv rc ps m acc NS HI HC) as R.
  destruct (run_list St test rc ps m acc) as [[m' e] acc'].
  destruct R as (I1 & C1). destruct e; try (split; assumption).
  destruct (Z.leb (total_size (m_disk m)) (total_size (m_disk m'))); [split; assumption|].
  apply IH; auto.
Qed.

(* the whole reduction: on EVERY exit the files are the original or an interesting set *)
Theorem reduce_inv (rc:rcfg) (first main last:list pass) (m:mst) :
  Forall new_sane first -> Forall new_sane main -> Forall new_sane last ->
  m_disk m = d0 -> m_cache m = [] ->
  let '(m', e, _) := reduce St test rc first main last m in Inv (m_disk m').
Proof.
  intros N1 N2 N3 E0 EC. unfold reduce.
  destruct (negb (interesting test (m_disk m))); [left; auto|].
  assert (HI : Inv (m_disk m)) by (left; auto).
  assert (HC : CacheOK (m_cache m)) by (rewrite EC; intros k f db a []).
  pose proof (run_list_inv rc first m [] N1 HI HC) as R1.
  destruct (run_list St test rc first m []) as [[m1 e1] a1]. destruct R1 as (I1 & C1).
  destruct e1; auto.
  pose proof (main_loop_inv rc (total_size (m_disk m)) main N2 (S (Z.to_nat (total_size (m_disk m1)))) m1 a1 I1 C1) as R2.
  destruct (main_loop St test (S (Z.to_nat (total_size (m_disk m1)))) rc (total_size (m_disk m)) main m1 a1) as [[m2 e2] a2].
  destruct R2 as (I2 & C2). destruct e2; auto.
  pose proof (run_list_inv rc last m2 a2 N3 I2 C2) as R3.
  destruct (run_list St test rc last m2 a2) as [[m3 e3] a3]. tauto.
Qed.
End I.

(* the scripted passes of the DSL keep the promise about new() *)
From CV Require Import Driver.Script.
Lemma sp_pass_new_sane (sp:spass) : new_sane nat (sp_pass sp).
Proof.
  unfold new_sane, sp_pass; simpl. intros sane c c1 st H.
  destruct (sp_new sp) as [c'|]; [destruct (sane c') eqn:E|]; inversion H; subst; auto.
Qed.
