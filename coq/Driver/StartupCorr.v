From Coq Require Import List String ZArith Bool.
Import ListNotations.
From CV Require Import Base.Corr Driver.Startup.
(* error kind and index of the offending test case (or -1) *)
Fixpoint index_of (n:string) (l:list tcenv) (k:Z) : Z :=
  match l with [] => (-1)%Z | t :: r => if String.eqb (t_name t) n then k else index_of n r (k + 1)%Z end.
Definition run_startup (e:senv) : list Z :=
  match startup e with
  | None => [0%Z]
  | Some (InvalidTestCase n a) => [1%Z; match a with F_OK => 0 | R_OK => 4 | W_OK => 2 end; index_of n (e_tcs e) 0]%Z
  | Some (AbsolutePathTestCase n) => [2%Z; index_of n (e_tcs e) 0%Z]
  | Some InvalidInterestingnessTest => [3%Z]
  | Some InsaneTestCase => [4%Z]
  end.
