(* Scripted passes and tests: a tiny DSL whose Python twin (tools/vlib/scriptpass.py) is run
   by the real TestManager.  Theorems quantify over ALL pass functions; the DSL only
   instantiates them so that model and implementation can be run on the same scenarios. *)
From Coq Require Import List Arith Bool ZArith NArith Lia.
Import ListNotations.
From CV Require Import Base.Corr Driver.Round Driver.Outcome Driver.RunPass.

Inductive op :=
| Del (i:nat)          (* delete the byte at i; INVALID when out of range *)
| Dup (i:nat)          (* duplicate the byte at i (grows) *)
| Swap (i:nat)         (* swap bytes i, i+1 (size-neutral) *)
| DelCh (ch:N)         (* delete the first occurrence of ch; INVALID when absent *)
| SetTo (c:content)    (* replace the whole file *)
| Same                 (* report OK without changing the file *)
| Inval | Stop_ | Err | Raise_.

Record spass := mksp {
  sp_key : N; sp_maxt : nat; sp_ops : list op;
  sp_aos : nat;                      (* advance_on_success: 0 stay, 1 next, 2 restart at 0 *)
  sp_new : option content            (* new() tries to rewrite the file to this (kept only if sane) *)
}.

Fixpoint del_at (i:nat) (c:content) : option content :=
  match c, i with
  | [], _ => None
  | _ :: t, 0 => Some t
  | h :: t, S i' => option_map (cons h) (del_at i' t)
  end.
Fixpoint dup_at (i:nat) (c:content) : option content :=
  match c, i with
  | [], _ => None
  | h :: t, 0 => Some (h :: h :: t)
  | h :: t, S i' => option_map (cons h) (dup_at i' t)
  end.
Fixpoint swap_at (i:nat) (c:content) : option content :=
  match c, i with
  | a :: b :: t, 0 => Some (b :: a :: t)
  | h :: t, S i' => option_map (cons h) (swap_at i' t)
  | _, _ => None
  end.
Fixpoint del_ch (ch:N) (c:content) : option content :=
  match c with
  | [] => None
  | h :: t => if N.eqb h ch then Some t else option_map (cons h) (del_ch ch t)
  end.

Definition apply_op (o:op) (c:content) : pres * content :=
  let lift (r:option content) := match r with Some c' => (OK, c') | None => (INVALID, c) end in
  match o with
  | Del i => lift (del_at i c)
  | Dup i => lift (dup_at i c)
  | Swap i => lift (swap_at i c)
  | DelCh ch => lift (del_ch ch c)
  | SetTo c' => (OK, c')
  | Same => (OK, c)
  | Inval => (INVALID, c)
  | Stop_ => (STOP, c)
  | Err => (ERROR, c)
  | Raise_ => (EXC, c)
  end.

Definition sp_pass (sp:spass) : pass nat :=
  let n := length (sp_ops sp) in
  mkpass nat (sp_key sp) (sp_maxt sp)
    (fun sane c =>
       let c1 := match sp_new sp with Some c' => if sane c' then c' else c | None => c end in
       (c1, if Nat.eqb n 0 then None else Some 0))
    (fun _ k => if S k <? n then Some (S k) else None)
    (fun _ k => match sp_aos sp with
                | 0 => Some k
                | 1 => if S k <? n then Some (S k) else None
                | _ => Some 0 end)
    (fun c k => let '(r, c') := apply_op (nth k (sp_ops sp) Inval) c in (r, c', k)).

(* test DSL: first rule all of whose atoms hold decides; default exit 1 *)
Inductive atom := Has (f:nat) (ch:N) | NotHas (f:nat) (ch:N) | LenGe (f n:nat) | LenLt (f n:nat).
Definition holds (d:disk) (a:atom) : bool :=
  match a with
  | Has f ch => existsb (N.eqb ch) (getf d f)
  | NotHas f ch => negb (existsb (N.eqb ch) (getf d f))
  | LenGe f n => n <=? length (getf d f)
  | LenLt f n => length (getf d f) <? n
  end.
Fixpoint run_rules (rules:list (list atom * tout)) (d:disk) : tout :=
  match rules with
  | [] => Exit 1
  | (atoms, o) :: t => if forallb (holds d) atoms then o else run_rules t d
  end.

(* ---- encoders for the correspondence check ---- *)
Definition enc_content (c:content) : list Z := Z.of_nat (length c) :: map Z.of_N c.
Definition enc_disk (d:disk) : list Z := Z.of_nat (length d) :: flat_map enc_content d.
Definition enc_exit (e:fexit) : Z :=
  match e with FNormal => 0 | FPassBug => 1 | FAssert => 2 | FZero => 3 | FInsane => 4 | FFuel => (-99) end%Z.

Record scenario := mksc {
  sc_rc : rcfg; sc_rules : list (list atom * tout);
  sc_first : list spass; sc_main : list spass; sc_last : list spass;
  sc_disk : disk; sc_sch : sched; sc_bug : nat; sc_extra : nat; sc_start : option N
}.

(* run a list of passes one by one (as CVise._run_additional_passes), reporting per pass *)
Fixpoint run_each (rc:rcfg) (test:disk -> tout) (ps:list spass) (m:mst) : list Z :=
  match ps with
  | [] => []
  | sp :: t =>
    let r := run_pass nat test rc (sp_pass sp) m in
    ([enc_exit (pr_exit r); zn (pr_worked r); zn (pr_failed r); zn (pr_exec r);
      zn (x_bugdirs (m_x (pr_m r))); zn (x_extradirs (m_x (pr_m r)))]
     ++ enc_disk (m_disk (pr_m r)) ++ (zn (length (pr_acc r)) :: flat_map enc_disk (pr_acc r)))
    ++ match pr_exit r with FNormal => run_each rc test t (pr_m r) | _ => [] end
  end.
Definition sc_run_each (s:scenario) : list Z :=
  run_each (sc_rc s) (run_rules (sc_rules s)) (sc_main s)
           (mkm (sc_disk s) [] (xinit (sc_bug s) (sc_extra s)) (sc_sch s) (sc_start s)).

Definition sc_reduce (s:scenario) : list Z :=
  let '(m, e, acc) := reduce nat (run_rules (sc_rules s)) (sc_rc s)
        (map sp_pass (sc_first s)) (map sp_pass (sc_main s)) (map sp_pass (sc_last s))
        (mkm (sc_disk s) [] (xinit (sc_bug s) (sc_extra s)) (sc_sch s) (sc_start s)) in
  [enc_exit e; zn (x_bugdirs (m_x m)); zn (x_extradirs (m_x m))] ++ enc_disk (m_disk m)
  ++ (zn (length acc) :: flat_map enc_disk acc).
