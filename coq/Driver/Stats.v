(* PassStatistic.start/stop bracketing each pass run with a monotone clock
   (cvise/utils/statistics.py:19-33, testing.py:548,624): attributed time is non-negative and
   does not exceed the elapsed time. *)
From Coq Require Import List ZArith Lia.
Import ListNotations.
Local Open Scope Z_scope.

(* the (start, stop) readings of the successive pass runs, in program order *)
Fixpoint mono (lo:Z) (l:list (Z*Z)) : Prop :=
  match l with
  | [] => True
  | (s, e) :: t => lo <= s /\ s <= e /\ mono e t
  end.
Fixpoint total (l:list (Z*Z)) : Z :=
  match l with [] => 0 | (s, e) :: t => (e - s) + total t end.
Fixpoint last_stop (lo:Z) (l:list (Z*Z)) : Z :=
  match l with [] => lo | (_, e) :: t => last_stop e t end.

Lemma total_bounds : forall l lo, mono lo l -> 0 <= total l /\ total l <= last_stop lo l - lo /\ lo <= last_stop lo l.
Proof.
  induction l as [|[s e] t IH]; intros lo H; simpl in *; [lia|].
  destruct H as (H1 & H2 & H3). destruct (IH e H3) as (A & B & C). lia.
Qed.
(* per-pass attribution: every single interval is non-negative *)
Lemma each_nonneg : forall l lo, mono lo l -> Forall (fun se => 0 <= snd se - fst se) l.
Proof.
  induction l as [|[s e] t IH]; intros lo H; simpl in *; constructor.
  - simpl. lia.
  - destruct H as (_ & _ & H3). eapply IH; eauto.
Qed.
