(* Model M6c: TestManager.run_pass and CVise.reduce (cvise/utils/testing.py:528-657,
   cvise/cvise.py:145-212) over abstract passes and an abstract interestingness test.
   No proofs in this file. *)
From Coq Require Import List Arith Bool ZArith NArith Lia.
Import ListNotations.
From CV Require Import Driver.Round Driver.Outcome.

Definition content := list N.                     (* bytes of one test case *)
Definition disk := list content.                  (* the k test cases, fixed order *)
Definition size (c:content) : Z := Z.of_nat (length c).
Fixpoint upd {A} (l:list A) (i:nat) (v:A) : list A :=
  match l, i with
  | [], _ => []
  | _ :: t, 0 => v :: t
  | h :: t, S i' => h :: upd t i' v
  end.
Definition getf (d:disk) (f:nat) : content := nth f d [].
Definition total_size (d:disk) : Z := fold_right (fun c a => (size c + a)%Z) 0%Z d.

Fixpoint content_eqb (a b:content) : bool :=
  match a, b with
  | [], [] => true
  | x :: a', y :: b' => N.eqb x y && content_eqb a' b'
  | _, _ => false
  end.
Fixpoint disk_eqb (a b:disk) : bool :=
  match a, b with
  | [], [] => true
  | x :: a', y :: b' => content_eqb x y && disk_eqb a' b'
  | _, _ => false
  end.

Section Driver.
Variable St : Type.                               (* pass cursors *)

(* the pass interface (cvise/passes/abstract.py AbstractPass) *)
Record pass := mkpass {
  p_key : N;                                      (* repr(pass): class, arg, max_transforms *)
  p_maxt : nat;                                   (* max_transforms; 0 = None (falsy) *)
  p_new : (content -> bool) -> content -> content * option St;
         (* new(test_case, check_sanity): may rewrite the file in place (LinesPass) *)
  p_adv : content -> St -> option St;
  p_aos : content -> St -> option St;             (* advance_on_success(candidate, state of env) *)
  p_trans : content -> St -> pres * content * St
}.

Variable test : disk -> tout.                     (* the interestingness test: deterministic *)
Definition interesting (d:disk) : bool := match test d with Exit z => Z.eqb z 0 | _ => false end.

Record rcfg := mkrcfg {
  r_g : cfg;
  r_no_cache : bool;
  r_skipn : nat;                                  (* skip_after_n_transforms; 0/None = off *)
  r_save_temps : bool;
  r_thr_num : Z; r_thr_den : Z;                   (* stopping_threshold as a fraction (default 1/1) *)
  r_fuel : nat                                    (* bound on candidates per round / rounds per file in the model *)
}.

(* enumeration of one round: states reachable by advance from s on the unchanged file *)
Fixpoint chain (p:pass) (fuel:nat) (c:content) (s:St) : list St * bool :=   (* bool: complete *)
  match fuel with
  | 0 => ([], false)
  | S f => match p_adv p c s with
           | None => ([s], true)
           | Some s' => let '(l, b) := chain p f c s' in (s :: l, b)
           end
  end.

Definition is_timeout (o:tout) := match o with Timeout => true | _ => false end.
Definition exit_of (o:tout) : Z := match o with Exit z => z | _ => 0%Z end.
Definition is_norun (o:tout) := match o with NoRun => true | _ => false end.

(* one candidate: transform on a private copy of the current set, then the test on that set *)
Definition eval (p:pass) (d:disk) (f:nat) (s:St) : cand * content * St :=
  let c := getf d f in
  let '(res, c', s') := p_trans p c s in
  let out := match res with OK => test (upd d f c') | _ => Exit 0 end in
  (mkc res (exit_of out) (is_timeout out) (negb (content_eqb c c')) (size c - size c') (is_norun out), c', s').

Inductive fexit := FNormal | FPassBug | FAssert | FZero | FInsane | FFuel.

Record fres := mkfres {
  f_disk : disk;
  f_x : xst;
  f_worked : nat;
  f_exec : nat;
  f_sch : sched;
  f_exit : fexit;
  f_acc : list disk               (* ghost: the joint contents after every accepted step *)
}.

Definition reset_round (x:xst) : xst := mkx (x_failed x) (x_bugdirs x) (x_extradirs x) 0 false.
Definition MAXINC : Z := 3.

(* the while-loop of run_pass for one test case *)
Fixpoint rounds (fuel:nat) (rc:rcfg) (p:pass) (f:nat) (d:disk) (s:St) (start:Z) (succ:nat)
                (x:xst) (worked exec:nat) (sch:sched) (acc:list disk) : fres :=
  match fuel with
  | 0 => mkfres d x worked exec sch FFuel acc
  | S fu =>
    let c := getf d f in
    let '(sts, complete) := chain p (r_fuel rc) c s in
    let evs := map (eval p d f) sts in
    let cands := map (fun e => fst (fst e)) evs in
    let r := cround (r_g rc) cands sch (reset_round x) in
    let exec' := exec + r_sched _ r in
    if negb complete && Nat.eqb (r_sched _ r) (length sts) then mkfres d (r_x _ r) worked exec' (r_sch _ r) FFuel acc
    else if r_raised _ r then mkfres d (r_x _ r) worked exec' (r_sch _ r) FPassBug acc
    else match r_win _ r with
    | None => mkfres d (r_x _ r) worked exec' (r_sch _ r) FNormal acc
    | Some w =>
      match nth_error evs w with
      | None => mkfres d (r_x _ r) worked exec' (r_sch _ r) FAssert acc     (* unreachable: winner is a candidate *)
      | Some (_, c', s') =>
        let d' := upd d f c' in
        let st' := p_aos p c' s' in
        let succ' := S succ in
        let acc' := acc ++ [d'] in
        if Z.leb (MAXINC * start) (size c') then mkfres d' (r_x _ r) (S worked) exec' (r_sch _ r) FNormal acc'
        else if (negb (Nat.eqb (r_skipn rc) 0) && (r_skipn rc <=? succ'))
                || (negb (Nat.eqb (p_maxt p) 0) && (p_maxt p <=? succ'))
        then mkfres d' (r_x _ r) (S worked) exec' (r_sch _ r) FNormal acc'
        else match st' with
             | None => mkfres d' (r_x _ r) (S worked) exec' (r_sch _ r) FNormal acc'
             | Some s'' => rounds fu rc p f d' s'' start succ' (r_x _ r) (S worked) exec' (r_sch _ r) acc'
             end
      end
    end
  end.

(* the pass cache, keyed (after the fix of F1) on pass, file and the JOINT contents *)
Definition centry := (N * nat * disk * content)%type.
Fixpoint cache_find (k:N) (f:nat) (d:disk) (c:list centry) : option content :=
  match c with
  | [] => None
  | (k', f', d', a) :: t => if N.eqb k k' && Nat.eqb f f' && disk_eqb d d' then Some a else cache_find k f d t
  end.

Record mst := mkm {
  m_disk : disk;
  m_cache : list centry;
  m_x : xst;                       (* bug / extra directory counts persist across passes *)
  m_sch : sched;
  m_start : option N               (* --start-with-pass: key of the pass that opens the gate *)
}.

Record pres_run := mkpr {
  pr_m : mst;
  pr_worked : nat; pr_failed : nat; pr_exec : nat;
  pr_exit : fexit;
  pr_acc : list disk
}.

(* for test_case in sorted_test_cases: ... *)
Fixpoint files (rc:rcfg) (p:pass) (order:list nat) (d:disk) (cache:list centry) (x:xst)
               (worked exec:nat) (sch:sched) (acc:list disk) : disk * list centry * fres :=
  match order with
  | [] => (d, cache, mkfres d x worked exec sch FNormal acc)
  | f :: rest =>
    let c := getf d f in
    if Z.eqb (size c) 0 then files rc p rest d cache x worked exec sch acc
    else
      match (if r_no_cache rc then None else cache_find (p_key p) f d cache) with
      | Some a => let d' := upd d f a in files rc p rest d' cache x worked exec sch acc
      | None =>
        let '(c1, st0) := p_new p (fun c' => interesting (upd d f c')) c in
        let d1 := upd d f c1 in
        let r := match st0 with
                 | None => mkfres d1 x worked exec sch FNormal acc
                 | Some s => rounds (r_fuel rc) rc p f d1 s (size c) 0 x worked exec sch acc
                 end in
        match f_exit r with
        | FNormal =>
          let cache' := if r_no_cache rc then cache else (p_key p, f, d, getf (f_disk r) f) :: cache in
          files rc p rest (f_disk r) cache' (f_x r) (f_worked r) (f_exec r) (f_sch r) (f_acc r)
        | _ => (f_disk r, cache, r)
        end
      end
  end.

(* sorted_test_cases: stable sort by size, descending *)
Fixpoint ins_desc (d:disk) (f:nat) (l:list nat) : list nat :=
  match l with
  | [] => [f]
  | g :: t => if Z.ltb (size (getf d g)) (size (getf d f)) then f :: l else g :: ins_desc d f t
  end.
Definition sorted_files (d:disk) : list nat :=
  fold_left (fun acc f => ins_desc d f acc) (seq 0 (length d)) [].

Definition run_pass_open (rc:rcfg) (p:pass) (m:mst) : pres_run :=
  let d := m_disk m in
  if Z.eqb (total_size d) 0 then mkpr m 0 0 0 FZero []
  else
    let x0 := m_x m in
    let '(d', cache', r) := files rc p (sorted_files d) d (m_cache m) x0 0 0 (m_sch m) [] in
    mkpr (mkm d' cache' (f_x r) (f_sch r) None) (f_worked r) (x_failed (f_x r) - x_failed x0) (f_exec r) (f_exit r) (f_acc r).

(* the start_with_pass gate: earlier passes return at once; the named pass opens the gate *)
Definition run_pass (rc:rcfg) (p:pass) (m:mst) : pres_run :=
  match m_start m with
  | Some k => if N.eqb k (p_key p)
              then run_pass_open rc p (mkm (m_disk m) (m_cache m) (m_x m) (m_sch m) None)
              else mkpr m 0 0 0 FNormal []
  | None => run_pass_open rc p m
  end.

(* CVise.reduce: sanity check, first / main (while size decreases) / last *)
Fixpoint run_list (rc:rcfg) (ps:list pass) (m:mst) (acc:list disk) : mst * fexit * list disk :=
  match ps with
  | [] => (m, FNormal, acc)
  | p :: t => let r := run_pass rc p m in
              match pr_exit r with
              | FNormal => run_list rc t (pr_m r) (acc ++ pr_acc r)
              | e => (pr_m r, e, acc ++ pr_acc r)
              end
  end.

(* improvement = (orig - total) / orig >= stopping_threshold, evaluated with the size at the
   start of the iteration (cvise/cvise.py:188-203) *)
Definition threshold_met (rc:rcfg) (orig total:Z) : bool :=
  Z.leb (r_thr_num rc * orig) ((orig - total) * r_thr_den rc).

Fixpoint main_loop (fuel:nat) (rc:rcfg) (orig:Z) (ps:list pass) (m:mst) (acc:list disk) : mst * fexit * list disk :=
  match fuel with
  | 0 => (m, FFuel, acc)
  | S fu =>
    let total := total_size (m_disk m) in
    if threshold_met rc orig total && negb (match ps with [] => true | _ => false end) then (m, FNormal, acc)
    else
    let '(m', e, acc') := run_list rc ps m acc in
    match e with
    | FNormal => if Z.leb total (total_size (m_disk m')) then (m', FNormal, acc')
                 else main_loop fu rc orig ps m' acc'
    | _ => (m', e, acc')
    end
  end.

Definition reduce (rc:rcfg) (first main last:list pass) (m:mst) : mst * fexit * list disk :=
  if negb (interesting (m_disk m)) then (m, FInsane, [])
  else
    let '(m1, e1, a1) := run_list rc first m [] in
    match e1 with
    | FNormal =>
      let '(m2, e2, a2) := main_loop (S (Z.to_nat (total_size (m_disk m1)))) rc (total_size (m_disk m)) main m1 a1 in
      match e2 with
      | FNormal => run_list rc last m2 a2
      | _ => (m2, e2, a2)
      end
    | _ => (m1, e1, a1)
    end.
End Driver.
