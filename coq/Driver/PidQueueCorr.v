(* correspondence function for kill_pid_queue: the set of pids to kill, sorted *)
From Coq Require Import List Arith ZArith.
Import ListNotations.
From CV Require Import Base.Corr Driver.PidQueue.
Fixpoint insert_sorted (x:nat) (l:list nat) : list nat :=
  match l with [] => [x] | y :: t => if x <=? y then x :: l else y :: insert_sorted x t end.
Definition pidq_case (evs:list pev) : list Z := map Z.of_nat (fold_right insert_sorted [] (active_pids evs)).
