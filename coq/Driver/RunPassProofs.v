(* Lifting the round theorems to the per-file loop of run_pass: the accepted sequence and
   the final file do not depend on N nor on the schedule (C02), and only interesting joint
   contents are ever committed (C01). *)
From Coq Require Import List Arith Bool ZArith NArith Lia.
Import ListNotations.
From CV Require Import Driver.Round Driver.RoundProofs Driver.Outcome Driver.OutcomeProofs Driver.RunPass.

Local Arguments Z.mul : simpl never.
Local Arguments Z.leb : simpl never.
Local Arguments MAXINC : simpl never.
Section L.
Variable St : Type.
Variable test : disk -> tout.
Notation pass := (pass St).
Notation eval := (eval St test).
Notation rounds := (rounds St test).

Definition cands_of (rc:rcfg) (p:pass) (d:disk) (f:nat) (s:St) : list cand :=
  map (fun e => fst (fst e)) (map (eval p d f) (fst (chain St p (r_fuel rc) (getf d f) s))).

(* the reference: the first ACCEPT-class candidate of the enumeration wins *)
Fixpoint rounds_spec (fuel:nat) (rc:rcfg) (p:pass) (f:nat) (d:disk) (s:St) (start:Z) (succ:nat)
         (worked:nat) (acc:list disk) : disk * nat * list disk * fexit :=
  match fuel with
  | 0 => (d, worked, acc, FFuel)
  | S fu =>
    let sts := fst (chain St p (r_fuel rc) (getf d f) s) in
    let evs := map (eval p d f) sts in
    let cands := map (fun e => fst (fst e)) evs in
    match find (isA (r_g rc) cands) (seq 0 (length cands)) with
    | None => (d, worked, acc, FNormal)
    | Some w =>
      match nth_error evs w with
      | None => (d, worked, acc, FAssert)
      | Some (_, c', s') =>
        let d' := upd d f c' in
        let acc' := acc ++ [d'] in
        if Z.leb (MAXINC * start) (size c') then (d', S worked, acc', FNormal)
        else if (negb (Nat.eqb (r_skipn rc) 0) && (r_skipn rc <=? S succ))
                || (negb (Nat.eqb (p_maxt St p) 0) && (p_maxt St p <=? S succ))
        then (d', S worked, acc', FNormal)
        else match p_aos St p c' s' with
             | None => (d', S worked, acc', FNormal)
             | Some s'' => rounds_spec fu rc p f d' s'' start (S succ) (S worked) acc'
             end
      end
    end
  end.

Lemma find_seq_FirstA (isA:nat -> bool) m : FirstA m isA (find isA (seq 0 m)).
Proof.
  assert (G : forall n a, (forall i, i < a -> isA i = false) ->
              match find isA (seq a n) with
              | Some w => w < a + n /\ isA w = true /\ forall i, i < w -> isA i = false
              | None => forall i, i < a + n -> isA i = false end).
  { induction n as [|n IH]; intros a Hlo; simpl.
    - intros i Hi. apply Hlo. lia.
    - destruct (isA a) eqn:A.
      + split; [lia|]. split; auto.
      + specialize (IH (S a)). 
        assert (Hlo' : forall i, i < S a -> isA i = false).
        { intros i Hi. destruct (Nat.eq_dec i a) as [->|]; auto. apply Hlo. lia. }
        specialize (IH Hlo'). destruct (find isA (seq (S a) n)).
        * destruct IH as (P1 & P2 & P3). split; [lia|auto].
        * intros i Hi. apply IH. lia. }
  specialize (G m 0 ltac:(intros; lia)). unfold FirstA. destruct (find isA (seq 0 m)); simpl in *; auto.
Qed.

Theorem rounds_sched_indep (rc:rcfg) (p:pass) (f:nat) :
  g_die (r_g rc) = false ->
  (forall c s, snd (chain St p (r_fuel rc) c s) = true) ->
  (forall d s, contract (length (cands_of rc p d f s)) (isA (r_g rc) (cands_of rc p d f s))
                        (mayQ (r_g rc) (cands_of rc p d f s))) ->
  forall fuel d s start succ x worked exec sch acc,
  let r := rounds fuel rc p f d s start succ x worked exec sch acc in
  (f_disk r, f_worked r, f_acc r, f_exit r) = rounds_spec fuel rc p f d s start succ worked acc.
Proof.
  intros D CH HC. induction fuel as [|fuel IH]; intros d s start succ x worked exec sch acc; simpl; auto.
  pose proof (CH (getf d f) s) as CC. specialize (HC d s). unfold cands_of in HC.
  destruct (chain St p (r_fuel rc) (getf d f) s) as [sts complete] eqn:E. simpl in CC, HC. subst complete.
  simpl.
  set (evs := map (eval p d f) sts) in *.
  set (cands := map (fun e => fst (fst e)) evs) in *.
  assert (NE : cands <> []).
  { unfold cands, evs. destruct sts; [|simpl; congruence].
    exfalso. destruct (r_fuel rc); simpl in E; [inversion E|].
    destruct (p_adv St p (getf d f) s); [destruct (chain St p n (getf d f) s0)|]; inversion E. }
  destruct (cround_eq_seq (r_g rc) cands sch (reset_round x) NE D HC) as (_ & FA & NR & _).
  rewrite NR.
  pose proof (FirstA_unique _ _ _ _ FA (find_seq_FirstA (isA (r_g rc) cands) (length cands))) as EQ.
  rewrite EQ. destruct (find (isA (r_g rc) cands) (seq 0 (length cands))) as [w|]; auto.
  destruct (nth_error evs w) as [[[cd c'] s']|]; auto.
  destruct (Z.leb (MAXINC * start) (size c')); auto.
  destruct ((negb (Nat.eqb (r_skipn rc) 0) && (r_skipn rc <=? S succ))
            || (negb (Nat.eqb (p_maxt St p) 0) && (p_maxt St p <=? S succ))); auto.
  destruct (p_aos St p c' s'); auto.
Qed.

(* ---------------- C01: every committed joint content is interesting ---------------- *)
Definition interesting_d (d:disk) : bool := interesting test d.

Lemma eval_win_interesting (rc:rcfg) (p:pass) (d:disk) (f:nat) sts sch x w cd c' s' :
  let evs := map (eval p d f) sts in
  let cands := map (fun e => fst (fst e)) evs in
  r_win _ (cround (r_g rc) cands sch x) = Some w ->
  nth_error evs w = Some (cd, c', s') ->
  interesting_d (upd d f c') = true.
Proof.
  intros evs cands W NTH.
  apply cround_win_success in W. destruct W as (R & Ex & T & _ & _ & NRn).
  assert (CA : cand_at cands w = cd).
  { unfold cand_at, cands. apply nth_error_nth.
    rewrite nth_error_map, NTH. reflexivity. }
  rewrite CA in *.
  unfold evs in NTH. rewrite nth_error_map in NTH.
  destruct (nth_error sts w) as [s|]; simpl in NTH; [|discriminate].
  unfold RunPass.eval in NTH. destruct (p_trans St p (getf d f) s) as [[res c1] s1].
  inversion NTH; subst; clear NTH.
  match goal with H : _ = cand_at cands w |- _ => rewrite <- H in * end. simpl in *. subst res.
  unfold interesting_d, interesting. destruct (test (upd d f c')); simpl in *; try discriminate.
  subst. reflexivity.
Qed.

Theorem rounds_all_interesting (rc:rcfg) (p:pass) (f:nat) :
  forall fuel d s start succ x worked exec sch acc,
  let r := rounds fuel rc p f d s start succ x worked exec sch acc in
  Forall (fun d' => interesting_d d' = true) acc ->
  Forall (fun d' => interesting_d d' = true) (f_acc r) /\
  (f_disk r = d \/ interesting_d (f_disk r) = true).
Proof.
  induction fuel as [|fuel IH]; intros d s start succ x worked exec sch acc; simpl; intros HA; auto.
  destruct (chain St p (r_fuel rc) (getf d f) s) as [sts complete].
  set (evs := map (eval p d f) sts).
  set (cands := map (fun e => fst (fst e)) evs).
  set (r := cround (r_g rc) cands sch (reset_round x)).
  destruct (negb complete && Nat.eqb (r_sched _ r) (length sts)); simpl; auto.
  destruct (r_raised _ r); simpl; auto.
  destruct (r_win _ r) as [w|] eqn:W; simpl; auto.
  destruct (nth_error evs w) as [[[cd c'] s']|] eqn:NTH; simpl; auto.
  pose proof (eval_win_interesting rc p d f sts sch (reset_round x) w cd c' s' W NTH) as INT.
  assert (HA' : Forall (fun d' => interesting_d d' = true) (acc ++ [upd d f c'])).
  { apply Forall_app; split; auto. }
  destruct (Z.leb (MAXINC * start) (size c')); simpl; auto.
  destruct ((negb (Nat.eqb (r_skipn rc) 0) && (r_skipn rc <=? S succ))
            || (negb (Nat.eqb (p_maxt St p) 0) && (p_maxt St p <=? S succ))); simpl; auto.
  destruct (p_aos St p c' s') as [s''|]; simpl; auto.
  destruct (IH (upd d f c') s'' start (S succ) (r_x _ r) (S worked) (exec + r_sched _ r) (r_sch _ r) _ HA') as (P1 & P2).
  split; auto. destruct P2 as [->|P2]; auto.
Qed.
End L.
