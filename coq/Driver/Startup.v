(* Decision-table model of the start-up validation: TestManager.__init__ (per test case, in the
   order given: exists / readable / writable, not absolute), the interestingness test
   (exists and executable), then CVise.reduce's sanity check — all before backup_test_cases. *)
From Coq Require Import List String Bool ZArith.
Import ListNotations.
Local Open Scope string_scope.

Record tcenv := mktc { t_name : string; t_exists : bool; t_readable : bool; t_writable : bool; t_absolute : bool }.
Record senv := mkse { e_tcs : list tcenv; e_script_exists : bool; e_script_exec : bool; e_sanity_exit0 : bool }.

Inductive access := F_OK | R_OK | W_OK.
Inductive serr :=
| InvalidTestCase (name:string) (a:access)
| AbsolutePathTestCase (name:string)
| InvalidInterestingnessTest
| InsaneTestCase.

Definition check_tc (t:tcenv) : option serr :=
  if negb (t_exists t) then Some (InvalidTestCase (t_name t) F_OK)
  else if negb (t_readable t) then Some (InvalidTestCase (t_name t) R_OK)
  else if negb (t_writable t) then Some (InvalidTestCase (t_name t) W_OK)
  else if t_absolute t then Some (AbsolutePathTestCase (t_name t))
  else None.

Fixpoint check_tcs (l:list tcenv) : option serr :=
  match l with [] => None | t :: r => match check_tc t with Some e => Some e | None => check_tcs r end end.

(* result: the error, or None when start-up succeeds (backup and passes follow) *)
Definition startup (e:senv) : option serr :=
  match check_tcs (e_tcs e) with
  | Some x => Some x
  | None =>
    if negb (e_script_exists e && e_script_exec e) then Some InvalidInterestingnessTest
    else if negb (e_sanity_exit0 e) then Some InsaneTestCase
    else None
  end.

(* writes to the working directory performed before the verdict: none (the sanity folder is a
   mkdtemp under TMPDIR and is removed) *)
Definition startup_writes (e:senv) : list string := [].

(* rendering: every error message mentions the offending item *)
Definition access_word (a:access) : string := match a with F_OK => "accessed" | R_OK => "read" | W_OK => "written" end.
Definition render (x:serr) (script:string) (names:string) : string :=
  match x with
  | InvalidTestCase n a => "The specified test case '" ++ n ++ "' cannot be " ++ access_word a ++ "!"
  | AbsolutePathTestCase n => "Test case path cannot be absolute: '" ++ n ++ "'!"
  | InvalidInterestingnessTest => "The specified interestingness test '" ++ script ++ "' cannot be executed!"
  | InsaneTestCase => "C-Vise cannot run because the interestingness test does not return zero. [...] cp " ++ names ++ " $DIR [...] " ++ script
  end.

Definition tc_ok (t:tcenv) : bool := t_exists t && t_readable t && t_writable t && negb (t_absolute t).
Definition all_ok (e:senv) : bool :=
  forallb tc_ok (e_tcs e) && e_script_exists e && e_script_exec e && e_sanity_exit0 e.
