From Coq Require Import List String Bool ZArith.
Import ListNotations.
From CV Require Import Driver.Startup.

Lemma check_tc_none t : check_tc t = None <-> tc_ok t = true.
Proof.
  unfold check_tc, tc_ok. destruct (t_exists t), (t_readable t), (t_writable t), (t_absolute t); simpl; split; intros; congruence.
Qed.

Lemma check_tcs_spec l :
  match check_tcs l with
  | None => forallb tc_ok l = true
  | Some err => exists pre t post, l = pre ++ t :: post /\ forallb tc_ok pre = true /\ check_tc t = Some err
  end.
Proof.
  induction l as [|t r IH]; simpl; auto.
  destruct (check_tc t) as [e|] eqn:C.
  - exists [], t, r. simpl. auto.
  - apply check_tc_none in C. rewrite C. simpl. destruct (check_tcs r) as [e|]; auto.
    destruct IH as (pre & t' & post & -> & P & Q). exists (t :: pre), t', post. simpl. rewrite C. auto.
Qed.

(* start-up succeeds iff there is no misuse; otherwise the error is the class of the FIRST
   offending item in the order of validation *)
Theorem startup_ok_iff e : startup e = None <-> all_ok e = true.
Proof.
  unfold startup, all_ok. pose proof (check_tcs_spec (e_tcs e)) as S.
  destruct (check_tcs (e_tcs e)) as [x|].
  - destruct S as (pre & t & post & E & P & Q). split; [discriminate|]. intros H.
    rewrite E in H. rewrite forallb_app in H. simpl in H.
    assert (tc_ok t = false).
    { destruct (tc_ok t) eqn:T; auto. apply check_tc_none in T. congruence. }
    rewrite H0 in H. rewrite !andb_false_r in H. simpl in H. discriminate.
  - rewrite S. simpl. destruct (e_script_exists e), (e_script_exec e), (e_sanity_exit0 e); simpl; split; intros; congruence.
Qed.

Theorem misuse_classified e x : startup e = Some x ->
  match x with
  | InvalidTestCase n a =>
      exists pre t post, e_tcs e = pre ++ t :: post /\ forallb tc_ok pre = true /\ t_name t = n /\
        match a with F_OK => t_exists t = false
                   | R_OK => t_exists t = true /\ t_readable t = false
                   | W_OK => t_exists t = true /\ t_readable t = true /\ t_writable t = false end
  | AbsolutePathTestCase n =>
      exists pre t post, e_tcs e = pre ++ t :: post /\ forallb tc_ok pre = true /\ t_name t = n /\ t_absolute t = true
  | InvalidInterestingnessTest => forallb tc_ok (e_tcs e) = true /\ (e_script_exists e && e_script_exec e) = false
  | InsaneTestCase => forallb tc_ok (e_tcs e) = true /\ (e_script_exists e && e_script_exec e) = true /\ e_sanity_exit0 e = false
  end.
Proof.
  unfold startup. pose proof (check_tcs_spec (e_tcs e)) as S.
  destruct (check_tcs (e_tcs e)) as [y|].
  - intros H. inversion H; subst y; clear H. destruct S as (pre & t & post & E & P & Q).
    unfold check_tc in Q.
    destruct (t_exists t) eqn:A1; simpl in Q; [|inversion Q; subst; exists pre, t, post; auto].
    destruct (t_readable t) eqn:A2; simpl in Q; [|inversion Q; subst; exists pre, t, post; auto].
    destruct (t_writable t) eqn:A3; simpl in Q; [|inversion Q; subst; exists pre, t, post; auto 6].
    destruct (t_absolute t) eqn:A4; simpl in Q; [|discriminate]. inversion Q; subst. exists pre, t, post. auto.
  - destruct (e_script_exists e && e_script_exec e) eqn:SC; simpl.
    + destruct (e_sanity_exit0 e) eqn:SA; simpl; intros H; inversion H; subst. auto.
    + intros H; inversion H; subst. auto.
Qed.

Theorem startup_no_effects e : startup_writes e = [].
Proof. reflexivity. Qed.
