From Coq Require Import List Arith Bool Lia.
Import ListNotations.
From CV Require Import ClangDelta.Skeleton.

(* exec only looks at the oracle below the bound *)
Lemma exec_ext e p n : bounded n p = true -> forall o1 o2 s, (forall k, k < n -> o1 k = o2 k) ->
  exec e o1 p s = exec e o2 p s.
Proof.
  induction p as [|a IHa b IHb|c t IHt f IHf| | | |]; intros B o1 o2 s H; simpl in *;
    destruct (s_returned s) eqn:R; auto.
  - apply andb_true_iff in B. destruct B as (Ba & Bb).
    rewrite (IHa Ba o1 o2 s H). apply IHb; auto.
  - rewrite !andb_true_iff in B. destruct B as ((Bc & Bt) & Bf).
    assert (EC : eval_cond e o1 c s = eval_cond e o2 c s).
    { destruct c as [| | |k]; simpl in *; auto. apply Nat.ltb_lt in Bc. rewrite (H k Bc). reflexivity. }
    rewrite EC. destruct (eval_cond e o2 c s) as [b s']. destruct b; [apply IHt|apply IHf]; auto.
Qed.

(* every oracle agrees below n with one of the enumerated bit lists *)
Lemma all_bits_complete n (o:nat -> bool) : exists l, In l (all_bits n) /\ length l = n /\ forall k, k < n -> orc_of l k = o k.
Proof.
  induction n as [|n IH]; simpl.
  - exists []. repeat split; auto. intros; lia.
  - destruct (IH) as (l & Hin & Hlen & Hk).
    (* the new bit is the LAST index n: build l ++ [o n] ... all_bits conses at the front, so
       instead enumerate with the front bit standing for index 0 of a shifted oracle *)
    clear IH l Hin Hlen Hk.
    revert o. induction n as [|m IHm]; intros o.
    + exists [o 0]. simpl. destruct (o 0) eqn:E; repeat split; auto; intros k Hk; assert (k = 0) by lia; subst; auto.
    + destruct (IHm (fun k => o (S k))) as (l & Hin & Hlen & Hk).
      exists (o 0 :: l). split; [|split].
      * change (all_bits (S (S m))) with (flat_map (fun l => [false :: l; true :: l]) (all_bits (S m))).
        apply in_flat_map. exists l. split; auto. destruct (o 0); simpl; auto.
      * simpl. lia.
      * intros k Hlt. destruct k; simpl; auto. apply Hk. lia.
Qed.

(* Soundness of the checker: for EVERY oracle (every behaviour of the opaque conditions) and
   every environment the protocol holds. *)
Theorem protocol_with_sound want n p : bounded n p = true -> protocol_with want n p = true ->
  forall (e:env) (orc:nat -> bool),
  let r := exec e orc p st0 in
  (e_query e = true -> s_rewrote r = false) /\
  (e_query e = false -> e_warn e = false -> e_oob e = true -> want (s_err r) = true /\ s_rewrote r = false).
Proof.
  intros B OK e orc r. unfold protocol_with in OK. rewrite forallb_forall in OK.
  assert (EIN : In e envs).
  { destruct e as [[] [] []]; simpl; auto 10. }
  specialize (OK e EIN). rewrite forallb_forall in OK.
  destruct (all_bits_complete n orc) as (l & Hin & _ & Hk).
  specialize (OK l Hin).
  assert (EQ : exec e (orc_of l) p st0 = r) by (apply (exec_ext e p n B); auto).
  rewrite EQ in OK. unfold obeys_with in OK. rewrite !andb_true_iff, !orb_true_iff in OK.
  destruct OK as (O1 & O2). split.
  - intros Q. rewrite Q in O1. simpl in O1. destruct O1 as [O1|O1]; [discriminate|].
    apply negb_true_iff in O1. exact O1.
  - intros Q W OOB. rewrite Q, W, OOB in O2. simpl in O2.
    destruct O2 as [[[O2|O2]|O2]|O2]; try discriminate.
    apply andb_true_iff in O2. destruct O2 as (M & NR).
    apply negb_true_iff in NR. split; auto.
Qed.

Theorem query_safe_sound n p : bounded n p = true -> query_safe n p = true ->
  forall (e:env) (orc:nat -> bool), e_query e = true -> s_rewrote (exec e orc p st0) = false.
Proof.
  intros B OK e orc Q. unfold query_safe in OK. rewrite forallb_forall in OK.
  assert (EIN : In e envs).
  { destruct e as [[] [] []]; simpl; auto 10. }
  specialize (OK e EIN). rewrite forallb_forall in OK.
  destruct (all_bits_complete n orc) as (l & Hin & _ & Hk).
  specialize (OK l Hin).
  assert (EQ : exec e (orc_of l) p st0 = exec e orc p st0) by (apply (exec_ext e p n B); auto).
  rewrite EQ, Q in OK. simpl in OK. apply negb_true_iff in OK. exact OK.
Qed.

Theorem oob_strict_sound want n p : bounded n p = true -> oob_strict_with want n p = true ->
  forall (e:env) (orc:nat -> bool), e_query e = false -> e_oob e = true ->
  want (s_err (exec e orc p st0)) = true /\ s_rewrote (exec e orc p st0) = false.
Proof.
  intros B OK e orc Q OOB. unfold oob_strict_with in OK. rewrite forallb_forall in OK.
  assert (EIN : In e envs).
  { destruct e as [[] [] []]; simpl; auto 10. }
  specialize (OK e EIN). rewrite forallb_forall in OK.
  destruct (all_bits_complete n orc) as (l & Hin & _ & Hk).
  specialize (OK l Hin). cbv zeta in OK.
  assert (EQ : exec e (orc_of l) p st0 = exec e orc p st0) by (apply (exec_ext e p n B); auto).
  rewrite EQ, Q, OOB in OK. simpl in OK.
  apply andb_true_iff in OK. destruct OK as (M & NR). apply negb_true_iff in NR. split; assumption.
Qed.
