(* Model of how clang_delta reads --counter= / --to-counter= (ClangDelta.cpp: `int Val; std::stringstream
   TmpSS(ArgValue); if (!(TmpSS >> Val)) Die(...)`): formatted extraction of an int in the "C" locale — leading white
   space skipped, optional sign, a non-empty run of decimal digits, the rest ignored; a value that does not fit an int
   makes the extraction fail (C++11 and later).  Tied on every run to the real ClangDelta.cpp compiled verbatim
   against a stand-in manager (tools/props/c19.py).  Bytes are N, values are Z: nothing wraps in the model. *)
From Coq Require Import List NArith ZArith Bool Lia.
Import ListNotations.
Local Open Scope Z_scope.

Definition is_ws (c:N) : bool := N.eqb c 32 || (N.leb 9 c && N.leb c 13).
Definition digit (c:N) : option Z := if N.leb 48 c && N.leb c 57 then Some (Z.of_N c - 48) else None.

Fixpoint skip_ws (s:list N) : list N :=
  match s with c :: t => if is_ws c then skip_ws t else s | [] => [] end.

(* Horner over the leading digit run: (value, number of digits read) *)
Fixpoint digits (s:list N) (acc:Z) (n:nat) : Z * nat :=
  match s with
  | c :: t => match digit c with Some d => digits t (10 * acc + d) (S n) | None => (acc, n) end
  | [] => (acc, n)
  end.

Definition int_min : Z := - 2 ^ 31.
Definition int_max : Z := 2 ^ 31 - 1.

Definition parse_counter (s:list N) : option Z :=
  let s1 := skip_ws s in
  let '(neg, s2) := match s1 with
                    | c :: t => if N.eqb c 45 then (true, t) else if N.eqb c 43 then (false, t) else (false, s1)
                    | [] => (false, s1)
                    end in
  let '(v, n) := digits s2 0 0 in
  match n with
  | O => None
  | S _ => let v' := if neg then - v else v in
           if (int_min <=? v') && (v' <=? int_max) then Some v' else None
  end.

Definition argv_case (s:list N) : list Z :=
  match parse_counter s with Some v => [1; v] | None => [0] end.

(* ---------- what the argument denotes, stated on its parts ---------- *)
Definition all_digits (ds:list N) : bool := forallb (fun c => match digit c with Some _ => true | None => false end) ds.
Definition all_ws (ws:list N) : bool := forallb is_ws ws.
Fixpoint dec (ds:list N) (acc:Z) : Z :=
  match ds with c :: t => dec t (10 * acc + match digit c with Some d => d | None => 0 end) | [] => acc end.
Definition no_digit_first (rest:list N) : bool := match rest with c :: _ => match digit c with Some _ => false | None => true end | [] => true end.
Inductive sign := SNone | SPlus | SMinus.
Definition sign_bytes (g:sign) : list N := match g with SNone => [] | SPlus => [43%N] | SMinus => [45%N] end.
Definition signed (g:sign) (v:Z) : Z := match g with SMinus => - v | _ => v end.

Lemma digits_app : forall ds rest acc n, all_digits ds = true -> no_digit_first rest = true ->
  digits (ds ++ rest) acc n = (dec ds acc, (n + length ds)%nat).
Proof.
  induction ds as [|c t IH]; intros rest acc n A R; simpl.
  - rewrite Nat.add_0_r. destruct rest as [|c r]; simpl; [reflexivity|].
    simpl in R. destruct (digit c); [discriminate|reflexivity].
  - simpl in A. destruct (digit c) as [d|] eqn:D; [|discriminate].
    rewrite (IH rest _ _ A R). f_equal. lia.
Qed.

Lemma skip_ws_app : forall ws s, all_ws ws = true -> (match s with c :: _ => is_ws c = false | [] => True end) ->
  skip_ws (ws ++ s) = s.
Proof.
  induction ws as [|c t IH]; intros s A H; simpl.
  - destruct s as [|c r]; simpl; [reflexivity|]. rewrite H. reflexivity.
  - simpl in A. apply andb_true_iff in A. destruct A as (A1 & A2). rewrite A1. apply IH; assumption.
Qed.

Lemma digit_not_ws c d : digit c = Some d -> is_ws c = false.
Proof.
  unfold digit, is_ws. destruct (N.leb 48 c && N.leb c 57) eqn:E; [|discriminate]. intros _.
  apply andb_true_iff in E. destruct E as (E1 & E2). apply N.leb_le in E1. apply N.leb_le in E2.
  apply orb_false_iff. split.
  - apply N.eqb_neq. lia.
  - apply andb_false_iff. right. apply N.leb_gt. lia.
Qed.

Lemma digit_not_sign c d : digit c = Some d -> c <> 45%N /\ c <> 43%N.
Proof.
  unfold digit. destruct (N.leb 48 c && N.leb c 57) eqn:E; [|discriminate]. intros _.
  apply andb_true_iff in E. destruct E as (E1 & E2). apply N.leb_le in E1. split; lia.
Qed.

(* The argument  blanks sign digits rest  is read as exactly the integer it denotes when that fits an int, and is
   refused otherwise: no value beyond the int range is ever turned into another (small) counter. *)
Theorem parse_counter_exact : forall ws g ds rest,
  all_ws ws = true -> all_digits ds = true -> ds <> [] -> no_digit_first rest = true ->
  parse_counter (ws ++ sign_bytes g ++ ds ++ rest) =
  let v := signed g (dec ds 0) in
  if (int_min <=? v) && (v <=? int_max) then Some v else None.
Proof.
  intros ws g ds rest W D NE R. unfold parse_counter.
  destruct ds as [|c0 dt]; [congruence|].
  assert (D0 : exists d0, digit c0 = Some d0).
  { simpl in D. destruct (digit c0) as [d0|]; [eauto|discriminate]. }
  destruct D0 as (d0 & D0).
  assert (SK : skip_ws (ws ++ sign_bytes g ++ (c0 :: dt) ++ rest) = sign_bytes g ++ (c0 :: dt) ++ rest).
  { apply skip_ws_app; [exact W|]. destruct g; simpl; try reflexivity. eapply digit_not_ws; eauto. }
  rewrite SK. destruct (digit_not_sign _ _ D0) as (N1 & N2).
  destruct g; simpl sign_bytes; cbn [app].
  - (* no sign: the first byte is a digit, not a sign *)
    apply N.eqb_neq in N1. apply N.eqb_neq in N2. rewrite N1, N2.
    pose proof (digits_app (c0 :: dt) rest 0 0 D R) as E. cbn [app] in E. rewrite E. simpl length. simpl signed. reflexivity.
  - change (N.eqb 43 45) with false. change (N.eqb 43 43) with true. cbv iota.
    pose proof (digits_app (c0 :: dt) rest 0 0 D R) as E. cbn [app] in E. rewrite E. simpl length. simpl signed. reflexivity.
  - change (N.eqb 45 45) with true. cbv iota.
    pose proof (digits_app (c0 :: dt) rest 0 0 D R) as E. cbn [app] in E. rewrite E. simpl length. simpl signed. reflexivity.
Qed.

(* ---------- TransformationManager::verify (transformations that use the counter) ---------- *)
(* to-counter = -1 when the option is absent *)
Definition verify_ok (c t:Z) : bool := (0 <? c) && (negb (0 <? t) || (c <=? t)).
Definition verify_case (p:Z * Z) : list Z := [if verify_ok (fst p) (snd p) then 1 else 0].

(* every range a binary-search driver can ask for - a single instance k..k included - is let through, and so is a plain
   counter without a to-counter; a counter below 1 never is *)
Theorem verify_accepts_ranges : forall c t, 1 <= c -> c <= t -> verify_ok c t = true.
Proof. intros c t H1 H2. unfold verify_ok. apply andb_true_iff. split; [apply Z.ltb_lt; lia|]. apply orb_true_iff. right. apply Z.leb_le. exact H2. Qed.
Theorem verify_accepts_plain_counter : forall c, 1 <= c -> verify_ok c (-1) = true.
Proof. intros c H. unfold verify_ok. apply andb_true_iff. split; [apply Z.ltb_lt; lia|reflexivity]. Qed.
Theorem verify_refuses_nonpositive : forall c t, c <= 0 -> verify_ok c t = false.
Proof. intros c t H. unfold verify_ok. apply andb_false_iff. left. apply Z.ltb_ge. exact H. Qed.

(* the whole way from the argument to the transformation: read the number, then the manager's check *)
Definition argv_counter_case (s:list N) : list Z :=
  match parse_counter s with Some v => if verify_ok v (-1) then [1; v] else [0] | None => [0] end.
Definition argv_to_counter_case (s:list N) : list Z :=
  match parse_counter s with Some v => if verify_ok 1 v then [1; v] else [0] | None => [0] end.
