(* Model M11: control-flow skeleton of a clang_delta HandleTranslationUnit, its semantics over
   (query flag, warn flag, "counter exceeds the instances" fact, oracle for opaque conditions),
   and a protocol checker that enumerates the finitely many oracles.  No proofs in this file. *)
From Coq Require Import List Arith Bool.
Import ListNotations.

Inductive cond :=
| CQuery              (* if (QueryInstanceOnly) *)
| CCounterGtValid     (* if (TransformationCounter > ValidInstanceNum) *)
| CNotCheckValid      (* if (!checkCounterValidity()): sets TransMaxInstanceError itself unless warn *)
| COpaque (k:nat).    (* anything else: decided by the oracle *)

Inductive stmt :=
| SSkip
| SSeq (a b:stmt)
| SIf (c:cond) (t e:stmt)
| SReturn
| SSetErr (k:nat)          (* TransError = TransMaxInstanceError (0) / TransInternalError (1) / another error (2) *)
| SSetValid0               (* ValidInstanceNum = 0 *)
| SEffect (rewrite:bool).  (* opaque statement; true = a mutating rewriter call is reachable *)

Record env := mkenv { e_query : bool; e_warn : bool; e_oob : bool (* counter > number of instances *) }.

Inductive errk := ENone | EMax | EInternal | EOther.
Record st := mkst { s_rewrote : bool; s_err : errk; s_returned : bool }.
Definition st0 := mkst false ENone false.

Definition eval_cond (e:env) (orc:nat -> bool) (c:cond) (s:st) : bool * st :=
  match c with
  | CQuery => (e_query e, s)
  | CCounterGtValid => (e_oob e, s)
  | CNotCheckValid =>
      if e_oob e && negb (e_warn e) then (true, mkst (s_rewrote s) EMax (s_returned s)) else (false, s)
  | COpaque k => (orc k, s)
  end.

Fixpoint exec (e:env) (orc:nat -> bool) (p:stmt) (s:st) : st :=
  if s_returned s then s else
  match p with
  | SSkip => s
  | SSeq a b => exec e orc b (exec e orc a s)
  | SIf c t f => let '(b, s') := eval_cond e orc c s in if b then exec e orc t s' else exec e orc f s'
  | SReturn => mkst (s_rewrote s) (s_err s) true
  | SSetErr k => mkst (s_rewrote s) (match k with 0 => EMax | 1 => EInternal | _ => EOther end) (s_returned s)
  | SSetValid0 => s
  | SEffect rw => mkst (s_rewrote s || rw) (s_err s) (s_returned s)
  end.

(* the protocol, for one environment and one oracle *)
Definition is_max (k:errk) := match k with EMax => true | _ => false end.
(* an error that makes the tool exit non-zero without output (everything but "internal error",
   on which it prints the ORIGINAL source and exits 0) *)
Definition is_fatal (k:errk) := match k with EMax | EOther => true | _ => false end.
Definition obeys_with (want:errk -> bool) (e:env) (r:st) : bool :=
  (negb (e_query e) || negb (s_rewrote r)) &&
  (e_query e || e_warn e || negb (e_oob e) || (want (s_err r) && negb (s_rewrote r))).
Definition obeys := obeys_with is_fatal.
Definition obeys_strict := obeys_with is_max.

(* oracles as bit lists *)
Fixpoint all_bits (n:nat) : list (list bool) :=
  match n with 0 => [[]] | S k => flat_map (fun l => [false :: l; true :: l]) (all_bits k) end.
Definition orc_of (l:list bool) (k:nat) : bool := nth k l false.
Definition envs : list env :=
  [mkenv true false false; mkenv true false true; mkenv true true false; mkenv true true true;
   mkenv false false false; mkenv false false true; mkenv false true false; mkenv false true true].

Definition protocol_with (want:errk -> bool) (n:nat) (p:stmt) : bool :=
  forallb (fun e => forallb (fun l => obeys_with want e (exec e (orc_of l) p st0)) (all_bits n)) envs.
Definition protocol_ok := protocol_with is_fatal.
Definition protocol_strict := protocol_with is_max.

(* the out-of-range half WITHOUT the exemption for the warn switch: for transformations that are not documented to
   support --warn-on-counter-out-of-bounds the switch changes nothing *)
Definition oob_strict_with (want:errk -> bool) (n:nat) (p:stmt) : bool :=
  forallb (fun e => forallb (fun l => let r := exec e (orc_of l) p st0 in
                                      e_query e || negb (e_oob e) || (want (s_err r) && negb (s_rewrote r))) (all_bits n)) envs.

(* only the query half: with the query flag no effect statement is executed *)
Definition query_safe (n:nat) (p:stmt) : bool :=
  forallb (fun e => forallb (fun l => negb (e_query e) || negb (s_rewrote (exec e (orc_of l) p st0))) (all_bits n)) envs.

(* opaque indices used by a skeleton are below n *)
Definition cond_bound (n:nat) (c:cond) : bool := match c with COpaque k => k <? n | _ => true end.
Fixpoint bounded (n:nat) (p:stmt) : bool :=
  match p with
  | SSeq a b => bounded n a && bounded n b
  | SIf c t f => cond_bound n c && bounded n t && bounded n f
  | _ => true
  end.
