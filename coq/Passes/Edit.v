(* Text passes as local edits (C07): slicing, whole-line removal, span deletion, one-span
   replacement; and the candidate-producing functions of the text passes built on them.
   text = list N (code points after text-mode decoding).  No proofs in this file. *)
From Coq Require Import List Arith Bool ZArith NArith Lia.
Import ListNotations.
From CV Require Import Matcher.NM Driver.Outcome.

Definition text := list N.
Definition sl (t:text) (a b:nat) : text := firstn (b - a) (skipn a t).     (* t[a:b] *)
Definition edit (t:text) (a b:nat) (r:text) : text := firstn a t ++ r ++ skipn b t.

Fixpoint text_eqb (a b:text) : bool :=
  match a, b with [], [] => true | x :: a', y :: b' => N.eqb x y && text_eqb a' b' | _, _ => false end.

(* ---- readlines(): split after every '\n', keeping the terminators ---- *)
Definition NL : N := 10%N.
Fixpoint lines_acc (t:text) (cur:text) : list text :=
  match t with
  | [] => match cur with [] => [] | _ => [rev cur] end
  | x :: r => if N.eqb x NL then rev (x :: cur) :: lines_acc r [] else lines_acc r (x :: cur)
  end.
Definition lines (t:text) : list text := lines_acc t [].

(* remove the lines whose (0-based) index among the SELECTED lines lies in [i, e) *)
Fixpoint drop_selected (sel:text -> bool) (ls:list text) (k i e:nat) : list text :=
  match ls with
  | [] => []
  | l :: r => if sel l then (if (i <=? k) && (k <? e) then drop_selected sel r (S k) i e
                             else l :: drop_selected sel r (S k) i e)
              else l :: drop_selected sel r k i e
  end.
Definition count_selected (sel:text -> bool) (ls:list text) : nat := length (filter sel ls).

(* LinesPass('None').transform / LineMarkersPass.transform / IncludesPass / BlankPass *)
(* data[0:index] + data[end:] *)
Definition lines_transform (t:text) (i e:nat) : text := concat (firstn i (lines t) ++ skipn e (lines t)).
Definition markers_transform (ismark:text -> bool) (t:text) (i e:nat) : text :=
  concat (drop_selected ismark (lines t) 0 i e).
(* includes: state k (1-based) removes the k-th include line; STOP if there is none *)
Definition includes_transform (isinc:text -> bool) (t:text) (k:nat) : pres * text :=
  if (1 <=? k) && (k <=? count_selected isinc (lines t))
  then (OK, concat (drop_selected isinc (lines t) 0 (k - 1) k)) else (STOP, t).
(* blank: remove all lines matching the state's pattern; advance to the next pattern when
   nothing matched; STOP after the last pattern *)
Definition blank_once (m:text -> bool) (t:text) : option text :=
  if existsb m (lines t) then Some (concat (filter (fun l => negb (m l)) (lines t))) else None.
Definition blank_transform (m0 m1:text -> bool) (t:text) (state:nat) : pres * text * nat :=
  match state with
  | 0 => match blank_once m0 t with
         | Some t' => (OK, t', 1)
         | None => match blank_once m1 t with Some t' => (OK, t', 2) | None => (STOP, t, 2) end
         end
  | 1 => match blank_once m1 t with Some t' => (OK, t', 2) | None => (STOP, t, 2) end
  | _ => (STOP, t, state)
  end.

(* ---- re.sub(pattern, '', t): delete all (leftmost, non-overlapping, in order) match spans ---- *)
Fixpoint delete_spans (t:text) (pos:nat) (spans:list span) : text :=
  match spans with
  | [] => skipn pos t
  | (a, b) :: r => sl t pos a ++ delete_spans t b r
  end.
Fixpoint spans_ok (pos len:nat) (spans:list span) : bool :=
  match spans with
  | [] => true
  | (a, b) :: r => (pos <=? a) && (a <=? b) && (b <=? len) && spans_ok b len r
  end.
(* CommentsPass.transform: state -2 block comments, -1 line comments, then STOP; moves on when the
   substitution changes nothing *)
Definition comments_transform (blockspans linespans:list span) (t:text) (state:Z) : pres * text * Z :=
  let t1 := delete_spans t 0 blockspans in
  let t2 := delete_spans t 0 linespans in
  if Z.eqb state (-2) then
    if negb (text_eqb t1 t) then (OK, t1, state)
    else if negb (text_eqb t2 t) then (OK, t2, (-1)%Z) else (STOP, t, 0%Z)
  else if Z.eqb state (-1) then
    if negb (text_eqb t2 t) then (OK, t2, state) else (STOP, t, 0%Z)
  else (STOP, t, state).

(* ---- balanced: replacement functions per argument ---- *)
Inductive bmode := BAll | BOnly | BInside | BTo (r:text).
Definition balanced_replace (m:bmode) (t:text) (sp:span) : text :=
  let '(a, b) := sp in
  match m with
  | BAll => edit t a b []
  | BOnly => edit t a b (sl t (a + 1) (b - 1))
  | BInside => edit t (a + 1) (b - 1) []
  | BTo r => edit t a b r
  end.

Section Balanced.
Variable rxm : nat -> str -> nat -> option nat.
(* transform: apply the replacement at the current match; while it changes nothing, advance to the
   next match (find from start+1); STOP when there is no further match *)
Fixpoint balanced_transform (fuel:nat) (o c:N) (prefix:option nat) (m:bmode) (t:text) (st:option span) : pres * text * option span :=
  match fuel with
  | 0 => (ERROR, t, st)
  | S f =>
    match st with
    | None => (STOP, t, None)
    | Some sp =>
      let t' := balanced_replace m t sp in
      if negb (text_eqb t t') then (OK, t', Some sp)
      else balanced_transform f o c prefix m t (find rxm o c prefix t (Z.of_nat (fst sp) + 1))
    end
  end.
End Balanced.

(* ---- one-span replacement passes (ints, special, peep, ternary): the candidate is the text with
   one reported span replaced by a string computed from the match ---- *)
Definition span_replace (t:text) (sp:span) (r:text) : text := edit t (fst sp) (snd sp) r.
