(* Correspondence encoders for the text passes. *)
From Coq Require Import List Arith Bool ZArith NArith.
Import ListNotations.
From CV Require Import Base.Corr Matcher.NM Matcher.NMCorr Driver.Outcome Passes.Edit Passes.BalancedComplete.

Definition enc_text (t:text) : list Z := zn (length t) :: map Z.of_N t.
Definition enc_pres (r:pres) : Z := match r with OK => 0 | INVALID => 1 | STOP => 2 | ERROR => 3 | EXC => 4 end%Z.
Definition one_of (ls:list text) (l:text) : bool := existsb (text_eqb l) ls.

Definition run_lines (x:text * nat * nat) : list Z := let '(t, i, e) := x in enc_text (lines_transform t i e).
Definition run_nlines (t:text) : list Z := [zn (length (lines t))].
Definition run_markers (x:text * list text * nat * nat) : list Z :=
  let '(t, marks, i, e) := x in zn (count_selected (one_of marks) (lines t)) :: enc_text (markers_transform (one_of marks) t i e).
Definition run_includes (x:text * list text * nat) : list Z :=
  let '(t, incs, k) := x in let '(r, t') := includes_transform (one_of incs) t k in enc_pres r :: enc_text t'.
Definition run_blank (x:text * list text * list text * nat) : list Z :=
  let '(t, m0, m1, st) := x in let '(r, t', st') := blank_transform (one_of m0) (one_of m1) t st in
  enc_pres r :: zn st' :: enc_text t'.
Definition run_comments (x:text * list span * list span * Z) : list Z :=
  let '(t, bs, ls, st) := x in let '(r, t', st') := comments_transform bs ls t st in
  [enc_pres r; st'] ++ enc_text t' ++ [zb (spans_ok 0 (length t) bs); zb (spans_ok 0 (length t) ls)].
Definition bmode_of (k:nat) (r:text) : bmode := match k with 0 => BAll | 1 => BOnly | 2 => BInside | _ => BTo r end.
Definition run_balanced (x:list (list nat) * (N * N) * option nat * (nat * text) * text * option span) : list Z :=
  let '(tbl, oc, prefix, km, t, st) := x in
  let '(r, t', st') := balanced_transform (table_rxm tbl) (S (length t)) (fst oc) (snd oc) prefix (bmode_of (fst km) (snd km)) t st in
  enc_pres r :: zopt (fun sp => [zn (fst sp); zn (snd sp)]) st' ++ enc_text t'.
(* the whole all-reject run of a balanced pass without prefix: the spans offered, in order (capped) *)
Definition run_balanced_all (x:(N * N) * (nat * text) * text * nat) : list Z :=
  let '(oc, km, t, cap) := x in
  let l := all_rejected (table_rxm []) (fst oc) (snd oc) (bmode_of (fst km) (snd km)) t (S (length t)) (S (length t))
             (find (table_rxm []) (fst oc) (snd oc) None t 0%Z) in
  concat (map (fun st => [zn (fst (fst st)); zn (snd (fst st))]) (firstn cap l)).
Definition run_span_replace (x:text * span * text) : list Z := let '(t, sp, r) := x in enc_text (span_replace t sp r).
