From Coq Require Import List ZArith Bool Arith.
Import ListNotations.
From CV Require Import Base.Corr Cursor.BinaryState Driver.Outcome Passes.ClangBin.
Definition enc_pres (r:pres) : Z := match r with OK => 0 | INVALID => 1 | STOP => 2 | ERROR => 3 | EXC => 4 end%Z.
Definition best_case (counts:list (nat * Z)) : list Z :=
  let '(b, c) := best_std counts in zopt (fun s => [zn s]) b ++ [c].
Definition result_case (t:Z * bool) : list Z :=
  let '(rc, plain) := t in
  if plain then [enc_pres (fst (clang_result rc true false)); zb (snd (clang_result rc true false))]
  else [enc_pres (fst (cbs_result rc true false)); zb (snd (cbs_result rc true false))].
(* the count query failed in one of three ways, or reported n: what count_instances returns, and whether new() yields a cursor *)
Definition query_case (t:Z * Z) : list Z :=
  let q := match fst t with 0%Z => QTimeout | 1%Z => QError | 2%Z => QNoCount | _ => QCount (snd t) end in
  query_count q :: match cbs_new q with None => [0%Z] | Some (i, c, n) => [1%Z; i; c; n] end.
