From Coq Require Import List ZArith Bool Arith.
Import ListNotations.
From CV Require Import Base.Corr Cursor.BinaryState Driver.Outcome Passes.ClangBin.
Definition enc_pres (r:pres) : Z := match r with OK => 0 | INVALID => 1 | STOP => 2 | ERROR => 3 | EXC => 4 end%Z.
Definition best_case (counts:list (nat * Z)) : list Z :=
  let '(b, c) := best_std counts in zopt (fun s => [zn s]) b ++ [c].
Definition result_case (t:Z * bool) : list Z :=
  let '(rc, plain) := t in
  if plain then [enc_pres (fst (clang_result rc true false)); zb (snd (clang_result rc true false))]
  else [enc_pres (fst (cbs_result rc true false)); zb (snd (cbs_result rc true false))].
