(* Proofs about the gcda pass model: the byte-level transform is the record-level cut (for every header, every record
   sizes, every cursor in range), it is strictly shorter, and the restarting driver loop of this pass is exact for
   monotone tests and ends within the fuel for every record list. *)
From Coq Require Import List Arith Bool Lia.
Import ListNotations.
From CV Require Import Cursor.BinaryState Cursor.BinaryProofs Passes.Gcda.

Local Arguments Nat.div : simpl never.
Local Arguments Nat.min : simpl never.
Local Arguments Nat.leb : simpl never.
Local Arguments Nat.ltb : simpl never.

Section P.
Context {B:Type}.
Implicit Types (recs : list (list B)) (hdr : list B).

Lemma offsets_length : forall recs b, length (offsets b recs) = length recs.
Proof. induction recs as [|r t IH]; intros b; simpl; [reflexivity|]. rewrite IH. reflexivity. Qed.

Lemma nth_offsets : forall recs b i, i < length recs ->
  nth i (offsets b recs) 0 = b + length (concat (firstn i recs)).
Proof.
  induction recs as [|r t IH]; intros b i H; simpl in H; [lia|].
  destruct i as [|i]; simpl; [lia|]. rewrite IH by lia. rewrite app_length. lia.
Qed.

Lemma concat_split recs i : concat recs = concat (firstn i recs) ++ concat (skipn i recs).
Proof. rewrite <- concat_app, firstn_skipn. reflexivity. Qed.

Lemma firstn_hdr (h a b:list B) : firstn (length h + length a) (h ++ a ++ b) = h ++ a.
Proof.
  rewrite app_assoc. replace (length h + length a) with (length (h ++ a) + 0) by (rewrite app_length; lia).
  rewrite firstn_app_2. simpl. rewrite app_nil_r. reflexivity.
Qed.
Lemma skipn_hdr (h a b:list B) : skipn (length h + length a) (h ++ a ++ b) = b.
Proof.
  rewrite app_assoc, <- app_length, skipn_app, skipn_all, Nat.sub_diag. reflexivity.
Qed.

Theorem gcda_transform_cut hdr recs s : index s < length recs ->
  gcda_transform (gfile hdr recs) (offsets (length hdr) recs) s = gfile hdr (cut recs (index s) (end_ s)).
Proof.
  intros Hi. unfold gcda_transform, gfile, cut.
  rewrite offsets_length, (nth_offsets recs (length hdr) (index s) Hi).
  rewrite concat_app, app_assoc. f_equal.
  - rewrite (concat_split recs (index s)) at 1. apply firstn_hdr.
  - destruct (end_ s <? length recs) eqn:E.
    + apply Nat.ltb_lt in E. rewrite (nth_offsets recs (length hdr) (end_ s) E).
      rewrite (concat_split recs (end_ s)) at 1. apply skipn_hdr.
    + apply Nat.ltb_ge in E. rewrite (skipn_all2 recs) by lia. reflexivity.
Qed.

Lemma concat_nonempty recs : recs <> [] -> Forall (fun r => r <> []) recs -> 0 < length (concat recs).
Proof.
  destruct recs as [|r t]; [congruence|]. intros _ H. inversion H as [|? ? Hr Ht]; subst.
  simpl. rewrite app_length. destruct r; [congruence|simpl; lia].
Qed.

Theorem gcda_transform_shorter hdr recs s :
  index s < end_ s -> end_ s <= length recs -> Forall (fun r => r <> []) recs ->
  length (gcda_transform (gfile hdr recs) (offsets (length hdr) recs) s) < length (gfile hdr recs).
Proof.
  intros H1 H2 HF. rewrite gcda_transform_cut by lia.
  destruct (split3 recs (index s) (end_ s)) as (E3 & LA & LB); [lia|exact H2|].
  unfold gfile, cut. rewrite E3 at 3. rewrite !app_length, !concat_app, !app_length.
  assert (0 < length (concat (slice recs (index s) (end_ s)))); [|lia].
  apply concat_nonempty.
  - intros E. rewrite E in LB. simpl in LB. lia.
  - rewrite E3 in HF. apply Forall_app in HF. destruct HF as [_ HF]. apply Forall_app in HF. tauto.
Qed.

(* ---------- the restarting loop: exact for monotone tests ---------------------------------- *)
Variable req : list B -> bool.
Definition K (n:nat) := S n * S (S n).

Theorem gcda_loop_exact n : forall fuel k (l:list (list B)) s log,
  WF req l s n -> length l * K n + mu n s < fuel ->
  exists l' log', gcda_loop (ok_mono req) fuel k l s log = Done l' log' /\
                  filter req l' = filter req l /\ forallb req l' = true.
Proof.
  induction fuel as [|fuel IH]; intros k l s log W Hf; [lia|].
  destruct W as ((Wi & Wx & Wc & Wn & Wcn) & Ws).
  destruct s as [i c inst]; simpl in *. subst inst.
  set (e := Nat.min (i + c) (length l)).
  assert (He : i < e /\ e <= length l) by (unfold e; lia).
  destruct (split3 l i e) as (E3 & LA & LB); [lia|lia|].
  set (Apre := firstn i l) in *. set (Bm := slice l i e) in *. set (C := skipn e l) in *.
  unfold ok_mono, end_, cut; simpl. fold e. fold Bm. fold Apre. fold C.
  destruct (forallb (fun x => negb (req x)) Bm) eqn:OK.
  - (* accept: fresh cursor on the remaining records *)
    assert (FL : filter req (Apre ++ C) = filter req l).
    { rewrite E3 at 1. rewrite !filter_app, (filter_all_false req Bm OK). reflexivity. }
    assert (LL : length (Apre ++ C) = length l - (e - i)).
    { rewrite app_length, LA. unfold C. rewrite skipn_length. lia. }
    unfold create.
    destruct (Nat.eqb (length (Apre ++ C)) 0) eqn:Z.
    + apply Nat.eqb_eq in Z. destruct (Apre ++ C) eqn:EE; simpl in Z; [|lia].
      eexists _, _; split; [reflexivity|]. split; auto.
    + apply Nat.eqb_neq in Z.
      set (n' := length (Apre ++ C)) in *.
      edestruct (IH (S k) (Apre ++ C) (mkb 0 n' n')) as (l' & log' & R & F & AA).
      * unfold WF, WFb; simpl. repeat split; try lia.
      * unfold mu, K in *; simpl in *.
        assert (n' + 1 <= length l) by lia.
        assert (n' * S n + n' < S n * S (S n)) by nia.
        nia.
      * exists l', log'. split; [exact R|]. split; [rewrite F; exact FL|exact AA].
  - (* reject *)
    unfold advance; simpl.
    destruct (length l <=? i + c) eqn:LE.
    + apply Nat.leb_le in LE. destruct (c / 2 <? 1) eqn:H2.
      * apply Nat.ltb_lt in H2. pose proof (half_small c Wc H2) as ->.
        eexists _, _; split; [reflexivity|]. split; auto.
        apply forallb_nth. intros p x Hp.
        assert (p < length l) by (apply nth_error_Some; congruence).
        destruct (Nat.eq_dec p i) as [->|NE].
        -- apply (reject_single req l i Wx); [|exact Hp]. unfold Bm, e in OK.
           replace (Nat.min (i+1) (length l)) with (S i) in OK by lia. exact OK.
        -- eapply (Ws eq_refl p); eauto. lia.
      * apply Nat.ltb_ge in H2. apply IH.
        -- unfold WF, WFb; simpl. pose proof (half_lt c Wc). repeat split; try lia.
        -- unfold mu in *; simpl in *. pose proof (half_lt c Wc). nia.
    + apply Nat.leb_gt in LE. apply IH.
      * unfold WF, WFb; simpl. repeat split; try lia.
        intros -> p x Hp Hx. destruct (Nat.eq_dec p i) as [->|NE].
        -- apply (reject_single req l i Wx); [|exact Hx]. unfold Bm, e in OK.
           replace (Nat.min (i+1) (length l)) with (S i) in OK by lia. exact OK.
        -- eapply (Ws eq_refl p); eauto. lia.
      * unfold mu in *; simpl in *. nia.
Qed.

Theorem gcda_run_exact (l:list (list B)) : exists log, gcda_run (ok_mono req) l = Done (filter req l) log.
Proof.
  unfold gcda_run, create. destruct (Nat.eqb (length l) 0) eqn:Z.
  - apply Nat.eqb_eq in Z. destruct l; simpl in *; [eexists; reflexivity|lia].
  - apply Nat.eqb_neq in Z.
    destruct (gcda_loop_exact (length l) (gcda_fuel (length l)) 0 l (mkb 0 (length l) (length l)) [])
      as (l' & log' & R & F & A).
    + unfold WF, WFb; simpl. repeat split; try lia.
    + unfold mu, gcda_fuel, K; simpl. nia.
    + exists log'. rewrite R. f_equal. rewrite <- F. symmetry. apply filter_id; auto.
Qed.

End P.
