(* Model of cvise/passes/gcdabinary.py.  No proofs in this file.
   A coverage file is a header followed by function records; `gcov-dump -p` reports the byte offset of every record
   (`state.functions`).  transform:  data[0 : functions[index]]  (+ data[functions[end] :]  if end < len(functions)).
   advance = BinaryState.advance;  advance_on_success = a FRESH cursor over the records of the new file (create), not
   BinaryState.advance_on_success - so the driver loop of this pass restarts at the coarsest granularity after every
   accepted removal (gcda_run below). *)
From Coq Require Import List Arith Bool Lia.
Import ListNotations.
From CV Require Import Cursor.BinaryState.

Section G.
Context {B:Type}.

Definition gcda_transform (data:list B) (offs:list nat) (s:bst) : list B :=
  firstn (nth (index s) offs 0) data ++
  (if end_ s <? length offs then skipn (nth (end_ s) offs 0) data else []).

(* what gcov-dump reports for header ++ records: the start offset of each record *)
Fixpoint offsets (base:nat) (recs:list (list B)) : list nat :=
  match recs with [] => [] | r :: t => base :: offsets (base + length r) t end.
Definition gfile (hdr:list B) (recs:list (list B)) : list B := hdr ++ concat recs.

(* The sequential driver loop with this pass's transitions, on the record list: reject -> advance,
   accept -> fresh cursor on the remaining records.  test: any function of step number, records and cursor. *)
Variable test : nat -> list (list B) -> bst -> bool.
Fixpoint gcda_loop (fuel:nat) (k:nat) (l:list (list B)) (s:bst) (log:list entry) : @res (list B) :=
  match fuel with
  | 0 => Fuel
  | S f =>
    if test k l s then
      let l' := cut l (index s) (end_ s) in
      let log' := log ++ [(index s, end_ s, instances s, true)] in
      match create (length l') with
      | None => Done l' log'
      | Some s' => gcda_loop f (S k) l' s' log'
      end
    else
      let log' := log ++ [(index s, end_ s, instances s, false)] in
      match advance s with
      | None => Done l log'
      | Some s' => gcda_loop f (S k) l s' log'
      end
  end.
Definition gcda_fuel (n:nat) := S n * (S n * S (S n)).
Definition gcda_run (l:list (list B)) : @res (list B) :=
  match create (length l) with
  | None => Done l []
  | Some s => gcda_loop (gcda_fuel (length l)) 0 l s []
  end.
End G.
