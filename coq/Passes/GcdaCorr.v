(* Encoders used by the correspondence check for the gcda pass model. *)
From Coq Require Import List ZArith Bool Arith.
Import ListNotations.
From CV Require Import Base.Corr Cursor.BinaryState Cursor.BinaryCorr Passes.Gcda.

(* one candidate: (file bytes, offsets reported by the tool, cursor) -> the candidate's bytes *)
Definition gcda_tr_case (t:list nat * list nat * (nat * nat * nat)) : list Z :=
  let '(data, offs, (i, c, n)) := t in map zn (gcda_transform data offs (mkb i c n)).

(* the same candidate through the record view: header, records -> bytes (what C06_gcda_candidate_is_record_cut equates) *)
Definition gcda_rec_case (t:list nat * list (list nat) * (nat * nat * nat)) : list Z :=
  let '(hdr, recs, (i, c, n)) := t in map zn (gfile hdr (cut recs (index (mkb i c n)) (end_ (mkb i c n)))).
Definition gcda_offs_case (t:list nat * list (list nat)) : list Z :=
  let '(hdr, recs) := t in map zn (offsets (length hdr) recs).

(* a whole monotone run over records identified by their first element: final identifiers + log *)
Definition gcda_run_case (t:list (list nat) * list nat) : list Z :=
  let '(recs, req) := t in
  match gcda_run (ok_mono (fun r => existsb (Nat.eqb (hd 0 r)) req)) recs with
  | Done l log => (zn (length l) :: map (fun r => zn (hd 0 r)) l) ++ flat_map enc_entry log
  | Fuel => [(-99)%Z]
  end.
