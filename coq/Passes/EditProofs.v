(* C07 proofs: candidates are local edits / proper subsequences of the file they come from. *)
From Coq Require Import List Arith Bool ZArith NArith Lia.
Import ListNotations.
From CV Require Import Matcher.NM Matcher.NMProofs Driver.Outcome Passes.Edit.

Inductive Subseq {A} : list A -> list A -> Prop :=
| SS_nil : Subseq [] []
| SS_keep x l1 l2 : Subseq l1 l2 -> Subseq (x :: l1) (x :: l2)
| SS_drop x l1 l2 : Subseq l1 l2 -> Subseq l1 (x :: l2).

Lemma Subseq_refl {A} (l:list A) : Subseq l l.
Proof. induction l; constructor; auto. Qed.
Lemma Subseq_nil_l {A} (l:list A) : Subseq [] l.
Proof. induction l; constructor; auto. Qed.
Lemma Subseq_app {A} (a b c d:list A) : Subseq a b -> Subseq c d -> Subseq (a ++ c) (b ++ d).
Proof. induction 1; simpl; intros; auto; constructor; auto. Qed.
Lemma Subseq_length {A} (a b:list A) : Subseq a b -> length a <= length b.
Proof. induction 1; simpl; lia. Qed.
Lemma Subseq_same_length {A} (a b:list A) : Subseq a b -> length a = length b -> a = b.
Proof.
  induction 1; simpl; intros L; auto.
  - f_equal. apply IHSubseq. lia.
  - apply Subseq_length in H. lia.
Qed.
Lemma Subseq_firstn {A} (l:list A) n : Subseq (firstn n l) l.
Proof. revert n. induction l as [|x l IH]; intros [|n]; simpl; try constructor; auto. apply Subseq_nil_l. Qed.
Lemma Subseq_skipn {A} (l:list A) n : Subseq (skipn n l) l.
Proof. revert n. induction l as [|x l IH]; intros [|n]; simpl; try constructor; auto. apply Subseq_refl. Qed.
Lemma Subseq_concat {A} (a b:list (list A)) : Subseq a b -> Subseq (concat a) (concat b).
Proof.
  induction 1; simpl; [constructor| |].
  - apply Subseq_app; auto. apply Subseq_refl.
  - replace (concat l1) with ([] ++ concat l1) by reflexivity. apply Subseq_app; auto. apply Subseq_nil_l.
Qed.
Lemma Subseq_trans {A} (a b c:list A) : Subseq a b -> Subseq b c -> Subseq a c.
Proof.
  intros H1 H2. revert a H1. induction H2; intros a H1; auto.
  - inversion H1; subst; constructor; auto.
  - constructor. auto.
Qed.

(* ---------- slicing ---------- *)
Lemma edit_prefix (t:text) a b r : a <= length t -> firstn a (edit t a b r) = firstn a t.
Proof.
  intros H. unfold edit. rewrite firstn_app, firstn_firstn, Nat.min_id, firstn_length, Nat.min_l by auto.
  rewrite Nat.sub_diag. simpl. apply app_nil_r.
Qed.
Lemma edit_suffix (t:text) a b r : a <= length t -> skipn (a + length r) (edit t a b r) = skipn b t.
Proof.
  intros H. unfold edit. rewrite app_assoc. rewrite skipn_app.
  assert (L : length (firstn a t ++ r) = a + length r) by (rewrite app_length, firstn_length; lia).
  rewrite L, Nat.sub_diag. simpl. rewrite skipn_all2 by lia. reflexivity.
Qed.
Lemma edit_length (t:text) a b r : a <= b -> b <= length t -> length (edit t a b r) + (b - a) = length t + length r.
Proof. intros. unfold edit. rewrite !app_length, firstn_length, skipn_length. lia. Qed.
Lemma skipn_skipn2 {A} : forall b a (l:list A), skipn a (skipn b l) = skipn (b + a) l.
Proof.
  induction b as [|b IH]; intros a l; simpl; auto.
  destruct l as [|x l]; [rewrite !skipn_nil; auto|]. apply IH.
Qed.
(* a deletion is a subsequence *)
Lemma edit_delete_subseq (t:text) a b : a <= b -> Subseq (edit t a b []) t.
Proof.
  intros H. unfold edit. simpl. rewrite <- (firstn_skipn a t) at 3. apply Subseq_app; [apply Subseq_refl|].
  replace b with (a + (b - a)) by lia. rewrite <- skipn_skipn2. apply Subseq_skipn.
Qed.

(* ---------- lines ---------- *)
Lemma lines_acc_concat : forall t cur, concat (lines_acc t cur) = rev cur ++ t.
Proof.
  induction t as [|x r IH]; intros cur; simpl.
  - destruct cur; simpl; rewrite ?app_nil_r; auto.
  - destruct (N.eqb x NL); simpl; rewrite IH; simpl; rewrite <- ?app_assoc; auto.
Qed.
Theorem lines_concat t : concat (lines t) = t.
Proof. unfold lines. rewrite lines_acc_concat. reflexivity. Qed.

Lemma rev_cons_nonempty (x:N) (cur:text) : rev (x :: cur) <> [].
Proof. simpl. destruct (rev cur); discriminate. Qed.
Lemma lines_acc_nonempty : forall t cur, Forall (fun l => l <> []) (lines_acc t cur).
Proof.
  induction t as [|x r IH]; intros cur; simpl.
  - destruct cur as [|y cur]; constructor; auto. apply rev_cons_nonempty.
  - destruct (N.eqb x NL); auto. constructor; auto. apply rev_cons_nonempty.
Qed.

Lemma drop_selected_subseq sel : forall ls k i e, Subseq (drop_selected sel ls k i e) ls.
Proof.
  induction ls as [|l r IH]; intros; simpl; [constructor|].
  destruct (sel l); [destruct ((i <=? k) && (k <? e))|]; constructor; auto.
Qed.

Lemma concat_length_pos (ls:list text) : Forall (fun l => l <> []) ls -> ls <> [] -> 0 < length (concat ls).
Proof.
  intros F NE. destruct ls as [|l r]; [congruence|]. inversion F; subst. simpl. rewrite app_length.
  destruct l; [congruence|]. simpl. lia.
Qed.
Lemma Forall_firstn {A} (P:A -> Prop) l n : Forall P l -> Forall P (firstn n l).
Proof. revert n. induction l as [|x l IH]; intros [|n] F; simpl; auto. inversion F; subst. constructor; auto. Qed.
Lemma Forall_skipn {A} (P:A -> Prop) l n : Forall P l -> Forall P (skipn n l).
Proof. revert n. induction l as [|x l IH]; intros [|n] F; simpl; auto. inversion F; subst. auto. Qed.

(* the lines pass removes exactly the lines [i, e): a proper sub-list of the lines, hence a
   shorter, different text that is a subsequence of the input *)
Theorem lines_transform_spec t i e : i < e -> e <= length (lines t) ->
  let t' := lines_transform t i e in
  Subseq t' t /\ length t' < length t /\ t' <> t.
Proof.
  intros IE EL t'. unfold t', lines_transform. set (ls := lines t) in *.
  assert (SPLIT : ls = firstn i ls ++ firstn (e - i) (skipn i ls) ++ skipn e ls).
  { rewrite <- (firstn_skipn i ls) at 1. f_equal.
    rewrite <- (firstn_skipn (e - i) (skipn i ls)) at 1. f_equal. rewrite skipn_skipn2. f_equal. lia. }
  assert (NE : Forall (fun l => l <> []) ls) by apply lines_acc_nonempty.
  assert (MID : 0 < length (concat (firstn (e - i) (skipn i ls)))).
  { apply concat_length_pos; [apply Forall_firstn, Forall_skipn; exact NE|].
    intro H. apply (f_equal (@length text)) in H. rewrite firstn_length, skipn_length in H. simpl in H. lia. }
  assert (SUB : Subseq (concat (firstn i ls ++ skipn e ls)) (concat ls)).
  { rewrite SPLIT at 3. rewrite !concat_app.
    apply Subseq_app; [apply Subseq_refl|].
    replace (concat (skipn e ls)) with ([] ++ concat (skipn e ls)) at 1 by reflexivity.
    apply Subseq_app; [apply Subseq_nil_l|apply Subseq_refl]. }
  assert (LT : length (concat (firstn i ls ++ skipn e ls)) < length (concat ls)).
  { rewrite SPLIT at 3. rewrite !concat_app, !app_length. lia. }
  unfold ls in SUB, LT. rewrite lines_concat in SUB, LT. fold ls in SUB, LT.
  repeat split; auto. intro EQ. rewrite EQ in LT. lia.
Qed.

(* removing selected lines (line markers, includes, blank): always a subsequence made of whole
   lines; strictly shorter as soon as one line is dropped *)
Theorem drop_lines_spec sel t k i e :
  let t' := concat (drop_selected sel (lines t) k i e) in
  Subseq t' t /\ (t' <> t -> length t' < length t).
Proof.
  intros t'. assert (SUB : Subseq t' t).
  { unfold t'. rewrite <- (lines_concat t) at 2. apply Subseq_concat. apply drop_selected_subseq. }
  split; auto. intros NE. pose proof (Subseq_length _ _ SUB) as L.
  destruct (Nat.eq_dec (length t') (length t)) as [E|]; [|lia].
  exfalso. apply NE. apply Subseq_same_length; auto.
Qed.

Lemma filter_subseq (m:text -> bool) : forall ls, Subseq (filter (fun l => negb (m l)) ls) ls.
Proof. induction ls as [|l r IH]; simpl; [constructor|]. destruct (m l); simpl; constructor; auto. Qed.
Lemma filter_concat_lt (m:text -> bool) : forall ls, Forall (fun l => l <> []) ls -> existsb m ls = true ->
  length (concat (filter (fun l => negb (m l)) ls)) < length (concat ls).
Proof.
  induction ls as [|l r IH]; intros NE EX; simpl in *; [discriminate|].
  inversion NE; subst. destruct (m l) eqn:M; simpl.
  - rewrite app_length. pose proof (Subseq_length _ _ (Subseq_concat _ _ (filter_subseq m r))).
    destruct l; [congruence|]. simpl. lia.
  - rewrite !app_length. specialize (IH H2 EX). lia.
Qed.

Theorem filter_lines_spec (m:text -> bool) t :
  let t' := concat (filter (fun l => negb (m l)) (lines t)) in
  Subseq t' t /\ (existsb m (lines t) = true -> length t' < length t).
Proof.
  intros t'. split.
  - unfold t'. rewrite <- (lines_concat t) at 2. apply Subseq_concat. apply filter_subseq.
  - intros EX. unfold t'. pose proof (filter_concat_lt m (lines t) (lines_acc_nonempty t []) EX) as L.
    rewrite lines_concat in L. exact L.
Qed.

(* ---------- re.sub(pattern, '', t) ---------- *)
Lemma delete_spans_spec t : forall spans pos, spans_ok pos (length t) spans = true -> pos <= length t ->
  Subseq (delete_spans t pos spans) (skipn pos t) /\
  length (delete_spans t pos spans) + fold_right (fun sp acc => (snd sp - fst sp) + acc) 0 spans = length t - pos.
Proof.
  induction spans as [|[a b] r IH]; intros pos OK PL; simpl in *.
  - split; [apply Subseq_refl|]. rewrite skipn_length. lia.
  - rewrite !andb_true_iff in OK. destruct OK as (((O1 & O2) & O3) & O4).
    apply Nat.leb_le in O1, O2, O3. destruct (IH b O4 O3) as (S1 & L1).
    split.
    + unfold sl. rewrite <- (firstn_skipn (a - pos) (skipn pos t)) at 2.
      apply Subseq_app; [apply Subseq_refl|]. rewrite skipn_skipn2. replace (pos + (a - pos)) with a by lia.
      eapply Subseq_trans; [exact S1|]. replace b with (a + (b - a)) by lia. rewrite <- skipn_skipn2. apply Subseq_skipn.
    + rewrite app_length. unfold sl. rewrite firstn_length, skipn_length. lia.
Qed.

(* deleting all comment matches: a subsequence of the text, strictly shorter (hence different)
   when some match is non-empty *)
Theorem delete_spans_text t spans : spans_ok 0 (length t) spans = true ->
  Subseq (delete_spans t 0 spans) t /\
  (existsb (fun sp => fst sp <? snd sp) spans = true -> length (delete_spans t 0 spans) < length t).
Proof.
  intros OK. destruct (delete_spans_spec t spans 0 OK ltac:(lia)) as (S1 & L1). simpl in S1.
  split; auto. intros EX.
  assert (POS : 0 < fold_right (fun sp acc => (snd sp - fst sp) + acc) 0 spans).
  { clear -EX. induction spans as [|[a b] r IH]; simpl in *; [discriminate|].
    apply orb_true_iff in EX. destruct EX as [E|E]; [apply Nat.ltb_lt in E; lia|specialize (IH E); lia]. }
  lia.
Qed.

(* ---------- balanced ---------- *)
Lemma text_eqb_eq a b : text_eqb a b = true <-> a = b.
Proof.
  revert b. induction a as [|x a IH]; destruct b as [|y b]; simpl; split; intros H; auto; try discriminate.
  - apply andb_true_iff in H. destruct H as (H1 & H2). apply N.eqb_eq in H1. apply IH in H2. subst. auto.
  - inversion H; subst. rewrite N.eqb_refl. simpl. apply IH. auto.
Qed.

Section Bal.
Variable rxm : nat -> str -> nat -> option nat.
Hypothesis rxm_bounds : forall id s i j, rxm id s i = Some j -> i <= j /\ j <= length s.

(* a reported candidate is the text with ONE replacement applied at a span that is either the
   cursor or a later result of find, and it differs from the text *)
Theorem balanced_transform_ok o c prefix m : forall fuel t st t' st',
  balanced_transform rxm fuel o c prefix m t st = (OK, t', st') ->
  exists sp, st' = Some sp /\ t' = balanced_replace m t sp /\ t' <> t /\
    (st = Some sp \/ exists p0, find rxm o c prefix t p0 = Some sp).
Proof.
  induction fuel as [|fuel IH]; intros t st t' st' H; simpl in H; [discriminate|].
  destruct st as [sp|]; [|discriminate].
  destruct (negb (text_eqb t (balanced_replace m t sp))) eqn:NE.
  - inversion H; subst. exists sp. repeat split; auto.
    intro EQ. apply negb_true_iff in NE. symmetry in EQ. apply text_eqb_eq in EQ. congruence.
  - apply IH in H. destruct H as (sp2 & A & B & C & D). exists sp2. repeat split; auto.
    right. destruct D as [D|(p0 & D)]; eauto.
Qed.

(* each replacement is local: text before the span start and after the span end is preserved;
   the three deleting modes yield subsequences *)
Theorem balanced_replace_local m t a b : a < b -> b <= length t -> a + 1 <= b - 1 \/ True ->
  firstn a (balanced_replace m t (a, b)) = firstn a t /\
  (forall r, m = BTo r -> skipn (a + length r) (balanced_replace m t (a, b)) = skipn b t) /\
  (m = BAll -> Subseq (balanced_replace m t (a, b)) t /\ length (balanced_replace m t (a, b)) < length t).
Proof.
  intros AB BL _. split; [|split].
  - destruct m; simpl; unfold edit; try (rewrite firstn_app, firstn_firstn, Nat.min_id, firstn_length, Nat.min_l by lia;
      rewrite Nat.sub_diag; simpl; apply app_nil_r).
    (* inside: the edit starts at a+1 *)
    rewrite firstn_app, firstn_firstn, firstn_length. rewrite (Nat.min_l a (a + 1)) by lia.
    rewrite (Nat.min_l (a + 1) (length t)) by lia. replace (a - (a + 1)) with 0 by lia. simpl. apply app_nil_r.
  - intros r ->. simpl. apply edit_suffix. lia.
  - intros ->. simpl. split; [apply edit_delete_subseq; lia|].
    pose proof (edit_length t a b [] ltac:(lia) BL). simpl in H. lia.
Qed.
End Bal.

(* ---------- one-span replacement (ints, special, peep, ternary) ---------- *)
Theorem span_replace_local (t:text) a b r : a <= b -> b <= length t ->
  firstn a (span_replace t (a, b) r) = firstn a t /\
  skipn (a + length r) (span_replace t (a, b) r) = skipn b t /\
  length (span_replace t (a, b) r) + (b - a) = length t + length r /\
  (length r <> b - a -> span_replace t (a, b) r <> t).
Proof.
  intros AB BL. unfold span_replace. simpl. split; [apply edit_prefix; lia|]. split; [apply edit_suffix; lia|].
  pose proof (edit_length t a b r AB BL) as L. split; auto.
  intros NE EQ. rewrite EQ in L. lia.
Qed.
