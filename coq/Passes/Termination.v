(* C03: termination of pass cursors under EVERY verdict sequence.
   A pass run is a transition system: a configuration (file + cursor) and, for each verdict
   (accept / reject of the current candidate), the next configuration or the end.  If a measure
   into nat strictly decreases on every step, every run — whatever the verdicts — ends within
   measure(initial) candidates. *)
From Coq Require Import List Arith Bool Lia ZArith.
Import ListNotations.

Section Run.
Variable C : Type.                                  (* configuration: text and cursor *)
Variable step : C -> bool -> option C.              (* verdict -> next configuration (None = finished) *)

Fixpoint run (fuel:nat) (verdict:nat -> bool) (k:nat) (c:C) : option nat :=   (* Some n = ended after n candidates *)
  match fuel with
  | 0 => None
  | S f => match step c (verdict k) with
           | None => Some (S k)
           | Some c' => run f verdict (S k) c'
           end
  end.

Variable mu : C -> nat.
Hypothesis decreases : forall c b c', step c b = Some c' -> mu c' < mu c.

Theorem run_terminates : forall fuel verdict k c, mu c < fuel ->
  exists n, run fuel verdict k c = Some n /\ n <= k + mu c + 1.
Proof.
  induction fuel as [|fuel IH]; intros verdict k c H; [lia|]. simpl.
  destruct (step c (verdict k)) as [c'|] eqn:ST.
  - apply decreases in ST. destruct (IH verdict (S k) c' ltac:(lia)) as (n & R & B). exists n. split; auto. lia.
  - exists (S k). split; auto. lia.
Qed.
End Run.

(* ---------- cursors that are a position in the text (balanced, ternary) ----------
   reject: the next match starts strictly later; accept: the text got strictly shorter and the next
   match does not start earlier.  Measure 2*len - pos. *)
Record pcur := mkp { p_len : nat; p_pos : nat }.
Definition pos_ok (step:pcur -> bool -> option pcur) : Prop :=
  forall c b c', step c b = Some c' ->
    p_pos c' < p_len c' /\
    (b = false -> p_len c' = p_len c /\ p_pos c < p_pos c') /\
    (b = true -> p_len c' < p_len c /\ p_pos c <= p_pos c').
Theorem pos_cursor_terminates step : pos_ok step -> forall verdict c, p_pos c < p_len c ->
  exists n, run pcur step (S (2 * p_len c)) verdict 0 c = Some n /\ n <= 2 * p_len c - p_pos c + 1.
Proof.
  intros OK verdict c H.
  destruct (run_terminates pcur step (fun c => 2 * p_len c - p_pos c)) with (fuel := S (2 * p_len c)) (verdict := verdict) (k := 0) (c := c) as (n & R & B).
  - intros c0 b c1 ST. destruct (OK c0 b c1 ST) as (A1 & A2 & A3). destruct b.
    + destruct (A3 eq_refl). lia.
    + destruct (A2 eq_refl). lia.
  - lia.
  - exists n. split; auto.
Qed.

(* ---------- cursors that are an index into a list of modifications recomputed after every
   accepted step (ints, special): potential phi of the text strictly decreases on accept,
   the index increases on reject and is bounded by the list length lim (<= bound B). *)
Record lcur := mkl { l_phi : nat; l_lim : nat; l_idx : nat }.
Definition list_ok (B:nat) (step:lcur -> bool -> option lcur) : Prop :=
  forall c b c', step c b = Some c' ->
    l_idx c' < l_lim c' /\ l_lim c' <= B /\
    (b = false -> l_phi c' = l_phi c /\ l_lim c' = l_lim c /\ l_idx c' = S (l_idx c)) /\
    (b = true -> l_phi c' < l_phi c).
Theorem list_cursor_terminates B step : list_ok B step -> forall verdict c, l_idx c < l_lim c -> l_lim c <= B ->
  exists n, run lcur step (S (S (l_phi c) * S B)) verdict 0 c = Some n /\ n <= S (l_phi c) * S B + 1.
Proof.
  intros OK verdict c H HB.
  destruct (run_terminates lcur step (fun c => l_phi c * S B + (l_lim c - l_idx c))) with (fuel := S (S (l_phi c) * S B)) (verdict := verdict) (k := 0) (c := c) as (n & R & Bn).
  - intros c0 b c1 ST. destruct (OK c0 b c1 ST) as (A1 & A2 & A3 & A4). destruct b.
    + specialize (A4 eq_refl). nia.
    + destruct (A3 eq_refl) as (E1 & E2 & E3). rewrite E1, E2, E3. lia.
  - nia.
  - exists n. split; auto. nia.
Qed.

(* ---------- peephole cursors: (position, rule index); reject moves to the next rule, wrapping to
   the next position; accept keeps the cursor and shrinks the text (every rule of peep::a and
   peep::c replaces its match by something strictly shorter: table obligation).  Measure
   (len - pos) * (lim + 1) - rule. *)
Record rcur := mkrc { r_len : nat; r_pos : nat; r_rule : nat }.
Definition peep_ok (lim:nat) (step:rcur -> bool -> option rcur) : Prop :=
  forall c b c', step c b = Some c' ->
    r_pos c < r_len c /\ r_rule c < lim /\ r_pos c' < r_len c' /\ r_rule c' < lim /\
    (b = false -> r_len c' = r_len c /\
                  ((r_pos c' = r_pos c /\ r_rule c' = S (r_rule c)) \/ (r_pos c' = S (r_pos c) /\ r_rule c' = 0))) /\
    (b = true -> r_len c' < r_len c /\ r_pos c' = r_pos c /\ r_rule c' = r_rule c).
Theorem peep_cursor_terminates lim step : peep_ok lim step -> forall verdict c, r_pos c < r_len c -> r_rule c < lim ->
  exists n, run rcur step (S (r_len c * S lim)) verdict 0 c = Some n /\ n <= r_len c * S lim + 1.
Proof.
  intros OK verdict c H HR.
  destruct (run_terminates rcur step (fun c => (r_len c - r_pos c) * S lim - r_rule c)) with (fuel := S (r_len c * S lim)) (verdict := verdict) (k := 0) (c := c) as (n & R & Bn).
  - intros c0 b c1 ST. destruct (OK c0 b c1 ST) as (V1 & V2 & A1 & A2 & A3 & A4). destruct b.
    + destruct (A4 eq_refl) as (E1 & E2 & E3). rewrite E2, E3 in *. nia.
    + destruct (A3 eq_refl) as (E1 & [(E2 & E3)|(E2 & E3)]); rewrite E1 in *; rewrite E2, E3 in *; nia.
  - nia.
  - exists n. split; auto. nia.
Qed.

(* ---------- counter cursors (includes): state k, count instances; reject k+1, accept count-1;
   finished when k > count ---------- *)
Record ccur := mkcc { c_count : nat; c_k : nat }.
Definition includes_step (c:ccur) (b:bool) : option ccur :=
  if (c_count c <? c_k c) || Nat.eqb (c_k c) 0 then None          (* transform reports STOP (k starts at 1) *)
  else if b then Some (mkcc (c_count c - 1) (c_k c)) else Some (mkcc (c_count c) (S (c_k c))).
Theorem includes_terminates verdict n : exists m, run ccur includes_step (S (2 * n + 2)) verdict 0 (mkcc n 1) = Some m /\ m <= 2 * n + 2.
Proof.
  destruct (run_terminates ccur includes_step (fun c => 2 * c_count c + 2 - c_k c)) with (fuel := S (2 * n + 2)) (verdict := verdict) (k := 0) (c := mkcc n 1) as (m & R & B).
  - intros c b c' ST. unfold includes_step in ST. destruct ((c_count c <? c_k c) || Nat.eqb (c_k c) 0) eqn:E; [discriminate|].
    apply orb_false_iff in E. destruct E as (E & E0). apply Nat.ltb_ge in E. apply Nat.eqb_neq in E0. destruct b; inversion ST; subst; simpl; lia.
  - simpl. lia.
  - exists m. split; auto. simpl in B. lia.
Qed.

(* list cursors whose list length is bounded by the potential itself (ints, special: every
   modification consumes at least one unit of potential): no external bound needed *)
Definition list_ok_self (step:lcur -> bool -> option lcur) : Prop :=
  forall c b c', step c b = Some c' ->
    l_idx c < l_lim c /\ l_idx c' < l_lim c' /\ l_lim c' <= l_phi c' /\
    (b = false -> l_phi c' = l_phi c /\ l_lim c' = l_lim c /\ l_idx c' = S (l_idx c)) /\
    (b = true -> l_phi c' < l_phi c).
Theorem list_cursor_terminates_self step : list_ok_self step -> forall verdict c, l_lim c <= l_phi c ->
  exists n, run lcur step (S (S (l_phi c) * S (l_phi c))) verdict 0 c = Some n /\ n <= S (l_phi c) * S (l_phi c) + 1.
Proof.
  intros OK verdict c HB.
  destruct (run_terminates lcur step (fun c => l_phi c * S (l_phi c) + (l_lim c - l_idx c))) with (fuel := S (S (l_phi c) * S (l_phi c))) (verdict := verdict) (k := 0) (c := c) as (n & R & Bn).
  - intros c0 b c1 ST. destruct (OK c0 b c1 ST) as (A0 & A1 & A2 & A3 & A4). destruct b.
    + specialize (A4 eq_refl). nia.
    + destruct (A3 eq_refl) as (E1 & E2 & E3). rewrite E1, E2, E3. lia.
  - nia.
  - exists n. split; auto. nia.
Qed.

(* counter cursors over a shrinking text (blank, comments): a reject consumes one of the remaining
   counter values, an accept shrinks the text and never gives counter values back *)
Record kcur := mkk { k_len : nat; k_rem : nat }.
Definition counter_ok (step:kcur -> bool -> option kcur) : Prop :=
  forall c b c', step c b = Some c' ->
    (b = false -> k_len c' = k_len c /\ k_rem c' < k_rem c) /\
    (b = true -> k_len c' < k_len c /\ k_rem c' <= k_rem c).
Theorem counter_cursor_terminates step : counter_ok step -> forall verdict c,
  exists n, run kcur step (S (k_len c + k_rem c)) verdict 0 c = Some n /\ n <= k_len c + k_rem c + 1.
Proof.
  intros OK verdict c.
  destruct (run_terminates kcur step (fun c => k_len c + k_rem c)) with (fuel := S (k_len c + k_rem c)) (verdict := verdict) (k := 0) (c := c) as (n & R & Bn).
  - intros c0 b c1 ST. destruct (OK c0 b c1 ST) as (A1 & A2). destruct b.
    + destruct (A2 eq_refl). lia.
    + destruct (A1 eq_refl). lia.
  - lia.
  - exists n. split; auto.
Qed.

(* ---------- non-vacuity: each hypothesis has a concrete instance ---------- *)
Definition toy_pos (c:pcur) (b:bool) : option pcur :=
  if b then (if S (p_pos c) <? p_len c then Some (mkp (p_len c - 1) (p_pos c)) else None)
  else (if S (p_pos c) <? p_len c then Some (mkp (p_len c) (S (p_pos c))) else None).
Example toy_pos_ok : pos_ok toy_pos.
Proof.
  intros c b c' H. unfold toy_pos in H. destruct b; destruct (S (p_pos c) <? p_len c) eqn:E; inversion H; subst; simpl;
  apply Nat.ltb_lt in E; repeat split; intros; try discriminate; lia.
Qed.
Definition toy_list (c:lcur) (b:bool) : option lcur :=
  if negb (l_idx c <? l_lim c) || (l_phi c <? l_lim c) then None else
  if b then (if 1 <? l_phi c then Some (mkl (l_phi c - 1) 1 0) else None)
  else (if S (l_idx c) <? l_lim c then Some (mkl (l_phi c) (l_lim c) (S (l_idx c))) else None).
Example toy_list_ok : list_ok_self toy_list.
Proof.
  intros c b c' H. unfold toy_list in H. destruct (l_idx c <? l_lim c) eqn:V; simpl in H; [|discriminate]. apply Nat.ltb_lt in V.
  destruct (l_phi c <? l_lim c) eqn:W; [discriminate|]. apply Nat.ltb_ge in W.
  destruct b.
  - destruct (1 <? l_phi c) eqn:E; inversion H; subst; simpl. apply Nat.ltb_lt in E. repeat split; intros; try discriminate; lia.
  - destruct (S (l_idx c) <? l_lim c) eqn:E; inversion H; subst; simpl. apply Nat.ltb_lt in E. repeat split; intros; try discriminate; try lia.
Qed.
Definition toy_peep (c:rcur) (b:bool) : option rcur :=
  if negb (r_pos c <? r_len c) || negb (r_rule c <? 3) then None else
  if b then (if S (r_pos c) <? r_len c then Some (mkrc (r_len c - 1) (r_pos c) (r_rule c)) else None)
  else if S (r_rule c) <? 3 then Some (mkrc (r_len c) (r_pos c) (S (r_rule c)))
  else if S (r_pos c) <? r_len c then Some (mkrc (r_len c) (S (r_pos c)) 0) else None.
Example toy_peep_ok : peep_ok 3 toy_peep.
Proof.
  intros c b c' H. unfold toy_peep in H. destruct (r_pos c <? r_len c) eqn:V; simpl in H; [|discriminate]. apply Nat.ltb_lt in V.
  destruct (r_rule c <? 3) eqn:W; simpl in H; [|discriminate]. apply Nat.ltb_lt in W.
  destruct b.
  - destruct (S (r_pos c) <? r_len c) eqn:E; inversion H; subst; simpl. apply Nat.ltb_lt in E. repeat split; intros; try discriminate; lia.
  - destruct (S (r_rule c) <? 3) eqn:E.
    + inversion H; subst; simpl. apply Nat.ltb_lt in E. repeat split; intros; try discriminate; try lia.
    + destruct (S (r_pos c) <? r_len c) eqn:E2; inversion H; subst; simpl. apply Nat.ltb_lt in E2. repeat split; intros; try discriminate; try lia.
Qed.
Definition toy_counter (c:kcur) (b:bool) : option kcur :=
  if b then (if 0 <? k_len c then Some (mkk (k_len c - 1) (k_rem c)) else None)
  else (if 0 <? k_rem c then Some (mkk (k_len c) (k_rem c - 1)) else None).
Example toy_counter_ok : counter_ok toy_counter.
Proof.
  intros c b c' H. unfold toy_counter in H. destruct b.
  - destruct (0 <? k_len c) eqn:E; inversion H; subst; simpl. apply Nat.ltb_lt in E. split; intros; try discriminate; lia.
  - destruct (0 <? k_rem c) eqn:E; inversion H; subst; simpl. apply Nat.ltb_lt in E. split; intros; try discriminate; lia.
Qed.

(* ---------- IndentPass: cursor 0 runs the formatter once, every other cursor stops; advance and
   advance_on_success both move to the next cursor.  `changes k` says whether the formatter changes the text it is
   given at step k - ANY formatter (idempotent or not, shrinking or growing).  Exact model; at most two transform calls. *)
Definition indent_step (changes:bool) (c:nat) (b:bool) : option nat :=
  if Nat.eqb c 0 && changes then Some (S c) else None.
Theorem indent_terminates (changes:nat -> bool) verdict :
  exists m, run (nat * nat) (fun ck b => match indent_step (changes (snd ck)) (fst ck) b with
                                          | Some c' => Some (c', S (snd ck)) | None => None end)
                3 verdict 0 (0, 0) = Some m /\ m <= 2.
Proof.
  cbn [run indent_step Nat.eqb andb fst snd].
  destruct (changes 0); cbn [run indent_step Nat.eqb andb fst snd]; eexists; split; try reflexivity; lia.
Qed.
