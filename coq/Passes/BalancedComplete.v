(* C07, last clause, for the balanced passes without a prefix: when every candidate is rejected, every
   balanced group whose replacement changes the text is offered, exactly once the cursor reaches it.
   The run is the driver's: new = find from 0; transform (which itself skips groups whose replacement
   changes nothing); after a rejection advance = find from start + 1. *)
From Coq Require Import List Arith Bool ZArith NArith Lia.
Import ListNotations.
From CV Require Import Matcher.NM Matcher.NMProofs Driver.Outcome Passes.Edit Passes.EditProofs.

Section BalComplete.
Variable rxm : nat -> str -> nat -> option nat.
Hypothesis rxm_bounds : forall id s i j, rxm id s i = Some j -> i <= j /\ j <= length s.
Variable o c : N.
Hypothesis oc : o <> c.
Variable m : bmode.
Variable t : text.

Definition bfind (p:nat) : option span := find rxm o c None t (Z.of_nat p).

(* the candidates offered when every one of them is rejected: (span, candidate text) in order *)
Fixpoint all_rejected (inner fuel:nat) (st:option span) : list (span * text) :=
  match fuel with
  | 0 => []
  | S f =>
    match balanced_transform rxm inner o c None m t st with
    | (OK, t', Some sp) => (sp, t') :: all_rejected inner f (find rxm o c None t (Z.of_nat (fst sp) + 1))
    | _ => []
    end
  end.

Lemma bfind_target p a j : Balanced o c t a j -> p <= a ->
  exists a' j', bfind p = Some (a', j') /\ p <= a' /\ a' <= a /\ (a' = a -> j' = j).
Proof.
  intros B L. unfold bfind. pose proof (find_spec rxm rxm_bounds o c t (Z.of_nat p) oc) as S.
  assert (AL : a < length t) by (destruct B as (B1 & B2 & _); lia).
  destruct (find rxm o c None t (Z.of_nat p)) as [[a' j']|].
  - destruct S as (S1 & S2 & S3 & S4). rewrite Nat2Z.id in S2, S4.
    exists a', j'. split; [reflexivity|]. split; [exact S2|].
    assert (a' <= a).
    { destruct (le_lt_dec a' a) as [H|H]; [exact H|]. exfalso. apply (S4 a j L H B). }
    split; [assumption|]. intros E. subst a'. eapply Balanced_fun; eauto.
  - exfalso. destruct S as [S|[S|S]]; try lia. rewrite Nat2Z.id in S. apply (S a j L AL B).
Qed.

Lemma bt_unfold inner sp :
  balanced_transform rxm (S inner) o c None m t (Some sp) =
  if negb (text_eqb t (balanced_replace m t sp)) then (OK, balanced_replace m t sp, Some sp)
  else balanced_transform rxm inner o c None m t (find rxm o c None t (Z.of_nat (fst sp) + 1)).
Proof. reflexivity. Qed.

Lemma succ_pos (x:nat) : (Z.of_nat x + 1)%Z = Z.of_nat (x + 1).
Proof. lia. Qed.

(* transform started on the result of a find at or before the target: it reports a changing group at or
   before the target, and the target itself if it gets that far *)
Lemma inner_reaches a j : Balanced o c t a j -> balanced_replace m t (a, j) <> t ->
  forall inner p, length t - p < inner -> p <= a ->
  exists a' j', balanced_transform rxm inner o c None m t (bfind p) = (OK, balanced_replace m t (a', j'), Some (a', j')) /\
    p <= a' /\ a' <= a /\ (a' = a -> j' = j).
Proof.
  intros B CH. induction inner as [|inner IH]; intros p F L; [lia|].
  destruct (bfind_target p a j B L) as (a1 & j1 & E & L1 & L2 & L3). rewrite E, bt_unfold.
  destruct (negb (text_eqb t (balanced_replace m t (a1, j1)))) eqn:NE.
  - exists a1, j1. repeat split; auto.
  - apply negb_false_iff in NE. apply text_eqb_eq in NE.
    assert (a1 <> a). { intros EQ. subst a1. rewrite (L3 eq_refl) in NE. congruence. }
    assert (AL : a < length t) by (destruct B as (B1 & B2 & _); lia).
    simpl fst. rewrite succ_pos. change (find rxm o c None t (Z.of_nat (a1 + 1))) with (bfind (a1 + 1)).
    destruct (IH (a1 + 1) ltac:(lia) ltac:(lia)) as (a2 & j2 & E2 & M1 & M2 & M3).
    exists a2, j2. repeat split; auto. lia.
Qed.

Theorem all_rejected_complete a j : Balanced o c t a j -> balanced_replace m t (a, j) <> t ->
  forall inner, length t < inner ->
  forall fuel p, length t - p < fuel -> p <= a ->
  In ((a, j), balanced_replace m t (a, j)) (all_rejected inner fuel (bfind p)).
Proof.
  intros B CH inner FI. induction fuel as [|fuel IH]; intros p F L; [lia|].
  destruct (inner_reaches a j B CH inner p ltac:(lia) L) as (a1 & j1 & E & L1 & L2 & L3).
  cbn [all_rejected]. rewrite E. cbn [fst].
  destruct (Nat.eq_dec a1 a) as [EQ|NEQ].
  - subst a1. rewrite (L3 eq_refl). left. reflexivity.
  - right. rewrite succ_pos. change (find rxm o c None t (Z.of_nat (a1 + 1))) with (bfind (a1 + 1)).
    assert (AL : a < length t) by (destruct B as (B1 & B2 & _); lia).
    apply IH; lia.
Qed.

(* and nothing else is offered: every offered candidate is the replacement of a balanced group *)
Theorem all_rejected_sound inner : forall fuel p x, In x (all_rejected inner fuel (bfind p)) ->
  exists a j, x = ((a, j), balanced_replace m t (a, j)) /\ Balanced o c t a j /\ snd x <> t.
Proof.
  induction fuel as [|fuel IH]; intros p x I; [destruct I|]. cbn [all_rejected] in I.
  destruct (balanced_transform rxm inner o c None m t (bfind p)) as [[r t'] st'] eqn:E.
  destruct r; try destruct I. destruct st' as [sp|]; [|destruct I].
  destruct (balanced_transform_ok rxm o c None m inner t _ _ _ E) as (sp2 & A1 & A2 & A3 & A4).
  inversion A1; subst sp2. destruct I as [I|I].
  - subst x. destruct sp as [a j]. exists a, j. split; [rewrite A2; reflexivity|]. split; [|cbn [snd]; exact A3].
    assert (FS : exists q, find rxm o c None t q = Some (a, j)).
    { destruct A4 as [A4|(q & A4)]; [exists (Z.of_nat p); exact A4|exists q; exact A4]. }
    destruct FS as (q & FS). pose proof (find_spec rxm rxm_bounds o c t q oc) as S. rewrite FS in S. tauto.
  - rewrite succ_pos in I. apply (IH (fst sp + 1) x I).
Qed.
End BalComplete.
