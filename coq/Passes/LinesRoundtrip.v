(* Re-reading a candidate: the lines of a text made of some of the lines of a file (in order) are exactly those lines.
   Ties the byte-level candidates of LinesPass / LineMarkersPass (concat of the kept lines) to the instance-level `cut`
   of the binary-search loop: after an accepted removal the pass re-counts its instances in the new file, and that
   count and those instances are the ones the loop model continues with. *)
From Coq Require Import List Arith Bool NArith Lia.
Import ListNotations.
From CV Require Import Cursor.BinaryState Cursor.BinaryProofs Passes.Edit Passes.EditProofs.

(* a list of texts shaped like the result of readlines(): every element but the last is body ++ [NL] with no NL in
   body; the last may instead be a non-empty text without NL *)
Inductive LS : list text -> Prop :=
| LS_nil : LS []
| LS_last l : l <> [] -> ~ In NL l -> LS [l]
| LS_cons body ls : ~ In NL body -> LS ls -> LS ((body ++ [NL]) :: ls).

Lemma lines_acc_line : forall body cur r, ~ In NL body ->
  lines_acc (body ++ NL :: r) cur = (rev cur ++ body ++ [NL]) :: lines_acc r [].
Proof.
  induction body as [|x b IH]; intros cur r H.
  - cbn [app lines_acc]. rewrite N.eqb_refl. reflexivity.
  - cbn [app lines_acc]. destruct (N.eqb x NL) eqn:E.
    + apply N.eqb_eq in E. exfalso. apply H. left. exact E.
    + rewrite IH by (intro K; apply H; right; exact K). cbn [rev]. rewrite <- !app_assoc. reflexivity.
Qed.

Lemma lines_acc_nonl : forall l cur, ~ In NL l -> rev cur ++ l <> [] -> lines_acc l cur = [rev cur ++ l].
Proof.
  induction l as [|x l IH]; intros cur H NE.
  - rewrite app_nil_r in *. cbn [lines_acc]. destruct cur as [|c cur]; [exfalso; apply NE; reflexivity|reflexivity].
  - cbn [lines_acc]. destruct (N.eqb x NL) eqn:E.
    + apply N.eqb_eq in E. exfalso. apply H. left. exact E.
    + rewrite IH.
      * cbn [rev]. rewrite <- app_assoc. reflexivity.
      * intro K. apply H. right. exact K.
      * cbn [rev]. rewrite <- app_assoc. cbn [app]. destruct (rev cur); discriminate.
Qed.

Theorem lines_roundtrip ls : LS ls -> lines (concat ls) = ls.
Proof.
  induction 1 as [|l NE NN|body ls NN H IH].
  - reflexivity.
  - cbn [concat]. rewrite app_nil_r. unfold lines. rewrite lines_acc_nonl; [reflexivity|exact NN|exact NE].
  - cbn [concat]. rewrite <- app_assoc. cbn [app]. unfold lines. rewrite lines_acc_line by exact NN.
    cbn [rev app]. f_equal. exact IH.
Qed.

Lemma lines_acc_LS : forall t cur, ~ In NL cur -> LS (lines_acc t cur).
Proof.
  induction t as [|x r IH]; intros cur H.
  - cbn [lines_acc]. destruct cur as [|c cur]; [constructor|].
    apply LS_last; [cbn [rev]; destruct (rev cur); discriminate|].
    intro K. apply in_rev in K. exact (H K).
  - cbn [lines_acc]. destruct (N.eqb x NL) eqn:E.
    + apply N.eqb_eq in E. subst x. cbn [rev]. apply LS_cons; [|apply IH; intros []].
      intro K. apply in_rev in K. exact (H K).
    + apply IH. intros [K|K]; [|exact (H K)]. apply N.eqb_neq in E. congruence.
Qed.
Theorem lines_LS t : LS (lines t).
Proof. apply lines_acc_LS. intros []. Qed.

Lemma Subseq_nil_inv {A} (a:list A) : Subseq a [] -> a = [].
Proof. intros H. inversion H. reflexivity. Qed.

Lemma LS_subseq : forall a b, Subseq a b -> LS b -> LS a.
Proof.
  induction 1 as [|x l1 l2 S IH|x l1 l2 S IH]; intros L.
  - constructor.
  - inversion L as [|l NE NN EQ|body ls NN L2 EQ]; subst.
    + apply Subseq_nil_inv in S. subst. exact L.
    + apply LS_cons; [exact NN|apply IH; exact L2].
  - apply IH. inversion L; subst; [constructor|assumption].
Qed.

(* any selection of the lines of a file, written out and read again, gives back that selection *)
Theorem lines_of_selection t ls : Subseq ls (lines t) -> lines (concat ls) = ls.
Proof. intros S. apply lines_roundtrip. exact (LS_subseq _ _ S (lines_LS t)). Qed.

Lemma cut_subseq {A} : forall (l:list A) i e, i <= e -> Subseq (cut l i e) l.
Proof.
  unfold cut. induction l as [|x l IH]; intros i e H.
  - rewrite firstn_nil, skipn_nil. constructor.
  - destruct i as [|i].
    + cbn [firstn app]. apply Subseq_skipn.
    + destruct e as [|e]; [lia|]. cbn [firstn skipn app]. constructor. apply IH. lia.
Qed.

Theorem lines_candidate_is_cut t i e : i <= e ->
  lines (lines_transform t i e) = cut (lines t) i e /\ lines_transform t i e = concat (cut (lines t) i e).
Proof.
  intros H. split; [|reflexivity]. unfold lines_transform. apply (lines_of_selection t). apply (cut_subseq (lines t) i e H).
Qed.

Theorem markers_candidate_lines ismark t i e :
  lines (markers_transform ismark t i e) = drop_selected ismark (lines t) 0 i e.
Proof. unfold markers_transform. apply (lines_of_selection t). apply drop_selected_subseq. Qed.

(* the markers left after dropping the selected lines [i, e) are the marker list cut at [i, e) *)
Lemma filter_drop_selected sel : forall ls k i e, i <= e ->
  filter sel (drop_selected sel ls k i e) = firstn (i - k) (filter sel ls) ++ skipn (e - k) (filter sel ls).
Proof.
  induction ls as [|l r IH]; intros k i e H.
  - cbn [drop_selected filter]. rewrite firstn_nil, skipn_nil. reflexivity.
  - cbn [drop_selected filter]. destruct (sel l) eqn:SL.
    + destruct (i <=? k) eqn:A; destruct (k <? e) eqn:Bk; cbn [andb];
        [apply Nat.leb_le in A|apply Nat.leb_le in A|apply Nat.leb_gt in A|apply Nat.leb_gt in A];
        [apply Nat.ltb_lt in Bk|apply Nat.ltb_ge in Bk|apply Nat.ltb_lt in Bk|apply Nat.ltb_ge in Bk].
      * rewrite IH by exact H. replace (i - k) with 0 by lia. replace (i - S k) with 0 by lia.
        replace (e - k) with (S (e - S k)) by lia. reflexivity.
      * cbn [filter]. rewrite SL, IH by exact H. replace (i - k) with 0 by lia. replace (i - S k) with 0 by lia.
        replace (e - k) with 0 by lia. replace (e - S k) with 0 by lia. reflexivity.
      * cbn [filter]. rewrite SL, IH by exact H. replace (i - k) with (S (i - S k)) by lia.
        replace (e - k) with (S (e - S k)) by lia. reflexivity.
      * lia.
    + cbn [filter]. rewrite SL. apply IH. exact H.
Qed.

Theorem markers_candidate_is_cut ismark t i e : i <= e ->
  filter ismark (lines (markers_transform ismark t i e)) = cut (filter ismark (lines t)) i e.
Proof.
  intros H. rewrite markers_candidate_lines, filter_drop_selected by exact H. rewrite !Nat.sub_0_r. reflexivity.
Qed.

(* ---------- the byte-level loop of LinesPass IS the instance-level loop ------------------------------------
   brun works on the file's text: the verdict sees the lines of the current text, an accepted candidate replaces the
   text, and the instance count handed to advance_on_success is re-counted from the NEW text (what the pass does).
   For every verdict function, text, fuel and well-formed cursor it computes exactly what `run` computes on the list
   of lines - so every theorem about `reduce` (ranges in bounds, exactness, singles tried) is a theorem about the bytes. *)
Section BR.
Variable test : nat -> list text -> bst -> bool.
Fixpoint brun (fuel k:nat) (t:text) (s:bst) (log:list entry) : option (text * list entry) :=
  match fuel with
  | 0 => None
  | S f =>
    if test k (lines t) s then
      let t' := lines_transform t (index s) (end_ s) in
      let log' := log ++ [(index s, end_ s, instances s, true)] in
      match advance_on_success s (length (lines t')) with
      | None => Some (t', log')
      | Some s' => brun f (S k) t' s' log'
      end
    else
      let log' := log ++ [(index s, end_ s, instances s, false)] in
      match advance s with
      | None => Some (t, log')
      | Some s' => brun f (S k) t s' log'
      end
  end.
Definition breduce (t:text) : option (text * list entry) :=
  match create (length (lines t)) with
  | None => Some (t, [])
  | Some s => brun (fuel_for (length (lines t))) 0 t s []
  end.

Definition as_bytes (r:@res text) : option (text * list entry) :=
  match r with Done l lg => Some (concat l, lg) | Fuel => None end.

Theorem brun_is_run n : forall fuel k t s log,
  WFb (lines t) s n -> brun fuel k t s log = as_bytes (run test fuel k (lines t) s log).
Proof.
  induction fuel as [|fuel IH]; intros k t s log W; [reflexivity|].
  cbn [brun run].
  assert (He : index s <= end_ s).
  { destruct W as (Wi & Wx & Wc & _). unfold end_. lia. }
  destruct (test k (lines t) s).
  - destruct (lines_candidate_is_cut t (index s) (end_ s) He) as [L1 L2].
    rewrite L1.
    destruct (advance_on_success s (length (cut (lines t) (index s) (end_ s)))) as [s'|] eqn:A.
    + destruct (aos_WF (lines t) s n s' W A) as [W' _].
      rewrite <- L1 in W'. rewrite (IH (S k) _ s' _ W'). rewrite L1. reflexivity.
    + cbn [as_bytes]. rewrite L2. reflexivity.
  - destruct (advance s) as [s'|] eqn:A.
    + destruct (advance_WF (lines t) s n s' W A) as [W' _]. apply (IH (S k) t s' _ W').
    + cbn [as_bytes]. rewrite lines_concat. reflexivity.
Qed.

Theorem breduce_is_reduce t : breduce t = as_bytes (reduce test (lines t)).
Proof.
  unfold breduce, reduce. destruct (create (length (lines t))) as [s|] eqn:C.
  - unfold create in C. destruct (Nat.eqb (length (lines t)) 0) eqn:Z; [discriminate|].
    apply Nat.eqb_neq in Z. inversion C; subst s; clear C.
    apply (brun_is_run (length (lines t))). unfold WFb; cbn [instances index chunk]. repeat split; lia.
  - cbn [as_bytes]. rewrite lines_concat. reflexivity.
Qed.
End BR.

(* monotone test on the lines of the file: the final TEXT is the concatenation of the required lines *)
Corollary breduce_exact (req:text -> bool) t :
  exists log, breduce (ok_mono req) t = Some (concat (filter req (lines t)), log).
Proof.
  rewrite breduce_is_reduce. destruct (reduce_exact req (lines t)) as [log R]. rewrite R. exists log. reflexivity.
Qed.

(* ---------- the same for LineMarkersPass: the byte-level loop against the instance-level loop on the marker list ---- *)
Lemma filter_not_drop_selected sel : forall ls k i e,
  filter (fun l => negb (sel l)) (drop_selected sel ls k i e) = filter (fun l => negb (sel l)) ls.
Proof.
  induction ls as [|l r IH]; intros k i e; [reflexivity|].
  cbn [drop_selected filter]. destruct (sel l) eqn:SL; cbn [negb].
  - destruct ((i <=? k) && (k <? e)); [apply IH|]. cbn [filter]. rewrite SL. cbn [negb]. apply IH.
  - cbn [filter]. rewrite SL. cbn [negb]. f_equal. apply IH.
Qed.

Section MBR.
Variable ismark : text -> bool.
Variable test : nat -> list text -> bst -> bool.
Definition marks (t:text) : list text := filter ismark (lines t).
Definition others (t:text) : list text := filter (fun l => negb (ismark l)) (lines t).
Fixpoint mbrun (fuel k:nat) (t:text) (s:bst) (log:list entry) : option (text * list entry) :=
  match fuel with
  | 0 => None
  | S f =>
    if test k (marks t) s then
      let t' := markers_transform ismark t (index s) (end_ s) in
      let log' := log ++ [(index s, end_ s, instances s, true)] in
      match advance_on_success s (length (marks t')) with
      | None => Some (t', log')
      | Some s' => mbrun f (S k) t' s' log'
      end
    else
      let log' := log ++ [(index s, end_ s, instances s, false)] in
      match advance s with
      | None => Some (t, log')
      | Some s' => mbrun f (S k) t s' log'
      end
  end.

(* same log, the markers left are those of the instance-level loop, and no other line is touched *)
Definition mb_agree (t0:text) (b:option (text * list entry)) (r:@res text) : Prop :=
  match b, r with
  | Some (t', lg), Done l lg' => marks t' = l /\ lg = lg' /\ others t' = others t0
  | None, Fuel => True
  | _, _ => False
  end.

Theorem mbrun_is_run n : forall fuel k t s log,
  WFb (marks t) s n -> mb_agree t (mbrun fuel k t s log) (run test fuel k (marks t) s log).
Proof.
  induction fuel as [|fuel IH]; intros k t s log W; [exact I|].
  cbn [mbrun run].
  assert (He : index s <= end_ s).
  { destruct W as (Wi & Wx & Wc & _). unfold end_. lia. }
  assert (M1 : marks (markers_transform ismark t (index s) (end_ s)) = cut (marks t) (index s) (end_ s))
    by (apply markers_candidate_is_cut; exact He).
  assert (O1 : others (markers_transform ismark t (index s) (end_ s)) = others t).
  { unfold others. rewrite markers_candidate_lines. apply filter_not_drop_selected. }
  destruct (test k (marks t) s).
  - rewrite M1.
    destruct (advance_on_success s (length (cut (marks t) (index s) (end_ s)))) as [s'|] eqn:A.
    + destruct (aos_WF (marks t) s n s' W A) as [W' _]. rewrite <- M1 in W'.
      specialize (IH (S k) _ s' (log ++ [(index s, end_ s, instances s, true)]) W'). rewrite M1 in IH.
      unfold mb_agree in *.
      destruct (mbrun fuel (S k) (markers_transform ismark t (index s) (end_ s)) s' _) as [[t' lg]|];
        destruct (run test fuel (S k) (cut (marks t) (index s) (end_ s)) s' _) as [l lg'|]; try exact IH.
      destruct IH as (I1 & I2 & I3). repeat split; [exact I1|exact I2|rewrite I3; exact O1].
    + cbn [mb_agree]. repeat split; [exact M1|exact O1].
  - destruct (advance s) as [s'|] eqn:A.
    + destruct (advance_WF (marks t) s n s' W A) as [W' _]. apply (IH (S k) t s' _ W').
    + cbn [mb_agree]. repeat split.
Qed.
End MBR.

(* from the initial cursor of LineMarkersPass.new (the hypothesis of mbrun_is_run holds there) *)
Definition mbreduce (ismark:text -> bool) (test:nat -> list text -> bst -> bool) (t:text) : option (text * list entry) :=
  match create (length (marks ismark t)) with
  | None => Some (t, [])
  | Some s => mbrun ismark test (fuel_for (length (marks ismark t))) 0 t s []
  end.
Theorem mbreduce_is_reduce ismark test t :
  mb_agree ismark t (mbreduce ismark test t) (reduce test (marks ismark t)).
Proof.
  unfold mbreduce, reduce. destruct (create (length (marks ismark t))) as [s|] eqn:C.
  - unfold create in C. destruct (Nat.eqb (length (marks ismark t)) 0) eqn:Z; [discriminate|].
    apply Nat.eqb_neq in Z. inversion C; subst s; clear C.
    apply (mbrun_is_run ismark test (length (marks ismark t))). unfold WFb; cbn [instances index chunk]. repeat split; lia.
  - cbn [mb_agree]. repeat split.
Qed.
