(* Re-reading a candidate: the lines of a text made of some of the lines of a file (in order) are exactly those lines.
   Ties the byte-level candidates of LinesPass / LineMarkersPass (concat of the kept lines) to the instance-level `cut`
   of the binary-search loop: after an accepted removal the pass re-counts its instances in the new file, and that
   count and those instances are the ones the loop model continues with. *)
From Coq Require Import List Arith Bool NArith Lia.
Import ListNotations.
From CV Require Import Cursor.BinaryState Passes.Edit Passes.EditProofs.

(* a list of texts shaped like the result of readlines(): every element but the last is body ++ [NL] with no NL in
   body; the last may instead be a non-empty text without NL *)
Inductive LS : list text -> Prop :=
| LS_nil : LS []
| LS_last l : l <> [] -> ~ In NL l -> LS [l]
| LS_cons body ls : ~ In NL body -> LS ls -> LS ((body ++ [NL]) :: ls).

Lemma lines_acc_line : forall body cur r, ~ In NL body ->
  lines_acc (body ++ NL :: r) cur = (rev cur ++ body ++ [NL]) :: lines_acc r [].
Proof.
  induction body as [|x b IH]; intros cur r H.
  - cbn [app lines_acc]. rewrite N.eqb_refl. reflexivity.
  - cbn [app lines_acc]. destruct (N.eqb x NL) eqn:E.
    + apply N.eqb_eq in E. exfalso. apply H. left. exact E.
    + rewrite IH by (intro K; apply H; right; exact K). cbn [rev]. rewrite <- !app_assoc. reflexivity.
Qed.

Lemma lines_acc_nonl : forall l cur, ~ In NL l -> rev cur ++ l <> [] -> lines_acc l cur = [rev cur ++ l].
Proof.
  induction l as [|x l IH]; intros cur H NE.
  - rewrite app_nil_r in *. cbn [lines_acc]. destruct cur as [|c cur]; [exfalso; apply NE; reflexivity|reflexivity].
  - cbn [lines_acc]. destruct (N.eqb x NL) eqn:E.
    + apply N.eqb_eq in E. exfalso. apply H. left. exact E.
    + rewrite IH.
      * cbn [rev]. rewrite <- app_assoc. reflexivity.
      * intro K. apply H. right. exact K.
      * cbn [rev]. rewrite <- app_assoc. cbn [app]. destruct (rev cur); discriminate.
Qed.

Theorem lines_roundtrip ls : LS ls -> lines (concat ls) = ls.
Proof.
  induction 1 as [|l NE NN|body ls NN H IH].
  - reflexivity.
  - cbn [concat]. rewrite app_nil_r. unfold lines. rewrite lines_acc_nonl; [reflexivity|exact NN|exact NE].
  - cbn [concat]. rewrite <- app_assoc. cbn [app]. unfold lines. rewrite lines_acc_line by exact NN.
    cbn [rev app]. f_equal. exact IH.
Qed.

Lemma lines_acc_LS : forall t cur, ~ In NL cur -> LS (lines_acc t cur).
Proof.
  induction t as [|x r IH]; intros cur H.
  - cbn [lines_acc]. destruct cur as [|c cur]; [constructor|].
    apply LS_last; [cbn [rev]; destruct (rev cur); discriminate|].
    intro K. apply in_rev in K. exact (H K).
  - cbn [lines_acc]. destruct (N.eqb x NL) eqn:E.
    + apply N.eqb_eq in E. subst x. cbn [rev]. apply LS_cons; [|apply IH; intros []].
      intro K. apply in_rev in K. exact (H K).
    + apply IH. intros [K|K]; [|exact (H K)]. apply N.eqb_neq in E. congruence.
Qed.
Theorem lines_LS t : LS (lines t).
Proof. apply lines_acc_LS. intros []. Qed.

Lemma Subseq_nil_inv {A} (a:list A) : Subseq a [] -> a = [].
Proof. intros H. inversion H. reflexivity. Qed.

Lemma LS_subseq : forall a b, Subseq a b -> LS b -> LS a.
Proof.
  induction 1 as [|x l1 l2 S IH|x l1 l2 S IH]; intros L.
  - constructor.
  - inversion L as [|l NE NN EQ|body ls NN L2 EQ]; subst.
    + apply Subseq_nil_inv in S. subst. exact L.
    + apply LS_cons; [exact NN|apply IH; exact L2].
  - apply IH. inversion L; subst; [constructor|assumption].
Qed.

(* any selection of the lines of a file, written out and read again, gives back that selection *)
Theorem lines_of_selection t ls : Subseq ls (lines t) -> lines (concat ls) = ls.
Proof. intros S. apply lines_roundtrip. exact (LS_subseq _ _ S (lines_LS t)). Qed.

Lemma cut_subseq {A} : forall (l:list A) i e, i <= e -> Subseq (cut l i e) l.
Proof.
  unfold cut. induction l as [|x l IH]; intros i e H.
  - rewrite firstn_nil, skipn_nil. constructor.
  - destruct i as [|i].
    + cbn [firstn app]. apply Subseq_skipn.
    + destruct e as [|e]; [lia|]. cbn [firstn skipn app]. constructor. apply IH. lia.
Qed.

Theorem lines_candidate_is_cut t i e : i <= e ->
  lines (lines_transform t i e) = cut (lines t) i e /\ lines_transform t i e = concat (cut (lines t) i e).
Proof.
  intros H. split; [|reflexivity]. unfold lines_transform. apply (lines_of_selection t). apply (cut_subseq (lines t) i e H).
Qed.

Theorem markers_candidate_lines ismark t i e :
  lines (markers_transform ismark t i e) = drop_selected ismark (lines t) 0 i e.
Proof. unfold markers_transform. apply (lines_of_selection t). apply drop_selected_subseq. Qed.

(* the markers left after dropping the selected lines [i, e) are the marker list cut at [i, e) *)
Lemma filter_drop_selected sel : forall ls k i e, i <= e ->
  filter sel (drop_selected sel ls k i e) = firstn (i - k) (filter sel ls) ++ skipn (e - k) (filter sel ls).
Proof.
  induction ls as [|l r IH]; intros k i e H.
  - cbn [drop_selected filter]. rewrite firstn_nil, skipn_nil. reflexivity.
  - cbn [drop_selected filter]. destruct (sel l) eqn:SL.
    + destruct (i <=? k) eqn:A; destruct (k <? e) eqn:Bk; cbn [andb];
        [apply Nat.leb_le in A|apply Nat.leb_le in A|apply Nat.leb_gt in A|apply Nat.leb_gt in A];
        [apply Nat.ltb_lt in Bk|apply Nat.ltb_ge in Bk|apply Nat.ltb_lt in Bk|apply Nat.ltb_ge in Bk].
      * rewrite IH by exact H. replace (i - k) with 0 by lia. replace (i - S k) with 0 by lia.
        replace (e - k) with (S (e - S k)) by lia. reflexivity.
      * cbn [filter]. rewrite SL, IH by exact H. replace (i - k) with 0 by lia. replace (i - S k) with 0 by lia.
        replace (e - k) with 0 by lia. replace (e - S k) with 0 by lia. reflexivity.
      * cbn [filter]. rewrite SL, IH by exact H. replace (i - k) with (S (i - S k)) by lia.
        replace (e - k) with (S (e - S k)) by lia. reflexivity.
      * lia.
    + cbn [filter]. rewrite SL. apply IH. exact H.
Qed.

Theorem markers_candidate_is_cut ismark t i e : i <= e ->
  filter ismark (lines (markers_transform ismark t i e)) = cut (filter ismark (lines t)) i e.
Proof.
  intros H. rewrite markers_candidate_lines, filter_drop_selected by exact H. rewrite !Nat.sub_0_r. reflexivity.
Qed.
