(* Model of how clang_delta is driven (cvise/passes/clangbinarysearch.py, clang.py):
   argv of a cursor, result mapping of the return code, count kept after an accepted removal,
   choice of the C++ standard.  The tool itself is an oracle. *)
From Coq Require Import List Arith Bool ZArith Lia.
Import ListNotations.
From CV Require Import Cursor.BinaryState Driver.Outcome.

(* --counter / --to-counter are 1-based and inclusive *)
Definition argv_counter (s:bst) : nat := index s + 1.
Definition argv_to_counter (s:bst) : nat := end_ s.

(* clangbinarysearch.transform: stdout replaces the file only when the tool exited 0;
   255 -> STOP, anything else -> ERROR *)
Definition cbs_result {A} (rc:Z) (stdout cur:A) : pres * A :=
  if Z.eqb rc 0 then (OK, stdout) else if Z.eqb rc 255 then (STOP, cur) else (ERROR, cur).
(* clang.transform: 255 and 1 -> STOP *)
Definition clang_result {A} (rc:Z) (stdout cur:A) : pres * A :=
  if Z.eqb rc 0 then (OK, stdout) else if Z.eqb rc 255 || Z.eqb rc 1 then (STOP, cur) else (ERROR, cur).

(* advance_on_success: instances = count reported by the tool (before the removal) - real_chunk *)
Definition cbs_advance_on_success (s:bst) (reported:nat) : option bst :=
  advance_on_success s (reported - real_chunk s).

(* detect_best_standard: `>=` so that later standards win ties; failed queries count 0 *)
Definition best_step (acc:option nat * Z) (sc:nat * Z) : option nat * Z :=
  let '(b, bc) := acc in let '(s, c) := sc in
  if Z.leb bc c then (Some s, c) else (b, bc).
Definition best_std (counts:list (nat * Z)) : option nat * Z := fold_left best_step counts (None, (-1)%Z).

(* count_instances: the regex `Available transformation instances: ([0-9]+)$` must match at
   the start of stdout, else 0 *)
Definition count_of (parsed:option Z) : Z := match parsed with Some n => n | None => 0%Z end.

(* ClangBinarySearchPass.new for a given standard: the cursor is created from what the count query yielded; the real
   create() refuses only a zero count (`if not instances`), so the model keeps a non-zero count as it is (a negative
   one included: a cursor with no valid range) *)
Inductive query := QTimeout | QError | QNoCount | QCount (n:Z).
Definition query_count (q:query) : Z := match q with QCount n => n | _ => 0%Z end.
Definition cbs_new (q:query) : option (Z * Z * Z) :=
  let c := query_count q in if (c =? 0)%Z then None else Some (0%Z, c, c).
