From Coq Require Import List Arith Bool ZArith Lia.
Import ListNotations.
From CV Require Import Cursor.BinaryState Cursor.BinaryProofs Driver.Outcome Passes.ClangBin.

Local Arguments Nat.min : simpl never.

Lemma argv_in_range {X} (l:list X) s n : WFb l s n ->
  1 <= argv_counter s /\ argv_counter s <= argv_to_counter s /\ argv_to_counter s <= instances s.
Proof.
  intros (Wi & Wx & Wc & _). unfold argv_counter, argv_to_counter, end_. lia.
Qed.

(* the 1-based inclusive ranges of one all-reject run: consecutive, first = 1, last = n *)
Lemma chain_ranges n : forall log cur, chain n cur log ->
  forall e, In e log -> start_of e + 1 <= stop_of e /\ stop_of e <= n.
Proof.
  induction log as [|a t IH]; intros cur H e Hin; simpl in *; [contradiction|].
  destruct H as (A & B & C & D). destruct Hin as [<-|Hin]; [lia|eapply IH; eauto].
Qed.

Lemma cbs_nonzero {A} rc (stdout cur:A) : rc <> 0%Z ->
  snd (cbs_result rc stdout cur) = cur /\
  (fst (cbs_result rc stdout cur) = STOP \/ fst (cbs_result rc stdout cur) = ERROR) /\
  (fst (cbs_result rc stdout cur) = STOP <-> rc = 255%Z).
Proof.
  intros H. unfold cbs_result. destruct (Z.eqb rc 0) eqn:E0; [apply Z.eqb_eq in E0; contradiction|].
  destruct (Z.eqb rc 255) eqn:E1; simpl.
  - apply Z.eqb_eq in E1. repeat split; auto.
  - apply Z.eqb_neq in E1. repeat split; auto; intros; try discriminate; contradiction.
Qed.
Lemma clang_nonzero {A} rc (stdout cur:A) : rc <> 0%Z ->
  snd (clang_result rc stdout cur) = cur /\
  (fst (clang_result rc stdout cur) = STOP \/ fst (clang_result rc stdout cur) = ERROR).
Proof.
  intros H. unfold clang_result. destruct (Z.eqb rc 0) eqn:E0; [apply Z.eqb_eq in E0; contradiction|].
  destruct (Z.eqb rc 255 || Z.eqb rc 1); simpl; auto.
Qed.

Lemma cbs_continue s reported : reported - real_chunk s <> 0 -> index s < reported - real_chunk s ->
  cbs_advance_on_success s reported = Some (mkb (index s) (chunk s) (reported - real_chunk s)).
Proof. intros. unfold cbs_advance_on_success. apply aos_keeps_index; auto. Qed.

(* best standard: the count is the maximum (never below 0 when any query answered >= 0... the
   floor is -1), and the chosen standard is the LAST one attaining it *)
Lemma best_fold : forall counts b bc,
  let r := fold_left best_step counts (b, bc) in
  (bc <= snd r)%Z /\ (forall s c, In (s, c) counts -> (c <= snd r)%Z) /\
  ((fst r = b /\ snd r = bc /\ forall s c, In (s, c) counts -> (c < bc)%Z) \/
   (exists pre s post, counts = pre ++ (s, snd r) :: post /\ fst r = Some s /\
      forall s' c', In (s', c') post -> (c' < snd r)%Z)).
Proof.
  induction counts as [|[s c] t IH]; intros b bc; simpl.
  - split; [lia|]. split; [intros ? ? []|]. left. repeat split; auto. intros ? ? [].
  - destruct (Z.leb bc c) eqn:E.
    + apply Z.leb_le in E. destruct (IH (Some s) c) as (A & B & C). split; [lia|]. split.
      * intros s0 c0 [H|H]; [inversion H; subst; exact A|eauto].
      * right. destruct C as [(C1 & C2 & C3)|(pre & s1 & post & C1 & C2 & C3)].
        -- exists [], s, t. simpl. rewrite C2. repeat split; auto;
           intros s' c' H; specialize (C3 s' c' H); lia.
        -- exists ((s, c) :: pre), s1, post. simpl. split; [f_equal; exact C1|]. split; auto.
    + apply Z.leb_gt in E. destruct (IH b bc) as (A & B & C). split; [lia|]. split.
      * intros s0 c0 [H|H]; [inversion H; subst; lia|eauto].
      * destruct C as [(C1 & C2 & C3)|(pre & s1 & post & C1 & C2 & C3)].
        -- left. repeat split; auto. intros s0 c0 [H|H]; [inversion H; subst; lia|eauto].
        -- right. exists ((s, c) :: pre), s1, post. simpl. split; [f_equal; exact C1|]. split; auto.
Qed.

Theorem best_std_argmax (counts:list (nat * Z)) :
  (forall s c, In (s, c) counts -> (0 <= c)%Z) -> counts <> [] ->
  exists pre s post, counts = pre ++ (s, snd (best_std counts)) :: post /\ fst (best_std counts) = Some s /\
    (forall s' c', In (s', c') counts -> (c' <= snd (best_std counts))%Z) /\
    (forall s' c', In (s', c') post -> (c' < snd (best_std counts))%Z).
Proof.
  intros NN NE. unfold best_std. destruct (best_fold counts None (-1)%Z) as (A & B & C).
  destruct C as [(C1 & C2 & C3)|(pre & s & post & C1 & C2 & C3)].
  - exfalso. destruct counts as [|[s c] t]; [congruence|].
    specialize (C3 s c (or_introl eq_refl)). specialize (NN s c (or_introl eq_refl)). lia.
  - exists pre, s, post. repeat split; auto.
Qed.
