(* Encoder used by the correspondence check for the byte-level loop of LinesPass (Passes/LinesRoundtrip.v, brun / breduce). *)
From Coq Require Import List ZArith Bool Arith NArith.
Import ListNotations.
From CV Require Import Base.Corr Cursor.BinaryState Cursor.BinaryCorr Passes.Edit Passes.PassCorr Passes.LinesRoundtrip.

(* whole run on an arbitrary text; monotone test = no removed line has one of the required contents *)
Definition bytes_run_case (x:text * list text) : list Z :=
  let '(t, req) := x in
  match breduce (ok_mono (one_of req)) t with
  | Some (t', log) => enc_text t' ++ flat_map enc_entry log
  | None => [(-99)%Z]
  end.
