(* C03 tie: the step hypotheses of Passes/Termination.v as boolean checkers, evaluated on the
   transitions observed on the real pass objects; plus proofs that a step function whose every
   transition passes the checker satisfies the hypothesis. *)
From Coq Require Import List Arith Bool Lia ZArith.
Import ListNotations.
From CV Require Import Base.Corr Passes.Termination.

Definition pos_chk (c:pcur) (b:bool) (c':pcur) : bool :=
  (p_pos c' <? p_len c') &&
  (if b then (p_len c' <? p_len c) && (p_pos c <=? p_pos c')
   else Nat.eqb (p_len c') (p_len c) && (p_pos c <? p_pos c')).
Lemma pos_chk_ok step : (forall c b c', step c b = Some c' -> pos_chk c b c' = true) -> pos_ok step.
Proof.
  intros H c b c' ST. specialize (H c b c' ST). unfold pos_chk in H.
  apply andb_true_iff in H. destruct H as (H1 & H2). apply Nat.ltb_lt in H1.
  destruct b; apply andb_true_iff in H2; destruct H2 as (H2 & H3).
  - apply Nat.ltb_lt in H2. apply Nat.leb_le in H3. repeat split; intros; try discriminate; lia.
  - apply Nat.eqb_eq in H2. apply Nat.ltb_lt in H3. repeat split; intros; try discriminate; lia.
Qed.

Definition list_chk (c:lcur) (b:bool) (c':lcur) : bool :=
  (l_idx c <? l_lim c) && (l_idx c' <? l_lim c') && (l_lim c' <=? l_phi c') &&
  (if b then l_phi c' <? l_phi c
   else Nat.eqb (l_phi c') (l_phi c) && Nat.eqb (l_lim c') (l_lim c) && Nat.eqb (l_idx c') (S (l_idx c))).
Lemma list_chk_ok step : (forall c b c', step c b = Some c' -> list_chk c b c' = true) -> list_ok_self step.
Proof.
  intros H c b c' ST. specialize (H c b c' ST). unfold list_chk in H.
  apply andb_true_iff in H. destruct H as (H & H4). apply andb_true_iff in H. destruct H as (H & H3).
  apply andb_true_iff in H. destruct H as (H1 & H2).
  apply Nat.ltb_lt in H1. apply Nat.ltb_lt in H2. apply Nat.leb_le in H3.
  destruct b.
  - apply Nat.ltb_lt in H4. repeat split; intros; try discriminate; lia.
  - apply andb_true_iff in H4. destruct H4 as (H4 & H6). apply andb_true_iff in H4. destruct H4 as (H4 & H5).
    apply Nat.eqb_eq in H4. apply Nat.eqb_eq in H5. apply Nat.eqb_eq in H6. repeat split; intros; try discriminate; lia.
Qed.

Definition peep_chk (lim:nat) (c:rcur) (b:bool) (c':rcur) : bool :=
  (r_pos c <? r_len c) && (r_rule c <? lim) && (r_pos c' <? r_len c') && (r_rule c' <? lim) &&
  (if b then (r_len c' <? r_len c) && Nat.eqb (r_pos c') (r_pos c) && Nat.eqb (r_rule c') (r_rule c)
   else Nat.eqb (r_len c') (r_len c) &&
        ((Nat.eqb (r_pos c') (r_pos c) && Nat.eqb (r_rule c') (S (r_rule c))) ||
         (Nat.eqb (r_pos c') (S (r_pos c)) && Nat.eqb (r_rule c') 0))).
Lemma peep_chk_ok lim step : (forall c b c', step c b = Some c' -> peep_chk lim c b c' = true) -> peep_ok lim step.
Proof.
  intros H c b c' ST. specialize (H c b c' ST). unfold peep_chk in H.
  apply andb_true_iff in H. destruct H as (H & H5). apply andb_true_iff in H. destruct H as (H & H4).
  apply andb_true_iff in H. destruct H as (H & H3). apply andb_true_iff in H. destruct H as (H1 & H2).
  apply Nat.ltb_lt in H1. apply Nat.ltb_lt in H2. apply Nat.ltb_lt in H3. apply Nat.ltb_lt in H4.
  destruct b.
  - apply andb_true_iff in H5. destruct H5 as (H5 & H7). apply andb_true_iff in H5. destruct H5 as (H5 & H6).
    apply Nat.ltb_lt in H5. apply Nat.eqb_eq in H6. apply Nat.eqb_eq in H7.
    repeat split; intros; try discriminate; lia.
  - apply andb_true_iff in H5. destruct H5 as (H5 & H6). apply Nat.eqb_eq in H5.
    split; [lia|]. split; [lia|]. split; [lia|]. split; [lia|]. split; [|intros; discriminate].
    intros _. split; [lia|].
    apply orb_true_iff in H6. destruct H6 as [H6|H6]; apply andb_true_iff in H6; destruct H6 as (H6 & H7);
      apply Nat.eqb_eq in H6; apply Nat.eqb_eq in H7; [left|right]; lia.
Qed.

Definition counter_chk (c:kcur) (b:bool) (c':kcur) : bool :=
  if b then (k_len c' <? k_len c) && (k_rem c' <=? k_rem c)
  else Nat.eqb (k_len c') (k_len c) && (k_rem c' <? k_rem c).
Lemma counter_chk_ok step : (forall c b c', step c b = Some c' -> counter_chk c b c' = true) -> counter_ok step.
Proof.
  intros H c b c' ST. specialize (H c b c' ST). unfold counter_chk in H.
  destruct b; apply andb_true_iff in H; destruct H as (H1 & H2).
  - apply Nat.ltb_lt in H1. apply Nat.leb_le in H2. split; intros; try discriminate; lia.
  - apply Nat.eqb_eq in H1. apply Nat.ltb_lt in H2. split; intros; try discriminate; lia.
Qed.

(* case functions for the harness: one observed transition each *)
Definition pos_case (t:(nat*nat)*bool*(nat*nat)) : list Z :=
  let '((l,p),b,(l',p')) := t in [zb (pos_chk (mkp l p) b (mkp l' p'))].
Definition list_case (t:(nat*nat*nat)*bool*(nat*nat*nat)) : list Z :=
  let '((f,m,i),b,(f',m',i')) := t in [zb (list_chk (mkl f m i) b (mkl f' m' i'))].
Definition peep_case (t:nat*(nat*nat*nat)*bool*(nat*nat*nat)) : list Z :=
  let '(lim,(l,p,r),b,(l',p',r')) := t in [zb (peep_chk lim (mkrc l p r) b (mkrc l' p' r'))].
Definition counter_case (t:(nat*nat)*bool*(nat*nat)) : list Z :=
  let '((l,r),b,(l',r')) := t in [zb (counter_chk (mkk l r) b (mkk l' r'))].
(* includes: the model step itself *)
Definition includes_case (t:nat*nat*bool) : list Z :=
  let '(n,k,b) := t in
  match includes_step (mkcc n k) b with None => [(-1)%Z] | Some c => [zn (c_count c); zn (c_k c)] end.
(* whole runs: number of candidates of the includes model under a verdict list (false beyond) *)
Definition includes_run (t:nat * list bool) : list Z :=
  let '(n,vs) := t in
  match run ccur includes_step (S (2 * n + 2)) (fun k => nth k vs false) 0 (mkcc n 1) with
  | None => [(-99)%Z] | Some m => [zn m] end.

(* one observed transition of the real IndentPass: (formatter changed the text, cursor, verdict) -> next cursor / end *)
Definition indent_case (t:bool*nat*bool) : list Z :=
  let '(ch, c, b) := t in zopt (fun c' => [zn c']) (indent_step ch c b).
