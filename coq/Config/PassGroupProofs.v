From Coq Require Import List String ZArith Bool.
Import ListNotations.
Open Scope string_scope.
From CV Require Import Config.PassGroup.

Section P.
Variable pass_table : list (string * string).
Variable valid_options : list string.
Notation parse_entry := (parse_entry pass_table valid_options).
Notation parse_entries := (parse_entries pass_table valid_options).
Notation entry_wf := (entry_wf pass_table valid_options).

Lemma first_unknown_none l : first_unknown valid_options l = None <-> forallb (fun x => mem x valid_options) l = true.
Proof.
  induction l as [|o t IH]; simpl; [tauto|].
  destruct (mem o valid_options); simpl; [exact IH|]. split; discriminate.
Qed.

Lemma parse_entry_spec cat o e :
  (entry_wf e = true ->
     parse_entry cat o e = Ok (if keep pass_table o e then to_selected pass_table e else None)) /\
  (entry_wf e = false -> exists x, parse_entry cat o e = Err x).
Proof.
  unfold PassGroup.entry_wf, PassGroup.parse_entry, keep, to_selected, include_pass.
  destruct (e_include e) as [inc|]; destruct (e_exclude e) as [exc|]; simpl;
  repeat match goal with
  | |- context [first_unknown valid_options ?l] =>
      let H := fresh "FU" in
      destruct (first_unknown valid_options l) eqn:H;
      [assert (forallb (fun x => mem x valid_options) l = false)
         by (destruct (forallb (fun x => mem x valid_options) l) eqn:FB; auto;
             apply first_unknown_none in FB; congruence)
      |apply first_unknown_none in H]
  end;
  repeat match goal with H : forallb _ _ = _ |- _ => rewrite H; clear H end; simpl;
  try (split; [discriminate|intros _; eexists; reflexivity]);
  (destruct (e_pass e) as [n|]; simpl; [|split; [discriminate|intros _; eexists; reflexivity]];
   destruct (assoc n pass_table) as [cls|]; simpl; [|split; [discriminate|intros _; eexists; reflexivity]];
   split; [intros _|discriminate];
   repeat match goal with |- context [intersects ?a ?b] => destruct (intersects a b); simpl end;
   destruct (mem (pass_str cls (e_arg e)) (o_removed o)); simpl; try reflexivity;
   destruct (o_not_c o); destruct (e_c e); simpl; try reflexivity;
   destruct (o_renaming o); destruct (e_renaming e); simpl; reflexivity).
Qed.

Lemma parse_entries_spec cat o : forall es,
  (forallb entry_wf es = true -> parse_entries cat o es = Ok (spec_cat pass_table o es)) /\
  (forallb entry_wf es = false -> exists x, parse_entries cat o es = Err x).
Proof.
  induction es as [|e t (IH1 & IH2)]; simpl; [split; [reflexivity|discriminate]|].
  destruct (parse_entry_spec cat o e) as (P1 & P2).
  destruct (entry_wf e) eqn:W; simpl.
  - rewrite (P1 eq_refl). split.
    + intros H. rewrite (IH1 H). unfold spec_cat. simpl.
      destruct (keep pass_table o e); [destruct (to_selected pass_table e)|]; reflexivity.
    + intros H. destruct (IH2 H) as (x & ->). eexists; reflexivity.
  - split; [discriminate|]. intros _. destruct (P2 eq_refl) as (x & ->). eexists; reflexivity.
Qed.

Lemma parse_cats_spec g o : forall cats,
  (forallb (fun c => match assoc c g with Some es => forallb entry_wf es | None => false end) cats = true ->
     parse_cats pass_table valid_options cats g o =
     Ok (map (fun c => (c, spec_cat pass_table o (match assoc c g with Some es => es | None => [] end))) cats)) /\
  (forallb (fun c => match assoc c g with Some es => forallb entry_wf es | None => false end) cats = false ->
     exists x, parse_cats pass_table valid_options cats g o = Err x).
Proof.
  induction cats as [|c t (IH1 & IH2)]; simpl; [split; [reflexivity|discriminate]|].
  destruct (assoc c g) as [es|]; simpl.
  - destruct (parse_entries_spec c o es) as (P1 & P2).
    destruct (forallb entry_wf es) eqn:W; simpl.
    + rewrite (P1 eq_refl). split.
      * intros H. rewrite (IH1 H). reflexivity.
      * intros H. destruct (IH2 H) as (x & ->). eexists; reflexivity.
    + split; [discriminate|]. intros _. destruct (P2 eq_refl) as (x & ->). eexists; reflexivity.
  - split; [discriminate|]. intros _. eexists; reflexivity.
Qed.

(* The parser computes exactly the documented filter on well-formed groups and rejects every
   other group with one of its own errors — for every option set, remove set and flags. *)
Theorem parse_eq_spec g o :
  (wellformed pass_table valid_options g = true -> parse pass_table valid_options g o = Ok (spec_filter pass_table g o)) /\
  (wellformed pass_table valid_options g = false -> exists x, parse pass_table valid_options g o = Err x).
Proof. unfold parse, wellformed, spec_filter. apply parse_cats_spec. Qed.
End P.
